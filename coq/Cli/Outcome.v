(* Decision logic of the command-line tool (warcraft-rs/src/commands/mpq.rs):
   extract_files_with_options and validate_archive after the library has answered. *)
From Coq Require Import List NArith Bool.
Import ListNotations.
Open Scope N_scope.

Section Cli.
  Variables name path : Type.
  Inductive rd := RData (d : list N) | RFail.

  Record outcome := { errors : N; written : list (path * list N) }.

  (* the write loop: a result is written when the read succeeded and the target is accepted *)
  Fixpoint extract_loop (target : name -> option path) (results : list (name * rd)) : outcome :=
    match results with
    | [] => {| errors := 0; written := [] |}
    | (n, r) :: rest =>
      let o := extract_loop target rest in
      match r, target n with
      | RData d, Some p => {| errors := errors o; written := (p, d) :: written o |}
      | _, _ => {| errors := errors o + 1; written := written o |}
      end
    end.

  Definition is_fail (e : name * rd) : bool := match snd e with RFail => true | RData _ => false end.

  (* the whole command: without --skip-errors the library call fails as a whole when any
     requested file cannot be read (single_archive_parallel::extract_with_config), and then
     nothing is written; otherwise the write loop runs *)
  Definition extract_cmd (target : name -> option path) (skip_errors : bool) (results : list (name * rd)) : bool * list (path * list N) :=
    if negb skip_errors && existsb is_fail results then (false, [])
    else let o := extract_loop target results in (skip_errors || (errors o =? 0), written o).

  (* exit status 0? *)
  Definition extract_exit_ok (skip_errors : bool) (o : outcome) : bool := skip_errors || (errors o =? 0).

  (* mpq validate: one error per unreadable file; exit status 0 iff none *)
  Definition validate_errors (results : list (name * rd)) : N :=
    N.of_nat (length (filter (fun e => match snd e with RFail => true | RData _ => false end) results)).
  Definition validate_exit_ok (results : list (name * rd)) : bool := validate_errors results =? 0.
End Cli.

(* blp validate (warcraft-rs/src/commands/blp.rs: validate_blp) once the file is loaded:
   exit status 0 iff no error was collected (warnings do not fail) *)
Definition pow2 (n : N) : bool := negb (n =? 0) && (N.land n (n - 1) =? 0).
Definition blp_validate_ok (strict dxt jpeg_header_empty : bool) (w h : N) : bool :=
  negb ((w =? 0) || (h =? 0))
  && (negb strict || (pow2 w && pow2 h))
  && negb jpeg_header_empty
  && (negb dxt || ((w mod 4 =? 0) && (h mod 4 =? 0))).
