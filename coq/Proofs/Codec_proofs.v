From WR Require Import Lib.Bits Lib.Codec Proofs.Bits_proofs.
From Coq Require Import ZArith Lia ZifyN ZifyNat ZifyBool.
Ltac Zify.zify_post_hook ::= Z.div_mod_to_equations.
Open Scope N_scope.

Lemma pow256_S w : pow256 (S w) = 256 * pow256 w.
Proof. unfold pow256. rewrite Nat2N.inj_succ, N.pow_succ_r'. reflexivity. Qed.

Lemma pow256_pos w : 0 < pow256 w.
Proof. unfold pow256. apply N.neq_0_lt_0, N.pow_nonzero. discriminate. Qed.

Lemma le_bytes_length w : forall v, length (le_bytes w v) = w.
Proof. induction w as [|w IH]; intro v; cbn [le_bytes length]; [reflexivity | now rewrite IH]. Qed.

Lemma le_bytes_wf w : forall v, wf_bytes (le_bytes w v).
Proof.
  induction w as [|w IH]; intro v; cbn [le_bytes]; [constructor|].
  constructor; [apply N.mod_lt; discriminate | apply IH].
Qed.

Lemma le_value_le_bytes w : forall v, v < pow256 w -> le_value (le_bytes w v) = v.
Proof.
  induction w as [|w IH]; intros v H.
  - unfold pow256 in H. cbn in H. cbn. lia.
  - rewrite pow256_S in H. cbn [le_bytes le_value]. rewrite IH by lia. lia.
Qed.

Lemma le_value_app a b : le_value (a ++ b) = le_value a + pow256 (length a) * le_value b.
Proof.
  induction a as [|x a IH]; cbn [app le_value length].
  - unfold pow256. cbn. lia.
  - rewrite IH, pow256_S. lia.
Qed.

Lemma le_value_lt bs : wf_bytes bs -> le_value bs < pow256 (length bs).
Proof.
  induction 1 as [|b r Hb Hr IH]; cbn [le_value length].
  - unfold pow256. cbn. lia.
  - rewrite pow256_S. lia.
Qed.

Lemma le_bytes_le_value bs : wf_bytes bs -> le_bytes (length bs) (le_value bs) = bs.
Proof.
  induction 1 as [|b r Hb Hr IH]; [reflexivity|].
  cbn [length le_value le_bytes].
  replace ((b + 256 * le_value r) mod 256) with b by lia.
  replace ((b + 256 * le_value r) / 256) with (le_value r) by lia.
  rewrite IH. reflexivity.
Qed.

Lemma firstn_app_exact {A} (a b : list A) n : length a = n -> firstn n (a ++ b) = a.
Proof. intros <-. rewrite firstn_app, Nat.sub_diag, firstn_O, app_nil_r, firstn_all. reflexivity. Qed.

Lemma skipn_app_exact {A} (a b : list A) n : length a = n -> skipn n (a ++ b) = b.
Proof. intros <-. rewrite skipn_app, Nat.sub_diag, skipn_all. reflexivity. Qed.

Theorem dec_enc l : forall vs r, wt l vs = true -> dec l (enc l vs ++ r) = Some (vs, r).
Proof.
  induction l as [|w l IH]; intros vs r H; destruct vs as [|v vs]; cbn [wt] in H; try discriminate.
  - reflexivity.
  - apply andb_true_iff in H. destruct H as [Hv Hr]. apply N.ltb_lt in Hv.
    cbn [enc dec]. rewrite <- app_assoc.
    assert (L : length (le_bytes w v) = w) by apply le_bytes_length.
    rewrite skipn_app_exact, firstn_app_exact by assumption.
    replace (Nat.ltb (length (le_bytes w v)) w) with false
      by (symmetry; apply Nat.ltb_ge; lia).
    rewrite IH by assumption. rewrite le_value_le_bytes by assumption. reflexivity.
Qed.

Lemma enc_length l : forall vs, wt l vs = true -> length (enc l vs) = lay_size l.
Proof.
  induction l as [|w l IH]; intros vs H; destruct vs as [|v vs]; cbn [wt] in H; try discriminate.
  - reflexivity.
  - apply andb_true_iff in H. destruct H as [_ Hr].
    cbn [enc lay_size]. rewrite app_length, le_bytes_length, IH by assumption. reflexivity.
Qed.

Lemma enc_wf l : forall vs, wf_bytes (enc l vs).
Proof.
  induction l as [|w l IH]; intros vs; destruct vs as [|v vs]; cbn [enc]; try constructor.
  apply Forall_app. split; [apply le_bytes_wf | apply IH].
Qed.

(* re-encoding what was decoded reproduces the bytes (second write identical) *)
Theorem enc_dec l : forall bs vs r, wf_bytes bs -> dec l bs = Some (vs, r) -> enc l vs ++ r = bs.
Proof.
  induction l as [|w l IH]; intros bs vs r Hwf H; cbn [dec] in H.
  - inversion H; subst. reflexivity.
  - destruct (Nat.ltb (length (firstn w bs)) w) eqn:E; [discriminate|]. apply Nat.ltb_ge in E.
    destruct (dec l (skipn w bs)) as [[vs' r']|] eqn:D; [|discriminate].
    inversion H; subst. cbn [enc].
    rewrite <- app_assoc, (IH _ _ _ (wf_bytes_skipn w bs Hwf) D).
    assert (L : length (firstn w bs) = w) by (rewrite firstn_length in *; lia).
    rewrite <- L at 1. rewrite le_bytes_le_value by (apply wf_bytes_firstn; assumption).
    apply firstn_skipn.
Qed.

(* ---- string tables -------------------------------------------------------------- *)
Lemma cstrs_split_one s : forall cur rest,
  cstr_ok s = true -> (cur <> [] \/ s <> []) ->
  cstrs_split (s ++ 0 :: rest) cur = (rev cur ++ s) :: cstrs_split rest [].
Proof.
  induction s as [|c s IH]; intros cur rest Hok Hne.
  - cbn [app cstrs_split]. rewrite N.eqb_refl. destruct cur as [|x cur'].
    + destruct Hne; contradiction.
    + rewrite app_nil_r. reflexivity.
  - cbn [cstr_ok forallb] in Hok. apply andb_true_iff in Hok. destruct Hok as [Hc Hs].
    apply andb_true_iff in Hc. destruct Hc as [Hc0 _]. apply N.ltb_lt in Hc0.
    cbn [app cstrs_split]. replace (c =? 0) with false by (symmetry; apply N.eqb_neq; lia).
    rewrite IH by (assumption || (left; discriminate)).
    cbn [rev]. rewrite <- app_assoc. reflexivity.
Qed.

Theorem cstrs_roundtrip ss :
  Forall (fun s => cstr_ok s = true /\ s <> []) ss -> cstrs_split (cstrs_enc ss) [] = ss.
Proof.
  induction 1 as [|s ss [Hok Hne] Hr IH]; [reflexivity|].
  cbn [cstrs_enc]. rewrite cstrs_split_one by (assumption || (right; assumption)).
  cbn [rev app]. rewrite IH. reflexivity.
Qed.

(* ---- chunk framing ---------------------------------------------------------------- *)
Definition chunk_ok (c : chunk) : Prop :=
  c_magic c < 4294967296 /\ lenN (c_data c) < 4294967296.

Definition chunk_view (c : chunk) : N * N * list N := (c_magic c, lenN (c_data c), c_data c).

Lemma pow256_4 : pow256 4 = 4294967296.
Proof. reflexivity. Qed.

Lemma read_header_write c rest :
  chunk_ok c ->
  read_header (write_chunk c ++ rest) = Some (c_magic c, lenN (c_data c), c_data c ++ rest).
Proof.
  intros [Hm Hl]. unfold read_header, write_chunk. rewrite <- !app_assoc.
  assert (L4 : forall v, length (le_bytes 4 v) = 4%nat) by (intro; apply le_bytes_length).
  replace (Nat.ltb (length (le_bytes 4 (c_magic c) ++ le_bytes 4 (lenN (c_data c)) ++ c_data c ++ rest)) 8)
    with false by (symmetry; apply Nat.ltb_ge; rewrite !app_length, !L4; lia).
  rewrite firstn_app_exact by apply L4.
  rewrite skipn_app_exact by apply L4.
  rewrite firstn_app_exact by apply L4.
  rewrite !le_value_le_bytes by (rewrite pow256_4; assumption).
  rewrite app_assoc. rewrite skipn_app_exact by (rewrite app_length, !L4; reflexivity). reflexivity.
Qed.

Lemma walk_write cs : forall fuel,
  Forall chunk_ok cs -> (length cs < fuel)%nat ->
  walk fuel (write_chunks cs) = map chunk_view cs.
Proof.
  induction cs as [|c cs IH]; intros fuel Hok Hf.
  - destruct fuel; [lia|]. reflexivity.
  - destruct fuel as [|fuel]; [cbn [length] in Hf; lia|].
    inversion Hok as [|? ? Hc Hcs]; subst.
    unfold write_chunks. cbn [map concat]. fold (write_chunks cs).
    cbn [walk]. rewrite read_header_write by assumption.
    replace (N.min (lenN (c_data c)) (lenN (c_data c ++ write_chunks cs))) with (lenN (c_data c))
      by (unfold lenN; rewrite app_length; lia).
    unfold lenN. rewrite Nat2N.id.
    rewrite firstn_app_exact, skipn_app_exact by reflexivity.
    rewrite IH by (assumption || (cbn [length] in Hf; lia)). reflexivity.
Qed.

Lemma write_chunks_length_ge cs : (8 * length cs <= length (write_chunks cs))%nat.
Proof.
  induction cs as [|c cs IH]; [cbn; lia|].
  unfold write_chunks in *. cbn [map concat length]. rewrite app_length.
  unfold write_chunk at 1. rewrite !app_length, !le_bytes_length. lia.
Qed.

(* framing round trip: walking the written bytes returns exactly the chunks, each
   complete; i.e. chunk framing tiles the file exactly *)
Theorem walk_all_write cs :
  Forall chunk_ok cs -> walk_all (write_chunks cs) = map chunk_view cs.
Proof.
  intro H. unfold walk_all. apply walk_write; [assumption|].
  pose proof (write_chunks_length_ge cs). lia.
Qed.

(* the walk never yields more payload than is there and terminates within its fuel *)
Lemma walk_payload_bound fuel : forall bs,
  Forall (fun '(_, sz, d) => lenN d <= sz /\ (length d <= length bs)%nat) (walk fuel bs).
Proof.
  induction fuel as [|f IH]; intro bs; cbn [walk]; [constructor|].
  unfold read_header. destruct (Nat.ltb (length bs) 8) eqn:E; [constructor|].
  apply Nat.ltb_ge in E. constructor.
  - unfold lenN. rewrite firstn_length, skipn_length. lia.
  - eapply Forall_impl; [|apply IH]. intros [[m sz] d] [H1 H2]. split; [assumption|].
    rewrite !skipn_length in H2. lia.
Qed.
