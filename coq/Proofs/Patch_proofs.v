From WR Require Import Lib.Bits Lib.Codec Lib.Md5 Mpq.Patch.
From Coq Require Import ZArith Lia.
Open Scope N_scope.

Lemma list_eqb_eq a : forall b, list_eqb a b = true -> a = b.
Proof.
  induction a as [|x a IH]; intros [|y b] H; cbn [list_eqb] in H; try discriminate; [reflexivity|].
  apply andb_true_iff in H. destruct H as [H1 H2]. apply N.eqb_eq in H1. subst. f_equal. apply IH, H2.
Qed.

Section DigestFacts.
  Variable digest : list N -> list N.

  (* whatever the patch bytes: a successful application starts from a base with the
     declared digest and ends in data with the declared digest - never unverified bytes *)
  Theorem patch_result_verified p base out :
    apply_patch_with digest p base = POk out ->
    digest base = p_md5_before p /\ digest out = p_md5_after p.
  Proof.
    unfold apply_patch_with.
    destruct (list_eqb (digest base) (p_md5_before p)) eqn:E1; cbn [negb]; [|discriminate].
    destruct (match p_type p with PCopy => apply_copy p base | PBsd0 => apply_bsd0 p base end) as [o| |]; try discriminate.
    destruct (list_eqb (digest o) (p_md5_after p)) eqn:E2; [|discriminate].
    intro H. inversion H; subst. split; apply list_eqb_eq; assumption.
  Qed.

  (* a COPY patch yields exactly its payload, and only for a base of the declared size *)
  Theorem copy_patch_exact p base out :
    p_type p = PCopy -> apply_patch_with digest p base = POk out ->
    out = p_data p /\ lenN base = p_before p /\ lenN out = p_after p.
  Proof.
    intros T. unfold apply_patch_with. rewrite T.
    destruct (list_eqb (digest base) (p_md5_before p)); cbn [negb]; [|discriminate].
    unfold apply_copy.
    destruct (lenN base =? p_before p) eqn:E1; cbn [negb]; [|discriminate].
    destruct (lenN (p_data p) =? p_after p) eqn:E2; cbn [negb]; [|discriminate].
    destruct (list_eqb (digest (p_data p)) (p_md5_after p)); [|discriminate].
    intro H. inversion H; subst. apply N.eqb_eq in E1, E2. repeat split; assumption.
  Qed.
End DigestFacts.

(* the BSD0 control loop never produces more than the declared size and reports exactly
   how much it produced *)
Lemma add_bytes_length a : forall b, length (add_bytes a b) = length a.
Proof.
  induction a as [|x a IH]; intros [|y b]; cbn; try reflexivity. f_equal. apply IH.
Qed.

Lemma bsd_loop_length n : forall ctrl data extra base new_off old_off new_size acc out off,
  lenN acc = new_off -> new_off <= new_size ->
  bsd_loop n ctrl data extra base new_off old_off new_size acc = Some (out, off) ->
  lenN out = off /\ off <= new_size.
Proof.
  induction n as [|k IH]; intros ctrl data extra base new_off old_off new_size acc out off Ha Hb H.
  - cbn [bsd_loop] in H. inversion H; subst. split; [reflexivity | exact Hb].
  - cbn [bsd_loop] in H.
    destruct (new_size <? new_off + u32_at ctrl 0) eqn:E1; [discriminate|].
    destruct (lenN data <? u32_at ctrl 0) eqn:E2; [discriminate|].
    destruct (new_size <? new_off + u32_at ctrl 0 + u32_at ctrl 4) eqn:E3; [discriminate|].
    destruct (lenN extra <? u32_at ctrl 4) eqn:E4; [discriminate|].
    apply N.ltb_ge in E1, E2, E3, E4.
    apply IH in H; [exact H | | exact E3].
    unfold lenN in *. rewrite !app_length, add_bytes_length, !firstn_length. lia.
Qed.

(* BSD0: a successful application produces exactly the declared number of bytes *)
Theorem bsd0_output_size p base out :
  apply_bsd0 p base = POk out -> lenN out = p_after p /\ lenN base = p_before p.
Proof.
  unfold apply_bsd0.
  destruct (lenN base =? p_before p) eqn:E0; cbn [negb]; [|discriminate]. apply N.eqb_eq in E0.
  destruct (rle_decompress (p_data p) (p_data_size p)) as [bs|]; [|discriminate].
  destruct (Nat.ltb (length bs) 32); [discriminate|].
  destruct (u64_at bs 0 =? BSDIFF40); cbn [negb]; [|discriminate].
  destruct (u64_at bs 24 =? p_after p) eqn:E1; cbn [negb]; [|discriminate]. apply N.eqb_eq in E1.
  destruct (M64 <=? 32 + u64_at bs 8); [discriminate|].
  destruct (M64 <=? 32 + u64_at bs 8 + u64_at bs 16); [discriminate|].
  destruct (lenN bs <? 32 + u64_at bs 8 + u64_at bs 16); [discriminate|].
  match goal with |- context [bsd_loop ?n ?c ?d ?e ?b 0 0 ?s []] => destruct (bsd_loop n c d e b 0 0 s []) as [[o off]|] eqn:EL end; [|discriminate].
  destruct (off =? u64_at bs 24) eqn:E2; [|discriminate]. apply N.eqb_eq in E2.
  intro H. inversion H; subst.
  apply bsd_loop_length in EL; [|reflexivity | lia]. destruct EL as [L _]. split; [congruence | exact E0].
Qed.
