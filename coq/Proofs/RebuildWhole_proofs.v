(* Rebuild, end to end in the model: the archive built from what rebuild hands to the builder
   opens, and every listed, non-excluded, readable file of the source reads the same from it. *)
From WR Require Import Lib.Bits Lib.Codec Mpq.Crypt Mpq.Archive Mpq.Rebuild Proofs.Crypt_proofs Proofs.HashTable_proofs
  Proofs.FileLayout_proofs Proofs.Sectors_proofs Proofs.Build_proofs Proofs.Rebuild_proofs.
From Coq Require Import ZArith Lia.
Open Scope N_scope.

Lemma norm_normalize n : map norm (normalize_name n) = map norm n.
Proof.
  unfold normalize_name. rewrite map_map. apply map_ext. intro c. unfold norm, slash.
  destruct (c =? 47) eqn:E; [apply N.eqb_eq in E; subst; reflexivity|]. cbv iota. rewrite E. reflexivity.
Qed.

Section W.
  Variable compress : N -> list N -> option (list N).
  Variable decompress : N -> list N -> N -> option (list N).

  (* reading does not depend on ASCII case or slash direction of the requested name *)
  Lemma read_file_spelling a n1 n2 : map norm n1 = map norm n2 -> read_file decompress a n1 = read_file decompress a n2.
  Proof.
    intro H. unfold read_file, find_block, file_key.
    rewrite (ht_find_spelling (a_hash a) n1 n2 H), (hash_fold_invariant ht_file_key n1 n2 H). reflexivity.
  Qed.

  Theorem rebuild_roundtrip (a : archive) (o : ropts) (bytes : list N) :
    let specs := rebuild_specs decompress a o in
    let c := rebuild_cfg a o specs in
    (c_version c = 1 \/ c_version c = 2) -> c_shift c < 65536 ->
    build compress c specs = BOk bytes -> lenN bytes < M32 ->
    Forall (file_ok compress decompress (sector_size (c_shift c))) (pending c specs) ->
    NoDup (map hkey (pending c specs)) ->
    exists a', open bytes = Some a' /\
               forall n d, In n (listed decompress a) -> excluded a o n = false ->
                           read_file decompress a n = ROk d -> read_file decompress a' n = ROk d.
  Proof.
    intros specs c Hv Hsh Hb Hlen Hok Hnd.
    destruct (build_roundtrip compress decompress c specs bytes Hv Hsh Hb Hlen Hok Hnd) as (a' & Ho & Hr).
    { intro E. unfold c, rebuild_cfg in E. cbn [c_attrs] in E. discriminate. }
    exists a'. split; [exact Ho|].
    intros n d Hin Hex Hrd.
    destruct (rebuild_specs_complete decompress a o n d Hin Hex Hrd) as (f & Hf & <- & <-).
    rewrite (read_file_spelling a' (f_name f) (normalize_name (f_name f))) by (symmetry; apply norm_normalize).
    apply (Hr (normalize_file f)).
    unfold pending. fold specs.
    assert (In (normalize_file f) (map normalize_file specs)) by (apply in_map, Hf).
    destruct (c_listfile c); [apply in_or_app; left|]; assumption.
  Qed.
End W.
