From WR Require Import Lib.Bits Lib.Codec Fmt.Wdt Proofs.Bits_proofs Proofs.Codec_proofs.
From Coq Require Import ZArith Lia ZifyN ZifyNat ZifyBool.
Ltac Zify.zify_post_hook ::= Z.div_mod_to_equations.
Open Scope N_scope.

Lemma dec_exact_enc l vs : wt l vs = true -> dec_exact l (enc l vs) = Some vs.
Proof.
  intro H. unfold dec_exact. rewrite <- (app_nil_r (enc l vs)). rewrite dec_enc by assumption. reflexivity.
Qed.

Lemma lay_size_words n : lay_size (words n) = (4 * n)%nat.
Proof. unfold words. induction n as [|n IH]; cbn [repeat lay_size]; lia. Qed.

Lemma lay_size_modf : lay_size modf_layout = 64%nat.
Proof. reflexivity. Qed.

Lemma enc_modf_nonempty e : wt modf_layout e = true -> exists b r, enc modf_layout e = b :: r.
Proof.
  intro H. pose proof (enc_length _ _ H) as L. rewrite lay_size_modf in L.
  destruct (enc modf_layout e) as [|b r]; [discriminate | eauto].
Qed.

Lemma concat_enc_length es :
  forallb (wt modf_layout) es = true ->
  length (concat (map (enc modf_layout) es)) = (64 * length es)%nat.
Proof.
  induction es as [|e es IH]; intro H; [reflexivity|].
  cbn [forallb] in H. apply andb_true_iff in H. destruct H as [He Hes].
  cbn [map concat length]. rewrite app_length, enc_length, lay_size_modf, IH by assumption. lia.
Qed.

Lemma dec_records_step f l bs :
  bs <> [] ->
  dec_records (S f) l bs =
  match dec l bs with
  | Some (vs, r) => match dec_records f l r with Some rs => Some (vs :: rs) | None => None end
  | None => None
  end.
Proof. intro H. destruct bs; [contradiction | reflexivity]. Qed.

Lemma dec_records_concat es : forall fuel,
  forallb (wt modf_layout) es = true -> (length es < fuel)%nat ->
  dec_records fuel modf_layout (concat (map (enc modf_layout) es)) = Some es.
Proof.
  induction es as [|e es IH]; intros fuel H Hf.
  - destruct fuel; reflexivity.
  - cbn [forallb] in H. apply andb_true_iff in H. destruct H as [He Hes].
    destruct fuel as [|fuel]; [cbn [length] in Hf; lia|].
    cbn [map concat].
    rewrite dec_records_step.
    + rewrite dec_enc by assumption.
      rewrite IH by (assumption || (cbn [length] in Hf; lia)). reflexivity.
    + destruct (enc_modf_nonempty e He) as (b & r & E). rewrite E. discriminate.
Qed.

(* ---- setters, to state the step lemmas ------------------------------------------ *)
Definition set_mver s v := {| r_mver := Some v; r_mphd := r_mphd s; r_main := r_main s; r_maid := r_maid s; r_mwmo := r_mwmo s; r_modf := r_modf s |}.
Definition set_mphd s v := {| r_mver := r_mver s; r_mphd := Some v; r_main := r_main s; r_maid := r_maid s; r_mwmo := r_mwmo s; r_modf := r_modf s |}.
Definition set_main s v := {| r_mver := r_mver s; r_mphd := r_mphd s; r_main := Some v; r_maid := r_maid s; r_mwmo := r_mwmo s; r_modf := r_modf s |}.
Definition set_maid s v := {| r_mver := r_mver s; r_mphd := r_mphd s; r_main := r_main s; r_maid := Some v; r_mwmo := r_mwmo s; r_modf := r_modf s |}.
Definition set_mwmo s v := {| r_mver := r_mver s; r_mphd := r_mphd s; r_main := r_main s; r_maid := r_maid s; r_mwmo := Some v; r_modf := r_modf s |}.
Definition set_modf s v := {| r_mver := r_mver s; r_mphd := r_mphd s; r_main := r_main s; r_maid := r_maid s; r_mwmo := r_mwmo s; r_modf := Some v |}.

Lemma lenN_enc l vs : wt l vs = true -> lenN (enc l vs) = N.of_nat (lay_size l).
Proof. intro H. unfold lenN. rewrite enc_length by assumption. reflexivity. Qed.

Lemma step_mver s :
  read_step s (chunk_view {| c_magic := MVER; c_data := le_bytes 4 WDT_VERSION |}) = Some (set_mver s WDT_VERSION).
Proof. reflexivity. Qed.

Lemma step_mphd s p :
  wt (words 8) p = true -> hd 0 p < 65536 ->
  read_step s (chunk_view {| c_magic := MPHD; c_data := enc (words 8) p |}) = Some (set_mphd s p).
Proof.
  intros Hw Hf. unfold read_step, chunk_view. cbn [c_magic c_data].
  change (classify MPHD) with KMphd. rewrite lenN_enc by assumption.
  change (N.of_nat (lay_size (words 8)) =? 32) with true. cbn [negb].
  rewrite dec_exact_enc by assumption.
  replace (65536 <=? hd 0 p) with false by (symmetry; apply N.leb_gt; assumption). reflexivity.
Qed.

Lemma step_main s m :
  wt (words (2 * TILES)) m = true ->
  read_step s (chunk_view {| c_magic := MAIN; c_data := enc (words (2 * TILES)) m |}) = Some (set_main s m).
Proof.
  intros Hw. unfold read_step, chunk_view. cbn [c_magic c_data].
  change (classify MAIN) with KMain. rewrite lenN_enc by assumption.
  rewrite lay_size_words.
  change (N.of_nat (4 * (2 * TILES)) =? 32768) with true. cbn [negb].
  rewrite dec_exact_enc by assumption. reflexivity.
Qed.

Lemma step_maid s m :
  wt (words (length m)) m = true -> N.of_nat (length m) mod 4096 = 0 ->
  read_step s (chunk_view {| c_magic := MAID; c_data := enc (words (length m)) m |}) = Some (set_maid s m).
Proof.
  intros Hw Hm. unfold read_step, chunk_view. cbn [c_magic c_data].
  change (classify MAID) with KMaid. rewrite lenN_enc by assumption.
  rewrite lay_size_words. rewrite N.eqb_refl.
  replace (N.of_nat (4 * length m) mod MAID_SECTION_BYTES =? 0) with true
    by (symmetry; apply N.eqb_eq; unfold MAID_SECTION_BYTES; lia).
  cbn [negb].
  replace (N.to_nat (N.of_nat (4 * length m) / 4)) with (length m) by lia.
  rewrite dec_exact_enc by assumption. reflexivity.
Qed.

Lemma step_mwmo s ns :
  forallb name_ok ns = true ->
  read_step s (chunk_view {| c_magic := MWMO; c_data := cstrs_enc ns |}) = Some (set_mwmo s ns).
Proof.
  intros Hn. unfold read_step, chunk_view. cbn [c_magic c_data].
  change (classify MWMO) with KMwmo. rewrite N.eqb_refl. cbn [negb].
  rewrite cstrs_roundtrip; [reflexivity|].
  apply Forall_forall. intros x Hx. rewrite forallb_forall in Hn. specialize (Hn x Hx).
  unfold name_ok in Hn. apply andb_true_iff in Hn. destruct Hn as [A B].
  split; [assumption|]. destruct x; [discriminate | discriminate].
Qed.

Lemma step_modf s es :
  forallb (wt modf_layout) es = true ->
  read_step s (chunk_view {| c_magic := MODF; c_data := concat (map (enc modf_layout) es) |}) = Some (set_modf s es).
Proof.
  intros He. unfold read_step, chunk_view. cbn [c_magic c_data].
  change (classify MODF) with KModf. rewrite N.eqb_refl.
  pose proof (concat_enc_length es He) as L.
  replace (lenN (concat (map (enc modf_layout) es)) mod 64 =? 0) with true
    by (symmetry; apply N.eqb_eq; unfold lenN; rewrite L; lia).
  cbn [negb]. rewrite dec_records_concat; [reflexivity | assumption | lia].
Qed.

Lemma read_loop_app a : forall b s,
  read_loop (a ++ b) s = match read_loop a s with Some s' => read_loop b s' | None => None end.
Proof.
  induction a as [|c a IH]; intros b s; [reflexivity|].
  cbn [app read_loop]. destruct (read_step s c); [apply IH | reflexivity].
Qed.

Lemma wdt_chunks_ok version w : wdt_wf version w = true -> Forall chunk_ok (wdt_chunks version w).
Proof.
  unfold wdt_wf. rewrite !andb_true_iff. intros [[[[[[Hv Hp] Hf] Hm] Ha] Hw] Hd].
  assert (M : forall m, m = MVER \/ m = MPHD \/ m = MAIN \/ m = MAID \/ m = MWMO \/ m = MODF -> m < 4294967296).
  { intros m [-> | [-> | [-> | [-> | [-> | ->]]]]]; reflexivity. }
  unfold wdt_chunks.
  apply Forall_app; split; [|apply Forall_app; split; [|apply Forall_app; split]].
  - constructor; [|constructor; [|constructor; [|constructor]]].
    + split; cbn [c_magic c_data]; [apply M; tauto | reflexivity].
    + split; cbn [c_magic c_data]; [apply M; tauto|]. rewrite lenN_enc by assumption. reflexivity.
    + split; cbn [c_magic c_data]; [apply M; tauto|]. rewrite lenN_enc by assumption. reflexivity.
  - destruct (maid w) as [m|]; cbn [opt_chunk opt_all] in *; [|constructor].
    rewrite !andb_true_iff in Ha. destruct Ha as [[A B] C]. apply N.ltb_lt in C.
    constructor; [|constructor]. split; cbn [c_magic c_data]; [apply M; tauto|].
    rewrite lenN_enc, lay_size_words by assumption. lia.
  - destruct (should_write_mwmo version w); [|constructor].
    destruct (mwmo w) as [ns|]; cbn [opt_chunk opt_all] in *; [|constructor].
    rewrite !andb_true_iff in Hw. destruct Hw as [[A B] C]. apply N.ltb_lt in C.
    constructor; [|constructor]. split; cbn [c_magic c_data]; [apply M; tauto | assumption].
  - destruct (modf w) as [es|]; cbn [opt_chunk opt_all] in *; [|constructor].
    rewrite !andb_true_iff in Hd. destruct Hd as [A C]. apply N.ltb_lt in C.
    constructor; [|constructor]. split; cbn [c_magic c_data]; [apply M; tauto|].
    unfold lenN. rewrite concat_enc_length by assumption. lia.
Qed.

Theorem wdt_roundtrip version w :
  wdt_wf version w = true -> wdt_read (wdt_write version w) = Ok w.
Proof.
  intro Hwf. pose proof (wdt_chunks_ok version w Hwf) as Hok.
  unfold wdt_read, wdt_write. rewrite walk_all_write by assumption.
  unfold wdt_wf in Hwf. rewrite !andb_true_iff in Hwf.
  destruct Hwf as [[[[[[Hv Hp] Hf] Hm] Ha] Hw] Hd].
  apply N.eqb_eq in Hv. apply N.ltb_lt in Hf.
  unfold wdt_chunks. rewrite !map_app. cbn [map].
  rewrite Hv.
  cbn [app read_loop]. rewrite step_mver.
  rewrite step_mphd by assumption. rewrite step_main by assumption.
  destruct w as [v p m a wm d]. cbn [mver mphd main maid mwmo modf] in *.
  (* MAID *)
  rewrite read_loop_app.
  destruct a as [am|]; cbn [opt_chunk opt_all map read_loop] in *.
  - rewrite !andb_true_iff in Ha. destruct Ha as [[A B] C]. apply N.eqb_eq in B.
    rewrite step_maid by assumption.
    rewrite read_loop_app.
    destruct (should_write_mwmo version _) eqn:SW.
    + destruct wm as [ns|]; cbn [opt_chunk opt_all map read_loop] in *.
      * rewrite !andb_true_iff in Hw. destruct Hw as [[Hn _] _].
        rewrite step_mwmo by assumption.
        destruct d as [es|]; cbn [opt_chunk opt_all map read_loop] in *.
        -- rewrite !andb_true_iff in Hd. destruct Hd as [He _].
           rewrite step_modf by assumption. subst v. reflexivity.
        -- subst v. reflexivity.
      * destruct d as [es|]; cbn [opt_chunk opt_all map read_loop] in *.
        -- rewrite !andb_true_iff in Hd. destruct Hd as [He _].
           rewrite step_modf by assumption. subst v. reflexivity.
        -- subst v. reflexivity.
    + destruct wm as [ns|]; cbn [opt_all] in Hw.
      * rewrite !andb_true_iff in Hw. destruct Hw as [[_ F] _]. discriminate.
      * cbn [map read_loop].
        destruct d as [es|]; cbn [opt_chunk opt_all map read_loop] in *.
        -- rewrite !andb_true_iff in Hd. destruct Hd as [He _].
           rewrite step_modf by assumption. subst v. reflexivity.
        -- subst v. reflexivity.
  - rewrite read_loop_app.
    destruct (should_write_mwmo version _) eqn:SW.
    + destruct wm as [ns|]; cbn [opt_chunk opt_all map read_loop] in *.
      * rewrite !andb_true_iff in Hw. destruct Hw as [[Hn _] _].
        rewrite step_mwmo by assumption.
        destruct d as [es|]; cbn [opt_chunk opt_all map read_loop] in *.
        -- rewrite !andb_true_iff in Hd. destruct Hd as [He _].
           rewrite step_modf by assumption. subst v. reflexivity.
        -- subst v. reflexivity.
      * destruct d as [es|]; cbn [opt_chunk opt_all map read_loop] in *.
        -- rewrite !andb_true_iff in Hd. destruct Hd as [He _].
           rewrite step_modf by assumption. subst v. reflexivity.
        -- subst v. reflexivity.
    + destruct wm as [ns|]; cbn [opt_all] in Hw.
      * rewrite !andb_true_iff in Hw. destruct Hw as [[_ F] _]. discriminate.
      * cbn [map read_loop].
        destruct d as [es|]; cbn [opt_chunk opt_all map read_loop] in *.
        -- rewrite !andb_true_iff in Hd. destruct Hd as [He _].
           rewrite step_modf by assumption. subst v. reflexivity.
        -- subst v. reflexivity.
Qed.

(* a second write of the parsed content is byte-identical *)
Corollary wdt_second_write_identical version w :
  wdt_wf version w = true ->
  match wdt_read (wdt_write version w) with
  | Ok w' => wdt_write version w' = wdt_write version w
  | Err => False
  end.
Proof. intro H. rewrite wdt_roundtrip by assumption. reflexivity. Qed.
