(* Atomic replacement: a process whose system calls follow the discipline "write
   elsewhere, then rename onto the destination, then write nothing" leaves, at every
   point of its execution, either the old or the complete new content under the
   destination name. *)
From Coq Require Import List NArith Arith Bool Lia.
From WR Require Import Lib.Fs.
Import ListNotations.
Open Scope N_scope.

Lemma upd_same {A} (f : N -> A) k v : upd f k v k = v.
Proof. unfold upd. rewrite N.eqb_refl. reflexivity. Qed.

Lemma upd_other {A} (f : N -> A) k v x : x <> k -> upd f k v x = f x.
Proof. intro H. unfold upd. destruct (N.eqb_spec x k); [contradiction|reflexivity]. Qed.

(* the old inode of dst (if any) is intact, has no other name and no writable descriptor;
   inode numbers in use are below next_ino *)
Record Inv (dst : N) (old : option N) (ob : list N) (s : fs) : Prop := {
  inv_name : names s dst = old;
  inv_bytes : forall i, old = Some i -> inodes s i = ob;
  inv_single : forall i p, old = Some i -> p <> dst -> names s p <> Some i;
  inv_next : forall p j, names s p = Some j -> j < next_ino s }.

Lemma content_inv dst old ob s : Inv dst old ob s -> content s dst = match old with Some _ => Some ob | None => None end.
Proof.
  intros [Hn Hb _ _]. unfold content. rewrite Hn. destruct old as [i|]; [|reflexivity]. rewrite (Hb i eq_refl). reflexivity.
Qed.

Lemma quiet_step dst old ob s o : Inv dst old ob s -> quiet dst s o = true -> Inv dst old ob (fs_step s o).
Proof.
  intros I Q. destruct I as [Hn Hb Hs Hx].
  destruct o as [fd p creat trunc wr ap|fd data|fd off data|fd pos|fd len|fd|a b|p|]; cbn [fs_step quiet] in *.
  - (* open *)
    destruct (names s p) as [j|] eqn:Ej.
    + constructor; cbn [names inodes fds next_ino]; auto.
      intros i Ho. destruct (trunc && wr) eqn:Et; [|auto].
      destruct (N.eqb_spec p dst) as [Hp|Hp].
      * subst p. cbn [negb orb] in Q. apply andb_prop in Q. destruct Q as [_ Q2].
        apply andb_prop in Et. destruct Et as [Et1 _]. rewrite Et1 in Q2. discriminate.
      * rewrite upd_other; [auto|]. intro Hc. subst j. exact (Hs i p Ho Hp Ej).
    + destruct creat; [|constructor; auto].
      destruct (N.eqb_spec p dst) as [Hp|Hp]; [cbn [negb orb andb] in Q; discriminate|].
      constructor; cbn [names inodes fds next_ino].
      * rewrite upd_other; auto.
      * intros i Ho. rewrite upd_other; [auto|]. pose proof (Hx dst i) as L. rewrite Hn in L. specialize (L Ho). lia.
      * intros i q Ho Hq. destruct (N.eqb_spec q p) as [He|He].
        -- subst q. rewrite upd_same. intro Hc. inversion Hc. pose proof (Hx dst i) as L. rewrite Hn in L. specialize (L Ho). lia.
        -- rewrite upd_other by exact He. auto.
      * intros q j. destruct (N.eqb_spec q p) as [He|He].
        -- subst q. rewrite upd_same. intro Hc. inversion Hc. lia.
        -- rewrite upd_other by exact He. intro Hq. specialize (Hx q j Hq). lia.
  - (* write *)
    destruct (fds s fd) as [d|] eqn:Ed; [|constructor; auto].
    destruct (fd_w d) eqn:Ew; [|constructor; auto].
    constructor; cbn [names inodes fds next_ino]; auto.
    intros i Ho. rewrite upd_other; [auto|]. intro Hc. rewrite Hn, Ho in Q. cbn [negb orb] in Q.
    apply negb_true_iff in Q. apply N.eqb_neq in Q. congruence.
  - (* pwrite *)
    destruct (fds s fd) as [d|] eqn:Ed; [|constructor; auto].
    destruct (fd_w d) eqn:Ew; [|constructor; auto].
    constructor; cbn [names inodes fds next_ino]; auto.
    intros i Ho. rewrite upd_other; [auto|]. intro Hc. rewrite Hn, Ho in Q. cbn [negb orb] in Q.
    apply negb_true_iff in Q. apply N.eqb_neq in Q. congruence.
  - (* seek *)
    destruct (fds s fd) as [d|] eqn:Ed; constructor; auto.
  - (* ftruncate *)
    destruct (fds s fd) as [d|] eqn:Ed; [|constructor; auto].
    destruct (fd_w d) eqn:Ew; [|constructor; auto].
    constructor; cbn [names inodes fds next_ino]; auto.
    intros i Ho. rewrite upd_other; [auto|]. intro Hc. rewrite Hn, Ho in Q. cbn [negb orb] in Q.
    apply negb_true_iff in Q. apply N.eqb_neq in Q. congruence.
  - (* close *)
    constructor; auto.
  - (* rename *)
    apply andb_prop in Q. destruct Q as [Qa Qb]. apply negb_true_iff in Qa, Qb. apply N.eqb_neq in Qa, Qb.
    destruct (names s a) as [j|] eqn:Ej; [|constructor; auto].
    destruct (a =? b); [constructor; auto|].
    constructor; cbn [names inodes fds next_ino]; auto.
    + rewrite upd_other by auto. rewrite upd_other by auto. exact Hn.
    + intros i q Ho Hq. destruct (N.eqb_spec q a) as [He|He].
      * subst q. rewrite upd_same. discriminate.
      * rewrite upd_other by exact He. destruct (N.eqb_spec q b) as [He2|He2].
        -- subst q. rewrite upd_same. intro Hc. inversion Hc; subst j. exact (Hs i a Ho Qa Ej).
        -- rewrite upd_other by exact He2. auto.
    + intros q k. destruct (N.eqb_spec q a) as [He|He].
      * subst q. rewrite upd_same. discriminate.
      * rewrite upd_other by exact He. destruct (N.eqb_spec q b) as [He2|He2].
        -- subst q. rewrite upd_same. intro Hc. inversion Hc; subst k. eauto.
        -- rewrite upd_other by exact He2. eauto.
  - (* unlink *)
    apply negb_true_iff in Q. apply N.eqb_neq in Q.
    constructor; cbn [names inodes fds next_ino]; auto.
    + rewrite upd_other by auto. exact Hn.
    + intros i q Ho Hq. destruct (N.eqb_spec q p) as [He|He].
      * subst q. rewrite upd_same. discriminate.
      * rewrite upd_other by exact He. auto.
    + intros q k. destruct (N.eqb_spec q p) as [He|He].
      * subst q. rewrite upd_same. discriminate.
      * rewrite upd_other by exact He. eauto.
  - constructor; auto.
Qed.

Lemma quiet_run dst old ob ops : forall s, Inv dst old ob s -> quiet_all dst s ops = true -> Inv dst old ob (fs_run s ops).
Proof.
  induction ops as [|o r IH]; intros s I Q; cbn [fs_run fold_left]; [exact I|].
  cbn [quiet_all] in Q. apply andb_prop in Q. destruct Q as [Q1 Q2].
  apply IH; [apply quiet_step; assumption|exact Q2].
Qed.

Lemma quiet_all_firstn dst ops : forall s k, quiet_all dst s ops = true -> quiet_all dst s (firstn k ops) = true.
Proof.
  induction ops as [|x r IH]; intros s k H; destruct k; cbn [firstn quiet_all] in *; auto.
  apply andb_prop in H. destruct H as [H1 H2]. rewrite H1, (IH _ k H2). reflexivity.
Qed.

(* ---- after the rename -------------------------------------------------------------------------- *)
Record Settled (dst j : N) (nb : list N) (s : fs) : Prop := {
  st_name : names s dst = Some j;
  st_bytes : inodes s j = nb;
  st_next : j < next_ino s }.

Lemma settled_step dst j nb s o : Settled dst j nb s -> settled dst o = true -> Settled dst j nb (fs_step s o).
Proof.
  intros [Hn Hb Hx] Q.
  destruct o as [fd p creat trunc wr app|fd data|fd off data|fd pos|fd len|fd|a b|p|]; cbn [fs_step settled] in *; try discriminate.
  - apply andb_prop in Q. destruct Q as [Qt Qc]. apply negb_true_iff in Qt. subst trunc. cbn [andb].
    destruct (names s p) as [k|] eqn:Ek; [constructor; auto|].
    destruct creat; [|constructor; auto].
    destruct (N.eqb_spec p dst) as [Hp|Hp]; [subst p; rewrite Hn in Ek; discriminate|].
    constructor; cbn [names inodes next_ino].
    + rewrite upd_other; auto.
    + rewrite upd_other; [auto|lia].
    + lia.
  - destruct (fds s fd); constructor; auto.
  - constructor; auto.
  - apply andb_prop in Q. destruct Q as [Qa Qb]. apply negb_true_iff in Qa, Qb. apply N.eqb_neq in Qa, Qb.
    destruct (names s a); [|constructor; auto]. destruct (a =? b); [constructor; auto|].
    constructor; cbn [names inodes next_ino]; auto. rewrite upd_other by auto. rewrite upd_other by auto. exact Hn.
  - apply negb_true_iff in Q. apply N.eqb_neq in Q.
    constructor; cbn [names inodes next_ino]; auto. rewrite upd_other by auto. exact Hn.
  - constructor; auto.
Qed.

Lemma settled_run dst j nb ops : forall s, Settled dst j nb s -> forallb (settled dst) ops = true -> Settled dst j nb (fs_run s ops).
Proof.
  induction ops as [|o r IH]; intros s I Q; cbn [fs_run fold_left]; [exact I|].
  cbn [forallb] in Q. apply andb_prop in Q. destruct Q as [Q1 Q2].
  apply IH; [apply settled_step; assumption|exact Q2].
Qed.

(* ---- prefixes ----------------------------------------------------------------------------------- *)
Lemma forallb_firstn {A} (f : A -> bool) (l : list A) k : forallb f l = true -> forallb f (firstn k l) = true.
Proof.
  revert k. induction l as [|x r IH]; intros k H; destruct k; cbn [firstn forallb] in *; auto.
  apply andb_prop in H. destruct H as [H1 H2]. rewrite H1, (IH k H2). reflexivity.
Qed.

Lemma run_app s a b : fs_run s (a ++ b) = fs_run (fs_run s a) b.
Proof. unfold fs_run. apply fold_left_app. Qed.

Lemma firstn_app_cases {A} (a b : list A) k :
  (firstn k (a ++ b) = firstn k a /\ (k <= length a)%nat) \/
  (exists m, firstn k (a ++ b) = a ++ firstn m b /\ (k = length a + m)%nat).
Proof.
  destruct (Nat.le_gt_cases k (length a)) as [H|H].
  - left. split; [|exact H]. rewrite firstn_app. replace (k - length a)%nat with 0%nat by lia. cbn [firstn]. apply app_nil_r.
  - right. exists (k - length a)%nat. split; [|lia]. rewrite firstn_app. rewrite (firstn_all2 a) by lia. reflexivity.
Qed.

(* a process that never names the destination leaves it alone at every point *)
Theorem untouched_at_every_prefix dst old ob s0 ops k :
  Inv dst old ob s0 -> quiet_all dst s0 ops = true ->
  content (fs_run s0 (firstn k ops)) dst = content s0 dst.
Proof.
  intros I Q. rewrite (content_inv dst old ob s0 I).
  apply content_inv. apply quiet_run; [exact I|]. apply quiet_all_firstn. exact Q.
Qed.

(* write elsewhere, rename onto dst, write nothing afterwards: at every point of the
   execution dst holds its old content or the complete content of the renamed file *)
Theorem atomic_replacement dst old ob s0 pre t post k :
  Inv dst old ob s0 ->
  quiet_all dst s0 pre = true -> forallb (settled dst) post = true -> t <> dst ->
  let s := fs_run s0 (firstn k (pre ++ ORename t dst :: post)) in
  content s dst = content s0 dst \/ content s dst = content (fs_run s0 pre) t.
Proof.
  intros I Qp Qs Ht s. subst s.
  destruct (firstn_app_cases pre (ORename t dst :: post) k) as [[E _]|[m [E Hm]]]; rewrite E.
  - left. apply (untouched_at_every_prefix dst old ob); assumption.
  - destruct m as [|m'].
    + cbn [firstn]. rewrite app_nil_r. left.
      rewrite <- (firstn_all pre) at 1. apply (untouched_at_every_prefix dst old ob); assumption.
    + cbn [firstn]. rewrite run_app. cbn [fs_run fold_left]. fold (fs_run (fs_step (fs_run s0 pre) (ORename t dst)) (firstn m' post)).
      set (s1 := fs_run s0 pre).
      assert (I1 : Inv dst old ob s1) by (apply quiet_run; assumption).
      cbn [fs_step]. destruct (names s1 t) as [j|] eqn:Ej.
      * right. destruct (N.eqb_spec t dst) as [Hc|_]; [contradiction|].
        assert (S2 : Settled dst j (inodes s1 j)
                      {| names := upd (upd (names s1) dst (Some j)) t None; inodes := inodes s1; fds := fds s1; next_ino := next_ino s1 |}).
        { constructor; cbn [names inodes next_ino].
          - rewrite upd_other by auto. apply upd_same.
          - reflexivity.
          - exact (inv_next dst old ob s1 I1 t j Ej). }
        pose proof (settled_run dst j (inodes s1 j) (firstn m' post) _ S2 (forallb_firstn _ _ _ Qs)) as S3.
        unfold content. rewrite (st_name _ _ _ _ S3), (st_bytes _ _ _ _ S3), Ej. reflexivity.
      * left. rewrite (content_inv dst old ob s0 I).
        (* the rename found no source: nothing happened; the rest writes nothing *)
        assert (Hq : forall ops s, names s dst = names s1 dst -> (forall i, names s1 dst = Some i -> inodes s i = inodes s1 i /\ i < next_ino s) ->
                                   forallb (settled dst) ops = true ->
                                   content (fs_run s ops) dst = content s1 dst).
        { induction ops as [|o r IH]; intros s Hn Hb Q; cbn [fs_run fold_left].
          - unfold content. rewrite Hn. destruct (names s1 dst) as [i|]; [|reflexivity]. destruct (Hb i eq_refl) as [Hb1 _]. rewrite Hb1. reflexivity.
          - cbn [forallb] in Q. apply andb_prop in Q. destruct Q as [Q1 Q2].
            destruct (names s1 dst) as [i|] eqn:Ei.
            + destruct (Hb i eq_refl) as [Hb1 Hb2].
              pose proof (settled_step dst i (inodes s1 i) s o (Build_Settled _ _ _ _ Hn Hb1 Hb2) Q1) as [A B C].
              apply IH; [exact A| |exact Q2]. intros i' Hi'. inversion Hi'; subst i'. split; assumption.
            + (* dst does not exist and is not created by settled operations *)
              assert (Hnone : names (fs_step s o) dst = None).
              { destruct o as [fd p creat trunc wr app|fd data|fd off data|fd pos|fd len|fd|a b|p|]; cbn [fs_step settled] in *; try discriminate; auto.
                - apply andb_prop in Q1. destruct Q1 as [_ Qc].
                  destruct (names s p) as [q|] eqn:Eq; [exact Hn|]. destruct creat; [|exact Hn].
                  cbn [names]. destruct (N.eqb_spec p dst) as [Hp|Hp]; [cbn in Qc; discriminate|]. rewrite upd_other by auto. exact Hn.
                - destruct (fds s fd); exact Hn.
                - apply andb_prop in Q1. destruct Q1 as [Qa Qb]. apply negb_true_iff in Qa, Qb. apply N.eqb_neq in Qa, Qb.
                  destruct (names s a); [|exact Hn]. destruct (a =? b); [exact Hn|]. cbn [names]. rewrite upd_other by auto. rewrite upd_other by auto. exact Hn.
                - apply negb_true_iff in Q1. apply N.eqb_neq in Q1. cbn [names]. rewrite upd_other by auto. exact Hn. }
              apply IH; [exact Hnone| |exact Q2]. intros i' Hi'. discriminate. }
        rewrite <- (content_inv dst old ob s1 I1).
        apply Hq; [reflexivity| |apply forallb_firstn; exact Qs].
        intros i Hi. split; [reflexivity|]. exact (inv_next dst old ob s1 I1 dst i Hi).
Qed.

(* the splitter used on traces is faithful *)
Lemma split_at_rename_spec dst ops : forall pre t post,
  split_at_rename dst ops = Some (pre, t, post) -> ops = pre ++ ORename t dst :: post.
Proof.
  induction ops as [|o r IH]; intros pre t post H; cbn [split_at_rename] in H; [discriminate|].
  destruct o as [fd p creat trunc wr ap|fd data|fd off data|fd pos|fd len|fd|a b|p|];
    try (destruct (split_at_rename dst r) as [[[pre' t'] post']|] eqn:E; [|discriminate]; inversion H; subst; cbn [app]; f_equal; apply IH; reflexivity).
  destruct (N.eqb_spec b dst) as [Hb|Hb].
  - inversion H; subst. reflexivity.
  - destruct (split_at_rename dst r) as [[[pre' t'] post']|] eqn:E; [|discriminate]. inversion H; subst. cbn [app]. f_equal. apply IH. reflexivity.
Qed.

(* the verdict computed on a trace implies the guarantee for every crash point *)
Theorem discipline_sound dst old ob s0 ops k :
  Inv dst old ob s0 ->
  (discipline dst s0 ops = 0 -> content (fs_run s0 (firstn k ops)) dst = content s0 dst) /\
  (discipline dst s0 ops = 1 -> exists pre t post, ops = pre ++ ORename t dst :: post /\
      (content (fs_run s0 (firstn k ops)) dst = content s0 dst \/ content (fs_run s0 (firstn k ops)) dst = content (fs_run s0 pre) t)).
Proof.
  intro I. unfold discipline. destruct (split_at_rename dst ops) as [[[pre t] post]|] eqn:E.
  - split; [destruct (quiet_all dst s0 pre && forallb (settled dst) post && negb (t =? dst)); discriminate|].
    destruct (quiet_all dst s0 pre && forallb (settled dst) post && negb (t =? dst)) eqn:Ec; [|discriminate].
    intros _. apply andb_prop in Ec. destruct Ec as [Ec Et]. apply andb_prop in Ec. destruct Ec as [Ep Es].
    apply negb_true_iff in Et. apply N.eqb_neq in Et.
    exists pre, t, post. pose proof (split_at_rename_spec dst ops pre t post E) as Eo. split; [exact Eo|].
    rewrite Eo. apply (atomic_replacement dst old ob); assumption.
  - destruct (quiet_all dst s0 ops) eqn:Eq; split; try discriminate.
    intros _. apply (untouched_at_every_prefix dst old ob); assumption.
Qed.

(* a fresh process on a file system in which dst has a single name *)
Lemma fresh_inv dst names0 inodes0 next old :
  names0 dst = old ->
  (forall i p, old = Some i -> p <> dst -> names0 p <> Some i) ->
  (forall p j, names0 p = Some j -> j < next) ->
  Inv dst old (match old with Some i => inodes0 i | None => [] end) (fresh names0 inodes0 next).
Proof.
  intros Hn Hs Hx. constructor; cbn [fresh names inodes fds next_ino]; auto.
  intros i Ho. subst old. rewrite Ho. reflexivity.
Qed.

Example discipline_example :
  let s0 := fresh (fun p => if p =? 7 then Some 0 else None) (fun _ => [5;5]) 1 in
  discipline 7 s0 [OOpen 5 7 false false true false; OOpen 3 9 true false true false; OWrite 3 [1;2;3]; OSeek 3 0; OWrite 3 [9]; ORename 9 7; OOpen 4 7 false false true false] = 1
  /\ content (fs_run s0 [OOpen 3 9 true false true false; OWrite 3 [1;2;3]; OSeek 3 0; OWrite 3 [9]; ORename 9 7]) 7 = Some [9;2;3]
  /\ discipline 7 s0 [OOpen 3 7 false false true false; OWrite 3 [1]] = 2
  /\ discipline 7 s0 [OOpen 3 7 false true true false] = 2.
Proof. vm_compute. repeat split. Qed.
