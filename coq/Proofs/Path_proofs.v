From WR Require Import Lib.Bits Mpq.Path.
From Coq Require Import ZArith Lia.
Open Scope N_scope.

Lemma list_eqb_refl s : list_eqb s s = true.
Proof. induction s as [|x s IH]; [reflexivity|]. cbn [list_eqb]. rewrite N.eqb_refl, IH. reflexivity. Qed.

Lemma is_prefix_app out rel : is_prefix out (out ++ rel) = true.
Proof. induction out as [|x o IH]; [reflexivity|]. cbn [app is_prefix]. rewrite list_eqb_refl, IH. reflexivity. Qed.

Lemma within_app out rel : rel <> [] -> within out (out ++ rel) = true.
Proof.
  intro H. unfold within. rewrite is_prefix_app, app_length. cbn [andb].
  apply Nat.ltb_lt. destruct rel; [contradiction|]. cbn [length]. lia.
Qed.

(* pieces produced by splitting at '/' contain no '/' *)
Lemma split_slash_no_slash p : forall cur,
  forallb (fun c => negb (c =? SLASH)) cur = true ->
  Forall (fun s => forallb (fun c => negb (c =? SLASH)) s = true) (split_slash p cur).
Proof.
  induction p as [|c r IH]; intros cur Hc; cbn [split_slash].
  - constructor; [|constructor]. rewrite forallb_forall in *. intros x Hx. apply Hc. apply in_rev. exact Hx.
  - destruct (c =? SLASH) eqn:E.
    + constructor; [|apply IH; reflexivity].
      rewrite forallb_forall in *. intros x Hx. apply Hc. apply in_rev. exact Hx.
    + apply IH. cbn [forallb]. rewrite E, Hc. reflexivity.
Qed.

Lemma piece_comp_plain s :
  forallb (fun c => negb (c =? SLASH)) s = true ->
  Forall (fun c => match c with Normal n => plain_name n = true | _ => True end) (piece_comp s).
Proof.
  intro H. unfold piece_comp.
  destruct (is_empty s) eqn:E1; [constructor|].
  destruct (is_dot s) eqn:E2; [constructor|].
  destruct (is_dotdot s) eqn:E3; [repeat constructor|].
  constructor; [|constructor]. unfold plain_name. rewrite E1, E2, E3, H. reflexivity.
Qed.

Lemma flat_map_forall {A B} (f : A -> list B) (P : B -> Prop) l :
  Forall (fun a => Forall P (f a)) l -> Forall P (flat_map f l).
Proof. induction 1; cbn [flat_map]; [constructor|]. apply Forall_app. split; assumption. Qed.

(* every Normal component of any path is a plain name *)
Lemma components_plain p :
  Forall (fun c => match c with Normal n => plain_name n = true | _ => True end) (components p).
Proof.
  unfold components. destruct p as [|c r]; [constructor|].
  pose proof (split_slash_no_slash (c :: r) [] eq_refl) as S.
  assert (F : Forall (fun a => Forall (fun c => match c with Normal n => plain_name n = true | _ => True end) (piece_comp a)) (split_slash (c :: r) [])).
  { eapply Forall_impl; [|exact S]. intros a Ha. apply piece_comp_plain, Ha. }
  destruct (c =? SLASH).
  - constructor; [exact I|]. apply flat_map_forall, F.
  - destruct (split_slash (c :: r) []) as [|first rest]; [constructor|].
    inversion F as [|? ? Hf Hr]; subst. apply Forall_app. split.
    + destruct (is_dot first); [repeat constructor | exact Hf].
    + apply flat_map_forall, Hr.
Qed.

Lemma only_normal_plain cs rel :
  Forall (fun c => match c with Normal n => plain_name n = true | _ => True end) cs ->
  only_normal cs = Some rel -> Forall (fun n => plain_name n = true) rel.
Proof.
  revert rel. induction cs as [|c cs IH]; intros rel H E; cbn [only_normal] in E.
  - inversion E. constructor.
  - inversion H as [|? ? Hc Hcs]; subst. destruct c as [| | |s]; try discriminate.
    + apply IH; assumption.
    + destruct (only_normal cs) as [l|]; [|discriminate]. inversion E; subst.
      constructor; [exact Hc | apply IH; [assumption | reflexivity]].
Qed.

(* Main theorem: for EVERY entry name, with or without path preservation, the repaired
   target lies strictly beneath the output directory and consists of plain component
   names only (nothing the OS would resolve upwards). *)
Theorem extraction_contained out preserve name loc :
  target_location out preserve name = Some loc ->
  within out loc = true /\
  exists rel, loc = out ++ rel /\ rel <> [] /\ Forall (fun n => plain_name n = true) rel.
Proof.
  unfold target_location, extraction_target. destruct preserve.
  - destruct (only_normal (components (to_system name))) as [rel|] eqn:E; [|discriminate].
    destruct rel as [|r0 rel]; [discriminate|]. intro H. inversion H; subst.
    split; [apply within_app; discriminate|].
    exists (r0 :: rel). repeat split; [discriminate|].
    eapply only_normal_plain; [apply components_plain | exact E].
  - destruct (file_name (to_system name)) as [f|] eqn:E; [|discriminate].
    intro H. inversion H; subst. split; [apply within_app; discriminate|].
    exists [f]. repeat split; [discriminate|]. constructor; [|constructor].
    unfold file_name in E. pose proof (components_plain (to_system name)) as P.
    destruct (rev (components (to_system name))) as [|c cs] eqn:R; [discriminate|].
    destruct c as [| | |s]; try discriminate. inversion E; subst.
    assert (I : In (Normal f) (components (to_system name))) by (apply in_rev; rewrite R; left; reflexivity).
    rewrite Forall_forall in P. exact (P _ I).
Qed.

(* the code as found escaped: "..\..\escaped.txt" from out = /a/b/out lands in /a *)
Definition n_out : list (list N) := [[97]; [98]; [111; 117; 116]].
Definition n_escape : list N := [46;46;92;46;46;92;101;115;99;97;112;101;100;46;116;120;116].
Definition n_abs : list N := [92;116;109;112;92;120].

Lemma old_preserve_escape_refuted :
  within n_out (old_target_location n_out true n_escape) = false /\
  old_target_location n_out true n_escape = [[97]; [101;115;99;97;112;101;100;46;116;120;116]] /\
  within n_out (old_target_location n_out true n_abs) = false /\
  target_location n_out true n_escape = None /\ target_location n_out true n_abs = None.
Proof. vm_compute. repeat split. Qed.

(* non-vacuity: an ordinary name is extracted where one expects it *)
Example ordinary_name :
  target_location n_out true [100;105;114;92;102;46;116;120;116] = Some (n_out ++ [[100;105;114]; [102;46;116;120;116]]) /\
  target_location n_out false [100;105;114;92;102;46;116;120;116] = Some (n_out ++ [[102;46;116;120;116]]).
Proof. vm_compute. split; reflexivity. Qed.
