(* Hash table with tombstones (MutableArchive): add / remove / lookup keep an invariant
   under which the table behaves as a finite map from hash pairs to block indices; and
   the frame / failure laws of the specification map. *)
From WR Require Import Lib.Bits Mpq.Archive Mpq.Modify Proofs.HashTable_proofs Proofs.Crypt_proofs.
From Coq Require Import ZArith Lia ZifyN ZifyNat ZifyBool.
Ltac Zify.zify_post_hook ::= Z.div_mod_to_equations.
Open Scope N_scope.

Definition live (e : hentry) : Prop := h_block e < he_deleted.
Definition used (e : hentry) : Prop := h_block e <> he_never_used.

Definition placedD (t : list hentry) (size : N) (it : item) : Prop :=
  exists j, j < size /\
    (let e := ent t (probe size (i_home it) j) in
     h_a e = i_a it /\ h_b e = i_b it /\ h_block e = i_blk it) /\
    forall i, i < j -> let e := ent t (probe size (i_home it) i) in used e /\ ~ (live e /\ same_key e (i_a it) (i_b it)).

Record InvD (t : list hentry) (k : N) (L : list item) : Prop := {
  d_len : lenN t = 2 ^ k;
  d_placed : forall it, In it L -> placedD t (2 ^ k) it;
  d_back : forall p, p < 2 ^ k -> live (ent t p) -> key_in L (h_a (ent t p)) (h_b (ent t p));
  d_valid : forall it, In it L -> i_blk it < he_deleted;
  d_uniq : forall p q, p < 2 ^ k -> q < 2 ^ k -> live (ent t p) -> live (ent t q) ->
                       h_a (ent t p) = h_a (ent t q) -> h_b (ent t p) = h_b (ent t q) -> p = q
}.

Lemma consts : he_never_used = 4294967295 /\ he_deleted = 4294967294.
Proof. split; reflexivity. Qed.

Lemma live_used e : live e -> used e.
Proof. unfold live, used. destruct consts. lia. Qed.

(* ---- lookup ------------------------------------------------------------------------------ *)
Lemma mt_find_loop_placed fuel : forall t k h a b blk j0 j,
  blk < he_deleted ->
  (let e := ent t (probe (2 ^ k) h j) in h_a e = a /\ h_b e = b /\ h_block e = blk) ->
  (forall i, j0 <= i < j -> let e := ent t (probe (2 ^ k) h i) in used e /\ ~ (live e /\ same_key e a b)) ->
  j0 <= j -> (N.to_nat (j - j0) < fuel)%nat ->
  mt_find_loop fuel t (2 ^ k) (probe (2 ^ k) h j0) a b = Some (probe (2 ^ k) h j, blk).
Proof.
  induction fuel as [|f IH]; intros t k h a b blk j0 j Hv He Hpre Hle Hf; [lia|].
  cbn [mt_find_loop]. fold (ent t (probe (2 ^ k) h j0)).
  destruct (N.eq_dec j0 j) as [-> | Nj].
  - cbn zeta in He. destruct He as (A & B & Cc). rewrite A, B, Cc, !N.eqb_refl.
    replace (blk <? he_deleted) with true by (symmetry; apply N.ltb_lt; exact Hv). reflexivity.
  - assert (Hlt : j0 <= j0 < j) by lia. destruct (Hpre j0 Hlt) as [Hu Hk].
    set (e := ent t (probe (2 ^ k) h j0)) in *.
    replace ((h_block e <? he_deleted) && (h_a e =? a) && (h_b e =? b)) with false.
    + replace (h_block e =? he_never_used) with false by (symmetry; apply N.eqb_neq; exact Hu).
      rewrite probe_step. apply IH; try assumption; [intros i Hi; apply Hpre; lia | lia | lia].
    + symmetry. destruct (N.ltb_spec (h_block e) he_deleted) as [Lv | Nl]; [|reflexivity].
      cbn [andb]. destruct (N.eqb_spec (h_a e) a) as [Ea | Na]; [|reflexivity].
      cbn [andb]. apply N.eqb_neq. intro Eb. apply Hk. split; [exact Lv | split; assumption].
Qed.

Lemma mt_find_loop_sound fuel : forall t k L idx a b p blk,
  InvD t k L -> idx < 2 ^ k ->
  mt_find_loop fuel t (2 ^ k) idx a b = Some (p, blk) ->
  p < 2 ^ k /\ live (ent t p) /\ h_a (ent t p) = a /\ h_b (ent t p) = b /\ h_block (ent t p) = blk.
Proof.
  induction fuel as [|f IH]; intros t k L idx a b p blk HI Hidx H; [discriminate|].
  assert (Hs : 2 ^ k <> 0) by (apply N.pow_nonzero; discriminate).
  cbn [mt_find_loop] in H. fold (ent t idx) in H. set (e := ent t idx) in *.
  destruct ((h_block e <? he_deleted) && (h_a e =? a) && (h_b e =? b)) eqn:Em.
  - inversion H; subst. apply andb_true_iff in Em. destruct Em as [Em Eb]. apply andb_true_iff in Em. destruct Em as [Ev Ea].
    apply N.eqb_eq in Ea, Eb. apply N.ltb_lt in Ev. repeat split; assumption.
  - destruct (h_block e =? he_never_used); [discriminate|].
    eapply IH; [exact HI | | exact H]. rewrite land_mask. apply N.mod_lt, Hs.
Qed.

Theorem mt_find_inserted t k L name blk :
  InvD t k L -> In (item_of name blk) L -> exists idx, mt_find t name = Some (idx, blk).
Proof.
  intros HI Hin. destruct (d_placed _ _ _ HI _ Hin) as (j & Hj & (A & B & Cc) & Pre).
  cbn [item_of i_home i_a i_b i_blk] in *.
  unfold mt_find. rewrite (d_len _ _ _ HI).
  assert (Hs : 2 ^ k <> 0) by (apply N.pow_nonzero; discriminate).
  replace (2 ^ k =? 0) with false by (symmetry; apply N.eqb_neq; exact Hs).
  rewrite land_home. eexists.
  apply (mt_find_loop_placed _ t k _ _ _ blk 0 j).
  - apply (d_valid _ _ _ HI _ Hin).
  - cbn zeta. repeat split; assumption.
  - intros i Hi. apply Pre. lia.
  - lia.
  - pose proof (d_len _ _ _ HI) as E. unfold lenN in E. lia.
Qed.

Theorem mt_find_absent t k L name :
  InvD t k L -> ~ key_in L (hash_string name ht_name_a) (hash_string name ht_name_b) -> mt_find t name = None.
Proof.
  intros HI Hn. unfold mt_find. rewrite (d_len _ _ _ HI).
  assert (Hs : 2 ^ k <> 0) by (apply N.pow_nonzero; discriminate).
  replace (2 ^ k =? 0) with false by (symmetry; apply N.eqb_neq; exact Hs).
  match goal with |- ?x = None => destruct x as [[p blk]|] eqn:E end; [|reflexivity].
  exfalso. apply Hn.
  destruct (mt_find_loop_sound _ _ _ _ _ _ _ _ _ HI (N.mod_lt _ _ Hs) (eq_ind _ (fun i => mt_find_loop _ _ _ i _ _ = _) E _ (land_mask k _)))
    as (Hp & Lv & Ea & Eb & _).
  destruct (d_back _ _ _ HI p Hp Lv) as (it & Hin & A & B). exists it. repeat split; congruence.
Qed.

(* ---- insertion into the first never-used or deleted slot ------------------------------------ *)
Lemma mt_add_loop_spec fuel : forall t k L h a b blk j t',
  InvD t k L -> ~ key_in L a b -> blk < he_deleted ->
  (j + N.of_nat fuel = 2 ^ k + 1) ->
  (forall i, i < j -> live (ent t (probe (2 ^ k) h i))) ->
  mt_add_loop fuel t (2 ^ k) (probe (2 ^ k) h j) a b blk = Some t' ->
  InvD t' k ({| i_home := h; i_a := a; i_b := b; i_blk := blk |} :: L).
Proof.
  induction fuel as [|f IH]; intros t k L h a b blk j t' HI Hnk Hv Hf Hpre H; [discriminate|].
  assert (Hs : 2 ^ k <> 0) by (apply N.pow_nonzero; discriminate).
  destruct consts as [Cn Cd].
  cbn [mt_add_loop] in H. fold (ent t (probe (2 ^ k) h j)) in H.
  set (e := ent t (probe (2 ^ k) h j)) in *.
  destruct (he_deleted <=? h_block e) eqn:Ee.
  - apply N.leb_le in Ee. inversion H; subst t'. clear H.
    assert (Hj : j < 2 ^ k).
    { destruct (N.lt_ge_cases j (2 ^ k)) as [L1 | G]; [exact L1|].
      assert (j = 2 ^ k) by lia. subst j. exfalso.
      assert (H0 : 0 < 2 ^ k) by lia. pose proof (Hpre 0 H0) as Lv. unfold live in Lv.
      unfold e in Ee. rewrite probe_wrap in Ee by exact Hs. lia. }
    set (p := probe (2 ^ k) h j) in *.
    assert (Hp : p < 2 ^ k) by (apply probe_lt, Hs).
    assert (Hlen : (N.to_nat p < length t)%nat) by (pose proof (d_len _ _ _ HI) as E; unfold lenN in E; lia).
    set (ne := {| h_a := a; h_b := b; h_locale := 0; h_platform := 0; h_block := blk |}) in *.
    assert (Hother : forall q, q <> p -> ent (set_nth t (N.to_nat p) ne) q = ent t q).
    { intros q Hq. unfold ent. apply nth_set_nth_other. lia. }
    assert (Hsame : ent (set_nth t (N.to_nat p) ne) p = ne) by (unfold ent; apply nth_set_nth_same, Hlen).
    assert (Hnl : ~ live (ent t p)) by (unfold live; fold e; lia).
    constructor.
    + unfold lenN. rewrite set_nth_length. apply (d_len _ _ _ HI).
    + intros it [<- | Hin].
      * exists j. cbn [i_home i_a i_b i_blk]. split; [exact Hj|]. split.
        -- fold p. rewrite Hsame. cbn. repeat split.
        -- intros i Hi. cbn zeta. pose proof (Hpre i Hi) as Lv.
           assert (Np : probe (2 ^ k) h i <> p) by (intro E; apply Hnl; rewrite <- E; exact Lv).
           rewrite Hother by exact Np. split; [apply live_used, Lv|].
           intros [_ [Ea Eb]]. apply Hnk.
           destruct (d_back _ _ _ HI _ (probe_lt _ _ _ Hs) Lv) as (it & Hin & A & B).
           exists it. repeat split; [exact Hin | congruence | congruence].
      * destruct (d_placed _ _ _ HI it Hin) as (j' & Hj' & (A & B & Cc) & Pre).
        exists j'. split; [exact Hj'|].
        assert (Np : probe (2 ^ k) (i_home it) j' <> p).
        { intro E. apply Hnl. unfold live. rewrite <- E, Cc. apply (d_valid _ _ _ HI it Hin). }
        split.
        -- cbn zeta. rewrite Hother by exact Np. repeat split; assumption.
        -- intros i Hi. cbn zeta. destruct (Pre i Hi) as [Hu Hk].
           destruct (N.eq_dec (probe (2 ^ k) (i_home it) i) p) as [E | Nq].
           ++ rewrite E, Hsame. split; [unfold used, ne; cbn; lia|].
              intros [_ [Ea Eb]]. cbn in Ea, Eb. apply Hnk. exists it. repeat split; [exact Hin | congruence | congruence].
           ++ rewrite Hother by exact Nq. split; assumption.
    + intros q Hq Lv. destruct (N.eq_dec q p) as [-> | Nq].
      * rewrite Hsame. cbn. exists {| i_home := h; i_a := a; i_b := b; i_blk := blk |}. cbn. repeat split. left. reflexivity.
      * rewrite Hother in * by exact Nq. destruct (d_back _ _ _ HI q Hq Lv) as (it & Hin & Ea & Eb).
        exists it. repeat split; [right; exact Hin | exact Ea | exact Eb].
    + intros it [<- | Hin]; [exact Hv | apply (d_valid _ _ _ HI it Hin)].
    + intros q1 q2 H1 H2 L1 L2 Ea Eb.
      destruct (N.eq_dec q1 p) as [-> | N1]; destruct (N.eq_dec q2 p) as [-> | N2]; [reflexivity | | |].
      * exfalso. rewrite Hsame in Ea, Eb. rewrite Hother in * by exact N2. cbn in Ea, Eb. apply Hnk.
        destruct (d_back _ _ _ HI q2 H2 L2) as (it & Hin & A & B). exists it. repeat split; [exact Hin | congruence | congruence].
      * exfalso. rewrite Hsame in Ea, Eb. rewrite Hother in * by exact N1. cbn in Ea, Eb. apply Hnk.
        destruct (d_back _ _ _ HI q1 H1 L1) as (it & Hin & A & B). exists it. repeat split; [exact Hin | congruence | congruence].
      * rewrite !Hother in * by assumption. apply (d_uniq _ _ _ HI q1 q2); assumption.
  - apply N.leb_gt in Ee.
    assert (Hj : j < 2 ^ k) by (destruct f as [|f']; [cbn in H; discriminate | lia]).
    rewrite probe_step in H.
    apply (IH t k L h a b blk (j + 1) t' HI Hnk Hv); [lia | | exact H].
    intros i Hi. destruct (N.eq_dec i j) as [-> | Ni]; [exact Ee | apply Hpre; lia].
Qed.

Theorem mt_add_inv t k L name blk t' :
  InvD t k L -> ~ key_in L (hash_string name ht_name_a) (hash_string name ht_name_b) -> blk < he_deleted ->
  mt_add t name blk = Some t' -> InvD t' k (item_of name blk :: L).
Proof.
  intros HI Hn Hv H. unfold mt_add in H. rewrite (d_len _ _ _ HI) in H. rewrite land_home in H.
  eapply (mt_add_loop_spec _ t k L (hash_string name ht_table_offset) _ _ blk 0); try eassumption.
  - pose proof (d_len _ _ _ HI) as E. unfold lenN in E. lia.
  - intros i Hi. lia.
Qed.

(* ---- removal ---------------------------------------------------------------------------------- *)
Definition without (L : list item) (a b : N) : list item :=
  filter (fun it => negb ((i_a it =? a) && (i_b it =? b))) L.

Theorem mt_remove_inv t k L name t' :
  InvD t k L -> mt_remove t name = Some t' ->
  InvD t' k (without L (hash_string name ht_name_a) (hash_string name ht_name_b)).
Proof.
  intros HI H. unfold mt_remove in H.
  destruct (mt_find t name) as [[idx blk]|] eqn:Ef; [|discriminate].
  inversion H; subst t'. clear H.
  assert (Hs : 2 ^ k <> 0) by (apply N.pow_nonzero; discriminate).
  destruct consts as [Cn Cd].
  unfold mt_find in Ef. rewrite (d_len _ _ _ HI) in Ef.
  replace (2 ^ k =? 0) with false in Ef by (symmetry; apply N.eqb_neq; exact Hs).
  rewrite land_mask in Ef.
  destruct (mt_find_loop_sound _ _ _ _ _ _ _ _ _ HI (N.mod_lt _ _ Hs) Ef) as (Hp & Lv & Ea & Eb & _).
  set (a := hash_string name ht_name_a) in *. set (b := hash_string name ht_name_b) in *.
  fold (ent t idx).
  set (de := {| h_a := h_a (ent t idx); h_b := h_b (ent t idx); h_locale := h_locale (ent t idx); h_platform := h_platform (ent t idx); h_block := he_deleted |}).
  assert (Hlen : (N.to_nat idx < length t)%nat) by (pose proof (d_len _ _ _ HI) as E; unfold lenN in E; lia).
  assert (Hother : forall q, q <> idx -> ent (set_nth t (N.to_nat idx) de) q = ent t q).
  { intros q Hq. unfold ent. apply nth_set_nth_other. lia. }
  assert (Hsame : ent (set_nth t (N.to_nat idx) de) idx = de) by (unfold ent; apply nth_set_nth_same, Hlen).
  assert (Hin_without : forall it, In it (without L a b) -> In it L /\ ~ (i_a it = a /\ i_b it = b)).
  { intros it Hi. unfold without in Hi. apply filter_In in Hi. destruct Hi as [Hi Hb]. split; [exact Hi|].
    intros [E1 E2]. rewrite E1, E2, !N.eqb_refl in Hb. discriminate. }
  constructor.
  - unfold lenN. rewrite set_nth_length. apply (d_len _ _ _ HI).
  - intros it Hi. destruct (Hin_without it Hi) as [Hin Hne].
    destruct (d_placed _ _ _ HI it Hin) as (j' & Hj' & (A & B & Cc) & Pre).
    exists j'. split; [exact Hj'|].
    assert (Np : probe (2 ^ k) (i_home it) j' <> idx).
    { intro E. apply Hne. rewrite E in A, B. split; congruence. }
    split.
    + cbn zeta. rewrite Hother by exact Np. repeat split; assumption.
    + intros i Hi'. cbn zeta. destruct (Pre i Hi') as [Hu Hk].
      destruct (N.eq_dec (probe (2 ^ k) (i_home it) i) idx) as [E | Nq].
      * rewrite E, Hsame. split; [unfold used, de; cbn; lia|].
        intros [Lv' _]. unfold live, de in Lv'. cbn in Lv'. lia.
      * rewrite Hother by exact Nq. split; assumption.
  - intros q Hq Lq. destruct (N.eq_dec q idx) as [-> | Nq].
    + rewrite Hsame in Lq. unfold live, de in Lq. cbn in Lq. lia.
    + rewrite Hother in * by exact Nq.
      destruct (d_back _ _ _ HI q Hq Lq) as (it & Hin & A & B).
      exists it. repeat split; try assumption.
      unfold without. apply filter_In. split; [exact Hin|].
      apply negb_true_iff, andb_false_iff.
      destruct (N.eqb_spec (i_a it) a) as [E1 | N1]; [|left; reflexivity].
      destruct (N.eqb_spec (i_b it) b) as [E2 | N2]; [|right; reflexivity].
      exfalso. apply Nq. apply (d_uniq _ _ _ HI q idx Hq Hp Lq Lv); congruence.
  - intros it Hi. destruct (Hin_without it Hi) as [Hin _]. apply (d_valid _ _ _ HI it Hin).
  - intros q1 q2 H1 H2 L1 L2 E1 E2.
    destruct (N.eq_dec q1 idx) as [-> | N1].
    { rewrite Hsame in L1. unfold live, de in L1. cbn in L1. lia. }
    destruct (N.eq_dec q2 idx) as [-> | N2].
    { rewrite Hsame in L2. unfold live, de in L2. cbn in L2. lia. }
    rewrite !Hother in * by assumption. apply (d_uniq _ _ _ HI q1 q2); assumption.
Qed.

(* after a removal the name is gone, and no other key is affected *)
Lemma key_in_without L a b a' b' : key_in (without L a b) a' b' <-> key_in L a' b' /\ ~ (a' = a /\ b' = b).
Proof.
  unfold key_in, without. split.
  - intros (it & Hi & A & B). apply filter_In in Hi. destruct Hi as [Hi Hb]. split; [exists it; repeat split; assumption|].
    intros [E1 E2]. rewrite A, E1, B, E2, !N.eqb_refl in Hb. discriminate.
  - intros [(it & Hi & A & B) Hne]. exists it. repeat split; try assumption.
    apply filter_In. split; [exact Hi|]. apply negb_true_iff, andb_false_iff.
    destruct (N.eqb_spec (i_a it) a) as [E1 | N1]; [|left; reflexivity].
    destruct (N.eqb_spec (i_b it) b) as [E2 | N2]; [|right; reflexivity].
    exfalso. apply Hne. split; congruence.
Qed.

Corollary mt_remove_then_absent t k L name t' :
  InvD t k L -> mt_remove t name = Some t' -> mt_find t' name = None.
Proof.
  intros HI H. eapply mt_find_absent; [eapply mt_remove_inv; eassumption|].
  rewrite key_in_without. intros [_ Hne]. apply Hne. split; reflexivity.
Qed.

(* the builder's tables (no tombstones) satisfy the tombstone invariant *)
Lemma inv_empty_D k : InvD (repeat hempty (N.to_nat (2 ^ k))) k [].
Proof.
  assert (E : forall p, ent (repeat hempty (N.to_nat (2 ^ k))) p = hempty).
  { intro p. unfold ent. destruct (nth_in_or_default (N.to_nat p) (repeat hempty (N.to_nat (2 ^ k))) hempty) as [Hin | ->]; [|reflexivity].
    apply repeat_spec in Hin. exact Hin. }
  destruct consts as [Cn Cd].
  constructor.
  - unfold lenN. rewrite repeat_length. lia.
  - intros it [].
  - intros p Hp Lv. exfalso. rewrite E in Lv. unfold live in Lv. cbn in Lv. lia.
  - intros it [].
  - intros p q _ _ Lp. exfalso. rewrite E in Lp. unfold live in Lp. cbn in Lp. lia.
Qed.

(* a full table: the code's insertion loop has no exit (the model runs out of fuel) *)
Lemma mt_add_full_no_exit :
  let full := repeat {| h_a := 1; h_b := 1; h_locale := 0; h_platform := 0; h_block := 0 |} 4 in
  mt_add full [97] 1 = None.
Proof. vm_compute. reflexivity. Qed.

(* ---- laws of the specification map ------------------------------------------------------------- *)
Lemma leqb_refl s : list_eqb s s = true.
Proof. induction s as [|x s IH]; [reflexivity|]. cbn [list_eqb]. rewrite N.eqb_refl, IH. reflexivity. Qed.

Lemma leqb_true a : forall b, list_eqb a b = true -> a = b.
Proof.
  induction a as [|x a IH]; intros [|y b] H; cbn [list_eqb] in H; try discriminate; [reflexivity|].
  apply andb_true_iff in H. destruct H as [H1 H2]. apply N.eqb_eq in H1. subst. f_equal. apply IH, H2.
Qed.

Lemma sget_sdel_other m k k' : list_eqb k k' = false -> sget (sdel m k) k' = sget m k'.
Proof.
  intro H. induction m as [|[k0 v] r IH]; [reflexivity|]. cbn [sdel sget].
  destruct (list_eqb k0 k) eqn:E0.
  - rewrite IH. destruct (list_eqb k0 k') eqn:E1; [|reflexivity].
    exfalso. apply leqb_true in E0, E1. subst. rewrite leqb_refl in H. discriminate.
  - cbn [sget]. rewrite IH. reflexivity.
Qed.

Lemma sget_sdel_same m k : sget (sdel m k) k = None.
Proof.
  induction m as [|[k0 v] r IH]; [reflexivity|]. cbn [sdel].
  destruct (list_eqb k0 k) eqn:E0; [exact IH|]. cbn [sget]. rewrite E0. exact IH.
Qed.

Lemma sget_sput_other m k v k' : list_eqb k k' = false -> sget (sput m k v) k' = sget m k'.
Proof. intro H. unfold sput. cbn [sget]. rewrite H. apply sget_sdel_other, H. Qed.

Lemma sget_sput_same m k v : sget (sput m k v) k = Some v.
Proof. unfold sput. cbn [sget]. rewrite leqb_refl. reflexivity. Qed.

(* an operation that reports failure leaves the map unchanged *)
Theorem spec_fail_unchanged m o m' : spec_step m o = (m', false) -> m' = m.
Proof.
  destruct o as [n d rep | n | o n | |]; cbn [spec_step]; intro H.
  - destruct (sget m (fold_name n)); [destruct rep|]; inversion H; reflexivity.
  - destruct (sget m (fold_name n)); inversion H; reflexivity.
  - destruct (sget m (fold_name o)); [destruct (sget m (fold_name n))|]; inversion H; reflexivity.
  - inversion H.
  - inversion H.
Qed.

Definition touches (o : mop) (k : skey) : bool :=
  match o with
  | MAdd n _ _ => list_eqb (fold_name n) k
  | MRemove n => list_eqb (fold_name n) k
  | MRename a b => list_eqb (fold_name a) k || list_eqb (fold_name b) k
  | _ => false
  end.

(* names the operation does not mention keep their content *)
Theorem spec_frame m o k : touches o k = false -> sget (fst (spec_step m o)) k = sget m k.
Proof.
  destruct o as [n d rep | n | a b | |]; cbn [spec_step touches]; intro H; try reflexivity.
  - destruct (sget m (fold_name n)); [destruct rep|]; cbn [fst]; try reflexivity; apply sget_sput_other, H.
  - destruct (sget m (fold_name n)); cbn [fst]; [apply sget_sdel_other, H | reflexivity].
  - apply orb_false_iff in H. destruct H as [H1 H2].
    destruct (sget m (fold_name a)); [destruct (sget m (fold_name b))|]; cbn [fst]; try reflexivity.
    rewrite sget_sput_other by exact H2. apply sget_sdel_other, H1.
Qed.

Theorem spec_run_untouched ops : forall m k,
  forallb (fun o => negb (touches o k)) ops = true -> sget (fst (spec_run m ops)) k = sget m k.
Proof.
  induction ops as [|o r IH]; intros m k H; [reflexivity|].
  cbn [forallb] in H. apply andb_true_iff in H. destruct H as [H1 H2]. apply negb_true_iff in H1.
  cbn [spec_run]. destruct (spec_step m o) as [m' ok] eqn:E. destruct (spec_run m' r) as [m'' oks] eqn:E2.
  cbn [fst]. pose proof (IH m' k H2) as I. rewrite E2 in I. cbn [fst] in I. rewrite I.
  pose proof (spec_frame m o k H1) as F. rewrite E in F. exact F.
Qed.
