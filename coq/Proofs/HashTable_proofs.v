(* Open-addressed MPQ hash table: whatever sequence of insertions succeeded, every
   inserted key is found (with its block index) and no other key is. *)
From WR Require Import Lib.Bits Mpq.Archive Proofs.Crypt_proofs.
From Coq Require Import ZArith Lia ZifyN ZifyNat ZifyBool.
Ltac Zify.zify_post_hook ::= Z.div_mod_to_equations.
Open Scope N_scope.

(* ---- list plumbing ------------------------------------------------------------------ *)
Lemma set_nth_length {A} (l : list A) i x : length (set_nth l i x) = length l.
Proof. revert i. induction l as [|y r IH]; intros [|i]; cbn; auto. Qed.

Lemma nth_set_nth_same {A} (l : list A) i x d : (i < length l)%nat -> nth i (set_nth l i x) d = x.
Proof. revert i. induction l as [|y r IH]; intros [|i] H; cbn in *; try lia; auto. apply IH. lia. Qed.

Lemma nth_set_nth_other {A} (l : list A) i j x d : i <> j -> nth j (set_nth l i x) d = nth j l d.
Proof.
  revert i j. induction l as [|y r IH]; intros [|i] [|j] H; cbn; try reflexivity; try congruence.
  apply IH. congruence.
Qed.

(* ---- probing ---------------------------------------------------------------------------- *)
Definition probe (size h j : N) : N := (h + j) mod size.

Lemma land_mask k x : N.land x (2 ^ k - 1) = x mod 2 ^ k.
Proof. replace (2 ^ k - 1) with (N.ones k) by (rewrite N.ones_equiv; lia). apply N.land_ones. Qed.

Lemma probe_step k h j :
  N.land (probe (2 ^ k) h j + 1) (2 ^ k - 1) = probe (2 ^ k) h (j + 1).
Proof.
  unfold probe. rewrite land_mask.
  assert (2 ^ k <> 0) by (apply N.pow_nonzero; discriminate).
  rewrite N.add_mod_idemp_l by assumption. f_equal. lia.
Qed.

Lemma probe_lt size h j : size <> 0 -> probe size h j < size.
Proof. intro H. unfold probe. apply N.mod_lt, H. Qed.

Lemma probe_wrap size h : size <> 0 -> probe size h size = probe size h 0.
Proof.
  intro H. unfold probe. rewrite N.add_0_r.
  rewrite <- (N.add_mod_idemp_r h size size H), N.mod_same, N.add_0_r by exact H. reflexivity.
Qed.

(* ---- invariant ---------------------------------------------------------------------------- *)
Record item := { i_home : N; i_a : N; i_b : N; i_blk : N }.

Definition ent (t : list hentry) (p : N) : hentry := nth (N.to_nat p) t hempty.
Definition occupied (e : hentry) : Prop := h_block e <> he_never_used.
Definition same_key (e : hentry) (a b : N) : Prop := h_a e = a /\ h_b e = b.

Definition placed (t : list hentry) (size : N) (it : item) : Prop :=
  exists j, j < size /\
    (let e := ent t (probe size (i_home it) j) in
     h_a e = i_a it /\ h_b e = i_b it /\ h_block e = i_blk it /\ h_locale e = 0) /\
    forall i, i < j -> let e := ent t (probe size (i_home it) i) in occupied e /\ ~ same_key e (i_a it) (i_b it).

Definition key_in (L : list item) (a b : N) : Prop := exists it, In it L /\ i_a it = a /\ i_b it = b.

Record Inv (t : list hentry) (k : N) (L : list item) : Prop := {
  inv_len : lenN t = 2 ^ k;
  inv_placed : forall it, In it L -> placed t (2 ^ k) it;
  inv_back : forall p, p < 2 ^ k -> occupied (ent t p) -> key_in L (h_a (ent t p)) (h_b (ent t p));
  inv_valid : forall it, In it L -> i_blk it < he_deleted
}.

Lemma inv_empty k : Inv (repeat hempty (N.to_nat (2 ^ k))) k [].
Proof.
  constructor.
  - unfold lenN. rewrite repeat_length. lia.
  - intros it [].
  - intros p Hp Ho. exfalso. apply Ho. unfold ent.
    destruct (nth_in_or_default (N.to_nat p) (repeat hempty (N.to_nat (2 ^ k))) hempty) as [Hin | ->]; [|reflexivity].
    apply repeat_spec in Hin. rewrite Hin. reflexivity.
  - intros it [].
Qed.

(* ---- insertion ------------------------------------------------------------------------------ *)
Lemma insert_loop_spec fuel : forall t k L h a b blk j t',
  Inv t k L -> ~ key_in L a b -> blk < he_deleted ->
  (j + N.of_nat fuel = 2 ^ k + 1) ->
  (forall i, i < j -> occupied (ent t (probe (2 ^ k) h i)) /\ ~ same_key (ent t (probe (2 ^ k) h i)) a b) ->
  ht_insert_loop fuel t (2 ^ k) (probe (2 ^ k) h j) a b blk = InsOk t' ->
  Inv t' k ({| i_home := h; i_a := a; i_b := b; i_blk := blk |} :: L).
Proof.
  induction fuel as [|f IH]; intros t k L h a b blk j t' HI Hnk Hv Hf Hpre H; [discriminate|].
  assert (Hs : 2 ^ k <> 0) by (apply N.pow_nonzero; discriminate).
  cbn [ht_insert_loop] in H. fold (ent t (probe (2 ^ k) h j)) in H.
  set (e := ent t (probe (2 ^ k) h j)) in *.
  destruct (h_block e =? he_never_used) eqn:Ee.
  - (* empty slot found *)
    apply N.eqb_eq in Ee. inversion H; subst t'. clear H.
    assert (Hj : j < 2 ^ k).
    { destruct (N.lt_ge_cases j (2 ^ k)) as [L1 | G]; [exact L1|].
      assert (j = 2 ^ k) by lia. subst j. exfalso.
      assert (0 < 2 ^ k) by lia. destruct (Hpre 0 H) as [Ho _]. apply Ho.
      unfold e in Ee. rewrite probe_wrap in Ee by exact Hs. exact Ee. }
    set (p := probe (2 ^ k) h j) in *.
    assert (Hp : p < 2 ^ k) by (apply probe_lt, Hs).
    assert (Hlen : (N.to_nat p < length t)%nat) by (pose proof (inv_len _ _ _ HI) as E; unfold lenN in E; lia).
    assert (Hother : forall q, q <> p -> ent (set_nth t (N.to_nat p) {| h_a := a; h_b := b; h_locale := 0; h_platform := 0; h_block := blk |}) q = ent t q).
    { intros q Hq. unfold ent. apply nth_set_nth_other. lia. }
    assert (Hsame : ent (set_nth t (N.to_nat p) {| h_a := a; h_b := b; h_locale := 0; h_platform := 0; h_block := blk |}) p
                    = {| h_a := a; h_b := b; h_locale := 0; h_platform := 0; h_block := blk |}).
    { unfold ent. apply nth_set_nth_same, Hlen. }
    constructor.
    + unfold lenN. rewrite set_nth_length. apply (inv_len _ _ _ HI).
    + intros it [<- | Hin].
      * exists j. cbn [i_home i_a i_b i_blk]. split; [exact Hj|]. split.
        -- fold p. rewrite Hsame. cbn. repeat split.
        -- intros i Hi. cbn zeta. destruct (Hpre i Hi) as [Ho Hk].
           assert (probe (2 ^ k) h i <> p) by (intro E; apply Ho; rewrite E; exact Ee).
           rewrite Hother by assumption. split; assumption.
      * destruct (inv_placed _ _ _ HI it Hin) as (j' & Hj' & (A & B & Cc & D) & Pre).
        exists j'. split; [exact Hj'|].
        assert (Np : probe (2 ^ k) (i_home it) j' <> p).
        { intro E. assert (X : h_block (ent t p) = i_blk it) by (rewrite <- E; exact Cc).
          assert (Ee' : h_block (ent t p) = he_never_used) by exact Ee.
          pose proof (inv_valid _ _ _ HI it Hin).
          assert (he_never_used = 4294967295) by reflexivity. assert (he_deleted = 4294967294) by reflexivity. lia. }
        split.
        -- cbn zeta. rewrite Hother by exact Np. repeat split; assumption.
        -- intros i Hi. cbn zeta. destruct (Pre i Hi) as [Ho Hk].
           assert (probe (2 ^ k) (i_home it) i <> p) by (intro E; apply Ho; rewrite E; exact Ee).
           rewrite Hother by assumption. split; assumption.
    + intros q Hq Ho. destruct (N.eq_dec q p) as [-> | Nq].
      * rewrite Hsame. cbn. exists {| i_home := h; i_a := a; i_b := b; i_blk := blk |}. cbn. repeat split. left. reflexivity.
      * rewrite Hother in * by exact Nq. destruct (inv_back _ _ _ HI q Hq Ho) as (it & Hin & Ea & Eb).
        exists it. repeat split; [right; exact Hin | exact Ea | exact Eb].
    + intros it [<- | Hin]; [exact Hv | apply (inv_valid _ _ _ HI it Hin)].
  - (* occupied *)
    apply N.eqb_neq in Ee.
    destruct ((h_a e =? a) && (h_b e =? b) && (h_locale e =? 0)) eqn:Ed; [discriminate|].
    assert (Hj : j < 2 ^ k).
    { destruct f as [|f']; [cbn in H; discriminate|]. lia. }
    assert (Hnot : ~ same_key e a b).
    { intros [Ea Eb]. apply Hnk.
      destruct (inv_back _ _ _ HI (probe (2 ^ k) h j) (probe_lt _ _ _ Hs) Ee) as (it & Hin & A & B).
      exists it. fold e in A, B. repeat split; [exact Hin | congruence | congruence]. }
    rewrite probe_step in H.
    apply (IH t k L h a b blk (j + 1) t' HI Hnk Hv); [lia | | exact H].
    intros i Hi. destruct (N.eq_dec i j) as [-> | Ni]; [split; assumption | apply Hpre; lia].
Qed.

Lemma land_home k h : N.land h (2 ^ k - 1) = probe (2 ^ k) h 0.
Proof. unfold probe. rewrite N.add_0_r. apply land_mask. Qed.

(* ---- lookup ---------------------------------------------------------------------------------- *)
Lemma find_loop_placed fuel : forall t k h a b blk j0 j,
  lenN t = 2 ^ k -> blk < he_deleted ->
  (let e := ent t (probe (2 ^ k) h j) in h_a e = a /\ h_b e = b /\ h_block e = blk) ->
  (forall i, j0 <= i < j -> let e := ent t (probe (2 ^ k) h i) in occupied e /\ ~ same_key e a b) ->
  j0 <= j -> (N.to_nat (j - j0) < fuel)%nat ->
  ht_find_loop fuel t (2 ^ k) (probe (2 ^ k) h j0) a b = Some (probe (2 ^ k) h j, blk).
Proof.
  induction fuel as [|f IH]; intros t k h a b blk j0 j Hl Hv He Hpre Hle Hf; [lia|].
  cbn [ht_find_loop]. fold (ent t (probe (2 ^ k) h j0)).
  destruct (N.eq_dec j0 j) as [-> | Nj].
  - cbn zeta in He. destruct He as (A & B & Cc). rewrite A, B, Cc, !N.eqb_refl.
    replace (blk <? he_deleted) with true by (symmetry; apply N.ltb_lt; exact Hv). reflexivity.
  - assert (Hlt : j0 <= j0 < j) by lia. destruct (Hpre j0 Hlt) as [Ho Hk].
    set (e := ent t (probe (2 ^ k) h j0)) in *.
    replace ((h_a e =? a) && (h_b e =? b) && (h_block e <? he_deleted)) with false.
    + replace (h_block e =? he_never_used) with false by (symmetry; apply N.eqb_neq; exact Ho).
      rewrite probe_step. apply IH; try assumption; [intros i Hi; apply Hpre; lia | lia | lia].
    + symmetry. apply andb_false_iff. left. apply andb_false_iff.
      destruct (N.eqb_spec (h_a e) a) as [Ea | Na]; [|left; reflexivity].
      right. apply N.eqb_neq. intro Eb. apply Hk. split; assumption.
Qed.

Lemma find_loop_sound fuel : forall t k L idx a b r,
  Inv t k L -> idx < 2 ^ k ->
  ht_find_loop fuel t (2 ^ k) idx a b = Some r -> key_in L a b.
Proof.
  induction fuel as [|f IH]; intros t k L idx a b r HI Hidx H; [discriminate|].
  assert (Hs : 2 ^ k <> 0) by (apply N.pow_nonzero; discriminate).
  cbn [ht_find_loop] in H. fold (ent t idx) in H. set (e := ent t idx) in *.
  destruct ((h_a e =? a) && (h_b e =? b) && (h_block e <? he_deleted)) eqn:Em.
  - apply andb_true_iff in Em. destruct Em as [Em Ev]. apply andb_true_iff in Em. destruct Em as [Ea Eb].
    apply N.eqb_eq in Ea, Eb. apply N.ltb_lt in Ev.
    assert (Ho : occupied e).
    { unfold occupied. assert (he_never_used = 4294967295) by reflexivity. assert (he_deleted = 4294967294) by reflexivity. lia. }
    destruct (inv_back _ _ _ HI idx Hidx Ho) as (it & Hin & A & B). exists it. fold e in A, B. repeat split; congruence.
  - destruct (h_block e =? he_never_used); [discriminate|].
    eapply IH; [exact HI | | exact H]. rewrite land_mask. apply N.mod_lt, Hs.
Qed.

(* ---- statements over names ---------------------------------------------------------------------- *)
Definition item_of (name : list N) (blk : N) : item :=
  {| i_home := hash_string name ht_table_offset; i_a := hash_string name ht_name_a; i_b := hash_string name ht_name_b; i_blk := blk |}.

Theorem ht_insert_inv t k L name blk t' :
  Inv t k L -> ~ key_in L (hash_string name ht_name_a) (hash_string name ht_name_b) -> blk < he_deleted ->
  ht_insert t name blk = InsOk t' -> Inv t' k (item_of name blk :: L).
Proof.
  intros HI Hn Hv H. unfold ht_insert in H. rewrite (inv_len _ _ _ HI) in H. rewrite land_home in H.
  eapply (insert_loop_spec _ t k L (hash_string name ht_table_offset) _ _ blk 0); try eassumption.
  - pose proof (inv_len _ _ _ HI) as E. unfold lenN in E. lia.
  - intros i Hi. lia.
Qed.

Theorem ht_find_inserted t k L name blk :
  Inv t k L -> In (item_of name blk) L ->
  exists idx, ht_find t name = Some (idx, blk).
Proof.
  intros HI Hin. destruct (inv_placed _ _ _ HI _ Hin) as (j & Hj & (A & B & Cc & _) & Pre).
  cbn [item_of i_home i_a i_b i_blk] in *.
  unfold ht_find. rewrite (inv_len _ _ _ HI).
  assert (Hs : 2 ^ k <> 0) by (apply N.pow_nonzero; discriminate).
  replace (2 ^ k =? 0) with false by (symmetry; apply N.eqb_neq; exact Hs).
  rewrite land_home. eexists.
  apply (find_loop_placed _ t k _ _ _ blk 0 j); try assumption.
  - apply (inv_len _ _ _ HI).
  - apply (inv_valid _ _ _ HI _ Hin).
  - cbn zeta. repeat split; assumption.
  - intros i Hi. apply Pre. lia.
  - lia.
  - pose proof (inv_len _ _ _ HI) as E. unfold lenN in E. lia.
Qed.

Theorem ht_find_absent t k L name :
  Inv t k L -> ~ key_in L (hash_string name ht_name_a) (hash_string name ht_name_b) ->
  ht_find t name = None.
Proof.
  intros HI Hn. unfold ht_find. rewrite (inv_len _ _ _ HI).
  assert (Hs : 2 ^ k <> 0) by (apply N.pow_nonzero; discriminate).
  replace (2 ^ k =? 0) with false by (symmetry; apply N.eqb_neq; exact Hs).
  match goal with |- ?x = None => destruct x as [r|] eqn:E end; [|reflexivity].
  exfalso. apply Hn. eapply find_loop_sound; [exact HI | | exact E].
  rewrite land_mask. apply N.mod_lt, Hs.
Qed.

(* spelling invariance of the lookup: names with the same folded spelling hit the same slot *)
Theorem ht_find_spelling t n1 n2 : map norm n1 = map norm n2 -> ht_find t n1 = ht_find t n2.
Proof.
  intro H. unfold ht_find.
  rewrite (hash_fold_invariant ht_table_offset n1 n2 H),
          (hash_fold_invariant ht_name_a n1 n2 H),
          (hash_fold_invariant ht_name_b n1 n2 H). reflexivity.
Qed.
