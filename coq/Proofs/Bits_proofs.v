From WR Require Import Lib.Bits.
From Coq Require Import ZArith Lia ZifyN ZifyNat ZifyBool.
Ltac Zify.zify_post_hook ::= Z.div_mod_to_equations.
Open Scope N_scope.

Arguments N.add : simpl never.
Arguments N.sub : simpl never.
Arguments N.mul : simpl never.
Arguments N.div : simpl never.
Arguments N.modulo : simpl never.
Arguments N.shiftl : simpl never.
Arguments N.shiftr : simpl never.
Arguments N.land : simpl never.
Arguments N.lxor : simpl never.
Arguments N.lor : simpl never.
Arguments N.pow : simpl never.

Lemma lxor_cancel_r a b : N.lxor (N.lxor a b) b = a.
Proof. now rewrite N.lxor_assoc, N.lxor_nilpotent, N.lxor_0_r. Qed.

Lemma land_lxor_distr_r a b c : N.land (N.lxor a b) c = N.lxor (N.land a c) (N.land b c).
Proof.
  apply N.bits_inj; intro n.
  rewrite N.land_spec, !N.lxor_spec, !N.land_spec.
  destruct (N.testbit a n), (N.testbit b n), (N.testbit c n); reflexivity.
Qed.

Lemma mod_pow2_lxor a b n : (N.lxor a b) mod 2 ^ n = N.lxor (a mod 2 ^ n) (b mod 2 ^ n).
Proof.
  apply N.bits_inj; intro m.
  destruct (N.lt_ge_cases m n) as [H | H].
  - rewrite N.mod_pow2_bits_low, !N.lxor_spec, !N.mod_pow2_bits_low by assumption. reflexivity.
  - rewrite N.mod_pow2_bits_high, N.lxor_spec, !N.mod_pow2_bits_high by assumption. reflexivity.
Qed.

Lemma lxor_lt_pow2 a b n : a < 2 ^ n -> b < 2 ^ n -> N.lxor a b < 2 ^ n.
Proof.
  intros Ha Hb.
  rewrite <- (N.mod_small a (2 ^ n)), <- (N.mod_small b (2 ^ n)) by assumption.
  rewrite <- mod_pow2_lxor. apply N.mod_lt. apply N.pow_nonzero. discriminate.
Qed.

Lemma lxor_lt_M32 a b : a < M32 -> b < M32 -> N.lxor a b < M32.
Proof. change M32 with (2 ^ 32). apply lxor_lt_pow2. Qed.

Lemma add32_lt a b : add32 a b < M32.
Proof. unfold add32. apply N.mod_lt. discriminate. Qed.

Lemma byte_of_spec x i : byte_of x i = (x / 2 ^ (8 * i)) mod 256.
Proof.
  unfold byte_of. change 255 with (N.ones 8). rewrite N.land_ones, N.shiftr_div_pow2. reflexivity.
Qed.

Lemma byte_of_lt x i : byte_of x i < 256.
Proof. rewrite byte_of_spec. apply N.mod_lt. discriminate. Qed.

Lemma byte_of_lxor a b i : byte_of (N.lxor a b) i = N.lxor (byte_of a i) (byte_of b i).
Proof. unfold byte_of. rewrite N.shiftr_lxor, land_lxor_distr_r. reflexivity. Qed.

Lemma le_value_bytes_of_u32 w : w < M32 -> le_value (bytes_of_u32 w) = w.
Proof.
  intro H. unfold bytes_of_u32. cbn [le_value]. rewrite !byte_of_spec.
  change (2 ^ (8 * 0)) with 1. change (2 ^ (8 * 1)) with 256.
  change (2 ^ (8 * 2)) with 65536. change (2 ^ (8 * 3)) with 16777216.
  unfold M32 in H. lia.
Qed.

Lemma byte_of_le_value4 a b c d :
  a < 256 -> b < 256 -> c < 256 -> d < 256 ->
  byte_of (le_value [a; b; c; d]) 0 = a /\ byte_of (le_value [a; b; c; d]) 1 = b /\
  byte_of (le_value [a; b; c; d]) 2 = c /\ byte_of (le_value [a; b; c; d]) 3 = d.
Proof.
  intros Ha Hb Hc Hd. rewrite !byte_of_spec. cbn [le_value].
  change (2 ^ (8 * 0)) with 1. change (2 ^ (8 * 1)) with 256.
  change (2 ^ (8 * 2)) with 65536. change (2 ^ (8 * 3)) with 16777216.
  repeat split; lia.
Qed.

Lemma bytes_of_u32_le_value a b c d :
  a < 256 -> b < 256 -> c < 256 -> d < 256 ->
  bytes_of_u32 (le_value [a; b; c; d]) = [a; b; c; d].
Proof.
  intros Ha Hb Hc Hd. unfold bytes_of_u32.
  destruct (byte_of_le_value4 a b c d Ha Hb Hc Hd) as (E0 & E1 & E2 & E3).
  rewrite E0, E1, E2, E3. reflexivity.
Qed.

Lemma le_value4_lt a b c d :
  a < 256 -> b < 256 -> c < 256 -> d < 256 -> le_value [a; b; c; d] < M32.
Proof. intros. cbn [le_value]. unfold M32. lia. Qed.

Lemma bytes_of_words_length ws : length (bytes_of_words ws) = (4 * length ws)%nat.
Proof. induction ws as [|w r IH]; cbn [bytes_of_words length]; [reflexivity|]. rewrite app_length, IH. cbn. lia. Qed.

Lemma words_of_bytes_of_words ws r :
  Forall (fun w => w < M32) ws ->
  words_of_bytes (length ws) (bytes_of_words ws ++ r) = ws.
Proof.
  induction 1 as [|w ws Hw Hws IH]; [destruct r as [|? [|? [|? [|? ?]]]]; reflexivity|].
  cbn [length bytes_of_words words_of_bytes bytes_of_u32 app].
  change [byte_of w 0; byte_of w 1; byte_of w 2; byte_of w 3] with (bytes_of_u32 w).
  rewrite le_value_bytes_of_u32 by assumption. rewrite IH. reflexivity.
Qed.

Lemma words_of_bytes_of_words_nil ws :
  Forall (fun w => w < M32) ws -> words_of_bytes (length ws) (bytes_of_words ws) = ws.
Proof. intro H. rewrite <- (app_nil_r (bytes_of_words ws)). apply words_of_bytes_of_words, H. Qed.

Lemma bytes_of_words_of_bytes n bs :
  wf_bytes bs -> length bs = (4 * n)%nat -> bytes_of_words (words_of_bytes n bs) = bs.
Proof.
  revert bs. induction n as [|n IH]; intros bs Hwf Hlen.
  - destruct bs; [reflexivity | discriminate].
  - destruct bs as [|a [|b [|c [|d r]]]]; cbn [length] in Hlen; try lia.
    cbn [words_of_bytes bytes_of_words].
    inversion Hwf as [|? ? Ha H1]; subst. inversion H1 as [|? ? Hb H2]; subst.
    inversion H2 as [|? ? Hc H3]; subst. inversion H3 as [|? ? Hd H4]; subst.
    rewrite bytes_of_u32_le_value by assumption. rewrite IH; [reflexivity | assumption | lia].
Qed.

Lemma words_of_bytes_lt n bs : wf_bytes bs -> Forall (fun w => w < M32) (words_of_bytes n bs).
Proof.
  revert bs. induction n as [|n IH]; intros bs Hwf; [constructor|].
  destruct bs as [|a [|b [|c [|d r]]]]; cbn [words_of_bytes]; try constructor.
  - inversion Hwf as [|? ? Ha H1]; subst. inversion H1 as [|? ? Hb H2]; subst.
    inversion H2 as [|? ? Hc H3]; subst. inversion H3 as [|? ? Hd H4]; subst.
    apply le_value4_lt; assumption.
  - apply IH. do 4 (inversion Hwf as [|? ? _ Hwf']; subst; clear Hwf; rename Hwf' into Hwf). assumption.
Qed.

Lemma words_of_bytes_length n bs : (4 * n <= length bs)%nat -> length (words_of_bytes n bs) = n.
Proof.
  revert bs. induction n as [|n IH]; intros bs H; [reflexivity|].
  destruct bs as [|a [|b [|c [|d r]]]]; cbn [length] in H; try lia.
  cbn [words_of_bytes length]. rewrite IH; [reflexivity | lia].
Qed.

Lemma wf_bytes_firstn n bs : wf_bytes bs -> wf_bytes (firstn n bs).
Proof.
  unfold wf_bytes. revert bs. induction n as [|n IH]; intros bs H; [constructor|].
  destruct bs as [|b r]; [constructor|]. inversion H; subst. cbn [firstn]. constructor; auto.
Qed.

Lemma wf_bytes_skipn n bs : wf_bytes bs -> wf_bytes (skipn n bs).
Proof.
  unfold wf_bytes. revert bs. induction n as [|n IH]; intros bs H; [exact H|].
  destruct bs as [|b r]; [constructor|]. inversion H; subst. cbn [skipn]. auto.
Qed.
