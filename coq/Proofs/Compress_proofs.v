From WR Require Import Lib.Bits Mpq.Sparse Mpq.CompressWrap.
From Coq Require Import ZArith Lia ZifyN ZifyNat ZifyBool.
Ltac Zify.zify_post_hook ::= Z.div_mod_to_equations.
Open Scope N_scope.

Lemma validate_op_c0 n m : validate_op 0 n m = false.
Proof.
  unfold validate_op, file_bounds_ok. change (0 =? 0) with true. cbn [negb andb].
  rewrite andb_false_r. reflexivity.
Qed.

Section WrapperFacts.
  Variable ic : N -> list N -> option (list N).

  (* when compression does not shrink the data it is stored raw: never longer than the input *)
  Theorem store_raw_never_expands data m r :
    compress ic data m = Some r -> lenN r <= lenN data.
  Proof.
    unfold compress. destruct (ic m data) as [c|]; [|discriminate].
    destruct (N.leb_spec (lenN data) (1 + lenN c)) as [H | H]; intro E; inversion E; subst.
    - lia.
    - unfold lenN in *. cbn [length]. lia.
  Qed.

  (* either the input itself, or method byte + payload that is strictly shorter *)
  Theorem compress_tagged data m r :
    compress ic data m = Some r ->
    r = data \/ exists c, ic m data = Some c /\ r = m :: c /\ lenN r < lenN data.
  Proof.
    unfold compress. destruct (ic m data) as [c|] eqn:Ec; [|discriminate].
    destruct (N.leb_spec (lenN data) (1 + lenN c)) as [H | H]; intro E; inversion E; subst.
    - left. reflexivity.
    - right. exists c. repeat split. unfold lenN in *. cbn [length]. lia.
  Qed.

  (* the reader's rule "stored length = true length means raw" is sound for writer output *)
  Corollary reader_decision_sound data m r :
    compress ic data m = Some r -> lenN r = lenN data -> r = data.
  Proof.
    intros H L. destruct (compress_tagged data m r H) as [E | (c & _ & _ & Hlt)]; [assumption | lia].
  Qed.

End WrapperFacts.

Section WrapperRoundTrip.
  Variable ic : N -> list N -> option (list N).
  Variable id : N -> list N -> N -> option (list N).

  (* wrapper round trip, relative to the codec contract (Gamma-codec) and the limits *)
  Theorem wrapper_roundtrip data m r :
    (forall c, ic m data = Some c -> id m c (lenN data) = Some data) ->
    compress ic data m = Some r -> r <> data -> m <> 0 ->
    lenN data <= max_decompressed ->
    validate_op (lenN (tl r)) (lenN data) m = true ->
    decompress id (tl r) (hd 0 r) (lenN data) = Some data.
  Proof.
    intros Hc H Hne Hm Hsz Hv.
    destruct (compress_tagged ic data m r H) as [E | (c & Ec & Er & Hlt)]; [contradiction|].
    subst r. cbn [tl hd] in *. unfold decompress.
    destruct c as [|c0 c'] eqn:Ecc.
    - (* empty payload: the decompressor refuses empty input; excluded by the limits check *)
      exfalso. change (lenN (@nil N)) with 0 in Hv. rewrite validate_op_c0 in Hv. discriminate.
    - rewrite <- Ecc in *. rewrite Hv. cbn [negb].
      replace (m =? 0) with false by (symmetry; apply N.eqb_neq; assumption).
      rewrite (Hc c Ec).
      replace (N.min (lenN data) max_decompressed) with (lenN data) by lia.
      rewrite N.leb_refl. cbn [negb].
      unfold result_size_ok. destruct (lenN data =? 0); [reflexivity|].
      replace ((lenN data - lenN data * sec_result_tolerance / 100 <=? lenN data)
               && (lenN data <=? lenN data + lenN data * sec_result_tolerance / 100)) with true; [reflexivity|].
      symmetry. apply andb_true_iff. split; apply N.leb_le; lia.
  Qed.
End WrapperRoundTrip.

(* ---- limits: the acceptance region -------------------------------------------------- *)

(* for every output size up to the largest sector / single unit considered (2^21) the
   only ratio test that can fail is the adaptive one *)
Theorem limits_accept_own_output c n m :
  0 < c -> n <= 2097152 ->
  n / c <= adaptive_limit c m ->
  (128 < m -> n / c <= adaptive_limit c m / 2) ->
  validate_op c n m = true.
Proof.
  intros Hc Hn Hr Hm.
  unfold validate_op, file_bounds_ok, patterns_ok.
  assert (E1 : n <=? max_session = true) by (apply N.leb_le; unfold max_session; change (sec_max_session_mib * MiB) with 1073741824; lia).
  assert (E2 : n <=? max_decompressed = true) by (apply N.leb_le; change max_decompressed with 104857600; lia).
  assert (E3 : (c =? 0) = false) by (apply N.eqb_neq; lia).
  assert (E4 : (N.max (adaptive_limit c m) sec_max_ratio <? n / c) = false) by (apply N.ltb_ge; lia).
  assert (E5 : (adaptive_limit c m <? n / c) = false) by (apply N.ltb_ge; lia).
  assert (E6 : (sec_tiny_n_mib * MiB <? n) = false) by (apply N.ltb_ge; change (sec_tiny_n_mib * MiB) with 10485760; lia).
  rewrite E1, E2, E3, E4, E5, E6. rewrite !andb_false_r. cbn [negb andb].
  change sec_multi_threshold with 128.
  destruct (N.ltb_spec 128 m) as [H | H]; [|reflexivity].
  specialize (Hm H).
  replace (adaptive_limit c m / 2 <? n / c) with false by (symmetry; apply N.ltb_ge; lia).
  rewrite !andb_false_r. reflexivity.
Qed.

Lemma adaptive_limit_ge_50 c m : 50 <= adaptive_limit c m.
Proof.
  unfold adaptive_limit, clampN. change ad_clamp_lo with 50. change ad_clamp_hi with 50000.
  match goal with |- context [if ?x <? 50 then _ else _] => destruct (N.ltb_spec x 50) end; [lia|].
  match goal with |- context [if 50000 <? ?x then _ else _] => destruct (N.ltb_spec 50000 x) end; lia.
Qed.

(* the code before the repair rejected output the compressor really produces:
   bzip2 turns 65536 zero bytes into 43 bytes (ratio 1524 > flat 1000) *)
Lemma old_limits_reject_own_output_refuted :
  validate_op_old 43 65536 16 = false /\ validate_op 43 65536 16 = true.
Proof. vm_compute. split; reflexivity. Qed.

(* known finding (not repaired): even the adaptive limit rejects bzip2's output for
   2 MiB of constant bytes (49 bytes, ratio 43690 > 30000); the acceptance theorem's
   ratio hypothesis is exactly what fails here *)
Lemma limits_refuted_bzip2_2MiB :
  validate_op 48 2097152 16 = false /\ adaptive_limit 48 16 = 30000 /\ 2097152 / 48 = 43690.
Proof. vm_compute. repeat split. Qed.

(* ---- sparse codec: the decoder inverts every well-formed token stream --------------- *)
From WR Require Import Proofs.Codec_proofs.

Lemma token_data_length t : token_ok t = true ->
  length (token_data t) = match t with Lit bs => length bs | Zeros n => n end.
Proof. destruct t as [bs | n]; intros _; cbn [token_data]; [reflexivity | apply repeat_length]. Qed.

Lemma sp_dec_tokens ts : forall fuel extra,
  Forall (fun t => token_ok t = true) ts ->
  (length (tokens_bytes ts) < fuel)%nat ->
  sp_dec_loop fuel (tokens_bytes ts) (lenN (tokens_data ts) + extra) = Some (tokens_data ts).
Proof.
  induction ts as [|t ts IH]; intros fuel extra Hok Hf.
  - destruct fuel; [cbn in Hf; lia | reflexivity].
  - inversion Hok as [|? ? Ht Hts]; subst.
    unfold tokens_bytes, tokens_data in *. cbn [map concat] in *.
    fold (tokens_bytes ts) in *. fold (tokens_data ts) in *.
    destruct fuel as [|fuel]; [cbn in Hf; lia|].
    destruct t as [bs | n]; cbn [token_ok] in Ht; apply andb_true_iff in Ht; destruct Ht as [H1 H2];
      apply Nat.leb_le in H1, H2; cbn [token_bytes token_data app sp_dec_loop] in *.
    + (* literal run *)
      replace (128 <=? 128 + N.of_nat (length bs - 1)) with true by (symmetry; apply N.leb_le; lia).
      replace (N.to_nat (128 + N.of_nat (length bs - 1) - 128 + 1)) with (length bs) by lia.
      rewrite firstn_app_exact by reflexivity.
      unfold lenN at 1. replace (N.of_nat (length bs) =? 0) with false by (symmetry; apply N.eqb_neq; lia).
      unfold lenN. rewrite app_length.
      replace (N.min (N.of_nat (length bs)) (N.of_nat (length bs + length (tokens_data ts)) + extra))
        with (N.of_nat (length bs)) by lia.
      rewrite Nat2N.id. rewrite firstn_app_exact, skipn_app_exact by reflexivity.
      replace (N.of_nat (length bs + length (tokens_data ts)) + extra - N.of_nat (length bs))
        with (lenN (tokens_data ts) + extra) by (unfold lenN; lia).
      rewrite IH by (assumption || (cbn [length] in Hf; rewrite app_length in Hf; lia)). reflexivity.
    + (* zero run *)
      replace (128 <=? N.of_nat (n - 3)) with false by (symmetry; apply N.leb_gt; lia).
      unfold lenN. rewrite app_length, repeat_length.
      replace (N.min (N.of_nat (n - 3) + 3) (N.of_nat (n + length (tokens_data ts)) + extra)) with (N.of_nat n) by lia.
      rewrite Nat2N.id.
      replace (N.of_nat (n + length (tokens_data ts)) + extra - N.of_nat n)
        with (lenN (tokens_data ts) + extra) by (unfold lenN; lia).
      rewrite IH by (assumption || (cbn [length] in Hf; lia)). reflexivity.
Qed.

Theorem sparse_decode_tokens ts :
  Forall (fun t => token_ok t = true) ts ->
  lenN (tokens_data ts) < 4294967296 ->
  (1 <= length (tokens_bytes ts))%nat ->
  sparse_decompress (be32_bytes (lenN (tokens_data ts)) ++ tokens_bytes ts) (lenN (tokens_data ts))
  = SOk (tokens_data ts).
Proof.
  intros Hok Hlt Hne. unfold sparse_decompress.
  set (n := lenN (tokens_data ts)) in *.
  assert (Eb : be32 (be32_bytes n ++ tokens_bytes ts) = n).
  { unfold be32_bytes, be32. cbn [app]. lia. }
  destruct (tokens_bytes ts) as [|b0 tb] eqn:Etb; [cbn in Hne; lia|]. rewrite <- Etb in *.
  replace (Nat.ltb (length (firstn 5 (be32_bytes n ++ tokens_bytes ts))) 5) with false
    by (rewrite Etb; reflexivity).
  rewrite Eb. rewrite N.ltb_irrefl.
  change (skipn 4 (be32_bytes n ++ tokens_bytes ts)) with (tokens_bytes ts).
  pose proof (sp_dec_tokens ts (S (length (be32_bytes n ++ tokens_bytes ts))) 0 Hok) as D.
  rewrite N.add_0_r in D. fold n in D. rewrite D; [reflexivity|].
  rewrite app_length. lia.
Qed.
