(* Offsets computed from the chunk list point at the chunks they name; name tables. *)
From Coq Require Import List NArith Bool Arith Lia.
From WR Require Import Lib.Bits Lib.Codec Fmt.Chunked Proofs.Bits_proofs Proofs.Codec_proofs.
Import ListNotations.
Open Scope N_scope.

Lemma write_chunk_length c : lenN (write_chunk c) = 8 + lenN (c_data c).
Proof. unfold write_chunk, lenN. rewrite !app_length, !le_bytes_length. lia. Qed.

(* every computed offset is the start of that chunk in the written bytes *)
Theorem offsets_point_at_chunks cs : forall pre m o,
  Forall chunk_ok cs -> In (m, o) (chunk_offsets (lenN pre) cs) ->
  chunk_at (pre ++ write_chunks cs) o m = true.
Proof.
  induction cs as [|c r IH]; intros pre m o Hok I; cbn [chunk_offsets] in I; [contradiction|].
  inversion Hok; subst. destruct I as [I|I].
  - inversion I; subst. unfold chunk_at. unfold lenN. rewrite Nat2N.id.
    rewrite skipn_app, skipn_all, Nat.sub_diag. cbn [skipn app]. unfold write_chunks. cbn [map concat].
    rewrite read_header_write by assumption. apply N.eqb_refl.
  - unfold write_chunks. cbn [map concat]. fold (write_chunks r). rewrite app_assoc.
    apply IH; [assumption|].
    replace (lenN (pre ++ write_chunk c)) with (lenN pre + 8 + lenN (c_data c)); [exact I|].
    unfold lenN at 3. rewrite app_length. fold (lenN pre). pose proof (write_chunk_length c) as L. unfold lenN in *. lia.
Qed.

(* a table filled from the computed offsets (relative to an origin before them) passes the check *)
Theorem table_from_offsets_ok cs pre origin tab :
  Forall chunk_ok cs ->
  (forall m rel, In (m, rel) tab -> rel = 0 \/ In (m, origin + rel) (chunk_offsets (lenN pre) cs)) ->
  table_ok (pre ++ write_chunks cs) origin tab = true.
Proof.
  intros Hok H. unfold table_ok. apply forallb_forall. intros [m rel] I. cbn [fst snd].
  destruct (H m rel I) as [Z|X]; [subst; reflexivity|].
  rewrite (offsets_point_at_chunks cs pre m (origin + rel) Hok X). apply orb_true_r.
Qed.

(* name tables: the name found at its computed offset is the name (names without NUL) *)
Lemma cstr_from_app s rest : Forall (fun c => c <> 0) s -> cstr_from (s ++ 0 :: rest) = s.
Proof.
  induction s as [|c r IH]; intro H; cbn [app cstr_from]; [reflexivity|].
  inversion H; subst. destruct (N.eqb_spec c 0); [contradiction|]. f_equal. auto.
Qed.

Theorem names_at_offsets names : forall pre i s o,
  Forall (Forall (fun c => c <> 0)) names ->
  nth_error names i = Some s -> nth_error (name_offsets (lenN pre) names) i = Some o ->
  name_at (pre ++ concat (map (fun n => n ++ [0]) names)) o = s.
Proof.
  induction names as [|n r IH]; intros pre i s o F Hs Ho; [destruct i; discriminate|].
  inversion F; subst. cbn [name_offsets map concat] in *. destruct i as [|i]; cbn [nth_error] in *.
  - inversion Hs; inversion Ho; subst. unfold name_at, lenN. rewrite Nat2N.id.
    rewrite skipn_app, skipn_all, Nat.sub_diag. cbn [skipn app]. rewrite <- app_assoc. cbn [app]. apply cstr_from_app. assumption.
  - rewrite app_assoc. apply (IH (pre ++ n ++ [0]) i); [assumption|assumption|].
    replace (lenN (pre ++ n ++ [0])) with (lenN pre + lenN n + 1); [exact Ho|].
    unfold lenN. rewrite !app_length. cbn [length]. lia.
Qed.

Example chunked_example :
  let cs := [{| c_magic := 1380275789; c_data := [18;0;0;0] |}; {| c_magic := 1296581714; c_data := repeat 0 8 |}; {| c_magic := 1296255310; c_data := [1;2] |}] in
  chunk_offsets 0 cs = [(1380275789, 0); (1296581714, 12); (1296255310, 28)]
  /\ chunk_at (write_chunks cs) 28 1296255310 = true /\ chunk_at (write_chunks cs) 27 1296255310 = false
  /\ name_offsets 0 [[97]; [97;98]; []] = [0; 2; 5].
Proof. vm_compute. repeat split. Qed.
