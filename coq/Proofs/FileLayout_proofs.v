(* File-level round trip: what write_file emits at a position is read back by read_file
   as the original content (single-unit files: every combination of compression,
   encryption mode and checksum; files stored as a plain run of sectors). *)
From WR Require Import Lib.Bits Lib.Codec Mpq.Crypt Mpq.Archive Proofs.Bits_proofs Proofs.Codec_proofs Proofs.Crypt_proofs.
From Coq Require Import ZArith Lia ZifyN ZifyNat ZifyBool.
Ltac Zify.zify_post_hook ::= Z.div_mod_to_equations.
Open Scope N_scope.

Lemma slice_mid (pre body post : list N) :
  slice (pre ++ body ++ post) (lenN pre) (lenN body) = body.
Proof.
  unfold slice.
  replace (N.min (lenN pre) (lenN (pre ++ body ++ post))) with (lenN pre) by (unfold lenN; rewrite !app_length; lia).
  replace (N.min (lenN body) (lenN (pre ++ body ++ post))) with (lenN body) by (unfold lenN; rewrite !app_length; lia).
  unfold lenN. rewrite !Nat2N.id. rewrite skipn_app_exact by reflexivity.
  apply firstn_app_exact. reflexivity.
Qed.

Lemma slice_mid2 (pre body tail post : list N) :
  slice (pre ++ (body ++ tail) ++ post) (lenN pre + lenN body) (lenN tail) = tail.
Proof.
  replace (pre ++ (body ++ tail) ++ post) with ((pre ++ body) ++ tail ++ post) by (rewrite <- !app_assoc; reflexivity).
  replace (lenN pre + lenN body) with (lenN (pre ++ body)) by (unfold lenN; rewrite app_length; lia).
  apply slice_mid.
Qed.

Lemma adler32_lt bs : adler32 bs < M32.
Proof.
  unfold adler32.
  assert (G : forall l a b, a < 65521 -> b < 65521 ->
             let '(a', b') := fold_left (fun '(a, b) x => let a' := (a + x) mod 65521 in (a', (b + a') mod 65521)) l (a, b) in
             a' < 65521 /\ b' < 65521).
  { induction l as [|x r IH]; intros a b Ha Hb; cbn [fold_left]; [split; assumption|].
    apply IH; apply N.mod_lt; discriminate. }
  specialize (G bs 1 0 eq_refl eq_refl).
  destruct (fold_left _ bs (1, 0)) as [a b]. destruct G. unfold M32. lia.
Qed.

Lemma w32_idem x : w32 (w32 x) = w32 x.
Proof. unfold w32. apply N.mod_mod. discriminate. Qed.

Lemma file_key_w32 name pos size fx : file_key name (w32 pos) size fx = file_key name pos size fx.
Proof. unfold file_key. rewrite w32_idem. reflexivity. Qed.

(* ---- sector splitting ------------------------------------------------------------------- *)
Lemma split_nil fuel n : split_sectors fuel n [] = [].
Proof. destruct fuel; reflexivity. Qed.

Lemma split_cons fuel n l : l <> [] -> split_sectors (S fuel) n l = firstn n l :: split_sectors fuel n (skipn n l).
Proof. destruct l; [congruence | reflexivity]. Qed.

Lemma concat_split fuel n : forall bs, (0 < n)%nat -> (length bs <= fuel)%nat -> concat (split_sectors fuel n bs) = bs.
Proof.
  induction fuel as [|fuel IH]; intros bs Hn Hl.
  - destruct bs; [reflexivity | cbn [length] in Hl; lia].
  - destruct bs as [|x bs]; [reflexivity|].
    cbn [split_sectors concat]. rewrite IH; [apply firstn_skipn | exact Hn |].
    rewrite skipn_length. cbn [length] in *. lia.
Qed.

(* a list of blobs with the lengths of the sectors of bs splits back into itself *)
Lemma split_same_shape n : forall f1 f2 bs (ss : list (list N)),
  (0 < n)%nat -> (length bs <= f1)%nat -> (length (concat ss) <= f2)%nat ->
  map (@length N) ss = map (@length N) (split_sectors f1 n bs) ->
  split_sectors f2 n (concat ss) = ss.
Proof.
  induction f1 as [|f1 IH]; intros f2 bs ss Hn H1 H2 Hs.
  - cbn [split_sectors map] in Hs. destruct ss; [|discriminate]. apply split_nil.
  - destruct bs as [|x bs].
    + cbn [split_sectors map] in Hs. destruct ss; [|discriminate]. apply split_nil.
    + cbn [split_sectors map] in Hs. destruct ss as [|s r]; [discriminate|].
      cbn [map] in Hs. injection Hs as Hls Hr.
      rewrite firstn_length in Hls.
      cbn [concat] in *. rewrite app_length in H2.
      assert (Hpos : (0 < length s)%nat) by (rewrite Hls; cbn [length]; lia).
      destruct f2 as [|f2]; [lia|].
      rewrite split_cons by (intro Esr; apply (f_equal (@length N)) in Esr; rewrite app_length in Esr; cbn [length] in Esr; lia).
      destruct (Nat.le_gt_cases n (length (x :: bs))) as [Hge | Hlt].
      * assert (Els : length s = n) by lia.
        rewrite (firstn_app_exact s (concat r) n Els), (skipn_app_exact s (concat r) n Els).
        f_equal. apply (IH f2 (skipn n (x :: bs))); [exact Hn | | lia | exact Hr].
        rewrite skipn_length. cbn [length] in *. lia.
      * rewrite skipn_all2 in Hr by lia. rewrite split_nil in Hr. destruct r; [|discriminate].
        cbn [concat]. rewrite app_nil_r.
        rewrite firstn_all2 by lia. rewrite skipn_all2 by lia. rewrite split_nil. reflexivity.
Qed.

Lemma wf_firstn n : forall bs, wf_bytes bs -> wf_bytes (firstn n bs).
Proof. induction n as [|n IH]; intros [|x bs] H; cbn [firstn]; try constructor; inversion H; subst; [assumption | apply IH; assumption]. Qed.
Lemma wf_skipn n : forall bs, wf_bytes bs -> wf_bytes (skipn n bs).
Proof. induction n as [|n IH]; intros [|x bs] H; cbn [skipn]; try assumption. inversion H; subst. apply IH; assumption. Qed.

Lemma split_wf fuel n : forall bs, wf_bytes bs -> Forall wf_bytes (split_sectors fuel n bs).
Proof.
  induction fuel as [|fuel IH]; intros bs H; [constructor|].
  destruct bs as [|x bs]; [constructor|]. cbn [split_sectors]. constructor.
  - apply wf_firstn, H.
  - apply IH, wf_skipn, H.
Qed.

Lemma mapi_enc_shape key : forall ss i,
  map (@length N) (mapi (fun i s => encrypt_data s (add32 key i)) i ss) = map (@length N) ss.
Proof. induction ss as [|s r IH]; intro i; cbn [mapi map]; [reflexivity|]. rewrite encrypt_data_length, IH. reflexivity. Qed.

Lemma mapi_dec_enc key : forall ss i, Forall wf_bytes ss ->
  mapi (fun i s => decrypt_file_data s (add32 key i)) i (mapi (fun i s => encrypt_data s (add32 key i)) i ss) = ss.
Proof.
  induction ss as [|s r IH]; intros i H; cbn [mapi]; [reflexivity|].
  inversion H as [|? ? Hs Hr]; subst. rewrite bytes_decrypt_encrypt by exact Hs. rewrite IH by exact Hr. reflexivity.
Qed.

Lemma concat_length_shape (a b : list (list N)) : map (@length N) a = map (@length N) b -> length (concat a) = length (concat b).
Proof.
  revert b. induction a as [|x a IH]; intros [|y b] H; try discriminate; [reflexivity|].
  cbn [map] in H. injection H as H1 H2. cbn [concat]. rewrite !app_length, H1, (IH b H2). reflexivity.
Qed.

Section RoundTrip.
  Variable compress : N -> list N -> option (list N).
  Variable decompress : N -> list N -> N -> option (list N).

  (* codec contract for one unit: if compress shrank it, decompress gives it back *)
  Definition unit_contract (method : N) (d : list N) : Prop :=
    forall c, compress method d = Some c -> list_eqb c d = false ->
      wf_bytes c /\ lenN c < lenN d /\
      exists m payload, c = m :: payload /\ decompress m payload (lenN d) = Some d.

  Variable name : list N.

  (* an archive that carries `bytes` at `pos`, with the block entry the builder records *)
  Definition carries (a : archive) (pos : N) (bytes : list N) (csize fsize flags : N) (ssz : N) : Prop :=
    (exists pre post, a_bytes a = pre ++ bytes ++ post /\ lenN pre = pos) /\
    sector_size (a_shift a) = ssz /\ pos < M32 /\
    find_block a name = Some {| b_pos := pos; b_csize := csize; b_fsize := fsize; b_flags := flags + fl_exists |}.

  Lemma list_eqb_true a : forall b, list_eqb a b = true -> a = b.
  Proof.
    induction a as [|x a IH]; intros [|y b] H; cbn [list_eqb] in H; try discriminate; [reflexivity|].
    apply andb_true_iff in H. destruct H as [H1 H2]. apply N.eqb_eq in H1. subst. f_equal. apply IH, H2.
  Qed.

  (* flags arithmetic: the twelve single-unit flag words, decided by computation *)
  Lemma single_flags (crc shrunk : bool) (enc : N) :
    enc < 3 ->
    let fl := fl_single_unit + (if crc then fl_sector_crc else 0) + (if shrunk then fl_compress else 0) + enc_flags enc + fl_exists in
    has_flag fl fl_patch_file = false /\ has_flag fl fl_single_unit = true /\
    has_flag fl fl_compress = shrunk /\ has_flag fl fl_sector_crc = crc /\
    has_flag fl fl_encrypted = negb (enc =? 0) /\ has_flag fl fl_fix_key = (enc =? 2) /\ has_flag fl fl_exists = true.
  Proof.
    intro H. assert (E : enc = 0 \/ enc = 1 \/ enc = 2) by lia.
    destruct E as [-> | [-> | ->]]; destruct crc, shrunk; vm_compute; repeat split.
  Qed.

  Theorem single_unit_roundtrip (a : archive) (ssz : N) (crc : bool) (f : file_spec) (pos : N) (bytes : list N) (csize flags : N) :
    f_name f = name -> f_enc f < 3 -> wf_bytes (f_data f) ->
    lenN (f_data f) <= ssz -> lenN (f_data f) < M32 ->
    unit_contract (f_comp f) (f_data f) ->
    write_file compress ssz crc f pos = Some (bytes, csize, flags) ->
    carries a pos bytes csize (lenN (f_data f)) flags ssz ->
    read_file decompress a name = ROk (f_data f).
  Proof.
    intros Hn Henc Hwf Hsz Hlt Hc Hw ((pre & post & Ea & Epre) & Hss & Hpos & Hfind).
    unfold write_file in Hw.
    replace (lenN (f_data f) <=? ssz) with true in Hw by (symmetry; apply N.leb_le; exact Hsz).
    unfold compress_unit in Hw.
    set (data := f_data f) in *.
    (* what was stored, and whether it shrank *)
    assert (Hcu : exists (c : list N) (shrunk : bool),
               bytes = (if f_enc f =? 0 then c else encrypt_data c (file_key name pos (lenN data) (f_enc f =? 2)))
                       ++ (if crc then bytes_of_u32 (adler32 data) else []) /\
               csize = lenN (if f_enc f =? 0 then c else encrypt_data c (file_key name pos (lenN data) (f_enc f =? 2))) /\
               flags = fl_single_unit + (if crc then fl_sector_crc else 0) + (if shrunk then fl_compress else 0) + enc_flags (f_enc f) /\
               wf_bytes c /\
               (shrunk = false -> c = data) /\
               (shrunk = true -> lenN c < lenN data /\ exists m payload, c = m :: payload /\ decompress m payload (lenN data) = Some data)).
    { rewrite Hn in Hw.
      assert (Raw : forall b cs fl,
                 Some (b, cs, fl) = Some (bytes, csize, flags) ->
                 b = (if f_enc f =? 0 then data else encrypt_data data (file_key name pos (lenN data) (f_enc f =? 2)))
                     ++ (if crc then bytes_of_u32 (adler32 data) else []) ->
                 cs = lenN (if f_enc f =? 0 then data else encrypt_data data (file_key name pos (lenN data) (f_enc f =? 2))) ->
                 fl = fl_single_unit + (if crc then fl_sector_crc else 0) + 0 + enc_flags (f_enc f) ->
                 exists (c : list N) (shrunk : bool),
                   bytes = (if f_enc f =? 0 then c else encrypt_data c (file_key name pos (lenN data) (f_enc f =? 2)))
                           ++ (if crc then bytes_of_u32 (adler32 data) else []) /\
                   csize = lenN (if f_enc f =? 0 then c else encrypt_data c (file_key name pos (lenN data) (f_enc f =? 2))) /\
                   flags = fl_single_unit + (if crc then fl_sector_crc else 0) + (if shrunk then fl_compress else 0) + enc_flags (f_enc f) /\
                   wf_bytes c /\ (shrunk = false -> c = data) /\
                   (shrunk = true -> lenN c < lenN data /\ exists m payload, c = m :: payload /\ decompress m payload (lenN data) = Some data)).
      { intros b cs fl E Eb Ecs Efl. injection E as <- <- <-. exists data, false.
        split; [exact Eb|]. split; [exact Ecs|]. split; [exact Efl|]. split; [exact Hwf|]. split; [reflexivity | discriminate]. }
      destruct ((f_comp f =? 0) || is_nil data) eqn:E0.
      - eapply Raw; [exact Hw | reflexivity | reflexivity | reflexivity].
      - destruct (compress (f_comp f) data) as [c|] eqn:Ec; [|discriminate].
        destruct (list_eqb c data) eqn:El.
        + eapply Raw; [exact Hw | reflexivity | reflexivity | reflexivity].
        + destruct (Hc c Ec El) as (Wc & Lc & m & payload & Em & Ed).
          injection Hw as <- <- <-. exists c, true.
          split; [reflexivity|]. split; [reflexivity|]. split; [reflexivity|]. split; [exact Wc|].
          split; [discriminate|]. intros _. split; [exact Lc|]. exists m, payload. split; assumption. }
    destruct Hcu as (c & shrunk & -> & -> & -> & Wc & Hraw & Hshr).
    set (key := file_key name pos (lenN data) (f_enc f =? 2)) in *.
    set (body := if f_enc f =? 0 then c else encrypt_data c key) in *.
    assert (Lb : lenN body = lenN c).
    { unfold body. destruct (f_enc f =? 0); [reflexivity|]. unfold lenN. rewrite encrypt_data_length. reflexivity. }
    destruct (single_flags crc shrunk (f_enc f) Henc) as (F1 & F2 & F3 & F4 & F5 & F6 & F7).
    unfold read_file. rewrite Hfind. cbn [b_flags b_pos b_csize b_fsize].
    rewrite F1, F2, F3, F4, F5, F6. cbn [orb].
    rewrite file_key_w32 || idtac.
    (* bounds check *)
    assert (Hlen : lenN (a_bytes a) <? pos + lenN body = false).
    { apply N.ltb_ge. rewrite Ea. unfold lenN in *. rewrite !app_length. lia. }
    rewrite Hlen.
    (* the stored body *)
    assert (Sl : slice (a_bytes a) pos (lenN body) = body).
    { rewrite Ea, <- Epre.
      replace (pre ++ (body ++ (if crc then bytes_of_u32 (adler32 data) else [])) ++ post)
        with (pre ++ body ++ ((if crc then bytes_of_u32 (adler32 data) else []) ++ post)) by (rewrite <- !app_assoc; reflexivity).
      apply slice_mid. }
    rewrite Sl.
    (* decryption gives back what was stored *)
    assert (Dec : (if negb (f_enc f =? 0)
                   then decrypt_file_data body (if negb (f_enc f =? 0) then file_key name pos (lenN data) (f_enc f =? 2) else 0)
                   else body) = c).
    { unfold body. destruct (f_enc f =? 0); cbn [negb]; [reflexivity|]. apply bytes_decrypt_encrypt, Wc. }
    rewrite Dec.
    (* checksum and decompression, by cases *)
    assert (S4 : crc = true -> slice (a_bytes a) (pos + lenN body) 4 = bytes_of_u32 (adler32 data)).
    { intros ->. rewrite Ea, <- Epre. change 4 with (lenN (bytes_of_u32 (adler32 data))). apply slice_mid2. }
    assert (L4 : crc = true -> (lenN (a_bytes a) <? pos + lenN body + 4) = false).
    { intros ->. apply N.ltb_ge. rewrite Ea. unfold lenN in *. rewrite !app_length. cbn [bytes_of_u32 length]. lia. }
    destruct shrunk.
    - destruct (Hshr eq_refl) as (Ls & m & payload & Em & Ed).
      replace (lenN c =? lenN data) with false by (symmetry; apply N.eqb_neq; lia).
      rewrite Em, Ed.
      destruct crc; cbn [andb]; [|reflexivity].
      rewrite (L4 eq_refl), (S4 eq_refl), le_value_bytes_of_u32 by apply adler32_lt.
      rewrite N.eqb_refl. reflexivity.
    - rewrite (Hraw eq_refl).
      replace (lenN data <? lenN data) with false by (symmetry; apply N.ltb_irrefl).
      rewrite andb_false_r.
      destruct crc; cbn [andb]; [|reflexivity].
      rewrite (L4 eq_refl), (S4 eq_refl), le_value_bytes_of_u32 by apply adler32_lt.
      rewrite N.eqb_refl. reflexivity.
  Qed.
  (* flag words of a file stored as a plain run of sectors *)
  Lemma stored_flags (enc : N) :
    enc < 3 ->
    let fl := enc_flags enc + fl_exists in
    has_flag fl fl_patch_file = false /\ has_flag fl fl_single_unit = false /\
    has_flag fl fl_compress = false /\ has_flag fl fl_sector_crc = false /\
    has_flag fl fl_encrypted = negb (enc =? 0) /\ has_flag fl fl_fix_key = (enc =? 2).
  Proof.
    intro H. assert (E : enc = 0 \/ enc = 1 \/ enc = 2) by lia.
    destruct E as [-> | [-> | ->]]; vm_compute; repeat split.
  Qed.

  Lemma shrunk_flags (crc : bool) (enc : N) :
    enc < 3 -> has_flag ((if crc then fl_sector_crc else 0) + fl_compress + enc_flags enc) fl_compress = true.
  Proof.
    intro H. assert (E : enc = 0 \/ enc = 1 \/ enc = 2) by lia.
    destruct E as [-> | [-> | ->]]; destruct crc; vm_compute; reflexivity.
  Qed.

  (* a file longer than one sector that no sector of which shrank: stored as a run of
     (separately encrypted) sectors, read back whole *)
  Theorem stored_sectors_roundtrip (a : archive) (ssz : N) (crc : bool) (f : file_spec) (pos : N) (bytes : list N) (csize flags : N) :
    f_name f = name -> f_enc f < 3 -> wf_bytes (f_data f) ->
    0 < ssz -> ssz < lenN (f_data f) -> lenN (f_data f) < M32 ->
    write_file compress ssz crc f pos = Some (bytes, csize, flags) ->
    has_flag flags fl_compress = false ->
    carries a pos bytes csize (lenN (f_data f)) flags ssz ->
    read_file decompress a name = ROk (f_data f).
  Proof.
    intros Hn Henc Hwf Hpos0 Hsz Hlt Hw Hnc ((pre & post & Ea & Epre) & Hss & Hpos & Hfind).
    unfold write_file in Hw.
    replace (lenN (f_data f) <=? ssz) with false in Hw by (symmetry; apply N.leb_gt; exact Hsz).
    set (data := f_data f) in *.
    destruct (compress_sectors compress (f_comp f) (sectors ssz data)) as [[cs shrunk]|] eqn:Ecs; [|discriminate].
    destruct shrunk; cbn [negb] in Hw.
    { injection Hw as <- <- <-. rewrite shrunk_flags in Hnc by exact Henc. discriminate. }
    rewrite Hn in Hw.
    set (key := file_key name pos (lenN data) (f_enc f =? 2)) in *.
    set (ss := sectors ssz data) in *.
    set (body := if f_enc f =? 0 then data else concat (mapi (fun i s => encrypt_data s (add32 key i)) 0 ss)) in *.
    injection Hw as <- <- <-.
    assert (Hn0 : (0 < N.to_nat ssz)%nat) by lia.
    assert (Css : concat ss = data) by (apply concat_split; [exact Hn0 | lia]).
    assert (Lb : lenN body = lenN data).
    { unfold body. destruct (f_enc f =? 0); [reflexivity|]. unfold lenN. f_equal.
      rewrite (concat_length_shape _ ss) by apply mapi_enc_shape. rewrite Css. reflexivity. }
    destruct (stored_flags (f_enc f) Henc) as (F1 & F2 & F3 & F4 & F5 & F6).
    unfold read_file. rewrite Hfind. cbn [b_flags b_pos b_csize b_fsize].
    rewrite F1, F2, F3, F4, F5, F6. cbn [orb negb andb].
    assert (Hlen : lenN (a_bytes a) <? pos + lenN body = false).
    { apply N.ltb_ge. rewrite Ea. unfold lenN in *. rewrite !app_length. lia. }
    rewrite Hlen.
    assert (Sl : slice (a_bytes a) pos (lenN body) = body) by (rewrite Ea, <- Epre; apply slice_mid).
    rewrite Sl, Hss.
    destruct (f_enc f =? 0) eqn:E0; cbn [negb andb]; [reflexivity|].
    assert (Sp : sectors ssz (concat (mapi (fun i s => encrypt_data s (add32 key i)) 0 ss))
                 = mapi (fun i s => encrypt_data s (add32 key i)) 0 ss).
    { unfold sectors. apply (split_same_shape _ (length data) _ data); [exact Hn0 | lia | lia |].
      rewrite mapi_enc_shape. reflexivity. }
    unfold body. fold key. rewrite Sp, mapi_dec_enc by (apply split_wf, Hwf).
    rewrite Css.
    replace (lenN data <? lenN data) with false by (symmetry; apply N.ltb_irrefl).
    reflexivity.
  Qed.
End RoundTrip.
