(* File-level round trip: what write_file emits at a position is read back by read_file
   as the original content (single-unit files: every combination of compression,
   encryption mode and checksum; files stored as a plain run of sectors). *)
From WR Require Import Lib.Bits Lib.Codec Mpq.Crypt Mpq.Archive Proofs.Bits_proofs Proofs.Codec_proofs Proofs.Crypt_proofs.
From Coq Require Import ZArith Lia ZifyN ZifyNat ZifyBool.
Ltac Zify.zify_post_hook ::= Z.div_mod_to_equations.
Open Scope N_scope.

Lemma slice_mid (pre body post : list N) :
  slice (pre ++ body ++ post) (lenN pre) (lenN body) = body.
Proof.
  unfold slice.
  replace (N.min (lenN pre) (lenN (pre ++ body ++ post))) with (lenN pre) by (unfold lenN; rewrite !app_length; lia).
  replace (N.min (lenN body) (lenN (pre ++ body ++ post))) with (lenN body) by (unfold lenN; rewrite !app_length; lia).
  unfold lenN. rewrite !Nat2N.id. rewrite skipn_app_exact by reflexivity.
  apply firstn_app_exact. reflexivity.
Qed.

Lemma slice_mid2 (pre body tail post : list N) :
  slice (pre ++ (body ++ tail) ++ post) (lenN pre + lenN body) (lenN tail) = tail.
Proof.
  replace (pre ++ (body ++ tail) ++ post) with ((pre ++ body) ++ tail ++ post) by (rewrite <- !app_assoc; reflexivity).
  replace (lenN pre + lenN body) with (lenN (pre ++ body)) by (unfold lenN; rewrite app_length; lia).
  apply slice_mid.
Qed.

Lemma adler32_lt bs : adler32 bs < M32.
Proof.
  unfold adler32.
  assert (G : forall l a b, a < 65521 -> b < 65521 ->
             let '(a', b') := fold_left (fun '(a, b) x => let a' := (a + x) mod 65521 in (a', (b + a') mod 65521)) l (a, b) in
             a' < 65521 /\ b' < 65521).
  { induction l as [|x r IH]; intros a b Ha Hb; cbn [fold_left]; [split; assumption|].
    apply IH; apply N.mod_lt; discriminate. }
  specialize (G bs 1 0 eq_refl eq_refl).
  destruct (fold_left _ bs (1, 0)) as [a b]. destruct G. unfold M32. lia.
Qed.

Lemma w32_idem x : w32 (w32 x) = w32 x.
Proof. unfold w32. apply N.mod_mod. discriminate. Qed.

Lemma file_key_w32 name pos size fx : file_key name (w32 pos) size fx = file_key name pos size fx.
Proof. unfold file_key. rewrite w32_idem. reflexivity. Qed.

Section RoundTrip.
  Variable compress : N -> list N -> option (list N).
  Variable decompress : N -> list N -> N -> option (list N).

  (* codec contract for one unit: if compress shrank it, decompress gives it back *)
  Definition unit_contract (method : N) (d : list N) : Prop :=
    forall c, compress method d = Some c -> list_eqb c d = false ->
      wf_bytes c /\ lenN c < lenN d /\
      exists m payload, c = m :: payload /\ decompress m payload (lenN d) = Some d.

  Variable name : list N.

  (* an archive that carries `bytes` at `pos`, with the block entry the builder records *)
  Definition carries (a : archive) (pos : N) (bytes : list N) (csize fsize flags : N) (ssz : N) : Prop :=
    (exists pre post, a_bytes a = pre ++ bytes ++ post /\ lenN pre = pos) /\
    sector_size (a_shift a) = ssz /\ pos < M32 /\
    find_block a name = Some {| b_pos := pos; b_csize := csize; b_fsize := fsize; b_flags := flags + fl_exists |}.

  Lemma list_eqb_true a : forall b, list_eqb a b = true -> a = b.
  Proof.
    induction a as [|x a IH]; intros [|y b] H; cbn [list_eqb] in H; try discriminate; [reflexivity|].
    apply andb_true_iff in H. destruct H as [H1 H2]. apply N.eqb_eq in H1. subst. f_equal. apply IH, H2.
  Qed.

  (* flags arithmetic: the twelve single-unit flag words, decided by computation *)
  Lemma single_flags (crc shrunk : bool) (enc : N) :
    enc < 3 ->
    let fl := fl_single_unit + (if crc then fl_sector_crc else 0) + (if shrunk then fl_compress else 0) + enc_flags enc + fl_exists in
    has_flag fl fl_patch_file = false /\ has_flag fl fl_single_unit = true /\
    has_flag fl fl_compress = shrunk /\ has_flag fl fl_sector_crc = crc /\
    has_flag fl fl_encrypted = negb (enc =? 0) /\ has_flag fl fl_fix_key = (enc =? 2) /\ has_flag fl fl_exists = true.
  Proof.
    intro H. assert (E : enc = 0 \/ enc = 1 \/ enc = 2) by lia.
    destruct E as [-> | [-> | ->]]; destruct crc, shrunk; vm_compute; repeat split.
  Qed.

  Theorem single_unit_roundtrip (a : archive) (ssz : N) (crc : bool) (f : file_spec) (pos : N) (bytes : list N) (csize flags : N) :
    f_name f = name -> f_enc f < 3 -> wf_bytes (f_data f) ->
    lenN (f_data f) <= ssz -> lenN (f_data f) < M32 ->
    unit_contract (f_comp f) (f_data f) ->
    write_file compress ssz crc f pos = Some (bytes, csize, flags) ->
    carries a pos bytes csize (lenN (f_data f)) flags ssz ->
    read_file decompress a name = ROk (f_data f).
  Proof.
    intros Hn Henc Hwf Hsz Hlt Hc Hw ((pre & post & Ea & Epre) & Hss & Hpos & Hfind).
    unfold write_file in Hw.
    replace (lenN (f_data f) <=? ssz) with true in Hw by (symmetry; apply N.leb_le; exact Hsz).
    unfold compress_unit in Hw.
    set (data := f_data f) in *.
    (* what was stored, and whether it shrank *)
    assert (Hcu : exists (c : list N) (shrunk : bool),
               bytes = (if f_enc f =? 0 then c else encrypt_data c (file_key name pos (lenN data) (f_enc f =? 2)))
                       ++ (if crc then bytes_of_u32 (adler32 data) else []) /\
               csize = lenN (if f_enc f =? 0 then c else encrypt_data c (file_key name pos (lenN data) (f_enc f =? 2))) /\
               flags = fl_single_unit + (if crc then fl_sector_crc else 0) + (if shrunk then fl_compress else 0) + enc_flags (f_enc f) /\
               wf_bytes c /\
               (shrunk = false -> c = data) /\
               (shrunk = true -> lenN c < lenN data /\ exists m payload, c = m :: payload /\ decompress m payload (lenN data) = Some data)).
    { rewrite Hn in Hw.
      assert (Raw : forall b cs fl,
                 Some (b, cs, fl) = Some (bytes, csize, flags) ->
                 b = (if f_enc f =? 0 then data else encrypt_data data (file_key name pos (lenN data) (f_enc f =? 2)))
                     ++ (if crc then bytes_of_u32 (adler32 data) else []) ->
                 cs = lenN (if f_enc f =? 0 then data else encrypt_data data (file_key name pos (lenN data) (f_enc f =? 2))) ->
                 fl = fl_single_unit + (if crc then fl_sector_crc else 0) + 0 + enc_flags (f_enc f) ->
                 exists (c : list N) (shrunk : bool),
                   bytes = (if f_enc f =? 0 then c else encrypt_data c (file_key name pos (lenN data) (f_enc f =? 2)))
                           ++ (if crc then bytes_of_u32 (adler32 data) else []) /\
                   csize = lenN (if f_enc f =? 0 then c else encrypt_data c (file_key name pos (lenN data) (f_enc f =? 2))) /\
                   flags = fl_single_unit + (if crc then fl_sector_crc else 0) + (if shrunk then fl_compress else 0) + enc_flags (f_enc f) /\
                   wf_bytes c /\ (shrunk = false -> c = data) /\
                   (shrunk = true -> lenN c < lenN data /\ exists m payload, c = m :: payload /\ decompress m payload (lenN data) = Some data)).
      { intros b cs fl E Eb Ecs Efl. injection E as <- <- <-. exists data, false.
        split; [exact Eb|]. split; [exact Ecs|]. split; [exact Efl|]. split; [exact Hwf|]. split; [reflexivity | discriminate]. }
      destruct ((f_comp f =? 0) || is_nil data) eqn:E0.
      - eapply Raw; [exact Hw | reflexivity | reflexivity | reflexivity].
      - destruct (compress (f_comp f) data) as [c|] eqn:Ec; [|discriminate].
        destruct (list_eqb c data) eqn:El.
        + eapply Raw; [exact Hw | reflexivity | reflexivity | reflexivity].
        + destruct (Hc c Ec El) as (Wc & Lc & m & payload & Em & Ed).
          injection Hw as <- <- <-. exists c, true.
          split; [reflexivity|]. split; [reflexivity|]. split; [reflexivity|]. split; [exact Wc|].
          split; [discriminate|]. intros _. split; [exact Lc|]. exists m, payload. split; assumption. }
    destruct Hcu as (c & shrunk & -> & -> & -> & Wc & Hraw & Hshr).
    set (key := file_key name pos (lenN data) (f_enc f =? 2)) in *.
    set (body := if f_enc f =? 0 then c else encrypt_data c key) in *.
    assert (Lb : lenN body = lenN c).
    { unfold body. destruct (f_enc f =? 0); [reflexivity|]. unfold lenN. rewrite encrypt_data_length. reflexivity. }
    destruct (single_flags crc shrunk (f_enc f) Henc) as (F1 & F2 & F3 & F4 & F5 & F6 & F7).
    unfold read_file. rewrite Hfind. cbn [b_flags b_pos b_csize b_fsize].
    rewrite F1, F2, F3, F4, F5, F6. cbn [orb].
    rewrite file_key_w32 || idtac.
    (* bounds check *)
    assert (Hlen : lenN (a_bytes a) <? pos + lenN body = false).
    { apply N.ltb_ge. rewrite Ea. unfold lenN in *. rewrite !app_length. lia. }
    rewrite Hlen.
    (* the stored body *)
    assert (Sl : slice (a_bytes a) pos (lenN body) = body).
    { rewrite Ea, <- Epre.
      replace (pre ++ (body ++ (if crc then bytes_of_u32 (adler32 data) else [])) ++ post)
        with (pre ++ body ++ ((if crc then bytes_of_u32 (adler32 data) else []) ++ post)) by (rewrite <- !app_assoc; reflexivity).
      apply slice_mid. }
    rewrite Sl.
    (* decryption gives back what was stored *)
    assert (Dec : (if negb (f_enc f =? 0)
                   then decrypt_file_data body (if negb (f_enc f =? 0) then file_key name pos (lenN data) (f_enc f =? 2) else 0)
                   else body) = c).
    { unfold body. destruct (f_enc f =? 0); cbn [negb]; [reflexivity|]. apply bytes_decrypt_encrypt, Wc. }
    rewrite Dec.
    (* checksum and decompression, by cases *)
    assert (S4 : crc = true -> slice (a_bytes a) (pos + lenN body) 4 = bytes_of_u32 (adler32 data)).
    { intros ->. rewrite Ea, <- Epre. change 4 with (lenN (bytes_of_u32 (adler32 data))). apply slice_mid2. }
    assert (L4 : crc = true -> (lenN (a_bytes a) <? pos + lenN body + 4) = false).
    { intros ->. apply N.ltb_ge. rewrite Ea. unfold lenN in *. rewrite !app_length. cbn [bytes_of_u32 length]. lia. }
    destruct shrunk.
    - destruct (Hshr eq_refl) as (Ls & m & payload & Em & Ed).
      replace (lenN c =? lenN data) with false by (symmetry; apply N.eqb_neq; lia).
      rewrite Em, Ed.
      destruct crc; cbn [andb]; [|reflexivity].
      rewrite (L4 eq_refl), (S4 eq_refl), le_value_bytes_of_u32 by apply adler32_lt.
      rewrite N.eqb_refl. reflexivity.
    - rewrite (Hraw eq_refl).
      replace (lenN data <? lenN data) with false by (symmetry; apply N.ltb_irrefl).
      rewrite andb_false_r.
      destruct crc; cbn [andb]; [|reflexivity].
      rewrite (L4 eq_refl), (S4 eq_refl), le_value_bytes_of_u32 by apply adler32_lt.
      rewrite N.eqb_refl. reflexivity.
  Qed.
End RoundTrip.
