(* DBC: the string block stores each distinct string once and every recorded offset reads
   back its string; a written record reads back; a written table reads back; the file
   size formula; binary search over the sorted key table finds a record with the key. *)
From Coq Require Import List NArith Bool Arith Lia.
From WR Require Import Lib.Bits Lib.Codec Fmt.Dbc Proofs.Bits_proofs Proofs.Codec_proofs.
Import ListNotations.
Open Scope N_scope.

Definition nul_free (s : list N) : Prop := Forall (fun c => c <> 0) s.

Lemma list_eqb_iff a : forall b, list_eqb a b = true <-> a = b.
Proof.
  induction a as [|x a IH]; intros [|y b]; cbn [list_eqb]; split; intro H; try discriminate; try reflexivity.
  - apply andb_prop in H. destruct H as [H1 H2]. apply N.eqb_eq in H1. apply IH in H2. subst. reflexivity.
  - inversion H; subst. rewrite N.eqb_refl. cbn [andb]. apply IH. reflexivity.
Qed.

Lemma assoc_find_some a s o : assoc_find a s = Some o -> In (s, o) a.
Proof.
  induction a as [|[k v] r IH]; cbn [assoc_find]; [discriminate|].
  destruct (list_eqb k s) eqn:E; intro H.
  - apply list_eqb_iff in E. inversion H; subst. left. reflexivity.
  - right. auto.
Qed.

Lemma assoc_find_none a s : assoc_find a s = None -> ~ In s (map fst a).
Proof.
  induction a as [|[k v] r IH]; cbn [assoc_find map fst]; [auto|].
  destruct (list_eqb k s) eqn:E; [discriminate|]. intros H [X|X].
  - subst k. rewrite (proj2 (list_eqb_iff s s) eq_refl) in E. discriminate.
  - exact (IH H X).
Qed.

Lemma assoc_find_in a s : In s (map fst a) -> exists o, assoc_find a s = Some o.
Proof.
  induction a as [|[k v] r IH]; cbn [assoc_find map fst]; [contradiction|].
  intros [X|X]; destruct (list_eqb k s) eqn:E; eauto.
  subst k. rewrite (proj2 (list_eqb_iff s s) eq_refl) in E. discriminate.
Qed.

(* ---- reading a string at an offset ------------------------------------------------------------------ *)
Lemma cstr_at_app s rest : nul_free s -> cstr_at (s ++ 0 :: rest) = s.
Proof.
  induction s as [|c r IH]; intro H; cbn [app cstr_at]; [reflexivity|].
  inversion H; subst. destruct (N.eqb_spec c 0); [contradiction|]. f_equal. auto.
Qed.

(* the state of the builder: every recorded string sits at its offset, terminated; keys are distinct *)
Record Good (st : sb_state) : Prop := {
  g_at : forall s o, In (s, o) (snd st) -> nul_free s /\ exists rest, skipn (N.to_nat o) (fst st) = s ++ 0 :: rest;
  g_nodup : NoDup (map fst (snd st)) }.

Lemma good_init : Good sb_init.
Proof.
  constructor; cbn.
  - intros s o [H|[]]. inversion H; subst. split; [constructor|]. exists []. reflexivity.
  - constructor; [intros []|constructor].
Qed.

Lemma skipn_app_le {A} (a b : list A) n : (n <= length a)%nat -> skipn n (a ++ b) = skipn n a ++ b.
Proof.
  revert n. induction a as [|x r IH]; intros n H; cbn [length] in H.
  - assert (n = 0%nat) by lia. subst. reflexivity.
  - destruct n; [reflexivity|]. cbn [app skipn]. apply IH. lia.
Qed.

Lemma good_add st s : Good st -> nul_free s -> Good (sb_add st s).
Proof.
  intros [Ha Hn] Hs. unfold sb_add. destruct (assoc_find (snd st) s) eqn:E; [constructor; assumption|].
  constructor; cbn [fst snd].
  - intros t o [H|H].
    + inversion H; subst. split; [exact Hs|]. exists []. unfold lenN. rewrite Nat2N.id.
      rewrite skipn_app_le by lia. rewrite skipn_all. reflexivity.
    + destruct (Ha t o H) as [Ht [rest Er]]. split; [exact Ht|]. exists (rest ++ s ++ [0]).
      assert (L : (N.to_nat o <= length (fst st))%nat).
      { destruct (Nat.le_gt_cases (N.to_nat o) (length (fst st))) as [X|X]; [exact X|].
        rewrite skipn_all2 in Er by lia. destruct t; discriminate. }
      rewrite skipn_app_le by exact L. rewrite Er. rewrite <- app_assoc. reflexivity.
  - cbn [map fst]. constructor; [apply assoc_find_none; exact E|exact Hn].
Qed.

Lemma good_fold ss : forall st, Good st -> Forall nul_free ss -> Good (fold_left sb_add ss st).
Proof.
  induction ss as [|s r IH]; intros st G F; cbn [fold_left]; [exact G|].
  inversion F; subst. apply IH; [apply good_add; assumption|assumption].
Qed.

(* strings stay recorded, at the same offset, whatever is added later *)
Lemma add_keeps st s t o : assoc_find (snd st) t = Some o -> assoc_find (snd (sb_add st s)) t = Some o.
Proof.
  intro H. unfold sb_add. destruct (assoc_find (snd st) s) eqn:E; [exact H|].
  cbn [snd assoc_find]. destruct (list_eqb s t) eqn:X; [|exact H].
  apply list_eqb_iff in X. subst. rewrite H in E. discriminate.
Qed.

Lemma fold_keeps ss : forall st t o, assoc_find (snd st) t = Some o -> assoc_find (snd (fold_left sb_add ss st)) t = Some o.
Proof. induction ss as [|s r IH]; intros st t o H; cbn [fold_left]; [exact H|]. apply IH. apply add_keeps. exact H. Qed.

Lemma add_records st s : exists o, assoc_find (snd (sb_add st s)) s = Some o.
Proof.
  unfold sb_add. destruct (assoc_find (snd st) s) eqn:E; [eauto|].
  cbn [snd assoc_find]. rewrite (proj2 (list_eqb_iff s s) eq_refl). eauto.
Qed.

Lemma fold_records ss : forall st t, In t ss -> exists o, assoc_find (snd (fold_left sb_add ss st)) t = Some o.
Proof.
  induction ss as [|s r IH]; intros st t I; [contradiction|]. cbn [fold_left]. destruct I as [I|I].
  - subst. destruct (add_records st t) as [o Ho]. exists o. apply fold_keeps. exact Ho.
  - apply IH. exact I.
Qed.

(* every string of the table is in the block, once, and its offset reads it back *)
Theorem string_block_correct recs :
  Forall nul_free (strings_of recs) ->
  let st := build_block recs in
  NoDup (map fst (snd st)) /\
  forall s, In s (strings_of recs) -> get_string (fst st) (offset_of (snd st) s) = s.
Proof.
  intros F st. pose proof (good_fold (strings_of recs) sb_init good_init F) as G. fold (build_block recs) in G. fold st in G.
  split; [exact (g_nodup st G)|].
  intros s I. destruct (fold_records (strings_of recs) sb_init s I) as [o Ho]. fold (build_block recs) in Ho. fold st in Ho.
  unfold offset_of. rewrite Ho. destruct (g_at st G s o (assoc_find_some _ _ _ Ho)) as [Hs [rest Er]].
  unfold get_string. rewrite Er. apply cstr_at_app. exact Hs.
Qed.

(* the empty string is stored at offset 0 *)
Lemma empty_at_zero recs : offset_of (snd (build_block recs)) [] = 0.
Proof.
  unfold offset_of, build_block. rewrite (fold_keeps (strings_of recs) sb_init [] 0); reflexivity.
Qed.

(* ---- records ------------------------------------------------------------------------------------------ *)
(* a record fits its schema: one cell per element, numbers below 256^width, offsets of strings fit 32 bits *)
Fixpoint fits (ts : list ftype) (r : record) : bool :=
  match ts, r with
  | [], [] => true
  | TNum w :: ts', CNum v :: r' => (v <? pow256 w) && fits ts' r'
  | TStr :: ts', CStr _ :: r' => fits ts' r'
  | _, _ => false
  end.

Lemma cells_roundtrip block a ts : forall r,
  fits ts r = true ->
  (forall s, In s (strings_of_record r) -> get_string block (offset_of a s) = s) ->
  cells_of ts (map (cell_num a) r) block = r.
Proof.
  induction ts as [|t ts IH]; intros [|c r] F H; cbn [fits] in F; try discriminate; try (destruct t; discriminate); [reflexivity|].
  destruct t as [w|]; destruct c as [v|s]; try discriminate; cbn [map cell_num cells_of].
  - apply andb_prop in F. destruct F as [_ F]. f_equal. apply IH; [exact F|]. intros s I. apply H. exact I.
  - f_equal; [f_equal; apply H; left; reflexivity|]. apply IH; [exact F|]. intros t I. apply H. cbn [strings_of_record flat_map app]. right. exact I.
Qed.

Lemma fits_wt a ts : forall r,
  fits ts r = true -> (forall s, In s (strings_of_record r) -> offset_of a s < pow256 4) -> wt (map width ts) (map (cell_num a) r) = true.
Proof.
  induction ts as [|t ts IH]; intros [|c r] F H; cbn [fits] in F; try discriminate; try (destruct t; discriminate); [reflexivity|].
  destruct t as [w|]; destruct c as [v|s]; try discriminate; cbn [map cell_num width wt].
  - apply andb_prop in F. destruct F as [Fv F]. rewrite Fv. cbn [andb]. apply IH; [exact F|]. intros s I. apply H. exact I.
  - assert (L : offset_of a s < pow256 4) by (apply H; left; reflexivity). apply N.ltb_lt in L. rewrite L. cbn [andb].
    apply IH; [exact F|]. intros t I. apply H. cbn [strings_of_record flat_map app]. right. exact I.
Qed.

(* one written record reads back, whatever follows it *)
Theorem record_roundtrip sch block a r rest :
  fits (flat sch) r = true ->
  (forall s, In s (strings_of_record r) -> get_string block (offset_of a s) = s /\ offset_of a s < pow256 4) ->
  read_record sch block (write_record (lay sch) a r ++ rest) = Some (r, rest).
Proof.
  intros F H. unfold read_record, write_record, lay.
  rewrite dec_enc by (apply fits_wt; [exact F|intros s I; apply H; exact I]).
  rewrite cells_roundtrip; [reflexivity|exact F|intros s I; apply H; exact I].
Qed.

(* all records, written one after the other, read back *)
Theorem records_roundtrip sch block a recs : forall rest,
  Forall (fun r => fits (flat sch) r = true) recs ->
  (forall s, In s (strings_of recs) -> get_string block (offset_of a s) = s /\ offset_of a s < pow256 4) ->
  read_records (length recs) sch block (concat (map (write_record (lay sch) a) recs) ++ rest) = Some recs.
Proof.
  induction recs as [|r rs IH]; intros rest F H; cbn [length read_records map concat]; [reflexivity|].
  inversion F; subst. rewrite <- app_assoc.
  rewrite record_roundtrip; [|assumption|intros s I; apply H; cbn [strings_of flat_map]; apply in_or_app; left; exact I].
  rewrite IH; [reflexivity|assumption|intros s I; apply H; cbn [strings_of flat_map]; apply in_or_app; right; exact I].
Qed.

(* ---- binary search --------------------------------------------------------------------------------------- *)
(* whatever the table: a position returned by the search carries the key *)
Theorem bsearch_sound fuel : forall t lo hi key pos,
  bsearch fuel t lo hi key = Some pos -> exists i, nth_error t pos = Some (key, i).
Proof.
  induction fuel as [|f IH]; intros t lo hi key pos H; cbn [bsearch] in H; [discriminate|].
  destruct (hi <=? lo)%nat; [discriminate|].
  destruct (nth_error t (lo + (hi - lo) / 2)) as [[k i]|] eqn:E; [|discriminate].
  destruct (N.eqb_spec k key) as [X|X].
  - inversion H; subst. exists i. exact E.
  - destruct (k <? key); eapply IH; exact H.
Qed.

Theorem lookup_sorted_sound t key i :
  lookup_sorted t key = Some i -> In (key, i) t.
Proof.
  unfold lookup_sorted. destruct (bsearch (S (length t)) t 0 (length t) key) as [pos|] eqn:E; [|discriminate].
  destruct (bsearch_sound _ _ _ _ _ _ E) as [j Hj]. rewrite Hj. intro H. inversion H; subst. eapply nth_error_In. exact Hj.
Qed.

(* sorted tables: a key that is present is found *)
Definition sorted_keys (t : list (N * N)) : Prop :=
  forall a b ka ia kb ib, (a < b)%nat -> nth_error t a = Some (ka, ia) -> nth_error t b = Some (kb, ib) -> ka <= kb.

Theorem bsearch_complete fuel : forall t lo hi key p i,
  sorted_keys t -> (lo <= p < hi)%nat -> (hi <= length t)%nat -> nth_error t p = Some (key, i) -> (hi - lo < fuel)%nat ->
  exists pos, bsearch fuel t lo hi key = Some pos.
Proof.
  induction fuel as [|f IH]; intros t lo hi key p i S R L E Hf; [lia|].
  cbn [bsearch]. destruct (Nat.leb_spec hi lo); [lia|].
  set (mid := (lo + (hi - lo) / 2)%nat).
  assert (Hm : (lo <= mid < hi)%nat).
  { unfold mid. pose proof (Nat.div_lt_upper_bound (hi - lo) 2 (hi - lo)). pose proof (Nat.div_mod (hi - lo) 2). split; [lia|].
    assert ((hi - lo) / 2 < hi - lo)%nat by (apply Nat.div_lt; lia). lia. }
  destruct (nth_error t mid) as [[k j]|] eqn:Em.
  - destruct (N.eqb_spec k key); [eauto|].
    destruct (N.ltb_spec k key) as [X|X].
    + (* key is to the right of mid *)
      assert (mid < p)%nat.
      { destruct (Nat.lt_trichotomy mid p) as [Y|[Y|Y]]; [exact Y| |].
        - subst p. rewrite E in Em. inversion Em. lia.
        - pose proof (S p mid key i k j Y E Em). lia. }
      apply (IH t (Datatypes.S mid) hi key p i); try assumption; lia.
    + assert (p < mid)%nat.
      { destruct (Nat.lt_trichotomy mid p) as [Y|[Y|Y]]; [|subst p; rewrite E in Em; inversion Em; lia|exact Y].
        pose proof (S mid p k j key i Y Em E). lia. }
      apply (IH t lo mid key p i); try assumption; lia.
  - apply nth_error_None in Em. lia.
Qed.

Theorem lookup_sorted_complete t key i :
  sorted_keys t -> In (key, i) t -> exists j, lookup_sorted t key = Some j /\ In (key, j) t.
Proof.
  intros S I. apply In_nth_error in I. destruct I as [p Hp].
  assert (Hl : (p < length t)%nat) by (apply nth_error_Some; rewrite Hp; discriminate).
  destruct (bsearch_complete (Datatypes.S (length t)) t 0 (length t) key p i S ltac:(lia) ltac:(lia) Hp ltac:(lia)) as [pos Hpos].
  unfold lookup_sorted. rewrite Hpos. destruct (bsearch_sound _ _ _ _ _ _ Hpos) as [j Hj]. rewrite Hj.
  exists j. split; [reflexivity|]. eapply nth_error_In. exact Hj.
Qed.

Example dbc_example :
  let sch := [(TNum 4, 1%nat); (TStr, 1%nat); (TNum 1, 2%nat)] in
  let recs := [[CNum 7; CStr [104; 105]; CNum 1; CNum 2]; [CNum 9; CStr []; CNum 3; CNum 4]; [CNum 8; CStr [104; 105]; CNum 5; CNum 6]] in
  dbc_read sch (dbc_write sch true recs) = Some recs
  /\ length (dbc_write sch true recs) = (20 + 3 * 10 + 4)%nat
  /\ lookup_sorted (sort_keys [(7, 0); (9, 1); (8, 2)]) 8 = Some 2.
Proof. vm_compute. repeat split. Qed.

(* ---- the whole file ------------------------------------------------------------------------------------ *)
Lemma write_record_length sch a r :
  fits (flat sch) r = true -> (forall s, In s (strings_of_record r) -> offset_of a s < pow256 4) ->
  length (write_record (lay sch) a r) = lay_size (lay sch).
Proof. intros F H. unfold write_record, lay. apply enc_length. apply fits_wt; assumption. Qed.

Lemma records_length sch a recs :
  Forall (fun r => fits (flat sch) r = true) recs ->
  (forall s, In s (strings_of recs) -> offset_of a s < pow256 4) ->
  length (concat (map (write_record (lay sch) a) recs)) = (length recs * lay_size (lay sch))%nat.
Proof.
  induction recs as [|r rs IH]; intros F H; cbn [map concat length]; [reflexivity|].
  inversion F; subst. rewrite app_length.
  rewrite write_record_length; [|assumption|intros s I; apply H; cbn [strings_of flat_map]; apply in_or_app; left; exact I].
  rewrite IH; [lia|assumption|intros s I; apply H; cbn [strings_of flat_map]; apply in_or_app; right; exact I].
Qed.

(* a recorded offset lies inside the block *)
Lemma offset_in_block st s o : Good st -> assoc_find (snd st) s = Some o -> o < lenN (fst st).
Proof.
  intros G H. destruct (g_at st G s o (assoc_find_some _ _ _ H)) as [_ [rest Er]].
  destruct (N.lt_ge_cases o (lenN (fst st))) as [L|L]; [exact L|].
  rewrite skipn_all2 in Er by (unfold lenN in L; lia). destruct s; discriminate.
Qed.

Lemma firstn_skipn_le4 (pre : list N) v rest : length pre = 0%nat \/ True ->
  forall k, length pre = k -> firstn 4 (skipn k (pre ++ le_bytes 4 v ++ rest)) = le_bytes 4 v.
Proof.
  intros _ k Hk. rewrite skipn_app, skipn_all2 by lia. replace (k - length pre)%nat with 0%nat by lia. cbn [skipn app].
  rewrite firstn_app, firstn_all2 by (rewrite le_bytes_length; lia). rewrite le_bytes_length. cbn [Nat.sub firstn]. apply app_nil_r.
Qed.

(* parse (write t) = t for every well-formed table *)
Theorem dbc_roundtrip sch arrays recs :
  Forall (fun r => fits (flat sch) r = true) recs ->
  Forall nul_free (strings_of recs) ->
  lenN recs < pow256 4 -> field_count sch arrays < pow256 4 -> N.of_nat (lay_size (lay sch)) < pow256 4 ->
  lenN (fst (build_block recs)) < pow256 4 ->
  dbc_read sch (dbc_write sch arrays recs) = Some recs.
Proof.
  intros F Hs Hc Hf Hr Hb. unfold dbc_write, dbc_read.
  set (st := build_block recs) in *.
  pose proof (good_fold (strings_of recs) sb_init good_init Hs) as G. fold (build_block recs) in G. fold st in G.
  destruct (string_block_correct recs Hs) as [_ Hget]. fold st in Hget.
  assert (Hoff : forall s, In s (strings_of recs) -> offset_of (snd st) s < pow256 4).
  { intros s I. destruct (fold_records (strings_of recs) sb_init s I) as [o Ho]. fold (build_block recs) in Ho. fold st in Ho.
    unfold offset_of. rewrite Ho. pose proof (offset_in_block st s o G Ho). lia. }
  set (R := concat (map (write_record (lay sch) (snd st)) recs)).
  assert (LR : length R = (length recs * lay_size (lay sch))%nat) by (apply records_length; assumption).
  (* the five header fields *)
  set (h1 := le_bytes 4 (lenN recs)). set (h2 := le_bytes 4 (field_count sch arrays)).
  set (h3 := le_bytes 4 (N.of_nat (lay_size (lay sch)))). set (h4 := le_bytes 4 (lenN (fst st))).
  assert (L1 : length h1 = 4%nat) by apply le_bytes_length. assert (L2 : length h2 = 4%nat) by apply le_bytes_length.
  assert (L3 : length h3 = 4%nat) by apply le_bytes_length. assert (L4 : length h4 = 4%nat) by apply le_bytes_length.
  assert (Lm : length dbc_magic = 4%nat) by reflexivity.
  set (file := dbc_magic ++ h1 ++ h2 ++ h3 ++ h4 ++ R ++ fst st).
  assert (M : firstn 4 file = dbc_magic) by (unfold file; rewrite firstn_app, firstn_all2 by (rewrite Lm; lia); rewrite Lm; cbn [Nat.sub firstn]; apply app_nil_r).
  rewrite M. replace (list_eqb dbc_magic dbc_magic) with true by reflexivity. cbn [negb].
  assert (C1 : firstn 4 (skipn 4 file) = h1).
  { unfold file. change (dbc_magic ++ h1 ++ h2 ++ h3 ++ h4 ++ R ++ fst st) with (dbc_magic ++ le_bytes 4 (lenN recs) ++ (h2 ++ h3 ++ h4 ++ R ++ fst st)).
    apply firstn_skipn_le4; [right; exact I|exact Lm]. }
  assert (C3 : firstn 4 (skipn 12 file) = h3).
  { unfold file. replace (dbc_magic ++ h1 ++ h2 ++ h3 ++ h4 ++ R ++ fst st) with ((dbc_magic ++ h1 ++ h2) ++ le_bytes 4 (N.of_nat (lay_size (lay sch))) ++ (h4 ++ R ++ fst st)) by (rewrite <- !app_assoc; reflexivity).
    apply firstn_skipn_le4; [right; exact I|rewrite !app_length; lia]. }
  assert (C4 : firstn 4 (skipn 16 file) = h4).
  { unfold file. replace (dbc_magic ++ h1 ++ h2 ++ h3 ++ h4 ++ R ++ fst st) with ((dbc_magic ++ h1 ++ h2 ++ h3) ++ le_bytes 4 (lenN (fst st)) ++ (R ++ fst st)) by (rewrite <- !app_assoc; reflexivity).
    apply firstn_skipn_le4; [right; exact I|rewrite !app_length; lia]. }
  rewrite C1, C3, C4. unfold h1, h3, h4. rewrite !le_value_le_bytes by assumption.
  rewrite N.eqb_refl. cbn [negb].
  assert (B : skipn 20 file = R ++ fst st).
  { unfold file. replace (dbc_magic ++ h1 ++ h2 ++ h3 ++ h4 ++ R ++ fst st) with ((dbc_magic ++ h1 ++ h2 ++ h3 ++ h4) ++ (R ++ fst st)) by (rewrite <- !app_assoc; reflexivity).
    rewrite skipn_app, skipn_all2 by (rewrite !app_length; lia). rewrite !app_length. replace (20 - _)%nat with 0%nat by lia. reflexivity. }
  rewrite B.
  assert (K : N.to_nat (lenN recs * N.of_nat (lay_size (lay sch))) = length R) by (unfold lenN; lia).
  rewrite K. rewrite skipn_app, skipn_all, Nat.sub_diag. cbn [skipn app].
  replace (N.to_nat (lenN (fst st))) with (length (fst st)) by (unfold lenN; lia). rewrite firstn_all.
  replace (N.to_nat (lenN recs)) with (length recs) by (unfold lenN; lia). unfold R.
  apply records_roundtrip; [exact F|]. intros s I. split; [apply Hget; exact I|apply Hoff; exact I].
Qed.

(* ---- the key table as it is built: insertion sort of (key, index) pairs ------------------- *)
Inductive ksorted : list (N * N) -> Prop :=
| ks_nil : ksorted []
| ks_cons x r : Forall (fun y => fst x <= fst y) r -> ksorted r -> ksorted (x :: r).

Lemma insert_key_in e t x : In x (insert_key e t) <-> x = e \/ In x t.
Proof.
  induction t as [|y r IH]; cbn [insert_key In]; [intuition|].
  destruct (fst e <=? fst y); cbn [In]; [intuition | rewrite IH; intuition].
Qed.

Lemma insert_key_sorted e t : ksorted t -> ksorted (insert_key e t).
Proof.
  induction 1 as [|y r Hy Hr IH]; cbn [insert_key]; [constructor; constructor|].
  destruct (fst e <=? fst y) eqn:E.
  - apply N.leb_le in E. constructor; [|constructor; assumption].
    constructor; [exact E|]. eapply Forall_impl; [|exact Hy]. cbn beta. intros z Hz. lia.
  - apply N.leb_gt in E. constructor; [|exact IH].
    apply Forall_forall. intros z Hz. apply insert_key_in in Hz. destruct Hz as [-> | Hz]; [lia|].
    rewrite Forall_forall in Hy. apply Hy, Hz.
Qed.

Lemma sort_keys_in t x : In x (sort_keys t) <-> In x t.
Proof.
  unfold sort_keys. induction t as [|y r IH]; cbn [fold_right In]; [reflexivity|].
  rewrite insert_key_in, IH. intuition.
Qed.

Lemma sort_keys_ksorted t : ksorted (sort_keys t).
Proof. unfold sort_keys. induction t as [|y r IH]; cbn [fold_right]; [constructor | apply insert_key_sorted, IH]. Qed.

Lemma ksorted_sorted_keys t : ksorted t -> sorted_keys t.
Proof.
  induction 1 as [|x r Hx Hr IH]; intros a b ka ia kb ib Hab Ha Hb; [destruct a; discriminate|].
  destruct b as [|b]; [lia|]. cbn [nth_error] in Hb.
  destruct a as [|a]; cbn [nth_error] in Ha.
  - injection Ha as ->. rewrite Forall_forall in Hx. apply nth_error_In in Hb. apply (Hx _ Hb).
  - apply (IH a b ka ia kb ib); [lia | exact Ha | exact Hb].
Qed.

Theorem sort_keys_sorted t : sorted_keys (sort_keys t).
Proof. apply ksorted_sorted_keys, sort_keys_ksorted. Qed.

(* the table the reader builds: every key of the file is found, and what is found is an entry of the file *)
Theorem built_table_lookup t key :
  (forall i, In (key, i) t -> exists j, lookup_sorted (sort_keys t) key = Some j /\ In (key, j) t) /\
  (forall j, lookup_sorted (sort_keys t) key = Some j -> In (key, j) t).
Proof.
  split.
  - intros i Hi. destruct (lookup_sorted_complete (sort_keys t) key i (sort_keys_sorted t)) as (j & Hj & Hin).
    + apply sort_keys_in, Hi.
    + exists j. split; [exact Hj | apply sort_keys_in, Hin].
  - intros j Hj. apply sort_keys_in. eapply lookup_sorted_sound. exact Hj.
Qed.
