(* An admitted header bounds every table by the configured limits, whatever the input. *)
From Coq Require Import List NArith Bool Lia.
From WR Require Import Gen.Consts Mpq.Security.
Open Scope N_scope.

Theorem admitted_header_bounded h :
  validate_header h = 0 ->
  h_hsize h <= sec_max_hash_entries /\ h_bsize h <= sec_max_block_entries /\
  h_hsize h * 16 <= sec_max_hash_entries * 16 /\ h_bsize h * 16 <= sec_max_block_entries * 16 /\
  h_hpos h + h_hsize h * 16 <= h_asize h + sec_table_tolerance /\
  h_bpos h + h_bsize h * 16 <= h_asize h + sec_table_tolerance /\
  h_shift h <= sec_max_sector_shift /\ 0 < h_hsize h /\ h_asize h <= sec_max_archive_gib * 1073741824.
Proof.
  unfold validate_header. intro H.
  repeat match type of H with (if ?c then _ else _) = 0 => destruct c eqn:?; [discriminate|] end.
  repeat match goal with
         | X : negb _ = false |- _ => apply negb_false_iff in X
         | X : (_ && _) = true |- _ => apply andb_prop in X; destruct X
         | X : (_ || _) = false |- _ => apply orb_false_iff in X; destruct X
         | X : (_ <? _) = false |- _ => apply N.ltb_ge in X
         | X : (_ <=? _) = true |- _ => apply N.leb_le in X
         | X : (_ <=? _) = false |- _ => apply N.leb_gt in X
         | X : (_ =? _) = false |- _ => apply N.eqb_neq in X
         end.
  unfold pow2b in *.
  repeat match goal with
         | X : (_ && _) = true |- _ => apply andb_prop in X; destruct X
         | X : negb _ = true |- _ => apply negb_true_iff in X
         | X : (_ =? _) = false |- _ => apply N.eqb_neq in X
         end.
  repeat split; try lia.
Qed.

(* a counted array that passes the bounds check needs no more bytes than the file has *)
Theorem array_ok_bounded len off count esize :
  array_ok len off count esize = true -> count * esize <= len /\ off <= len.
Proof. unfold array_ok. intro H. apply N.leb_le in H. lia. Qed.

Example validate_examples :
  validate_header {| h_sig := 441536589; h_size := 32; h_asize := 1000; h_ver := 0; h_shift := 3; h_hpos := 100; h_bpos := 400; h_hsize := 16; h_bsize := 4 |} = 0
  /\ validate_header {| h_sig := 441536589; h_size := 32; h_asize := 1000; h_ver := 0; h_shift := 3; h_hpos := 100; h_bpos := 400; h_hsize := 4294967295; h_bsize := 4 |} = 8
  /\ validate_header {| h_sig := 441536589; h_size := 32; h_asize := 1000; h_ver := 0; h_shift := 3; h_hpos := 100; h_bpos := 400; h_hsize := 12; h_bsize := 4 |} = 16.
Proof. vm_compute. repeat split. Qed.
