From WR Require Import Lib.Bits Mpq.Archive Mpq.Rebuild.
From Coq Require Import ZArith Lia.
Open Scope N_scope.

Section Facts.
  Variable decompress : N -> list N -> N -> option (list N).

  Lemma in_filter_map {A B} (f : A -> option B) l y :
    In y (filter_map f l) <-> exists x, In x l /\ f x = Some y.
  Proof.
    induction l as [|x r IH]; cbn [filter_map].
    - split; [intros [] | intros (x & [] & _)].
    - destruct (f x) as [z|] eqn:E.
      + split.
        * intros [<- | H]; [exists x; split; [left; reflexivity | exact E] |].
          apply IH in H. destruct H as (x' & Hx & Hf). exists x'. split; [right; exact Hx | exact Hf].
        * intros (x' & [<- | Hx] & Hf); [left; congruence | right; apply IH; exists x'; split; assumption].
      + rewrite IH. split.
        * intros (x' & Hx & Hf). exists x'. split; [right; exact Hx | exact Hf].
        * intros (x' & [<- | Hx] & Hf); [congruence | exists x'; split; assumption].
  Qed.

  Lemma respec_some a o n s :
    respec decompress a o n = Some s ->
    f_name s = n /\ excluded a o n = false /\ read_file decompress a n = ROk (f_data s).
  Proof.
    unfold respec, excluded. destruct (find_block a n) as [b|]; [|discriminate].
    destruct (o_skip_sig o && is_signature_name n); [discriminate|].
    destruct (o_skip_enc o && has_flag (b_flags b) fl_encrypted); [discriminate|].
    destruct (read_file decompress a n) as [d| |]; try discriminate.
    intro E. inversion E; subst. cbn [f_name f_data]. repeat split.
  Qed.

  (* every spec handed to the builder is a listed, non-excluded source file with exactly
     the bytes the source archive returns for it *)
  Theorem rebuild_specs_sound a o f :
    In f (rebuild_specs decompress a o) ->
    In (f_name f) (listed decompress a) /\ excluded a o (f_name f) = false /\
    read_file decompress a (f_name f) = ROk (f_data f).
  Proof.
    unfold rebuild_specs. intro H. apply in_filter_map in H. destruct H as (n & Hn & E).
    destruct (respec_some a o n f E) as (<- & B & Cc). repeat split; assumption.
  Qed.

  (* every listed, non-excluded, READABLE source file is handed to the builder *)
  Theorem rebuild_specs_complete a o n d :
    In n (listed decompress a) -> excluded a o n = false -> read_file decompress a n = ROk d ->
    exists f, In f (rebuild_specs decompress a o) /\ f_name f = n /\ f_data f = d.
  Proof.
    intros Hin Hex Hr. unfold excluded in Hex.
    destruct (find_block a n) as [b|] eqn:Ef; [|discriminate].
    apply orb_false_iff in Hex. destruct Hex as [E1 E2].
    eexists. split.
    - unfold rebuild_specs. apply in_filter_map. exists n. split; [exact Hin|].
      unfold respec. rewrite Ef, E1, E2, Hr. reflexivity.
    - split; reflexivity.
  Qed.

  (* the gap: a listed, non-excluded file that fails to read is dropped without an error *)
  Theorem rebuild_unreadable_dropped a o n :
    read_file decompress a n = RErr -> ~ exists f, In f (rebuild_specs decompress a o) /\ f_name f = n.
  Proof.
    intros Hr (f & Hin & <-). destruct (rebuild_specs_sound a o f Hin) as (_ & _ & E). congruence.
  Qed.
End Facts.
