(* Interoperability at model level: the reference reader (MpqRef.v, written from the published
   format) opens what the library's builder writes and reads every unencrypted file of it
   bit-identically. *)
From WR Require Import Lib.Bits Lib.Codec Mpq.Crypt Mpq.Archive Mpq.MpqRef Proofs.Bits_proofs Proofs.Codec_proofs Proofs.Crypt_proofs
  Proofs.HashTable_proofs Proofs.FileLayout_proofs Proofs.Sectors_proofs Proofs.Build_proofs.
From Coq Require Import ZArith Lia ZifyN ZifyNat ZifyBool.
Ltac Zify.zify_post_hook ::= Z.div_mod_to_equations.
Open Scope N_scope.

(* ---- hash table probing ------------------------------------------------------------------------ *)
Lemma nth_words ht idx : (idx < length ht)%nat -> nth idx (map hentry_words ht) [] = hentry_words (nth idx ht hempty).
Proof. intro H. rewrite (nth_indep _ [] (hentry_words hempty)) by (rewrite map_length; exact H). apply map_nth. Qed.

Lemma probe_equiv k : forall fuel ht idx a b,
  Forall hplain ht ->
  ref_probe fuel (map hentry_words ht) (2 ^ k) idx a b = option_map snd (ht_find_loop fuel ht (2 ^ k) idx a b).
Proof.
  induction fuel as [|fuel IH]; intros ht idx a b Hp; [reflexivity|].
  cbn [ref_probe ht_find_loop].
  destruct (Nat.lt_ge_cases (N.to_nat idx) (length ht)) as [Hin | Hout].
  - rewrite nth_words by exact Hin.
    set (e := nth (N.to_nat idx) ht hempty).
    assert (He : hplain e) by (rewrite Forall_forall in Hp; apply Hp, nth_In, Hin).
    destruct He as (_ & _ & _ & _ & Hb). unfold hentry_words.
    destruct (h_block e =? 4294967295) eqn:E1.
    + apply N.eqb_eq in E1.
      replace (h_block e <? he_deleted) with false by (symmetry; apply N.ltb_ge; rewrite E1; unfold he_deleted; lia).
      rewrite andb_false_r. change he_never_used with 4294967295. rewrite E1. reflexivity.
    + apply N.eqb_neq in E1. change he_never_used with 4294967295.
      replace (h_block e =? 4294967295) with false by (symmetry; apply N.eqb_neq; exact E1).
      replace (negb (h_block e =? 4294967294)) with (h_block e <? he_deleted).
      2: { unfold he_deleted. unfold M32 in Hb. destruct (h_block e =? 4294967294) eqn:E2; cbn [negb].
           - apply N.eqb_eq in E2. apply N.ltb_ge. lia.
           - apply N.eqb_neq in E2. apply N.ltb_lt. lia. }
      destruct ((h_a e =? a) && (h_b e =? b) && (h_block e <? he_deleted)); [reflexivity|].
      rewrite land_mask. apply IH, Hp.
  - rewrite (nth_overflow (map hentry_words ht)) by (rewrite map_length; exact Hout).
    rewrite (nth_overflow ht) by exact Hout.
    change (h_block hempty <? he_deleted) with false. rewrite andb_false_r. reflexivity.
Qed.

Lemma nth_error_map' {A B} (f : A -> B) l n : nth_error (map f l) n = option_map f (nth_error l n).
Proof. revert n. induction l as [|x r IH]; intros [|n]; cbn [map nth_error option_map]; try reflexivity. apply IH. Qed.

Definition as_ref (a : archive) : rarchive :=
  {| ra_bytes := a_bytes a; ra_shift := a_shift a; ra_hash := map hentry_words (a_hash a); ra_block := map bentry_words (a_blocks a) |}.

Lemma ref_find_equiv (a : archive) (k : N) (name : list N) :
  Forall hplain (a_hash a) -> lenN (a_hash a) = 2 ^ k -> wf_bytes name ->
  ref_find (as_ref a) name = option_map bentry_words (find_block a name).
Proof.
  intros Hp Hl Hw. unfold ref_find, find_block, ht_find, as_ref. cbn [ra_hash ra_block].
  assert (Hl' : lenN (map hentry_words (a_hash a)) = 2 ^ k) by (unfold lenN in *; rewrite map_length; exact Hl).
  rewrite Hl', Hl, map_length.
  assert (Hs : 2 ^ k <> 0) by (apply N.pow_nonzero; discriminate).
  replace (2 ^ k =? 0) with false by (symmetry; apply N.eqb_neq; exact Hs).
  rewrite <- !hash_string_eq_ref by (try exact Hw; vm_compute; discriminate).
  rewrite probe_equiv by exact Hp.
  change 0 with ht_table_offset at 1. change 256 with ht_name_a. change 512 with ht_name_b.
  rewrite land_mask.
  destruct (ht_find_loop (length (a_hash a)) (a_hash a) (2 ^ k) (hash_string name ht_table_offset mod 2 ^ k)
              (hash_string name ht_name_a) (hash_string name ht_name_b)) as [[i blk]|]; cbn [option_map snd]; [|reflexivity].
  rewrite nth_error_map'. destruct (nth_error (a_blocks a) (N.to_nat blk)) as [b|]; cbn [option_map]; [|reflexivity].
  unfold bentry_words at 1. change (rflag (b_flags b) R_EXISTS) with (has_flag (b_flags b) fl_exists).
  destruct (has_flag (b_flags b) fl_exists); reflexivity.
Qed.

(* ---- one unencrypted file ------------------------------------------------------------------------ *)
Lemma rslice_eq bs off len : rslice bs off len = slice bs off len.
Proof. reflexivity. Qed.

Lemma ref_flags (single crc shrunk : bool) :
  let fl := (if single then fl_single_unit else 0) + (if crc then fl_sector_crc else 0) + (if shrunk then fl_compress else 0) + fl_exists in
  rflag fl R_ENCRYPTED = false /\ rflag fl R_FIX_KEY = false /\ rflag fl R_SINGLE_UNIT = single /\
  rflag fl R_COMPRESS = shrunk /\ rflag fl R_IMPLODE = false.
Proof. destruct single, crc, shrunk; vm_compute; repeat split. Qed.

Section OneFile.
  Variable compress : N -> list N -> option (list N).
  Variable decompress : N -> list N -> N -> option (list N).

  Lemma ref_unit_ok s c : sec_rel decompress s c -> ref_unit decompress c (lenN s) = Some s.
  Proof.
    intros (_ & [-> | (Hl & m & payload & -> & Hd)]); unfold ref_unit.
    - rewrite N.eqb_refl. reflexivity.
    - replace (lenN (m :: payload) =? lenN s) with false by (symmetry; apply N.eqb_neq; lia). exact Hd.
  Qed.

  Lemma ref_sectors_ok ssz (a : list N) (pos key : N) : forall ss cs,
    Forall2 (sec_rel decompress) ss cs -> sect_ok ssz ss ->
    forall p q i start,
      a = p ++ concat cs ++ q -> lenN p = pos + start ->
      ref_sectors decompress (length ss) a pos (offsets start cs) false key i (lenN (concat ss)) ssz = Some (concat ss).
  Proof.
    induction 1 as [|s c ss cs Hsc HR IH]; intros Hok p q i start Ha Hp; [reflexivity|].
    cbn [length offsets]. rewrite (offsets_hd (start + lenN c) cs).
    cbn [ref_sectors]. rewrite <- (offsets_hd (start + lenN c) cs).
    replace (start + lenN c <? start) with false by (symmetry; apply N.ltb_ge; lia).
    rewrite (min_expected ssz s ss Hok).
    replace (start + lenN c - start) with (lenN c) by lia.
    assert (Sl : rslice a (pos + start) (lenN c) = c).
    { rewrite rslice_eq, Ha. cbn [concat]. rewrite <- app_assoc. apply slice_at; [symmetry; exact Hp | reflexivity]. }
    rewrite Sl, (ref_unit_ok s c Hsc).
    replace (lenN (concat (s :: ss)) - lenN s) with (lenN (concat ss)) by (cbn [concat]; unfold lenN; rewrite app_length; lia).
    rewrite (IH (sect_ok_tail ssz s ss Hok) (p ++ c) q (i + 1) (start + lenN c)).
    - reflexivity.
    - rewrite Ha. cbn [concat]. rewrite <- !app_assoc. reflexivity.
    - rewrite lenN_app. lia.
  Qed.

  Theorem ref_file_roundtrip (ra : rarchive) (ssz : N) (crc : bool) (f : file_spec) (pos : N) (bytes : list N) (csize flags : N) :
    f_enc f = 0 -> wf_bytes (f_data f) -> 0 < ssz -> lenN (f_data f) < M32 -> lenN bytes < M32 ->
    (if lenN (f_data f) <=? ssz then unit_contract compress decompress (f_comp f) (f_data f)
     else Forall (unit_contract compress decompress (f_comp f)) (sectors ssz (f_data f))) ->
    write_file compress ssz crc f pos = Some (bytes, csize, flags) ->
    (exists pre post, ra_bytes ra = pre ++ bytes ++ post /\ lenN pre = pos) ->
    N.shiftl 512 (ra_shift ra) = ssz ->
    ref_find ra (f_name f) = Some [pos; csize; lenN (f_data f); flags + fl_exists] ->
    ref_read decompress ra (f_name f) = Some (f_data f).
  Proof.
    intros Henc Hwf Hpos0 Hlt Hb32 Hcon Hw (pre & post & Ea & Epre) Hss Hfind.
    unfold ref_read. rewrite Hfind, Hss.
    unfold write_file in Hw. rewrite Henc in Hw. change (0 =? 0) with true in Hw. cbv iota in Hw.
    change (enc_flags 0) with 0 in Hw.
    set (data := f_data f) in *.
    destruct (lenN data <=? ssz) eqn:El.
    - (* single unit *)
      apply N.leb_le in El. unfold compress_unit in Hw.
      assert (Hcu : exists (c : list N) (shrunk : bool),
                 bytes = c ++ (if crc then bytes_of_u32 (adler32 data) else []) /\ csize = lenN c /\
                 flags = fl_single_unit + (if crc then fl_sector_crc else 0) + (if shrunk then fl_compress else 0) /\
                 sec_rel decompress data c /\ (shrunk = false -> c = data) /\ (shrunk = true -> lenN c < lenN data)).
      { destruct ((f_comp f =? 0) || is_nil data).
        { injection Hw as <- <- <-. exists data, false. rewrite !N.add_0_r.
          repeat split; try reflexivity; try discriminate; [exact Hwf | left; reflexivity]. }
        destruct (compress (f_comp f) data) as [c|] eqn:Ec; [|discriminate].
        destruct (list_eqb c data) eqn:Eq.
        { injection Hw as <- <- <-. exists data, false. rewrite !N.add_0_r.
          repeat split; try reflexivity; try discriminate; [exact Hwf | left; reflexivity]. }
        destruct (Hcon c Ec Eq) as (Wc & Lc & m & payload & Em & Ed).
        injection Hw as <- <- <-. exists c, true. rewrite !N.add_0_r.
        split; [reflexivity|]. split; [reflexivity|]. split; [reflexivity|].
        split; [split; [exact Wc | right; split; [exact Lc | exists m, payload; split; assumption]]|].
        split; [discriminate | intros _; exact Lc]. }
      destruct Hcu as (c & shrunk & -> & -> & -> & Hrel & Hraw & Hshr).
      destruct (ref_flags true crc shrunk) as (F1 & F2 & F3 & F4 & F5). cbv zeta in F1, F2, F3, F4, F5.
      rewrite F1, F3, F4, F5. rewrite orb_false_r.
      replace (lenN (ra_bytes ra) <? pos + lenN c) with false
        by (symmetry; apply N.ltb_ge; rewrite Ea, !lenN_app; lia).
      assert (Sl : rslice (ra_bytes ra) pos (lenN c) = c).
      { rewrite rslice_eq, Ea, <- app_assoc. apply slice_at; [symmetry; exact Epre | reflexivity]. }
      rewrite Sl. destruct shrunk.
      + apply ref_unit_ok, Hrel.
      + rewrite (Hraw eq_refl). unfold lenN. rewrite Nat2N.id, firstn_all. reflexivity.
    - apply N.leb_gt in El.
      destruct (compress_sectors compress (f_comp f) (sectors ssz data)) as [[cs shrunk]|] eqn:Ecs; [|discriminate].
      assert (Hn0 : (0 < N.to_nat ssz)%nat) by lia.
      set (ss := sectors ssz data) in *.
      assert (Css : concat ss = data) by (apply concat_split; [exact Hn0 | lia]).
      destruct shrunk; cbn [negb] in Hw.
      + (* offset table and compressed sectors *)
        injection Hw as <- <- <-. rewrite N.add_0_r.
        assert (HR : Forall2 (sec_rel decompress) ss cs).
        { eapply compress_sectors_spec; [exact Ecs | exact Hcon | apply split_wf, Hwf]. }
        assert (Hok : sect_ok ssz ss).
        { replace ssz with (N.of_nat (N.to_nat ssz)) at 1 by lia. apply split_sect_ok; [exact Hn0 | lia]. }
        assert (Hns : lenN ss = (lenN data + ssz - 1) / ssz).
        { unfold lenN, ss, sectors. rewrite split_length by (try exact Hn0; lia). rewrite N2Nat.id. reflexivity. }
        assert (Hlcs : length cs = length ss) by (symmetry; eapply forall2_length; exact HR).
        remember (lenN ss) as nsec eqn:Ensec.
        remember ((nsec + 1) * 4) as tblsz eqn:Etbl.
        remember (if crc then nsec * 4 else 0) as crcsz eqn:Ecrc.
        remember (offsets (tblsz + crcsz) cs) as offs eqn:Eoffs.
        remember (if crc then concat (map (fun s => bytes_of_u32 (adler32 s)) ss) else []) as crcb eqn:Ecrcb.
        remember (concat (map bytes_of_u32 offs)) as T eqn:ET.
        assert (Loffs : length offs = S (length ss)) by (rewrite Eoffs, offsets_length, Hlcs; reflexivity).
        assert (LT : lenN T = tblsz).
        { rewrite ET, concat_bytes_of_u32. unfold lenN. rewrite bytes_of_words_length, Loffs, Etbl, Ensec. unfold lenN. lia. }
        assert (Lcrc : lenN crcb = crcsz).
        { rewrite Ecrcb, Ecrc. destruct crc; [|reflexivity].
          replace (concat (map (fun s => bytes_of_u32 (adler32 s)) ss)) with (bytes_of_words (map adler32 ss))
            by (rewrite <- concat_bytes_of_u32, map_map; reflexivity).
          unfold lenN. rewrite bytes_of_words_length, map_length, Ensec. unfold lenN. lia. }
        assert (Hall : lenN (T ++ crcb ++ concat cs) = tblsz + crcsz + lenN (concat cs)) by (rewrite !lenN_app; lia).
        assert (Hoffs32 : Forall (fun w => w < M32) offs) by (rewrite Eoffs; apply offsets_bounded; lia).
        destruct (ref_flags false crc true) as (F1 & F2 & F3 & F4 & F5). cbv zeta in F1, F2, F3, F4, F5.
        rewrite N.add_0_l in F1, F3, F4, F5.
        rewrite F1, F3, F4. cbn [orb].
        replace (lenN (ra_bytes ra) <? pos + (tblsz + lenN (concat cs))) with false
          by (symmetry; apply N.ltb_ge; rewrite Ea, !lenN_app; lia).
        rewrite <- Hns.
        assert (ST : rslice (ra_bytes ra) pos (4 * (nsec + 1)) = T).
        { rewrite rslice_eq, Ea, <- app_assoc. apply slice_at; [symmetry; exact Epre | lia]. }
        rewrite ST.
        assert (Wo : words_of_bytes (N.to_nat (nsec + 1)) T = offs).
        { rewrite ET, concat_bytes_of_u32. replace (N.to_nat (nsec + 1)) with (length offs) by (rewrite Loffs, Ensec; unfold lenN; lia).
          apply words_of_bytes_of_words_nil, Hoffs32. }
        rewrite Wo. replace (N.to_nat nsec) with (length ss) by (rewrite Ensec; unfold lenN; lia).
        rewrite <- Css at 2. rewrite Eoffs.
        rewrite (ref_sectors_ok ssz (ra_bytes ra) pos _ ss cs HR Hok (pre ++ T ++ crcb) post 0 (tblsz + crcsz)).
        * rewrite Css. reflexivity.
        * rewrite Ea. rewrite <- !app_assoc. reflexivity.
        * rewrite !lenN_app. lia.
      + (* stored as it is *)
        injection Hw as <- <- <-.
        destruct (ref_flags false false false) as (F1 & F2 & F3 & F4 & F5). cbv zeta in F1, F2, F3, F4, F5.
        change (0 + 0 + 0 + fl_exists) with (0 + fl_exists) in F1, F3, F4, F5.
        rewrite F1, F3, F4, F5. cbn [orb].
        replace (lenN (ra_bytes ra) <? pos + lenN data) with false
          by (symmetry; apply N.ltb_ge; rewrite Ea, !lenN_app; lia).
        f_equal. rewrite rslice_eq, Ea. apply slice_at; [symmetry; exact Epre | reflexivity].
  Qed.
End OneFile.

(* ---- opening: whatever Archive::open accepts, the reference opens to the same tables ------------- *)
Lemma rgroup4_eq n : forall ws, rgroup4 n ws = group4 n ws.
Proof. induction n as [|n IH]; intro ws; [reflexivity|]. cbn [rgroup4 group4]. destruct ws as [|a [|b [|c [|d r]]]]; try reflexivity. all: rewrite IH; reflexivity. Qed.

Lemma group4_shape n : forall ws, Forall (fun w => exists a b c d, w = [a; b; c; d]) (group4 n ws).
Proof.
  induction n as [|n IH]; intro ws; [constructor|]. cbn [group4].
  destruct ws as [|a [|b [|c [|d r]]]]; try (constructor; fail). constructor; [exists a, b, c, d; reflexivity | apply IH].
Qed.

Lemma hwords_decode G : Forall (fun w => exists a b c d, w = [a; b; c; d]) G -> map hentry_words (map hdecode G) = G.
Proof.
  induction 1 as [|w r (a & b & c & d & ->) Hr IH]; [reflexivity|]. cbn [map]. rewrite IH. f_equal.
  unfold hdecode, hentry_words. cbn [h_a h_b h_locale h_platform h_block]. f_equal. f_equal. f_equal. lia.
Qed.

Lemma bwords_decode G : Forall (fun w => exists a b c d, w = [a; b; c; d]) G -> map bentry_words (map bdecode G) = G.
Proof. induction 1 as [|w r (a & b & c & d & ->) Hr IH]; [reflexivity|]. cbn [map]. rewrite IH. reflexivity. Qed.

Lemma table_keys : r_hash_key = key_hash_table /\ r_block_key = key_block_table /\
                   key_hash_table <> 0 /\ key_hash_table < M32 /\ key_block_table <> 0 /\ key_block_table < M32.
Proof. vm_compute. repeat split; discriminate. Qed.

Lemma ref_open_of_open bs a : open bs = Some a -> ref_open bs = Some (as_ref a).
Proof.
  intro H. unfold open in H.
  destruct (lenN bs <? 32) eqn:E32; [discriminate|].
  destruct (negb (u32_of_bytes bs =? mpq_signature)) eqn:Esig; [discriminate|].
  destruct (lenN bs <? le_value (slice bs 16 4) + le_value (slice bs 24 4) * 16) eqn:Eh; [discriminate|].
  destruct (lenN bs <? le_value (slice bs 20 4) + le_value (slice bs 28 4) * 16) eqn:Eb; [discriminate|].
  injection H as <-.
  unfold ref_open, as_ref. cbn [a_bytes a_shift a_hash a_blocks]. rewrite E32. change rslice with slice.
  assert (S0 : slice bs 0 4 = firstn 4 bs).
  { apply N.ltb_ge in E32. unfold slice. replace (N.min 0 (lenN bs)) with 0 by lia. replace (N.min 4 (lenN bs)) with 4 by lia. reflexivity. }
  rewrite S0. change (le_value (firstn 4 bs)) with (u32_of_bytes bs). change R_SIGNATURE with mpq_signature. rewrite Esig.
  replace (16 * le_value (slice bs 24 4)) with (le_value (slice bs 24 4) * 16) by lia.
  replace (16 * le_value (slice bs 28 4)) with (le_value (slice bs 28 4) * 16) by lia.
  rewrite Eh, Eb. cbn [orb].
  destruct table_keys as (K1 & K2 & K3 & K4 & K5 & K6).
  rewrite K1, K2, <- !decrypt_block_eq_ref by assumption.
  rewrite !rgroup4_eq.
  replace (4 * le_value (slice bs 24 4)) with (le_value (slice bs 24 4) * 4) by lia.
  replace (4 * le_value (slice bs 28 4)) with (le_value (slice bs 28 4) * 4) by lia.
  f_equal. f_equal.
  - symmetry. apply hwords_decode, group4_shape.
  - symmetry. apply bwords_decode, group4_shape.
Qed.

(* ---- the whole archive ------------------------------------------------------------------------------ *)
Section WholeInterop.
  Variable compress : N -> list N -> option (list N).
  Variable decompress : N -> list N -> N -> option (list N).

  Theorem library_archive_read_by_reference (c : cfg) (files : list file_spec) (bytes : list N) :
    (c_version c = 1 \/ c_version c = 2) -> c_shift c < 65536 ->
    build compress c files = BOk bytes -> lenN bytes < M32 ->
    Forall (file_ok compress decompress (sector_size (c_shift c))) (pending c files) ->
    NoDup (map hkey (pending c files)) ->
    (c_attrs c = 1 -> ~ In (hash_string s_attributes ht_name_a, hash_string s_attributes ht_name_b) (map hkey (pending c files))) ->
    exists ra, ref_open bytes = Some ra /\
               forall f, In f (pending c files) -> f_enc f = 0 -> wf_bytes (f_name f) ->
                         ref_read decompress ra (f_name f) = Some (f_data f).
  Proof.
    intros Hv Hsh Hb Hlen Hok Hnd Hattr.
    destruct (build_structure compress decompress c files bytes Hv Hsh Hb Hlen Hok Hnd Hattr)
      as (body & abytes & ht1 & allblocks & k & L1 & hash_pos & block_pos & S).
    cbv zeta in S. destruct S as (Ebytes & Ehp & Ebp & HI1 & Hpl1 & Hall & Hfiles).
    pose proof (open_built c (block_pos + lenN (enc_table (concat (map bentry_words allblocks)) key_block_table)) hash_pos block_pos
                  (lenN ht1) (lenN allblocks) body abytes ht1 allblocks) as Ho.
    cbv zeta in Ho. rewrite <- Ebytes in Ho.
    specialize (Ho Hv Hsh Ehp Ebp eq_refl eq_refl Hlen Hpl1 Hall).
    apply ref_open_of_open in Ho.
    eexists. split; [exact Ho|].
    intros f Hf Henc Hwn.
    destruct (Hfiles f Hf) as (i & pre & fb & cs & fl & post & Eb & Ewf & Hnb & Hit).
    rewrite Forall_forall in Hok. destruct (Hok f Hf) as (_ & Hwf & Hfs & Hcon).
    destruct (write_file_props _ _ _ _ _ _ _ _ Ewf) as (Hex & Hfl & Hcs).
    remember (header_bytes c (block_pos + lenN (enc_table (concat (map bentry_words allblocks)) key_block_table)) hash_pos block_pos (lenN ht1) (lenN allblocks)) as H eqn:EH.
    assert (LH : lenN H = header_size (c_version c)) by (rewrite EH; apply header_length, Hv).
    assert (Hpos : header_size (c_version c) + lenN pre + lenN fb <= lenN bytes).
    { rewrite Ebytes, Eb, !lenN_app, LH. clear. lia. }
    assert (Hfb32 : lenN fb < M32) by (clear - Hpos Hlen; lia).
    refine (ref_file_roundtrip compress decompress _ (sector_size (c_shift c)) (c_crc c) f (header_size (c_version c) + lenN pre) fb cs fl
              Henc Hwf (sector_size_pos _) Hfs Hfb32 Hcon Ewf _ _ _).
    - exists (H ++ pre), (post ++ abytes ++ enc_table (concat (map hentry_words ht1)) key_hash_table ++ enc_table (concat (map bentry_words allblocks)) key_block_table).
      cbn [as_ref ra_bytes a_bytes]. split.
      + rewrite Ebytes, Eb. rewrite <- !app_assoc. reflexivity.
      + rewrite lenN_app, LH. reflexivity.
    - reflexivity.
    - rewrite (ref_find_equiv _ k (f_name f)); cbn [a_hash]; [| exact Hpl1 | apply (inv_len _ _ _ HI1) | exact Hwn].
      unfold find_block. cbn [a_hash a_blocks].
      destruct (ht_find_inserted ht1 k L1 (f_name f) (N.of_nat i) HI1 Hit) as [idx Hidx].
      rewrite Hidx. rewrite Nat2N.id, Hnb. cbn [b_flags]. rewrite Hex. reflexivity.
  Qed.
End WholeInterop.
