(* BLP: the mipmap chain halves down to 1x1; alpha planes unpack to what was packed;
   decoded alpha is the quantised source alpha; consecutive mipmap blocks do not overlap. *)
From Coq Require Import List NArith Bool Arith Lia ZArith.
From WR Require Import Fmt.Blp.
Import ListNotations.
Open Scope N_scope.
Ltac Zify.zify_post_hook ::= Z.div_mod_to_equations.

(* ---- mipmaps ------------------------------------------------------------------------------------------- *)
Lemma shiftr_log2_one w : 0 < w -> N.shiftr w (N.log2 w) = 1.
Proof.
  intro H. rewrite N.shiftr_div_pow2. destruct (N.log2_spec w H) as [L U].
  rewrite N.pow_succ_r' in U. symmetry. apply N.div_unique with (r := w - 2 ^ N.log2 w); lia.
Qed.

Lemma shiftr_ge_log2_zero w i : N.log2 w < i -> N.shiftr w i = 0.
Proof. intro H. destruct (N.eq_dec w 0) as [E|E]; [subst; apply N.shiftr_0_l|]. apply N.shiftr_eq_0. exact H. Qed.

(* the last level of the chain is 1 x 1 *)
Theorem mip_chain_ends w h : 0 < w -> 0 < h -> mip_size w h (mip_count w h) = (if mip_count w h =? 0 then (w, h) else (1, 1)).
Proof.
  intros Hw Hh. unfold mip_size, mip_count.
  destruct (N.max (N.log2 w) (N.log2 h) =? 0) eqn:E; [reflexivity|]. apply N.eqb_neq in E.
  destruct (N.max_spec (N.log2 w) (N.log2 h)) as [[L M]|[L M]]; rewrite M.
  - rewrite (shiftr_log2_one h Hh). rewrite (shiftr_ge_log2_zero w _ L). reflexivity.
  - rewrite (shiftr_log2_one w Hw).
    destruct (N.eq_dec (N.log2 h) (N.log2 w)) as [X|X].
    + rewrite <- X. rewrite (shiftr_log2_one h Hh). reflexivity.
    + rewrite (shiftr_ge_log2_zero h (N.log2 w)) by lia. reflexivity.
Qed.

(* the chain of 1 + mip_count images on a 1 x 1 image is that image alone *)
Lemma mip_count_one : mip_count 1 1 = 0.
Proof. reflexivity. Qed.

(* each level halves both dimensions (rounded down), never below 1 *)
Theorem mip_halves w h i : 0 < w -> 0 < h ->
  mip_size w h (i + 1) = (N.max (fst (mip_size w h i) / 2) 1, N.max (snd (mip_size w h i) / 2) 1).
Proof.
  intros Hw Hh. unfold mip_size. replace (i + 1 =? 0) with false by (symmetry; apply N.eqb_neq; lia).
  assert (S : forall x, N.shiftr x (i + 1) = N.shiftr x i / 2).
  { intro x. rewrite <- N.shiftr_shiftr. rewrite (N.shiftr_div_pow2 _ 1). reflexivity. }
  rewrite !S. destruct (i =? 0) eqn:E; cbn [fst snd].
  - apply N.eqb_eq in E. subst. rewrite !N.shiftr_0_r. reflexivity.
  - assert (Q : forall x, N.max (x / 2) 1 = N.max (N.max x 1 / 2) 1).
    { intro x. destruct (N.eq_dec x 0) as [Z|Z]; [subst; reflexivity|]. rewrite (N.max_l x 1) by lia. reflexivity. }
    rewrite <- !Q. reflexivity.
Qed.

(* ---- alpha ---------------------------------------------------------------------------------------------- *)
Definition all_alpha : list N := map N.of_nat (seq 0 256).

Lemma all_alpha_in a : a < 256 -> In a all_alpha.
Proof.
  intro H. unfold all_alpha. apply in_map_iff. exists (N.to_nat a). split; [lia|]. apply in_seq. lia.
Qed.

(* stored values fit their depth, decoding then quantising again is stable, and the decoded
   4-bit alpha is within 8 of the source (exhaustive over the 256 source values, in the kernel) *)
Definition alpha_facts (a : N) : bool :=
  (quant 1 a <? 2) && (quant 4 a <? 16) && (quant 8 a =? a)
  && (quant 1 (expand 1 (quant 1 a)) =? quant 1 a) && (quant 4 (expand 4 (quant 4 a)) =? quant 4 a) && (expand 8 (quant 8 a) =? a)
  && (expand 4 (quant 4 a) <=? a + 8) && (a <=? expand 4 (quant 4 a) + 8) && (expand 4 (quant 4 a) <? 256)
  && ((expand 1 (quant 1 a) =? 0) || (expand 1 (quant 1 a) =? 255)) && (Bool.eqb (expand 1 (quant 1 a) =? 0) (a =? 0)).

Lemma alpha_sweep : forallb alpha_facts all_alpha = true.
Proof. vm_compute. reflexivity. Qed.

Theorem alpha_quantisation a : a < 256 -> alpha_facts a = true.
Proof. intro H. exact (proj1 (forallb_forall _ _) alpha_sweep a (all_alpha_in a H)). Qed.

(* ---- packing ------------------------------------------------------------------------------------------------ *)
Lemma ungroup_group bits : 0 < bits -> forall g k, (length g <= k)%nat -> Forall (fun v => v < 2 ^ bits) g ->
  ungroup bits k (group_byte bits g) = g ++ repeat 0 (k - length g).
Proof.
  intros Hb g. induction g as [|v r IH]; intros k L F; cbn [group_byte length app].
  - rewrite Nat.sub_0_r. clear L. induction k as [|k IHk]; cbn [ungroup repeat]; [reflexivity|].
    rewrite N.mod_0_l, N.div_0_l by (apply N.pow_nonzero; lia). f_equal. exact IHk.
  - destruct k as [|k]; [cbn [length] in L; lia|]. inversion F; subst. cbn [ungroup Nat.sub].
    assert (P : 2 ^ bits <> 0) by (apply N.pow_nonzero; lia).
    replace (v + 2 ^ bits * group_byte bits r) with (v + group_byte bits r * 2 ^ bits) by lia.
    rewrite N.mod_add by exact P. rewrite N.mod_small by assumption.
    rewrite N.div_add by exact P. rewrite N.div_small by assumption. rewrite N.add_0_l.
    f_equal. apply IH; [cbn [length] in L; lia|assumption].
Qed.

Lemma Forall_firstn {A} (P : A -> Prop) l n : Forall P l -> Forall P (firstn n l).
Proof. revert n. induction l as [|x r IH]; intros [|n] F; cbn [firstn]; try constructor; inversion F; subst; auto. Qed.
Lemma Forall_skipn {A} (P : A -> Prop) l n : Forall P l -> Forall P (skipn n l).
Proof. revert n. induction l as [|x r IH]; intros [|n] F; cbn [skipn]; auto. inversion F; subst; auto. Qed.

(* what was packed is unpacked, for any number of values (the last byte may be partly filled) *)
Theorem unpack_pack bits per : 0 < bits -> (0 < per)%nat -> forall fuel l,
  (length l <= fuel)%nat -> Forall (fun v => v < 2 ^ bits) l ->
  unpack bits per (length l) (pack fuel bits per l) = l.
Proof.
  intros Hb Hp. unfold unpack. induction fuel as [|f IH]; intros l L F.
  - destruct l; [reflexivity|cbn [length] in L; lia].
  - destruct l as [|x r]; [reflexivity|]. cbn [pack]. set (l := x :: r) in *. cbn [flat_map].
    rewrite (ungroup_group bits Hb (firstn per l) per); [|rewrite firstn_length; lia|apply Forall_firstn; exact F].
    destruct (Nat.le_gt_cases per (length l)) as [Hl|Hl].
    + rewrite firstn_length, Nat.min_l by exact Hl. rewrite Nat.sub_diag. cbn [repeat]. rewrite app_nil_r.
      rewrite <- (firstn_skipn per l) at 1. rewrite app_length, firstn_length, Nat.min_l by exact Hl.
      rewrite firstn_app. rewrite firstn_length, Nat.min_l by exact Hl.
      replace (per + length (skipn per l) - per)%nat with (length (skipn per l)) by lia.
      rewrite firstn_all2 by (rewrite firstn_length; lia).
      rewrite IH; [apply firstn_skipn| |apply Forall_skipn; exact F].
      rewrite skipn_length. unfold l in *. cbn [length] in *. lia.
    + rewrite (firstn_all2 l) by lia. rewrite (skipn_all2 l) by lia.
      destruct f; cbn [pack flat_map]; rewrite app_nil_r; rewrite firstn_app, Nat.sub_diag; cbn [firstn]; rewrite app_nil_r; apply firstn_all.
Qed.

Lemma pack_length bits per : (0 < per)%nat -> forall fuel l, (length l <= fuel)%nat ->
  length (pack fuel bits per l) = ((length l + per - 1) / per)%nat.
Proof.
  intro Hp. induction fuel as [|f IH]; intros l L.
  - destruct l; [|cbn [length] in L; lia]. cbn [pack length]. symmetry. apply Nat.div_small. lia.
  - destruct l as [|x r]; [cbn [pack length]; symmetry; apply Nat.div_small; lia|]. cbn [pack length]. set (l := x :: r) in *.
    rewrite IH by (rewrite skipn_length; unfold l in *; cbn [length] in *; lia). rewrite skipn_length.
    destruct (Nat.le_gt_cases per (length l)) as [Hl|Hl].
    + change (S (length r)) with (length l).
      replace (length l + per - 1)%nat with ((length l - per + per - 1) + 1 * per)%nat by lia.
      rewrite Nat.div_add by lia. lia.
    + replace (length l - per)%nat with 0%nat by lia. replace ((0 + per - 1) / per)%nat with 0%nat by (symmetry; apply Nat.div_small; lia).
      change (S (length r)) with (length l).
      assert (H : ((length l + per - 1) / per = 1)%nat).
      { symmetry. apply Nat.div_unique with (r := (length l - 1)%nat); unfold l in *; cbn [length] in *; lia. }
      lia.
Qed.

(* ---- layout --------------------------------------------------------------------------------------------------- *)
(* consecutive blocks lie between base and base + total size, in order, without overlap *)
Theorem layout_disjoint sizes : forall base i j oi si oj sj,
  (i < j)%nat -> nth_error (layout_offsets base sizes) i = Some (oi, si) -> nth_error (layout_offsets base sizes) j = Some (oj, sj) ->
  base <= oi /\ oi + si <= oj /\ oj + sj <= base + fold_right N.add 0 sizes.
Proof.
  induction sizes as [|s r IH]; intros base i j oi si oj sj L Hi Hj; [destruct i; discriminate|].
  cbn [layout_offsets fold_right] in *. destruct j as [|j]; [lia|]. cbn [nth_error] in Hj.
  destruct i as [|i]; cbn [nth_error] in Hi.
  - inversion Hi; subst.
    assert (B : forall sz b k o z, nth_error (layout_offsets b sz) k = Some (o, z) -> b <= o /\ o + z <= b + fold_right N.add 0 sz).
    { induction sz as [|t u IHs]; intros b k o z H; [destruct k; discriminate|]. cbn [layout_offsets fold_right] in *.
      destruct k as [|k]; cbn [nth_error] in H; [inversion H; subst; lia|]. destruct (IHs _ _ _ _ H). lia. }
    destruct (B _ _ _ _ _ Hj). lia.
  - destruct (IH (base + s) i j oi si oj sj ltac:(lia) Hi Hj) as [A [B C]]. lia.
Qed.

Example blp_examples :
  mip_count 512 128 = 9 /\ mip_size 512 128 9 = (1, 1) /\ mip_size 512 128 8 = (2, 1) /\ mip_size 5 3 1 = (2, 1)
  /\ pack 3 1 8 [1; 0; 1] = [5] /\ unpack 4 2 3 (pack 3 4 2 [15; 0; 7]) = [15; 0; 7] /\ quant 4 128 = 8 /\ expand 4 8 = 136.
Proof. vm_compute. repeat split. Qed.
