From WR Require Import Lib.Bits Mpq.Crypt Proofs.Bits_proofs.
From Coq Require Import ZArith Lia ZifyN ZifyNat ZifyBool.
Ltac Zify.zify_post_hook ::= Z.div_mod_to_equations.
Open Scope N_scope.

(* ---- the two halves of the cipher use the same constants ----------------- *)
Lemma cipher_constants_agree :
  (enc_seed, enc_tbl_off, enc_key_mask, enc_key_shl, enc_key_add, enc_key_shr, enc_seed_shl, enc_seed_inc)
  = (dec_seed, dec_tbl_off, dec_key_mask, dec_key_shl, dec_key_add, dec_key_shr, dec_seed_shl, dec_seed_inc).
Proof. reflexivity. Qed.

Lemma next_key_agree k : dec_next_key k = enc_next_key k.
Proof. reflexivity. Qed.

(* ---- word level ---------------------------------------------------------- *)
Lemma dec_enc_loop ws : forall k s, dec_loop (enc_loop ws k s) k s = ws.
Proof.
  induction ws as [|w r IH]; intros k s; [reflexivity|].
  cbn [enc_loop dec_loop].
  change dec_tbl_off with enc_tbl_off. change dec_key_mask with enc_key_mask.
  change dec_seed_shl with enc_seed_shl. change dec_seed_inc with enc_seed_inc.
  rewrite lxor_cancel_r. f_equal. apply IH.
Qed.

Lemma enc_dec_loop ws : forall k s, enc_loop (dec_loop ws k s) k s = ws.
Proof.
  induction ws as [|w r IH]; intros k s; [reflexivity|].
  cbn [enc_loop dec_loop].
  change dec_tbl_off with enc_tbl_off. change dec_key_mask with enc_key_mask.
  change dec_seed_shl with enc_seed_shl. change dec_seed_inc with enc_seed_inc.
  rewrite lxor_cancel_r. f_equal. apply IH.
Qed.

Lemma decrypt_encrypt_block key ws : decrypt_block (encrypt_block ws key) key = ws.
Proof.
  unfold decrypt_block, encrypt_block. destruct (key =? 0); [reflexivity|].
  change dec_seed with enc_seed. apply dec_enc_loop.
Qed.

Lemma encrypt_decrypt_block key ws : encrypt_block (decrypt_block ws key) key = ws.
Proof.
  unfold decrypt_block, encrypt_block. destruct (key =? 0); [reflexivity|].
  change dec_seed with enc_seed. apply enc_dec_loop.
Qed.

Lemma enc_loop_length ws : forall k s, length (enc_loop ws k s) = length ws.
Proof. induction ws as [|w r IH]; intros; cbn [enc_loop length]; [reflexivity|]. now rewrite IH. Qed.

Lemma encrypt_block_length ws k : length (encrypt_block ws k) = length ws.
Proof. unfold encrypt_block. destruct (k =? 0); [reflexivity | apply enc_loop_length]. Qed.

Lemma enc_loop_lt ws : forall k s,
  Forall (fun w => w < M32) ws -> Forall (fun w => w < M32) (enc_loop ws k s).
Proof.
  induction ws as [|w r IH]; intros k s H; cbn [enc_loop]; [constructor|].
  inversion H; subst. constructor; [|apply IH; assumption].
  apply lxor_lt_M32; [assumption | apply add32_lt].
Qed.

Lemma encrypt_block_lt ws k :
  Forall (fun w => w < M32) ws -> Forall (fun w => w < M32) (encrypt_block ws k).
Proof. unfold encrypt_block. destruct (k =? 0); [auto | apply enc_loop_lt]. Qed.

(* decrypt_dword is the one-word case of decrypt_block *)
Lemma decrypt_dword_block v key : decrypt_block [v] key = [decrypt_dword v key].
Proof. unfold decrypt_block, decrypt_dword. destruct (key =? 0); reflexivity. Qed.

(* ---- byte level: tails of 1..3 bytes -------------------------------------- *)

(* xor with a 32-bit mask, on the first r bytes of a zero-padded dword, undoes itself *)
Lemma tail_roundtrip t m :
  wf_bytes t -> (0 < length t < 4)%nat ->
  firstn (length t)
    (bytes_of_u32 (N.lxor (le_value (pad4 (firstn (length t)
        (bytes_of_u32 (N.lxor (le_value (pad4 t)) m))))) m)) = t.
Proof.
  intros Hwf Hlen.
  assert (Hb : forall x, byte_of x 0 < 256 /\ byte_of x 1 < 256 /\ byte_of x 2 < 256 /\ byte_of x 3 < 256)
    by (intro x; repeat split; apply byte_of_lt).
  assert (Z : (0:N) < 256) by reflexivity.
  destruct t as [|a [|b [|c [|d r]]]]; cbn [length] in Hlen; try lia.
  - (* 1 byte *)
    inversion Hwf as [|? ? Ha _]; subst.
    unfold pad4. cbn [app firstn length bytes_of_u32].
    destruct (byte_of_le_value4 a 0 0 0 Ha Z Z Z) as (E0 & _).
    destruct (Hb (N.lxor (le_value [a; 0; 0; 0]) m)) as (B0 & _).
    set (e0 := byte_of (N.lxor (le_value [a; 0; 0; 0]) m) 0) in *.
    destruct (byte_of_le_value4 e0 0 0 0 B0 Z Z Z) as (F0 & _).
    rewrite byte_of_lxor, F0. unfold e0. rewrite byte_of_lxor, E0, lxor_cancel_r. reflexivity.
  - (* 2 bytes *)
    inversion Hwf as [|? ? Ha H1]; subst. inversion H1 as [|? ? Hb' _]; subst.
    unfold pad4. cbn [app firstn length bytes_of_u32].
    destruct (byte_of_le_value4 a b 0 0 Ha Hb' Z Z) as (E0 & E1 & _).
    destruct (Hb (N.lxor (le_value [a; b; 0; 0]) m)) as (B0 & B1 & _).
    set (e0 := byte_of (N.lxor (le_value [a; b; 0; 0]) m) 0) in *.
    set (e1 := byte_of (N.lxor (le_value [a; b; 0; 0]) m) 1) in *.
    destruct (byte_of_le_value4 e0 e1 0 0 B0 B1 Z Z) as (F0 & F1 & _).
    rewrite !byte_of_lxor, F0, F1. unfold e0, e1.
    rewrite !byte_of_lxor, E0, E1, !lxor_cancel_r. reflexivity.
  - (* 3 bytes *)
    inversion Hwf as [|? ? Ha H1]; subst. inversion H1 as [|? ? Hb' H2]; subst.
    inversion H2 as [|? ? Hc _]; subst.
    unfold pad4. cbn [app firstn length bytes_of_u32].
    destruct (byte_of_le_value4 a b c 0 Ha Hb' Hc Z) as (E0 & E1 & E2 & _).
    destruct (Hb (N.lxor (le_value [a; b; c; 0]) m)) as (B0 & B1 & B2 & _).
    set (e0 := byte_of (N.lxor (le_value [a; b; c; 0]) m) 0) in *.
    set (e1 := byte_of (N.lxor (le_value [a; b; c; 0]) m) 1) in *.
    set (e2 := byte_of (N.lxor (le_value [a; b; c; 0]) m) 2) in *.
    destruct (byte_of_le_value4 e0 e1 e2 0 B0 B1 B2 Z) as (F0 & F1 & F2 & _).
    rewrite !byte_of_lxor, F0, F1, F2. unfold e0, e1, e2.
    rewrite !byte_of_lxor, E0, E1, E2, !lxor_cancel_r. reflexivity.
Qed.

Lemma firstn_skipn_len {A} n (l : list A) :
  (n <= length l)%nat -> length (firstn n l) = n /\ length (skipn n l) = (length l - n)%nat.
Proof. intro H. rewrite firstn_length, skipn_length. lia. Qed.

Lemma div4_facts (n : nat) : (4 * (n / 4) <= n)%nat /\ (n - 4 * (n / 4) < 4)%nat.
Proof. pose proof (Nat.div_mod n 4). pose proof (Nat.mod_upper_bound n 4). lia. Qed.

Lemma enc_head_length nw hd4 key :
  (4 * nw <= length hd4)%nat -> length (enc_head nw hd4 key) = (4 * nw)%nat.
Proof.
  intro H. unfold enc_head.
  rewrite bytes_of_words_length, encrypt_block_length, words_of_bytes_length by assumption. reflexivity.
Qed.

Lemma enc_tail_length rem k2 : (length rem < 4)%nat -> length (enc_tail rem k2) = length rem.
Proof.
  intro H. unfold enc_tail. destruct rem as [|x xs]; [reflexivity|].
  rewrite firstn_length. cbn [bytes_of_u32 length] in *. lia.
Qed.

Lemma dec_enc_head nw hd4 key :
  wf_bytes hd4 -> length hd4 = (4 * nw)%nat -> dec_head nw (enc_head nw hd4 key) key = hd4.
Proof.
  intros Hwf Hlen. unfold dec_head, enc_head.
  assert (Lw : length (words_of_bytes nw hd4) = nw) by (apply words_of_bytes_length; lia).
  assert (Hlt : Forall (fun w => w < M32) (encrypt_block (words_of_bytes nw hd4) key))
    by (apply encrypt_block_lt, words_of_bytes_lt; assumption).
  assert (Le : length (encrypt_block (words_of_bytes nw hd4) key) = nw)
    by (rewrite encrypt_block_length; exact Lw).
  rewrite <- Le at 1. rewrite words_of_bytes_of_words_nil by assumption.
  rewrite decrypt_encrypt_block. apply bytes_of_words_of_bytes; assumption.
Qed.

Lemma dec_enc_tail rem k2 :
  wf_bytes rem -> (length rem < 4)%nat -> dec_tail (enc_tail rem k2) k2 = rem.
Proof.
  intros Hwf Hlen.
  destruct rem as [|x xs] eqn:E; [reflexivity|]. rewrite <- E in *.
  assert (Ltl : (0 < length rem < 4)%nat) by (subst rem; cbn [length] in *; lia).
  pose proof (enc_tail_length rem k2 Hlen) as Lf.
  unfold dec_tail. destruct (enc_tail rem k2) as [|y ys] eqn:Ef.
  { cbn [length] in Lf. lia. }
  rewrite Lf, <- Ef. unfold enc_tail. rewrite E, <- E.
  unfold encrypt_block, decrypt_dword. destruct (k2 =? 0) eqn:Ek2.
  - cbn [hd]. pose proof (tail_roundtrip rem 0 Hwf Ltl) as T. rewrite !N.lxor_0_r in T. exact T.
  - cbn [enc_loop hd].
    change dec_seed with enc_seed. change dec_tbl_off with enc_tbl_off.
    change dec_key_mask with enc_key_mask.
    apply tail_roundtrip; assumption.
Qed.

Lemma encrypt_data_length bs key : length (encrypt_data bs key) = length bs.
Proof.
  unfold encrypt_data. destruct (is_nil bs || (key =? 0)); [reflexivity|].
  set (nw := Nat.div (length bs) 4).
  destruct (div4_facts (length bs)) as [H1 H2]. fold nw in H1, H2.
  destruct (firstn_skipn_len (Nat.mul 4 nw) bs H1) as [L1 L2].
  rewrite app_length, enc_head_length, enc_tail_length by lia. lia.
Qed.

Theorem bytes_decrypt_encrypt key bs :
  wf_bytes bs -> decrypt_file_data (encrypt_data bs key) key = bs.
Proof.
  intro Hwf. unfold decrypt_file_data.
  pose proof (encrypt_data_length bs key) as Hlen. rewrite Hlen.
  assert (Enil : is_nil (encrypt_data bs key) = is_nil bs).
  { destruct bs, (encrypt_data _ key); try reflexivity; discriminate. }
  rewrite Enil. unfold encrypt_data.
  destruct (is_nil bs || (key =? 0)) eqn:Eg; [reflexivity|].
  set (nw := Nat.div (length bs) 4).
  destruct (div4_facts (length bs)) as [H1 H2]. fold nw in H1, H2.
  destruct (firstn_skipn_len (Nat.mul 4 nw) bs H1) as [L1 L2].
  set (hd4 := firstn (Nat.mul 4 nw) bs) in *. set (tl := skipn (Nat.mul 4 nw) bs) in *.
  assert (LH : length (enc_head nw hd4 key) = Nat.mul 4 nw) by (apply enc_head_length; lia).
  rewrite <- LH at 1. rewrite firstn_app, firstn_all, Nat.sub_diag, firstn_O, app_nil_r.
  rewrite <- LH at 1. rewrite skipn_app, skipn_all, Nat.sub_diag, skipn_O. cbn [app].
  rewrite dec_enc_head, dec_enc_tail;
    [ apply firstn_skipn | apply wf_bytes_skipn; assumption | lia
    | apply wf_bytes_firstn; assumption | lia ].
Qed.

(* ---- name hash: spelling invariance ---------------------------------------- *)

Lemma hash_fold_invariant ht s1 s2 :
  map norm s1 = map norm s2 -> hash_string s1 ht = hash_string s2 ht.
Proof. unfold hash_string. intros ->. reflexivity. Qed.

Definition swap_case (c : N) : N :=
  if (65 <=? c) && (c <=? 90) then c + 32
  else if (97 <=? c) && (c <=? 122) then c - 32 else c.
Definition swap_slash (c : N) : N := if c =? 47 then 92 else if c =? 92 then 47 else c.

Definition all_bytes : list N := map N.of_nat (seq 0 256).

Lemma all_bytes_complete c : c < 256 -> In c all_bytes.
Proof.
  intro H. unfold all_bytes. apply in_map_iff. exists (N.to_nat c). split; [lia|].
  apply in_seq. lia.
Qed.

Lemma norm_table_ok :
  forallb (fun c => (norm (swap_case c) =? norm c) && (norm (swap_slash c) =? norm c)
                    && (norm c =? ref_norm c) && (norm c <? 256)) all_bytes = true.
Proof. vm_compute. reflexivity. Qed.

Lemma norm_facts c : c < 256 ->
  norm (swap_case c) = norm c /\ norm (swap_slash c) = norm c /\ norm c = ref_norm c /\ norm c < 256.
Proof.
  intro H. pose proof norm_table_ok as T. rewrite forallb_forall in T.
  specialize (T c (all_bytes_complete c H)).
  rewrite !andb_true_iff, !N.eqb_eq, N.ltb_lt in T. tauto.
Qed.

Lemma map_norm_pointwise (f : N -> N) s :
  wf_bytes s -> (forall c, c < 256 -> norm (f c) = norm c) -> map norm (map f s) = map norm s.
Proof.
  intros Hwf Hf. induction Hwf as [|c r Hc Hr IH]; [reflexivity|].
  cbn [map]. rewrite Hf, IH by assumption. reflexivity.
Qed.

Theorem hash_case_slash_invariant ht s :
  wf_bytes s ->
  hash_string (map swap_case s) ht = hash_string s ht /\
  hash_string (map swap_slash s) ht = hash_string s ht.
Proof.
  intro Hwf. split; apply hash_fold_invariant; apply map_norm_pointwise; try assumption;
    intros c Hc; destruct (norm_facts c Hc) as (A & B & _); assumption.
Qed.

(* ---- equality with the reference algorithm --------------------------------- *)

Theorem crypt_table_reference : crypt_table = ref_table.
Proof. vm_compute. reflexivity. Qed.

Lemma tbl_ref i : tbl i = ref_tbl i.
Proof. unfold tbl, ref_tbl. rewrite crypt_table_reference. reflexivity. Qed.

Lemma shl32_5 x : shl32 x 5 = (x * 32) mod M32.
Proof. unfold shl32. rewrite N.shiftl_mul_pow2. reflexivity. Qed.

Lemma hash_core_ref ht cs : forall s1 s2,
  ht <= 1024 -> wf_bytes cs ->
  hash_core ht (map norm cs) s1 s2 =
  fst (fold_left
         (fun '(s1, s2) c =>
            let ch := ref_norm c in
            let s1' := N.lxor (ref_tbl (ht + ch)) ((s1 + s2) mod 4294967296) in
            (s1', (ch + s1' + s2 + s2 * 32 + 3) mod 4294967296))
         cs (s1, s2)).
Proof.
  intros s1 s2 Hht Hwf. revert s1 s2.
  induction Hwf as [|c r Hc Hr IH]; intros s1 s2; [reflexivity|].
  cbn [map hash_core fold_left].
  destruct (norm_facts c Hc) as (_ & _ & En & Hn).
  rewrite IH. rewrite <- En.
  assert (Ew : w32 (ht + norm c) = ht + norm c) by (unfold w32, M32; apply N.mod_small; lia).
  rewrite Ew, tbl_ref.
  change hs_shift with 5. change hs_inc with 3. rewrite shl32_5.
  unfold add32, M32.
  set (X := N.lxor (ref_tbl (ht + norm c)) ((s1 + s2) mod 4294967296)).
  f_equal. f_equal. f_equal.
  clearbody X. generalize (norm c) as n. intro n. lia.
Qed.

Theorem hash_string_eq_ref name ht :
  ht <= 1024 -> wf_bytes name -> hash_string name ht = ref_hash name ht.
Proof. intros. unfold hash_string, ref_hash. apply hash_core_ref; assumption. Qed.

(* table index never leaves the 0x500-entry table for the five hash types *)
Theorem hash_index_in_range ht c : ht <= 1024 -> c < 256 -> w32 (ht + norm c) < ct_len.
Proof.
  intros Hh Hc. destruct (norm_facts c Hc) as (_ & _ & _ & Hn).
  unfold w32, M32. rewrite N.mod_small by lia. change ct_len with 1280. lia.
Qed.

(* published vectors *)
Definition str_listfile : list N := [40;108;105;115;116;102;105;108;101;41].
Definition str_hash_table : list N := [40;104;97;115;104;32;116;97;98;108;101;41].
Definition str_block_table : list N := [40;98;108;111;99;107;32;116;97;98;108;101;41].

Lemma published_vectors :
  hash_string str_listfile 0 = 0x5F3DE859 /\
  hash_string str_hash_table 768 = 0xC3AF3770 /\
  hash_string str_block_table 768 = 0xEC83B3A3 /\
  nth_N crypt_table 0 0 = 0x55C636E2 /\ nth_N crypt_table 1 0 = 0x02BE0170.
Proof. vm_compute. repeat split. Qed.


(* ---- the cipher equals the reference cipher (every non-zero key) ------------- *)

Lemma lxor_ones_sub a n : a < 2 ^ n -> N.lxor a (N.ones n) = N.ones n - a.
Proof.
  intro H.
  assert (D : N.land a (N.lxor a (N.ones n)) = 0).
  { apply N.bits_inj; intro m. rewrite N.land_spec, N.lxor_spec, N.bits_0.
    destruct (N.testbit a m) eqn:Ea; [|reflexivity].
    destruct (N.lt_ge_cases m n) as [L | G].
    - rewrite N.ones_spec_low by assumption. reflexivity.
    - exfalso. destruct (N.eq_dec a 0) as [-> | Hz]; [rewrite N.bits_0 in Ea; discriminate|].
      assert (N.log2 a < n) by (apply N.log2_lt_pow2; lia).
      assert (Hb : N.testbit a m = false) by (apply N.bits_above_log2; lia).
      congruence. }
  pose proof (N.add_nocarry_lxor _ _ D) as A.
  rewrite <- N.lxor_assoc, N.lxor_nilpotent, N.lxor_0_l in A. lia.
Qed.

Lemma not32_sub key : key < M32 -> not32 key = 4294967295 - key.
Proof.
  intro H. unfold not32. rewrite N.mod_small by assumption.
  change (M32 - 1) with (N.ones 32). rewrite lxor_ones_sub by exact H. reflexivity.
Qed.

Lemma ref_next_key_eq key : key < M32 -> ref_next_key key = enc_next_key key.
Proof.
  intro H. unfold ref_next_key, enc_next_key, add32, shl32, shr32.
  change enc_key_shl with 21. change enc_key_add with 286331153. change enc_key_shr with 11.
  rewrite not32_sub by assumption.
  rewrite N.shiftl_mul_pow2, N.shiftr_div_pow2.
  change (2 ^ 21) with 2097152. change (2 ^ 11) with 2048. unfold M32 in *.
  f_equal. lia.
Qed.


Lemma mod_pow2_lor a b n : (N.lor a b) mod 2 ^ n = N.lor (a mod 2 ^ n) (b mod 2 ^ n).
Proof.
  apply N.bits_inj; intro m.
  destruct (N.lt_ge_cases m n) as [H | H].
  - rewrite N.mod_pow2_bits_low, !N.lor_spec, !N.mod_pow2_bits_low by assumption. reflexivity.
  - rewrite N.mod_pow2_bits_high, N.lor_spec, !N.mod_pow2_bits_high by assumption. reflexivity.
Qed.

Lemma lor_lt_M32 a b : a < M32 -> b < M32 -> N.lor a b < M32.
Proof.
  change M32 with (2 ^ 32). intros Ha Hb.
  rewrite <- (N.mod_small a (2 ^ 32)), <- (N.mod_small b (2 ^ 32)) by assumption.
  rewrite <- mod_pow2_lor. apply N.mod_lt. discriminate.
Qed.

Lemma enc_next_key_lt key : key < M32 -> enc_next_key key < M32.
Proof.
  intro H. unfold enc_next_key. apply lor_lt_M32; [apply add32_lt|].
  unfold shr32. rewrite N.shiftr_div_pow2. change enc_key_shr with 11. change (2 ^ 11) with 2048.
  unfold M32 in *. lia.
Qed.

Lemma enc_loop_eq_ref ws : forall key seed,
  key < M32 -> seed < M32 -> enc_loop ws key seed = ref_enc ws key seed.
Proof.
  induction ws as [|w r IH]; intros key seed Hk Hs; [reflexivity|].
  cbn [enc_loop ref_enc].
  change enc_tbl_off with 1024. change enc_key_mask with (N.ones 8).
  change enc_seed_shl with 5. change enc_seed_inc with 3.
  rewrite N.land_ones. change (2 ^ 8) with 256. rewrite tbl_ref, shl32_5.
  set (T := ref_tbl (1024 + key mod 256)).
  assert (E1 : add32 seed T = (seed + T) mod 4294967296) by reflexivity.
  rewrite E1. set (S1 := (seed + T) mod 4294967296).
  assert (HS1 : S1 < M32) by (apply N.mod_lt; discriminate).
  f_equal.
  rewrite <- ref_next_key_eq by assumption.
  assert (E2 : add32 (add32 (add32 w S1) ((S1 * 32) mod M32)) 3 = (w + S1 + S1 * 32 + 3) mod 4294967296).
  { unfold add32, M32. clearbody S1. lia. }
  rewrite E2. apply IH.
  - rewrite ref_next_key_eq by assumption. apply enc_next_key_lt; assumption.
  - apply N.mod_lt. discriminate.
Qed.

Theorem encrypt_block_eq_ref ws key :
  key <> 0 -> key < M32 -> encrypt_block ws key = ref_enc ws key 4008636142.
Proof.
  intros Hz Hk. unfold encrypt_block. destruct (N.eqb_spec key 0) as [E | _]; [contradiction|].
  apply enc_loop_eq_ref; [assumption | reflexivity].
Qed.

Theorem decrypt_block_eq_ref ws key :
  key <> 0 -> key < M32 -> decrypt_block ws key = ref_dec ws key 4008636142.
Proof.
  intros Hz Hk. unfold decrypt_block. destruct (N.eqb_spec key 0) as [E | _]; [contradiction|].
  change dec_seed with 4008636142. assert (Hs : 4008636142 < M32) by reflexivity.
  revert Hs Hk. generalize 4008636142 as seed. revert key Hz. 
  induction ws as [|c r IH]; intros key Hz seed Hs Hk; [reflexivity|].
  cbn [dec_loop ref_dec].
  change dec_tbl_off with 1024. change dec_key_mask with (N.ones 8).
  change dec_seed_shl with 5. change dec_seed_inc with 3.
  rewrite N.land_ones. change (2 ^ 8) with 256. rewrite tbl_ref, shl32_5.
  set (T := ref_tbl (1024 + key mod 256)).
  assert (E1 : add32 seed T = (seed + T) mod 4294967296) by reflexivity.
  rewrite E1. set (S1 := (seed + T) mod 4294967296).
  assert (E0 : add32 key S1 = (key + S1) mod 4294967296) by reflexivity. rewrite E0.
  set (W := N.lxor c ((key + S1) mod 4294967296)).
  f_equal.
  rewrite next_key_agree, <- ref_next_key_eq by assumption.
  assert (E2 : add32 (add32 (add32 W S1) ((S1 * 32) mod M32)) 3 = (W + S1 + S1 * 32 + 3) mod 4294967296).
  { unfold add32, M32. clearbody S1 W. lia. }
  rewrite E2.
  destruct (N.eq_dec (ref_next_key key) 0) as [Ez | Hnz].
  - (* the schedule can reach key 0 only through the loop, where no shortcut applies *)
    rewrite Ez.
    (* generalise: the loops agree for every key, zero or not *)
    clear IH. revert Ez. generalize ((W + S1 + S1 * 32 + 3) mod 4294967296) as s2. intros s2 _.
    assert (G : forall ws k s, k < M32 -> dec_loop ws k s = ref_dec ws k s).
    { clear. induction ws as [|c r IH]; intros k s Hk; [reflexivity|].
      cbn [dec_loop ref_dec].
      change dec_tbl_off with 1024. change dec_key_mask with (N.ones 8).
      change dec_seed_shl with 5. change dec_seed_inc with 3.
      rewrite N.land_ones. change (2 ^ 8) with 256. rewrite tbl_ref, shl32_5.
      set (T := ref_tbl (1024 + k mod 256)).
      assert (E1 : add32 s T = (s + T) mod 4294967296) by reflexivity.
      rewrite E1. set (S1 := (s + T) mod 4294967296).
      assert (E0 : add32 k S1 = (k + S1) mod 4294967296) by reflexivity. rewrite E0.
      set (W := N.lxor c ((k + S1) mod 4294967296)).
      f_equal. rewrite next_key_agree, <- ref_next_key_eq by assumption.
      assert (E2 : add32 (add32 (add32 W S1) ((S1 * 32) mod M32)) 3 = (W + S1 + S1 * 32 + 3) mod 4294967296).
      { unfold add32, M32. clearbody S1 W. lia. }
      rewrite E2. apply IH. rewrite ref_next_key_eq by assumption. apply enc_next_key_lt; assumption. }
    apply G. reflexivity.
  - apply IH; [assumption | apply N.mod_lt; discriminate |].
    rewrite ref_next_key_eq by assumption. apply enc_next_key_lt; assumption.
Qed.

(* ---- interoperability with the reference byte cipher (whole dwords only) --------------- *)
From WR Require Import Mpq.MpqRef.

Lemma encrypt_data_eq_ref bs key n :
  length bs = (4 * n)%nat -> (0 < n)%nat -> key <> 0 -> key < M32 ->
  encrypt_data bs key = r_crypt true bs key.
Proof.
  intros Hl Hn Hk Hlt. unfold encrypt_data, r_crypt.
  assert (Enil : is_nil bs = false) by (destruct bs; [cbn in Hl; lia | reflexivity]).
  rewrite Enil. replace (key =? 0) with false by (symmetry; apply N.eqb_neq; exact Hk). cbn [orb].
  assert (Ed : Nat.div (length bs) 4 = n) by (rewrite Hl, Nat.mul_comm; apply Nat.div_mul; lia).
  rewrite Ed. rewrite <- Hl. rewrite firstn_all, skipn_all. unfold enc_tail, enc_head.
  rewrite encrypt_block_eq_ref by assumption. reflexivity.
Qed.

(* the two known interoperability differences, as concrete witnesses *)
Lemma interop_tail_differs :
  encrypt_data [1; 2; 3; 4; 5] 4660 <> r_crypt true [1; 2; 3; 4; 5] 4660.
Proof. vm_compute. discriminate. Qed.
