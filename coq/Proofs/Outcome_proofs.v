(* The tool's exit status tells the truth about what it wrote. *)
From Coq Require Import List NArith Bool Lia.
From WR Require Import Cli.Outcome.
Import ListNotations.
Open Scope N_scope.

Section Cli.
  Variables name path : Type.
  Variable target : name -> option path.
  Notation loop := (extract_loop name path target).

  (* everything written comes from a successful read of an accepted name, in request order *)
  Theorem written_sound results p d :
    In (p, d) (written path (loop results)) -> exists n, In (n, RData d) results /\ target n = Some p.
  Proof.
    induction results as [|[n r] rest IH]; cbn [extract_loop written]; [contradiction|].
    destruct r as [d'|]; [destruct (target n) as [p'|] eqn:Et|]; cbn [written]; intro H.
    - destruct H as [H|H]; [inversion H; subst; exists n; split; [left; reflexivity|exact Et]|].
      destruct (IH H) as [m [A B]]. exists m. split; [right; exact A|exact B].
    - destruct (IH H) as [m [A B]]. exists m. split; [right; exact A|exact B].
    - destruct (IH H) as [m [A B]]. exists m. split; [right; exact A|exact B].
  Qed.

  (* no error counted: every requested name was read, accepted and written *)
  Theorem no_errors_complete results :
    errors path (loop results) = 0 ->
    forall n r, In (n, r) results -> exists d p, r = RData d /\ target n = Some p /\ In (p, d) (written path (loop results)).
  Proof.
    induction results as [|[m s] rest IH]; intros H n r I; [contradiction|].
    cbn [extract_loop] in *. destruct s as [d'|]; [destruct (target m) as [p'|] eqn:Et|]; cbn [errors written] in *; try lia.
    destruct I as [I|I].
    - inversion I; subst. exists d', p'. repeat split; [exact Et|left; reflexivity].
    - destruct (IH H n r I) as [d [p [A [B C]]]]. exists d, p. repeat split; auto. right. exact C.
  Qed.

  (* the error count is exactly the number of requests that were not written *)
  Theorem errors_count results :
    errors path (loop results) + N.of_nat (length (written path (loop results))) = N.of_nat (length results).
  Proof.
    induction results as [|[m s] rest IH]; cbn [extract_loop errors written length]; [reflexivity|].
    destruct s as [d'|]; [destruct (target m)|]; cbn [errors written length]; lia.
  Qed.

  (* without --skip-errors: exit status 0 exactly when every requested name was written *)
  Theorem exit_ok_iff_complete results :
    extract_exit_ok path false (loop results) = true <->
    (forall n r, In (n, r) results -> exists d p, r = RData d /\ target n = Some p).
  Proof.
    unfold extract_exit_ok. cbn [orb]. rewrite N.eqb_eq. split.
    - intros H n r I. destruct (no_errors_complete results H n r I) as [d [p [A [B _]]]]. exists d, p. split; assumption.
    - induction results as [|[m s] rest IH]; intro H; cbn [extract_loop errors]; [reflexivity|].
      destruct (H m s (or_introl eq_refl)) as [d [p [A B]]]. subst s. rewrite B. cbn [errors].
      apply IH. intros n r I. apply H. right. exact I.
  Qed.

  (* with --skip-errors the status is 0 and the failures are still counted *)
  Theorem skip_errors_exit results : extract_exit_ok path true (loop results) = true.
  Proof. reflexivity. Qed.

  (* create followed by extract: if the archive returns every input and the targets are
     accepted and pairwise different, the written files are exactly the inputs *)
  Theorem roundtrip_files (inputs : list (name * list N)) :
    (forall n c, In (n, c) inputs -> exists p, target n = Some p) ->
    let o := loop (map (fun e => (fst e, RData (snd e))) inputs) in
    errors path o = 0 /\ length (written path o) = length inputs /\
    (forall n c, In (n, c) inputs -> exists p, target n = Some p /\ In (p, c) (written path o)).
  Proof.
    induction inputs as [|[n c] rest IH]; intro H; cbn [map fst snd extract_loop].
    - repeat split. intros n c I. contradiction.
    - destruct (H n c (or_introl eq_refl)) as [p Ep]. rewrite Ep. cbn [errors written length].
      destruct IH as [A [B C]]; [intros m d I; apply (H m d); right; exact I|].
      repeat split; [exact A|f_equal; exact B|].
      intros m d [I|I].
      + inversion I; subst. exists p. split; [exact Ep|left; reflexivity].
      + destruct (C m d I) as [q [X Y]]. exists q. split; [exact X|right; exact Y].
  Qed.

  Lemma errors_witness results :
    errors path (loop results) <> 0 -> exists n r, In (n, r) results /\ (r = RFail \/ target n = None).
  Proof.
    induction results as [|[m s] rest IH]; cbn [extract_loop errors]; [intro H; contradiction H; reflexivity|].
    destruct s as [d'|]; [destruct (target m) as [p'|] eqn:Et|]; cbn [errors]; intro H.
    - destruct (IH H) as [n [r [I W]]]. exists n, r. split; [right; exact I|exact W].
    - exists m, (RData d'). split; [left; reflexivity|right; exact Et].
    - exists m, RFail. split; [left; reflexivity|left; reflexivity].
  Qed.

  (* the whole command: exit status 0 without --skip-errors means every requested file was
     read, accepted and written; a non-zero status has a cause; whatever the status, nothing
     is written that was not read *)
  Theorem extract_cmd_truth skip results :
    (forall p d, In (p, d) (snd (extract_cmd name path target skip results)) -> exists n, In (n, RData d) results /\ target n = Some p) /\
    (skip = false -> fst (extract_cmd name path target skip results) = true ->
       forall n r, In (n, r) results -> exists d p, r = RData d /\ target n = Some p /\ In (p, d) (snd (extract_cmd name path target skip results))) /\
    (skip = false -> fst (extract_cmd name path target skip results) = false ->
       exists n r, In (n, r) results /\ (r = RFail \/ target n = None)).
  Proof.
    unfold extract_cmd. destruct (negb skip && existsb (is_fail name) results) eqn:E; cbn [fst snd].
    - repeat split.
      + intros p d I. contradiction.
      + intros _ H. discriminate.
      + intros _ _. apply andb_prop in E. destruct E as [_ E]. apply existsb_exists in E. destruct E as [[n r] [I F]].
        exists n, r. split; [exact I|]. left. unfold is_fail in F. cbn [snd] in F. destruct r; [discriminate|reflexivity].
    - repeat split.
      + intros p d I. exact (written_sound results p d I).
      + intros Hs Hok n r I. subst skip. cbn [orb] in Hok. apply N.eqb_eq in Hok. exact (no_errors_complete results Hok n r I).
      + intros Hs Hok. subst skip. cbn [orb] in Hok. apply N.eqb_neq in Hok. exact (errors_witness results Hok).
  Qed.

  (* mpq validate *)
  Theorem validate_exit_truth results :
    validate_exit_ok name results = true <-> (forall n r, In (n, r) results -> exists d, r = RData d).
  Proof.
    unfold validate_exit_ok, validate_errors. rewrite N.eqb_eq. split.
    - intros H n r I. destruct r as [d|]; [exists d; reflexivity|].
      assert (L : In (n, RFail) (filter (fun e => match snd e with RFail => true | RData _ => false end) results)) by (apply filter_In; split; [exact I|reflexivity]).
      destruct (filter _ results); [contradiction|cbn [length] in H; lia].
    - intro H. induction results as [|[m s] rest IH]; cbn [filter snd length]; [reflexivity|].
      destruct (H m s (or_introl eq_refl)) as [d E]. subst s. apply IH. intros n r I. apply (H n r). right. exact I.
  Qed.
End Cli.

(* a DXT texture that passes validation has both dimensions divisible by four *)
Theorem blp_validate_dxt strict jpeg w h :
  blp_validate_ok strict true jpeg w h = true -> w mod 4 = 0 /\ h mod 4 = 0 /\ w <> 0 /\ h <> 0.
Proof.
  unfold blp_validate_ok. intro H. repeat (apply andb_prop in H; destruct H as [H ?]).
  cbn [negb orb] in *. apply negb_true_iff in H. apply orb_false_iff in H. destruct H as [Hw Hh].
  apply N.eqb_neq in Hw, Hh.
  match goal with X : (_ mod 4 =? 0) && (_ mod 4 =? 0) = true |- _ => apply andb_prop in X; destruct X as [A B]; apply N.eqb_eq in A, B end.
  repeat split; assumption.
Qed.

Example outcome_example :
  let target := fun n : N => if n =? 3 then None else Some (n + 100) in
  let o := extract_loop N N target [(1, RData [7]); (2, RFail); (3, RData [9]); (4, RData [])] in
  errors N o = 2 /\ written N o = [(101, [7]); (104, [])] /\ extract_exit_ok N false o = false /\ extract_exit_ok N true o = true.
Proof. vm_compute. repeat split. Qed.
