(* hashlittle2 as transcribed from jenkins.rs (block loop + `match remaining` on the zero-padded
   last block) equals the lookup3 formulation (add the zero-padded little-endian words, mix / final),
   for every key. *)
From WR Require Import Lib.Bits Mpq.Crypt Mpq.Jenkins Proofs.Bits_proofs Proofs.Crypt_proofs.
From Coq Require Import ZArith Lia ZifyN ZifyNat ZifyBool.
Ltac Zify.zify_post_hook ::= Z.div_mod_to_equations.
Open Scope N_scope.

Lemma land_mask k x : N.land x (2 ^ k - 1) = x mod 2 ^ k.
Proof. replace (2 ^ k - 1) with (N.ones k) by (rewrite N.ones_equiv; lia). apply N.land_ones. Qed.

Lemma nth_skipn_add {A} (d : A) : forall i j (k : list A), nth (i + j) k d = nth j (skipn i k) d.
Proof.
  induction i as [|i IH]; intros j k; [reflexivity|].
  destruct k as [|x k]; [destruct j; reflexivity|]. cbn [Nat.add nth skipn]. apply IH.
Qed.

Lemma le4_padded k i : (i + 4 <= length k)%nat -> le4 k i = padded_word k i.
Proof.
  intro H. unfold le4, padded_word.
  replace i with (i + 0)%nat at 1 by lia. rewrite !nth_skipn_add.
  assert (L : (4 <= length (skipn i k))%nat) by (rewrite skipn_length; lia).
  destruct (skipn i k) as [|x0 [|x1 [|x2 [|x3 r]]]]; cbn [length] in L; try lia. reflexivity.
Qed.

Definition impl_tail (k : list N) (a b c : N) : N * N :=
  let remaining := length k in
  let lb := firstn 12 (k ++ repeatN 0 12) in
  let '(a, b, c) := if Nat.ltb 0 remaining then tail_add lb remaining a b c else (a, b, c) in
  let '(a, b, c) := if is_nil k then (a, b, c) else final a b c in
  (c, b).

Definition ref_tail (k : list N) (a b c : N) : N * N :=
  match k with
  | [] => (c, b)
  | _ =>
    let '(_, b', c') :=
      final ((a + padded_word k 0) mod M32) ((b + padded_word k 4) mod M32) ((c + padded_word k 8) mod M32) in
    (c', b')
  end.

Lemma shl16 x : shl32 x 16 = (x * 65536) mod M32.
Proof. unfold shl32. rewrite N.shiftl_mul_pow2. reflexivity. Qed.

Lemma triple_eq (a a' b b' c c' : N) : a = a' -> b = b' -> c = c' -> (a, b, c) = (a', b', c').
Proof. intros -> -> ->. reflexivity. Qed.

Lemma tail_words k a b c :
  (1 <= length k <= 12)%nat -> b < M32 -> c < M32 ->
  tail_add (firstn 12 (k ++ repeatN 0 12)) (length k) a b c
  = ((a + padded_word k 0) mod M32, (b + padded_word k 4) mod M32, (c + padded_word k 8) mod M32).
Proof.
  intros H Hb Hc. unfold M32 in Hb, Hc.
  destruct k as [|x0 [|x1 [|x2 [|x3 [|x4 [|x5 [|x6 [|x7 [|x8 [|x9 [|x10 [|x11 [|x12 r]]]]]]]]]]]]];
    cbn [length] in H; try lia.
  all: unfold tail_add, padded_word, le4, le2; cbn [length repeatN app firstn skipn nth Nat.add le_value];
    rewrite ?shl16; unfold add32, M32.
  all: apply triple_eq; lia.
Qed.

Lemma ref_tail_nonempty k a b c : k <> [] ->
  ref_tail k a b c =
  (let '(_, b', c') := final ((a + padded_word k 0) mod M32) ((b + padded_word k 4) mod M32) ((c + padded_word k 8) mod M32) in (c', b')).
Proof. destruct k; [congruence | reflexivity]. Qed.

Lemma tail_equiv k a b c : (length k <= 12)%nat -> b < M32 -> c < M32 -> impl_tail k a b c = ref_tail k a b c.
Proof.
  intros H Hb Hc.
  destruct k as [|x r] eqn:Ek; [reflexivity|]. rewrite <- Ek in *.
  assert (Hne : k <> []) by (rewrite Ek; discriminate).
  assert (L : (1 <= length k <= 12)%nat) by (rewrite Ek in *; cbn [length] in *; lia).
  rewrite (ref_tail_nonempty k a b c Hne). unfold impl_tail.
  replace (Nat.ltb 0 (length k)) with true by (symmetry; apply Nat.ltb_lt; lia).
  rewrite (tail_words k a b c L Hb Hc).
  replace (is_nil k) with false by (rewrite Ek; reflexivity).
  destruct (final ((a + padded_word k 0) mod M32) ((b + padded_word k 4) mod M32) ((c + padded_word k 8) mod M32)) as [[a' b'] c'].
  reflexivity.
Qed.

Lemma blocks_equiv : forall fuel k a b c,
  (length k <= fuel)%nat ->
  ref_hl2_loop (S fuel) k a b c =
  (let '(k', (a', b', c')) := hl2_blocks fuel k a b c in ref_tail k' a' b' c').
Proof.
  induction fuel as [|fuel IH]; intros k a b c H.
  - destruct k; [reflexivity | cbn [length] in H; lia].
  - cbn [hl2_blocks]. change (ref_hl2_loop (S (S fuel)) k a b c) with
      (if Nat.ltb 12 (length k) then
         let '(a', b', c') := mix ((a + padded_word k 0) mod M32) ((b + padded_word k 4) mod M32) ((c + padded_word k 8) mod M32) in
         ref_hl2_loop (S fuel) (skipn 12 k) a' b' c'
       else ref_tail k a b c).
    destruct (Nat.ltb 12 (length k)) eqn:E.
    + apply Nat.ltb_lt in E.
      rewrite !le4_padded by lia. unfold add32.
      destruct (mix ((a + padded_word k 0) mod M32) ((b + padded_word k 4) mod M32) ((c + padded_word k 8) mod M32)) as [[a' b'] c'].
      apply IH. rewrite skipn_length. lia.
    + reflexivity.
Qed.

Lemma rotl32_lt a k : rotl32 a k < M32.
Proof.
  unfold rotl32. apply lor_lt_M32; [unfold shl32; apply N.mod_lt; discriminate|].
  rewrite N.shiftr_div_pow2. assert (a mod M32 < M32) by (apply N.mod_lt; discriminate).
  assert (0 < 2 ^ (32 - k)) by (apply N.neq_0_lt_0, N.pow_nonzero; discriminate).
  eapply N.le_lt_trans; [apply N.div_le_upper_bound with (q := a mod M32); nia | exact H].
Qed.

Lemma mix_lt a b c : let '(a', b', c') := mix a b c in a' < M32 /\ b' < M32 /\ c' < M32.
Proof.
  unfold mix. cbv zeta. split; [unfold add32; apply N.mod_lt; discriminate|].
  split; [unfold add32; apply N.mod_lt; discriminate|].
  apply lxor_lt_M32; [unfold sub32; apply N.mod_lt; discriminate | apply rotl32_lt].
Qed.

Lemma hl2_blocks_short : forall fuel k a b c k' a' b' c', (length k <= fuel)%nat ->
  b < M32 -> c < M32 ->
  hl2_blocks fuel k a b c = (k', (a', b', c')) -> (length k' <= 12)%nat /\ b' < M32 /\ c' < M32.
Proof.
  induction fuel as [|fuel IH]; intros k a b c k' a' b' c' H Hb Hc E; cbn [hl2_blocks] in E.
  - injection E as <- <- <- <-. repeat split; (assumption || lia).
  - destruct (Nat.ltb 12 (length k)) eqn:El.
    + apply Nat.ltb_lt in El.
      pose proof (mix_lt (add32 a (le4 k 0)) (add32 b (le4 k 4)) (add32 c (le4 k 8))) as M.
      destruct (mix (add32 a (le4 k 0)) (add32 b (le4 k 4)) (add32 c (le4 k 8))) as [[a1 b1] c1].
      destruct M as (_ & M2 & M3).
      eapply IH; [| exact M2 | exact M3 | exact E]. rewrite skipn_length. lia.
    + apply Nat.ltb_ge in El. injection E as <- <- <- <-. repeat split; assumption.
Qed.

Theorem hashlittle2_eq_ref key pc pb : hashlittle2 key pc pb = ref_hashlittle2 key pc pb.
Proof.
  unfold hashlittle2, ref_hashlittle2.
  assert (Ea : add32 (add32 3735928559 (w32 (lenN key))) pc = (3735928559 + lenN key + pc) mod M32).
  { unfold add32, w32, M32. lia. }
  rewrite Ea. set (a0 := (3735928559 + lenN key + pc) mod M32).
  rewrite blocks_equiv by lia. change ((a0 + pb) mod M32) with (add32 a0 pb).
  destruct (hl2_blocks (length key) key a0 a0 (add32 a0 pb)) as [k [[a b] c]] eqn:Eb.
  assert (Ha0 : a0 < M32) by (apply N.mod_lt; discriminate).
  destruct (hl2_blocks_short _ _ _ _ _ _ _ _ _ (le_n _) Ha0 ltac:(unfold add32; apply N.mod_lt; discriminate) Eb) as (Hk & Hb & Hc).
  rewrite <- (tail_equiv k a b c Hk Hb Hc).
  reflexivity.
Qed.

(* ---- the HET hash as a whole ---------------------------------------------------------------------- *)
Lemma land_shiftl_low p s n : s < 2 ^ n -> N.land (N.shiftl p n) s = 0.
Proof.
  intro H. apply N.bits_inj. intro i. rewrite N.land_spec, N.bits_0.
  destruct (N.lt_ge_cases i n) as [Hi | Hi].
  - rewrite N.shiftl_spec_low by assumption. reflexivity.
  - replace (N.testbit s i) with false; [apply andb_false_r|]. symmetry.
    destruct (N.eq_dec s 0) as [-> | Hs]; [apply N.bits_0|].
    apply N.bits_above_log2. apply N.log2_lt_pow2 in H; lia.
Qed.

Lemma lor_shiftl_add p s n : s < 2 ^ n -> N.lor (N.shiftl p n) s = p * 2 ^ n + s.
Proof.
  intro H. pose proof (land_shiftl_low p s n H) as L.
  rewrite <- (N.lxor_lor _ _ L), <- (N.add_nocarry_lxor _ _ L), N.shiftl_mul_pow2. reflexivity.
Qed.

Lemma final_lt a b c : let '(_, b', c') := final a b c in b' < M32 /\ c' < M32.
Proof. unfold final. cbv zeta. split; unfold sub32; apply N.mod_lt; discriminate. Qed.

Lemma ref_hl2_loop_lt : forall fuel k a b c, b < M32 -> c < M32 ->
  let '(s, p) := ref_hl2_loop fuel k a b c in s < M32 /\ p < M32.
Proof.
  induction fuel as [|fuel IH]; intros k a b c Hb Hc; cbn [ref_hl2_loop]; [split; assumption|].
  destruct (Nat.ltb 12 (length k)).
  - pose proof (mix_lt ((a + padded_word k 0) mod M32) ((b + padded_word k 4) mod M32) ((c + padded_word k 8) mod M32)) as M.
    destruct (mix _ _ _) as [[a' b'] c']. destruct M as (_ & M2 & M3). apply IH; assumption.
  - destruct k as [|x r]; [split; assumption|].
    pose proof (final_lt ((a + padded_word (x :: r) 0) mod M32) ((b + padded_word (x :: r) 4) mod M32) ((c + padded_word (x :: r) 8) mod M32)) as F.
    destruct (final _ _ _) as [[a' b'] c']. destruct F as [F1 F2]. split; assumption.
Qed.

Theorem het_hash_eq_ref name hash_bits : wf_bytes name -> het_hash name hash_bits = het_hash_ref name hash_bits.
Proof.
  intro Hwf. unfold het_hash, het_hash_ref.
  assert (En : map norm name = map ref_norm name).
  { induction Hwf as [|c r Hc Hr IH]; [reflexivity|]. cbn [map]. rewrite IH. f_equal. apply (norm_facts c Hc). }
  rewrite En, hashlittle2_eq_ref.
  pose proof (ref_hl2_loop_lt (S (length (map ref_norm name))) (map ref_norm name)
                ((3735928559 + lenN (map ref_norm name) + 2) mod M32) ((3735928559 + lenN (map ref_norm name) + 2) mod M32)
                (((3735928559 + lenN (map ref_norm name) + 2) mod M32 + 1) mod M32)
                ltac:(apply N.mod_lt; discriminate) ltac:(apply N.mod_lt; discriminate)) as B.
  unfold ref_hashlittle2.
  destruct (ref_hl2_loop _ _ _ _ _) as [s p]. destruct B as [Bs Bp].
  rewrite (lor_shiftl_add p s 32) by exact Bs. change (2 ^ 32) with 4294967296.
  destruct (hash_bits <? 64); [|rewrite N.shiftr_div_pow2; change 255 with (2 ^ 8 - 1); rewrite land_mask; reflexivity].
  destruct (hash_bits <? 8); [reflexivity|].
  rewrite !N.shiftl_1_l, land_mask, N.shiftr_div_pow2.
  change 255 with (2 ^ 8 - 1). rewrite land_mask. reflexivity.
Qed.

(* ---- one-at-a-time (BET name hash) ------------------------------------------------------------------ *)
Lemma norm_lower_table :
  forallb (fun c => norm_lower c =? ref_lower (if c =? 47 then 92 else c)) all_bytes = true.
Proof. vm_compute. reflexivity. Qed.

Lemma norm_lower_ref c : c < 256 -> norm_lower c = ref_lower (if c =? 47 then 92 else c).
Proof.
  intro H. pose proof norm_lower_table as T. rewrite forallb_forall in T.
  apply N.eqb_eq, T, all_bytes_complete, H.
Qed.

Lemma oaat_loop_ref cs : forall h, wf_bytes cs ->
  oaat_loop (map norm_lower cs) h =
  fold_left (fun h c => let ch := ref_lower (if c =? 47 then 92 else c) in
                        let h1 := (h + ch) mod M64 in
                        let h2 := (h1 + h1 * 1024) mod M64 in
                        N.lxor h2 (h2 / 64)) cs h.
Proof.
  induction cs as [|c r IH]; intros h Hwf; [reflexivity|].
  inversion Hwf as [|? ? Hc Hr]; subst. cbn [map oaat_loop fold_left].
  rewrite IH by exact Hr. f_equal. rewrite (norm_lower_ref c Hc). cbv zeta.
  unfold add64, shl64, shr64. rewrite N.shiftl_mul_pow2, N.shiftr_div_pow2.
  change (2 ^ 10) with 1024. change (2 ^ 6) with 64.
  f_equal; [|f_equal]; unfold M64; lia.
Qed.

Theorem oaat_eq_ref name : wf_bytes name -> jenkins_one_at_a_time name = ref_oaat name.
Proof.
  intro Hwf. unfold jenkins_one_at_a_time, ref_oaat. rewrite (oaat_loop_ref name 0 Hwf).
  remember (fold_left _ name 0) as h eqn:Eh. clear Eh. cbv zeta.
  unfold add64, shl64, shr64. rewrite !N.shiftl_mul_pow2, N.shiftr_div_pow2.
  change (2 ^ 3) with 8. change (2 ^ 11) with 2048. change (2 ^ 15) with 32768.
  assert (E1 : (h + (h * 8) mod M64) mod M64 = (h + h * 8) mod M64) by (unfold M64; lia).
  rewrite E1. clear E1. remember (N.lxor _ _) as h2 eqn:Eh2. clear Eh2. unfold M64. lia.
Qed.
