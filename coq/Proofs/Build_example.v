(* Non-vacuity of build_roundtrip: a concrete V1 archive (two files, one of them two sectors long
   and encrypted with the position-dependent key, listfile, CRC attributes, sector checksums)
   meets every hypothesis; the conclusion is also evaluated directly. *)
From WR Require Import Lib.Bits Lib.Codec Mpq.Crypt Mpq.Archive Proofs.FileLayout_proofs Proofs.Sectors_proofs
  Proofs.Sectors_example Proofs.Build_proofs.
From Coq Require Import ZArith Lia.
Open Scope N_scope.

Definition ex_cfg : cfg := {| c_version := 1; c_shift := 0; c_listfile := true; c_attrs := 1; c_crc := true; c_defcomp := 2 |}.
Definition ex_files : list file_spec :=
  [ ex_file; {| f_name := [100; 47; 101]; f_data := [1; 2; 3; 4; 5]; f_comp := 0; f_enc := 1 |} ].
Definition ex_built : list N := match build toy_c ex_cfg ex_files with BOk b => b | _ => [] end.

Example build_hypotheses_met :
  (c_version ex_cfg = 1 \/ c_version ex_cfg = 2) /\ c_shift ex_cfg < 65536 /\
  build toy_c ex_cfg ex_files = BOk ex_built /\ lenN ex_built < M32 /\
  Forall (file_ok toy_c toy_d (sector_size (c_shift ex_cfg))) (pending ex_cfg ex_files) /\
  NoDup (map hkey (pending ex_cfg ex_files)) /\
  (c_attrs ex_cfg = 1 -> ~ In (hash_string s_attributes ht_name_a, hash_string s_attributes ht_name_b) (map hkey (pending ex_cfg ex_files))) /\
  (exists a, open ex_built = Some a /\ read_file toy_d a ex_name = ROk ex_data /\ read_file toy_d a [100; 92; 101] = ROk [1; 2; 3; 4; 5]).
Proof.
  split; [left; reflexivity|]. split; [reflexivity|]. split; [vm_compute; reflexivity|]. split; [vm_compute; reflexivity|].
  split.
  { unfold pending. cbn [c_listfile ex_cfg ex_files map].
    assert (Wf : forall l : list N, forallb (fun b => b <? 256) l = true -> wf_bytes l).
    { intros l Hl. rewrite forallb_forall in Hl. apply Forall_forall. intros b Hb. apply N.ltb_lt, Hl, Hb. }
    constructor; [|constructor; [|constructor; [|constructor]]].
    - split; [vm_compute; reflexivity|]. split; [apply Wf; vm_compute; reflexivity|]. split; [vm_compute; reflexivity|].
      replace (lenN (f_data (normalize_file ex_file)) <=? sector_size (c_shift ex_cfg)) with false by (vm_compute; reflexivity).
      vm_compute sectors. constructor; [|constructor; [|constructor]].
      + intros c Hc El. vm_compute in Hc. injection Hc as <-. split; [repeat constructor|]. split; [reflexivity|].
        exists 1, [65]. split; reflexivity.
      + intros c Hc El. vm_compute in Hc. injection Hc as <-. vm_compute in El. discriminate.
    - split; [vm_compute; reflexivity|]. split; [apply Wf; vm_compute; reflexivity|]. split; [vm_compute; reflexivity|].
      replace (lenN (f_data (normalize_file {| f_name := [100; 47; 101]; f_data := [1; 2; 3; 4; 5]; f_comp := 0; f_enc := 1 |})) <=? sector_size (c_shift ex_cfg)) with true by (vm_compute; reflexivity).
      intros c Hc El. vm_compute in Hc. injection Hc as <-. vm_compute in El. discriminate.
    - split; [vm_compute; reflexivity|]. split; [apply Wf; vm_compute; reflexivity|]. split; [vm_compute; reflexivity|].
      match goal with |- if ?b then _ else _ => replace b with true by (vm_compute; reflexivity) end.
      intros c Hc El. vm_compute in Hc. injection Hc as <-. vm_compute in El. discriminate. }
  split.
  { vm_compute. repeat constructor; cbn [In]; intros H; repeat (destruct H as [H | H]; [discriminate H|]); exact H. }
  split.
  { intros _ H. vm_compute in H. repeat (destruct H as [H | H]; [discriminate H|]). exact H. }
  destruct (open ex_built) as [a|] eqn:Eo; [|vm_compute in Eo; discriminate].
  exists a. split; [reflexivity|].
  assert (Ea : Some a = open ex_built) by (symmetry; exact Eo). clear Eo.
  vm_compute in Ea. injection Ea as ->. split; vm_compute; reflexivity.
Qed.
