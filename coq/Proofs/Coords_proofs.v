From Coq Require Import ZArith List Lia Bool.
From WR Require Import Fmt.Coords.
Import ListNotations.
Open Scope Z_scope.

Lemma all_tiles_sweep : forallb tile_ok all_tiles = true.
Proof. vm_compute. reflexivity. Qed.

Lemma in_idx64 x : 0 <= x < 64 -> In x idx64.
Proof.
  intro H. unfold idx64. apply in_map_iff. exists (Z.to_nat x). split; [lia|]. apply in_seq. lia.
Qed.

Lemma all_tiles_complete x y : 0 <= x < 64 -> 0 <= y < 64 -> In (x, y) all_tiles.
Proof.
  intros Hx Hy. unfold all_tiles. apply in_flat_map. exists x. split; [apply in_idx64, Hx|].
  apply in_map_iff. exists y. split; [reflexivity | apply in_idx64, Hy].
Qed.

(* every one of the 64x64 tiles maps to world coordinates and back to itself *)
Theorem tile_world_roundtrip x y :
  0 <= x < 64 -> 0 <= y < 64 ->
  let '(wx, wy) := tile_to_world x y in world_to_tile wx wy = (x, y).
Proof.
  intros Hx Hy. pose proof all_tiles_sweep as S. rewrite forallb_forall in S.
  specialize (S (x, y) (all_tiles_complete x y Hx Hy)). unfold tile_ok in S.
  destruct (tile_to_world x y) as [wx wy]. destruct (world_to_tile wx wy) as [x' y'].
  apply andb_true_iff in S. destruct S as [A B]. apply Z.eqb_eq in A, B. subst. reflexivity.
Qed.

(* the code as found (before fix: commit) violated the property: 960 of 4096 tiles *)
Lemma old_code_refuted :
  tile_ok_old (0, 4) = false /\ length (filter (fun t => negb (tile_ok_old t)) all_tiles) = 960%nat.
Proof. vm_compute. split; reflexivity. Qed.

