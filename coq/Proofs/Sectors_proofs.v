(* File-level round trip for files written as separately compressed sectors behind an offset
   table (with or without the checksum table, plain or encrypted): read_file gives back the
   content for every length, sector size and codec that honours the per-unit contract. *)
From WR Require Import Lib.Bits Lib.Codec Mpq.Crypt Mpq.Archive Proofs.Bits_proofs Proofs.Codec_proofs Proofs.Crypt_proofs
  Proofs.FileLayout_proofs.
From Coq Require Import ZArith Lia ZifyN ZifyNat ZifyBool.
Ltac Zify.zify_post_hook ::= Z.div_mod_to_equations.
Open Scope N_scope.

(* ---- shape of the sector list ------------------------------------------------------------ *)
Fixpoint sect_ok (ssz : N) (ss : list (list N)) : Prop :=
  match ss with
  | [] => True
  | s :: r => match r with
              | [] => 0 < lenN s <= ssz
              | _ :: _ => lenN s = ssz /\ sect_ok ssz r
              end
  end.

Lemma split_sect_ok n : forall fuel bs, (0 < n)%nat -> (length bs <= fuel)%nat ->
  sect_ok (N.of_nat n) (split_sectors fuel n bs).
Proof.
  induction fuel as [|fuel IH]; intros bs Hn Hl; [exact I|].
  destruct bs as [|x bs]; [exact I|].
  cbn [split_sectors].
  assert (Hsk : (length (skipn n (x :: bs)) <= fuel)%nat) by (rewrite skipn_length; cbn [length] in *; lia).
  specialize (IH (skipn n (x :: bs)) Hn Hsk).
  destruct (skipn n (x :: bs)) as [|y t] eqn:Es.
  - rewrite split_nil. cbn [sect_ok]. unfold lenN. rewrite firstn_length. cbn [length]. lia.
  - destruct fuel as [|fuel]; [cbn [length] in Hsk; lia|].
    cbn [split_sectors] in *. cbn [sect_ok]. split; [|exact IH].
    unfold lenN. rewrite firstn_length.
    apply (f_equal (@length N)) in Es. rewrite skipn_length in Es. cbn [length] in *. lia.
Qed.

Lemma split_length n : forall fuel bs, (0 < n)%nat -> (length bs <= fuel)%nat ->
  N.of_nat (length (split_sectors fuel n bs)) = (N.of_nat (length bs) + N.of_nat n - 1) / N.of_nat n.
Proof.
  induction fuel as [|fuel IH]; intros bs Hn Hl.
  - destruct bs; [|cbn [length] in Hl; lia]. cbn [split_sectors length]. symmetry. apply N.div_small. lia.
  - destruct bs as [|x bs].
    + cbn [split_sectors length]. symmetry. apply N.div_small. lia.
    + cbn [split_sectors]. cbn [length]. rewrite Nat2N.inj_succ, IH; [|exact Hn|rewrite skipn_length; cbn [length] in *; lia].
      rewrite skipn_length. cbn [length].
      destruct (Nat.le_gt_cases n (S (length bs))) as [Hge|Hlt].
      * replace (N.of_nat (S (length bs)) + N.of_nat n - 1) with ((N.of_nat (S (length bs) - n) + N.of_nat n - 1) + 1 * N.of_nat n) by lia.
        rewrite N.div_add by lia. lia.
      * replace (S (length bs) - n)%nat with 0%nat by lia.
        replace ((N.of_nat 0 + N.of_nat n - 1) / N.of_nat n) with 0 by (symmetry; apply N.div_small; lia).
        apply N.div_unique with (r := N.of_nat (S (length bs)) - 1); lia.
Qed.

Lemma min_expected ssz s r : sect_ok ssz (s :: r) -> N.min (lenN (concat (s :: r))) ssz = lenN s.
Proof.
  cbn [sect_ok concat]. unfold lenN. rewrite app_length. destruct r as [|s2 r]; intro H.
  - cbn [concat length]. lia.
  - destruct H as [H _]. unfold lenN in H. lia.
Qed.

Lemma sect_ok_tail ssz s r : sect_ok ssz (s :: r) -> sect_ok ssz r.
Proof. cbn [sect_ok]. destruct r; [intros _; exact I | intros [_ H]; exact H]. Qed.

(* ---- offsets ----------------------------------------------------------------------------- *)
Lemma offsets_hd st cs : offsets st cs = st :: tl (offsets st cs).
Proof. destruct cs; reflexivity. Qed.

Lemma offsets_length cs : forall st, length (offsets st cs) = S (length cs).
Proof. induction cs as [|c r IH]; intro st; cbn [offsets length]; [reflexivity|]. rewrite IH. reflexivity. Qed.

Lemma offsets_last cs : forall st, nth (length cs) (offsets st cs) 0 = st + lenN (concat cs).
Proof.
  induction cs as [|c r IH]; intro st; cbn [offsets length nth concat].
  - unfold lenN. cbn [length]. lia.
  - rewrite IH. unfold lenN. rewrite app_length. lia.
Qed.

Lemma offsets_first cs st : nth 0 (offsets st cs) 0 = st.
Proof. destruct cs; reflexivity. Qed.

Lemma offsets_bounded cs : forall st, st + lenN (concat cs) < M32 -> Forall (fun w => w < M32) (offsets st cs).
Proof.
  induction cs as [|c r IH]; intros st H; cbn [offsets].
  - constructor; [|constructor]. unfold lenN in H. cbn [concat length] in H. lia.
  - cbn [concat] in H. unfold lenN in H. rewrite app_length in H. constructor; [lia|].
    apply IH. unfold lenN. lia.
Qed.

(* ---- tables of words as bytes ------------------------------------------------------------- *)
Lemma concat_bytes_of_u32 ws : concat (map bytes_of_u32 ws) = bytes_of_words ws.
Proof. induction ws as [|w r IH]; cbn [map concat bytes_of_words]; [reflexivity|]. rewrite IH. reflexivity. Qed.

Lemma decrypt_block_nil k : decrypt_block [] k = [].
Proof. unfold decrypt_block. destruct (k =? 0); reflexivity. Qed.

Lemma decrypt_words_bytes ws k :
  Forall (fun w => w < M32) ws ->
  decrypt_file_data (bytes_of_words ws) k = bytes_of_words (decrypt_block ws k).
Proof.
  intro H. unfold decrypt_file_data.
  destruct ws as [|w ws]; [rewrite decrypt_block_nil; reflexivity|].
  replace (is_nil (bytes_of_words (w :: ws))) with false by reflexivity. cbn [orb].
  destruct (k =? 0) eqn:Ek.
  - unfold decrypt_block. rewrite Ek. reflexivity.
  - rewrite bytes_of_words_length.
    replace (4 * length (w :: ws) / 4)%nat with (length (w :: ws)) by (rewrite Nat.mul_comm, Nat.div_mul; lia).
    rewrite firstn_all2 by (rewrite bytes_of_words_length; lia).
    rewrite skipn_all2 by (rewrite bytes_of_words_length; lia).
    cbn [dec_tail]. rewrite app_nil_r. unfold dec_head.
    rewrite words_of_bytes_of_words_nil by exact H. reflexivity.
Qed.

Lemma forall2_length {A B} (R : A -> B -> Prop) l1 l2 : Forall2 R l1 l2 -> length l1 = length l2.
Proof. induction 1; cbn [length]; congruence. Qed.

Lemma mapi_id {A} (l : list A) : forall i : N, mapi (fun _ x => x) i l = l.
Proof. induction l as [|x r IH]; intro i; cbn [mapi]; [reflexivity|]. rewrite IH. reflexivity. Qed.

Lemma slice_at (p x q : list N) (off len : N) : off = lenN p -> len = lenN x -> slice (p ++ x ++ q) off len = x.
Proof. intros -> ->. apply slice_mid. Qed.

Section Sectors.
  Variable compress : N -> list N -> option (list N).
  Variable decompress : N -> list N -> N -> option (list N).

  (* what the builder stores for one sector s: the sector itself, or a shorter blob that decompresses to it *)
  Definition sec_rel (s c : list N) : Prop :=
    wf_bytes c /\
    (c = s \/ (lenN c < lenN s /\ exists m payload, c = m :: payload /\ decompress m payload (lenN s) = Some s)).

  Lemma compress_sectors_spec method : forall ss cs b,
    compress_sectors compress method ss = Some (cs, b) ->
    Forall (unit_contract compress decompress method) ss -> Forall wf_bytes ss ->
    Forall2 sec_rel ss cs.
  Proof.
    induction ss as [|s r IH]; intros cs b H Hc Hw.
    - cbn [compress_sectors] in H. injection H as <- <-. constructor.
    - cbn [compress_sectors] in H.
      destruct (compress_unit compress method s) as [[c b1]|] eqn:Eu; [|discriminate].
      destruct (compress_sectors compress method r) as [[cs' b2]|] eqn:Er; [|discriminate].
      injection H as <- <-.
      inversion Hc as [|? ? Hc1 Hc2]; subst. inversion Hw as [|? ? Hw1 Hw2]; subst.
      constructor; [|eapply IH; [reflexivity | exact Hc2 | exact Hw2]].
      unfold compress_unit in Eu.
      destruct ((method =? 0) || is_nil s).
      { injection Eu as <- <-. split; [exact Hw1 | left; reflexivity]. }
      destruct (compress method s) as [c0|] eqn:Ec; [|discriminate].
      destruct (list_eqb c0 s) eqn:El.
      { injection Eu as <- <-. split; [exact Hw1 | left; reflexivity]. }
      injection Eu as <- <-.
      destruct (Hc1 c0 Ec El) as (Wc & Lc & m & payload & Em & Ed).
      split; [exact Wc|]. right. split; [exact Lc|]. exists m, payload. split; assumption.
  Qed.

  Definition Eb (encb : bool) (key : N) (i : N) (c : list N) : list N :=
    if encb then encrypt_data c (add32 key i) else c.

  Lemma Eb_length encb key i c : lenN (Eb encb key i c) = lenN c.
  Proof. unfold Eb, lenN. destruct encb; [rewrite encrypt_data_length|]; reflexivity. Qed.

  Lemma mapi_Eb_length encb key : forall cs i, lenN (concat (mapi (Eb encb key) i cs)) = lenN (concat cs).
  Proof.
    induction cs as [|c r IH]; intro i; cbn [mapi concat]; [reflexivity|].
    unfold lenN in *. rewrite !app_length. specialize (IH (i + 1)). pose proof (Eb_length encb key i c) as E. unfold lenN in E. lia.
  Qed.

  Lemma read_sector_ok encb key i s c :
    sec_rel s c -> read_sector_opt decompress encb key i (Eb encb key i c) (lenN s) true = Some s.
  Proof.
    intros (Wc & Hc). unfold read_sector_opt.
    assert (Ed : (if encb then decrypt_file_data (Eb encb key i c) (add32 key i) else Eb encb key i c) = c).
    { unfold Eb. destruct encb; [apply bytes_decrypt_encrypt, Wc | reflexivity]. }
    rewrite Ed. cbn [andb].
    destruct Hc as [-> | (Hl & m & payload & -> & Hd)].
    - rewrite N.ltb_irrefl. rewrite N.min_id. unfold lenN. rewrite Nat2N.id, firstn_all. reflexivity.
    - replace (lenN (m :: payload) <? lenN s) with true by (symmetry; apply N.ltb_lt; exact Hl).
      exact Hd.
  Qed.

  (* the sector loop with checksums, over any suffix of the sector list *)
  Lemma read_chk_ok encb key ssz (a : list N) (pos : N) : forall ss cs,
    Forall2 sec_rel ss cs -> sect_ok ssz ss ->
    forall p q i start,
      a = p ++ concat (mapi (Eb encb key) i cs) ++ q -> lenN p = pos + start ->
      read_sectors_chk decompress (length ss) a pos (offsets start cs) (map adler32 ss) encb key i (lenN (concat ss)) ssz
      = Some (concat ss).
  Proof.
    induction 1 as [|s c ss cs Hsc HR IH]; intros Hok p q i start Ha Hp; [reflexivity|].
    cbn [length offsets map]. rewrite (offsets_hd (start + lenN c) cs).
    cbn [read_sectors_chk]. rewrite <- (offsets_hd (start + lenN c) cs).
    replace (start + lenN c <? start) with false by (symmetry; apply N.ltb_ge; lia).
    rewrite (min_expected ssz s ss Hok).
    replace (start + lenN c - start) with (lenN c) by lia.
    assert (Sl : slice a (pos + start) (lenN c) = Eb encb key i c).
    { rewrite Ha. cbn [mapi concat]. rewrite <- app_assoc.
      apply slice_at; [symmetry; exact Hp | symmetry; apply Eb_length]. }
    rewrite Sl. unfold read_sector. rewrite (read_sector_ok encb key i s c Hsc).
    rewrite N.eqb_refl.
    replace (lenN (concat (s :: ss)) - lenN s) with (lenN (concat ss)) by (cbn [concat]; unfold lenN; rewrite app_length; lia).
    rewrite (IH (sect_ok_tail ssz s ss Hok) (p ++ Eb encb key i c) q (i + 1) (start + lenN c)).
    - reflexivity.
    - rewrite Ha. cbn [mapi concat]. rewrite <- !app_assoc. reflexivity.
    - unfold lenN in *. rewrite app_length. pose proof (Eb_length encb key i c) as E. unfold lenN in E. lia.
  Qed.

  (* the sector loop of a file without checksums *)
  Lemma read_plain_ok encb key ssz (a : list N) (pos : N) : forall ss cs,
    Forall2 sec_rel ss cs -> sect_ok ssz ss ->
    forall p q i start,
      a = p ++ concat (mapi (Eb encb key) i cs) ++ q -> lenN p = pos + start ->
      read_sectors decompress (length ss) a pos (offsets start cs) encb key i (lenN (concat ss)) ssz true
      = concat ss.
  Proof.
    induction 1 as [|s c ss cs Hsc HR IH]; intros Hok p q i start Ha Hp; [reflexivity|].
    cbn [length offsets]. rewrite (offsets_hd (start + lenN c) cs).
    cbn [read_sectors]. rewrite <- (offsets_hd (start + lenN c) cs).
    replace (start + lenN c <? start) with false by (symmetry; apply N.ltb_ge; lia).
    rewrite (min_expected ssz s ss Hok).
    replace (start + lenN c - start) with (lenN c) by lia.
    assert (Sl : slice a (pos + start) (lenN c) = Eb encb key i c).
    { rewrite Ha. cbn [mapi concat]. rewrite <- app_assoc.
      apply slice_at; [symmetry; exact Hp | symmetry; apply Eb_length]. }
    rewrite Sl. unfold read_sector. rewrite (read_sector_ok encb key i s c Hsc).
    replace (lenN (concat (s :: ss)) - lenN s) with (lenN (concat ss)) by (cbn [concat]; unfold lenN; rewrite app_length; lia).
    rewrite (IH (sect_ok_tail ssz s ss Hok) (p ++ Eb encb key i c) q (i + 1) (start + lenN c)).
    - reflexivity.
    - rewrite Ha. cbn [mapi concat]. rewrite <- !app_assoc. reflexivity.
    - unfold lenN in *. rewrite app_length. pose proof (Eb_length encb key i c) as E. unfold lenN in E. lia.
  Qed.
  Lemma multi_flags (crc : bool) (enc : N) :
    enc < 3 ->
    let fl := (if crc then fl_sector_crc else 0) + fl_compress + enc_flags enc + fl_exists in
    has_flag fl fl_patch_file = false /\ has_flag fl fl_single_unit = false /\
    has_flag fl fl_compress = true /\ has_flag fl fl_sector_crc = crc /\
    has_flag fl fl_encrypted = negb (enc =? 0) /\ has_flag fl fl_fix_key = (enc =? 2).
  Proof.
    intro H. assert (E : enc = 0 \/ enc = 1 \/ enc = 2) by lia.
    destruct E as [-> | [-> | ->]]; destruct crc; vm_compute; repeat split.
  Qed.

  Lemma plain_flags (enc : N) : enc < 3 -> has_flag (enc_flags enc) fl_compress = false.
  Proof. intro H. assert (E : enc = 0 \/ enc = 1 \/ enc = 2) by lia. destruct E as [-> | [-> | ->]]; reflexivity. Qed.

  Lemma adler_words ss : words_of_bytes (length ss) (concat (map (fun s => bytes_of_u32 (adler32 s)) ss)) = map adler32 ss.
  Proof.
    replace (concat (map (fun s => bytes_of_u32 (adler32 s)) ss)) with (bytes_of_words (map adler32 ss)).
    - rewrite <- (map_length adler32 ss). apply words_of_bytes_of_words_nil.
      apply Forall_forall. intros w Hw. apply in_map_iff in Hw. destruct Hw as (x & <- & _). apply adler32_lt.
    - rewrite <- concat_bytes_of_u32, map_map. reflexivity.
  Qed.

  Variable name : list N.

  (* a file longer than one sector of which at least one sector shrank: offset table,
     optional checksum table, separately compressed (and encrypted) sectors *)
  Theorem compressed_sectors_roundtrip (a : archive) (ssz : N) (crc : bool) (f : file_spec) (pos : N) (bytes : list N) (csize flags : N) :
    f_name f = name -> f_enc f < 3 -> wf_bytes (f_data f) ->
    0 < ssz -> ssz < lenN (f_data f) -> lenN (f_data f) < M32 ->
    Forall (unit_contract compress decompress (f_comp f)) (sectors ssz (f_data f)) ->
    write_file compress ssz crc f pos = Some (bytes, csize, flags) ->
    has_flag flags fl_compress = true ->
    lenN bytes < M32 ->
    carries name a pos bytes csize (lenN (f_data f)) flags ssz ->
    read_file decompress a name = ROk (f_data f).
  Proof.
    intros Hn Henc Hwf Hpos0 Hsz Hlt Hcon Hw Hfc Hb32 ((pre & post & Ea & Epre) & Hss & Hpos & Hfind).
    unfold write_file in Hw.
    replace (lenN (f_data f) <=? ssz) with false in Hw by (symmetry; apply N.leb_gt; exact Hsz).
    set (data := f_data f) in *.
    destruct (compress_sectors compress (f_comp f) (sectors ssz data)) as [[cs shrunk]|] eqn:Ecs; [|discriminate].
    destruct shrunk; cbn [negb] in Hw.
    2: { injection Hw as <- <- <-. rewrite plain_flags in Hfc by exact Henc. discriminate. }
    rewrite Hn in Hw.
    set (key := file_key name pos (lenN data) (f_enc f =? 2)) in *.
    set (ss := sectors ssz data) in *.
    assert (Hn0 : (0 < N.to_nat ssz)%nat) by lia.
    assert (Css : concat ss = data) by (apply concat_split; [exact Hn0 | lia]).
    assert (HR : Forall2 sec_rel ss cs).
    { eapply compress_sectors_spec; [exact Ecs | exact Hcon | apply split_wf, Hwf]. }
    assert (Hok : sect_ok ssz ss).
    { replace ssz with (N.of_nat (N.to_nat ssz)) at 1 by lia. apply split_sect_ok; [exact Hn0 | lia]. }
    assert (Hns : lenN ss = (lenN data + ssz - 1) / ssz).
    { unfold lenN, ss, sectors. rewrite split_length by (try exact Hn0; lia). rewrite N2Nat.id. reflexivity. }
    assert (Hlcs : length cs = length ss) by (symmetry; eapply forall2_length; exact HR).
    set (nsec := lenN ss) in *.
    set (encb := negb (f_enc f =? 0)).
    set (keyr := if encb then key else 0).
    set (tblsz := (nsec + 1) * 4) in *.
    set (crcsz := if crc then nsec * 4 else 0) in *.
    set (offs := offsets (tblsz + crcsz) cs) in *.
    set (crcb := if crc then concat (map (fun s => bytes_of_u32 (adler32 s)) ss) else []) in *.
    set (T := if f_enc f =? 0 then concat (map bytes_of_u32 offs) else bytes_of_words (encrypt_block offs (sub32 key 1))) in *.
    set (body := if f_enc f =? 0 then concat cs else concat (mapi (fun i s => encrypt_data s (add32 key i)) 0 cs)) in *.
    injection Hw as <- <- <-.
    assert (Ebody : body = concat (mapi (Eb encb keyr) 0 cs)).
    { unfold body, encb, keyr. destruct (f_enc f =? 0); cbn [negb]; [|reflexivity].
      f_equal. symmetry. apply (mapi_id cs 0). }
    assert (Lbody : lenN body = lenN (concat cs)) by (rewrite Ebody; apply mapi_Eb_length).
    assert (Loffs : length offs = S (length ss)) by (unfold offs; rewrite offsets_length, Hlcs; reflexivity).
    assert (LT : lenN T = tblsz).
    { unfold T, tblsz, nsec, lenN. destruct (f_enc f =? 0).
      - rewrite concat_bytes_of_u32, bytes_of_words_length, Loffs. lia.
      - rewrite bytes_of_words_length, encrypt_block_length, Loffs. lia. }
    assert (Lcrc : lenN crcb = crcsz).
    { unfold crcb, crcsz, nsec, lenN. destruct crc; [|reflexivity].
      replace (concat (map (fun s => bytes_of_u32 (adler32 s)) ss)) with (bytes_of_words (map adler32 ss))
        by (rewrite <- concat_bytes_of_u32, map_map; reflexivity).
      rewrite bytes_of_words_length, map_length. lia. }
    assert (Hall : lenN (T ++ crcb ++ body) = tblsz + crcsz + lenN (concat cs)).
    { unfold lenN in *. rewrite !app_length. lia. }
    assert (Hoffs32 : Forall (fun w => w < M32) offs) by (apply offsets_bounded; lia).
    assert (Dec : (if encb then decrypt_file_data T (sub32 keyr 1) else T) = bytes_of_words offs).
    { unfold T, encb, keyr. destruct (f_enc f =? 0); cbn [negb]; [apply concat_bytes_of_u32|].
      rewrite decrypt_words_bytes by (apply encrypt_block_lt, Hoffs32).
      rewrite decrypt_encrypt_block. reflexivity. }
    destruct (multi_flags crc (f_enc f) Henc) as (F1 & F2 & F3 & F4 & F5 & F6).
    unfold read_file. rewrite Hfind. cbn [b_flags b_pos b_csize b_fsize].
    rewrite F1, F2, F3, F4, F5, F6. cbn [orb negb].
    fold key. fold encb. fold keyr.
    assert (Hlen : lenN (a_bytes a) <? pos + (tblsz + lenN body) = false).
    { apply N.ltb_ge. rewrite Ea. unfold lenN in *. rewrite !app_length in *. lia. }
    rewrite Hlen, Hss. rewrite <- Hns. fold nsec. fold tblsz.
    assert (ST : slice (a_bytes a) pos tblsz = T).
    { rewrite Ea. rewrite <- app_assoc. apply slice_at; [symmetry; exact Epre | symmetry; exact LT]. }
    rewrite ST.
    replace (lenN T <? tblsz) with false by (symmetry; apply N.ltb_ge; lia).
    rewrite Dec.
    assert (Wo : words_of_bytes (N.to_nat (nsec + 1)) (bytes_of_words offs) = offs).
    { replace (N.to_nat (nsec + 1)) with (length offs) by (rewrite Loffs; unfold nsec, lenN; lia).
      apply words_of_bytes_of_words_nil, Hoffs32. }
    rewrite Wo.
    assert (Hfirst : nth 0 offs 0 = tblsz + crcsz) by apply offsets_first.
    assert (Hlast : nth (N.to_nat nsec) offs 0 = tblsz + crcsz + lenN (concat cs)).
    { replace (N.to_nat nsec) with (length cs) by (rewrite Hlcs; unfold nsec, lenN; lia). apply offsets_last. }
    assert (Hplace : a_bytes a = (pre ++ T ++ crcb) ++ concat (mapi (Eb encb keyr) 0 cs) ++ post).
    { rewrite Ea, Ebody. rewrite <- !app_assoc. reflexivity. }
    assert (Hp : lenN (pre ++ T ++ crcb) = pos + (tblsz + crcsz)).
    { unfold lenN in *. rewrite !app_length. lia. }
    replace (N.to_nat nsec) with (length ss) by (unfold nsec, lenN; lia).
    rewrite <- Css.
    destruct crc.
    - (* checksum table present and in the layout the library writes *)
      assert (Ecz : crcsz = nsec * 4) by reflexivity.
      replace (nth (length ss) offs 0) with (tblsz + nsec * 4 + lenN (concat cs))
        by (rewrite <- Ecz, <- Hlast; f_equal; unfold nsec, lenN; lia).
      replace (tblsz + nsec * 4 + lenN (concat cs) =? tblsz + lenN body + nsec * 4) with true
        by (symmetry; apply N.eqb_eq; lia).
      cbn [orb andb].
      assert (SC : slice (a_bytes a) (pos + tblsz) (nsec * 4) = crcb).
      { rewrite Ea. replace (pre ++ (T ++ crcb ++ body) ++ post) with ((pre ++ T) ++ crcb ++ (body ++ post)) by (rewrite <- !app_assoc; reflexivity).
        apply slice_at; [unfold lenN in *; rewrite app_length; lia | rewrite Lcrc; exact (eq_sym Ecz)]. }
      rewrite SC.
      replace (lenN crcb <? nsec * 4) with false by (symmetry; apply N.ltb_ge; lia).
      unfold crcb at 1. rewrite adler_words.
      unfold offs.
      rewrite (read_chk_ok encb keyr ssz (a_bytes a) pos ss cs HR Hok (pre ++ T ++ crcb) post 0 (tblsz + crcsz) Hplace Hp).
      reflexivity.
    - unfold offs.
      rewrite (read_plain_ok encb keyr ssz (a_bytes a) pos ss cs HR Hok (pre ++ T ++ crcb) post 0 (tblsz + crcsz) Hplace Hp).
      reflexivity.
  Qed.
  (* every file the builder lays out: one unit, a plain run of sectors, or compressed sectors *)
  Theorem file_roundtrip (a : archive) (ssz : N) (crc : bool) (f : file_spec) (pos : N) (bytes : list N) (csize flags : N) :
    f_name f = name -> f_enc f < 3 -> wf_bytes (f_data f) ->
    0 < ssz -> lenN (f_data f) < M32 -> lenN bytes < M32 ->
    (if lenN (f_data f) <=? ssz then unit_contract compress decompress (f_comp f) (f_data f)
     else Forall (unit_contract compress decompress (f_comp f)) (sectors ssz (f_data f))) ->
    write_file compress ssz crc f pos = Some (bytes, csize, flags) ->
    carries name a pos bytes csize (lenN (f_data f)) flags ssz ->
    read_file decompress a name = ROk (f_data f).
  Proof.
    intros Hn Henc Hwf Hpos0 Hlt Hb32 Hcon Hw Hcar.
    destruct (lenN (f_data f) <=? ssz) eqn:El.
    - apply N.leb_le in El. eapply single_unit_roundtrip; eassumption.
    - apply N.leb_gt in El.
      destruct (has_flag flags fl_compress) eqn:Efc.
      + eapply compressed_sectors_roundtrip; eassumption.
      + eapply stored_sectors_roundtrip; eassumption.
  Qed.
End Sectors.
