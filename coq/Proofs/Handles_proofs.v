(* Handle-table theorems: issued handles are unique and never reused, invalid handles
   are rejected without effect, closing an archive invalidates exactly its own file and
   search handles, reads stay inside the caller's buffer and inside the file. *)
From Coq Require Import List NArith ZArith Bool Lia.
From WR Require Import Ffi.Handles.
Import ListNotations.
Open Scope N_scope.

Notation below n t := (Forall (fun e => fst e < n) t).

Section Tables.
  Context {A : Type}.
  Implicit Types t : list (N * A).
  Definition keys (t : list (N * A)) : list N := map fst t.

  Lemma lookup_below n t h : below n t -> n <= h -> lookup t h = None.
  Proof.
    induction t as [|[k v] r IH]; intros B H; cbn [lookup]; [reflexivity|].
    inversion B; subst. cbn [fst] in *. destruct (N.eqb_spec k h); [lia|]. auto.
  Qed.

  Lemma lookup_remove_same t h : lookup (remove t h) h = None.
  Proof.
    induction t as [|[k v] r IH]; cbn [remove lookup]; [reflexivity|].
    destruct (N.eqb_spec k h) as [E|E]; [exact IH|]. cbn [lookup]. destruct (N.eqb_spec k h); [contradiction|exact IH].
  Qed.

  Lemma lookup_remove_other t h k : k <> h -> lookup (remove t h) k = lookup t k.
  Proof.
    intro H. induction t as [|[j v] r IH]; cbn [remove lookup]; [reflexivity|].
    destruct (N.eqb_spec j h) as [E|E].
    - subst j. destruct (N.eqb_spec h k); [congruence|exact IH].
    - cbn [lookup]. destruct (N.eqb_spec j k); [reflexivity|exact IH].
  Qed.

  Lemma lookup_update_same t h v w : lookup t h = Some w -> lookup (update t h v) h = Some v.
  Proof.
    induction t as [|[k u] r IH]; cbn [update lookup]; [discriminate|].
    destruct (N.eqb_spec k h) as [E|E]; intro H.
    - cbn [lookup]. rewrite E, N.eqb_refl. reflexivity.
    - cbn [lookup]. destruct (N.eqb_spec k h); [contradiction|auto].
  Qed.

  Lemma lookup_update_other t h v k : k <> h -> lookup (update t h v) k = lookup t k.
  Proof.
    intro H. induction t as [|[j u] r IH]; cbn [update lookup]; [reflexivity|].
    destruct (N.eqb_spec j h) as [E|E]; cbn [lookup].
    - subst j. destruct (N.eqb_spec h k); [congruence|reflexivity].
    - destruct (N.eqb_spec j k); [reflexivity|exact IH].
  Qed.

  Lemma below_remove n t h : below n t -> below n (remove t h).
  Proof.
    induction t as [|[k v] r IH]; intro B; cbn [remove]; [constructor|].
    inversion B; subst. destruct (k =? h); [auto|constructor; auto].
  Qed.

  Lemma below_update n t h v : below n t -> below n (update t h v).
  Proof.
    induction t as [|[k u] r IH]; intro B; cbn [update]; [constructor|].
    inversion B; subst. destruct (k =? h); constructor; auto.
  Qed.

  Lemma below_filter n t P : below n t -> below n (filter P t).
  Proof. intro B. apply Forall_forall. intros e He. apply filter_In in He. destruct He as [He _]. exact (proj1 (Forall_forall _ _) B e He). Qed.

  Lemma below_mono n m t : below n t -> n <= m -> below m t.
  Proof. intros B H. eapply Forall_impl; [|exact B]. cbn. intros e He. lia. Qed.

  Lemma lookup_In t h v : lookup t h = Some v -> In (h, v) t.
  Proof.
    induction t as [|[k u] r IH]; cbn [lookup]; [discriminate|].
    destruct (N.eqb_spec k h) as [E|E]; intro H; [inversion H; subst; left; reflexivity|right; auto].
  Qed.

  Lemma NoDup_lookup t h v : NoDup (keys t) -> In (h, v) t -> lookup t h = Some v.
  Proof.
    induction t as [|[k u] r IH]; intros N I; [contradiction|]. cbn [keys map fst] in N. inversion N; subst.
    cbn [lookup]. destruct I as [I|I].
    - inversion I; subst. rewrite N.eqb_refl. reflexivity.
    - destruct (N.eqb_spec k h) as [E|E]; [|auto]. subst k. exfalso. apply H1. change h with (fst (h, v)). apply in_map. exact I.
  Qed.

  Lemma NoDup_filter t P : NoDup (keys t) -> NoDup (keys (filter P t)).
  Proof.
    induction t as [|[k u] r IH]; intro N; cbn [filter keys map]; [constructor|]. cbn [keys map fst] in N. inversion N; subst.
    destruct (P (k, u)); [|auto]. cbn [keys map fst]. constructor; [|auto].
    intro I. apply H1. unfold keys in *. apply in_map_iff in I. destruct I as [[k' u'] [E I]]. cbn [fst] in E. subst k'.
    apply filter_In in I. destruct I as [I _]. change k with (fst (k, u')). apply in_map. exact I.
  Qed.

  Lemma NoDup_remove t h : NoDup (keys t) -> NoDup (keys (remove t h)).
  Proof.
    induction t as [|[k u] r IH]; intro N; cbn [remove keys map]; [constructor|]. cbn [keys map fst] in N. inversion N; subst.
    destruct (k =? h); [auto|]. cbn [keys map fst]. constructor; [|auto].
    intro I. apply H1. unfold keys in *. apply in_map_iff in I. destruct I as [[k' u'] [E I]]. cbn [fst] in E. subst k'.
    assert (Hin : forall t', In (k, u') (remove t' h) -> In (k, u') t').
    { induction t' as [|[j w] r' IH']; cbn [remove]; [auto|]. destruct (j =? h); [right; auto|]. intros [X|X]; [left; exact X|right; auto]. }
    change k with (fst (k, u')). apply in_map. apply Hin. exact I.
  Qed.

  Lemma keys_update t h v : keys (update t h v) = keys t.
  Proof. induction t as [|[k u] r IH]; cbn [update keys map]; [reflexivity|]. destruct (k =? h); cbn [keys map fst]; [reflexivity|]. f_equal. exact IH. Qed.

  Lemma NoDup_cons_below n t v : below n t -> NoDup (keys t) -> NoDup (keys ((n, v) :: t)).
  Proof.
    intros B N. cbn [keys map fst]. constructor; [|exact N].
    intro I. unfold keys in I. apply in_map_iff in I. destruct I as [e [E I]].
    pose proof (proj1 (Forall_forall _ _) B e I) as L. cbn beta in L. rewrite E in L. lia.
  Qed.

  Lemma lookup_filter_keep t P h v : lookup t h = Some v -> P (h, v) = true -> lookup (filter P t) h = Some v.
  Proof.
    induction t as [|[k u] r IH]; cbn [lookup filter]; [discriminate|].
    destruct (N.eqb_spec k h) as [E|E]; intros H HP.
    - inversion H; subst. rewrite HP. cbn [lookup]. rewrite N.eqb_refl. reflexivity.
    - destruct (P (k, u)); [cbn [lookup]; destruct (N.eqb_spec k h); [contradiction|auto]|auto].
  Qed.

  Lemma lookup_filter_drop t P h v : NoDup (keys t) -> lookup t h = Some v -> P (h, v) = false -> lookup (filter P t) h = None.
  Proof.
    intros N H HP. destruct (lookup (filter P t) h) as [w|] eqn:E; [|reflexivity].
    apply lookup_In in E. apply filter_In in E. destruct E as [I Pw].
    rewrite (NoDup_lookup t h w N I) in H. inversion H; subst. congruence.
  Qed.
End Tables.

(* well-formed states: handles in use are distinct and below the counter; positions are inside the file *)
Record WF (s : st) : Prop := {
  wf_a : below (next s) (archs s); wf_f : below (next s) (files s); wf_q : below (next s) (finds s);
  wf_na : NoDup (keys (archs s)); wf_nf : NoDup (keys (files s)); wf_nq : NoDup (keys (finds s));
  wf_pos : forall f fh, lookup (files s) f = Some fh -> f_pos fh <= lenN (f_data fh) }.

Lemma WF_init : WF hinit.
Proof. constructor; cbn; try constructor. intros f fh H. discriminate. Qed.

Section World.
  Variable world : N -> option (list (list N * list N)).

  Lemma step_next_mono s c : next s <= next (fst (hstep world s c)).
  Proof.
    destruct c; cbn [hstep];
      repeat match goal with |- context [match ?x with _ => _ end] => destruct x eqn:? end; cbn [fst next]; lia.
  Qed.

  Lemma WF_step s c : WF s -> WF (fst (hstep world s c)).
  Proof.
    intros [Ba Bf Bq Na Nf Nq Hp].
    destruct c as [k|h|h name|f|f n|f off method|f|h name|h mask|q|q]; cbn [hstep].
    - destruct (world k); cbn [fst]; [|constructor; auto].
      constructor; cbn [next archs files finds]; auto.
      + constructor; [cbn; lia|]. apply (below_mono (next s)); [auto|lia].
      + apply (below_mono (next s)); [auto|lia].
      + apply (below_mono (next s)); [auto|lia].
      + apply NoDup_cons_below; assumption.
    - destruct (lookup (archs s) h); cbn [fst]; [|constructor; auto].
      constructor; cbn [next archs files finds].
      + apply below_remove; auto.
      + apply below_filter; auto.
      + apply below_filter; auto.
      + apply NoDup_remove; auto.
      + apply NoDup_filter; auto.
      + apply NoDup_filter; auto.
      + intros f fh H. apply lookup_In in H. apply filter_In in H. destruct H as [H _]. apply (Hp f). apply NoDup_lookup; assumption.
    - destruct (lookup (archs s) h) as [k|]; cbn [fst]; [|constructor; auto].
      destruct (world k) as [w|]; cbn [fst]; [|constructor; auto].
      destruct (find_content w name) as [d|]; cbn [fst]; [|constructor; auto].
      constructor; cbn [next archs files finds]; auto.
      + apply (below_mono (next s)); [auto|lia].
      + constructor; [cbn; lia|]. apply (below_mono (next s)); [auto|lia].
      + apply (below_mono (next s)); [auto|lia].
      + apply NoDup_cons_below; assumption.
      + intros f fh. cbn [lookup]. destruct (N.eqb_spec (next s) f); [intro H; inversion H; subst; cbn; lia|apply Hp].
    - destruct (lookup (files s) f) eqn:E; cbn [fst]; [|constructor; auto].
      constructor; cbn [next archs files finds]; auto.
      + apply below_remove; auto.
      + apply NoDup_remove; auto.
      + intros g fh H. destruct (N.eqb_spec g f) as [X|X]; [subst; rewrite lookup_remove_same in H; discriminate|].
        rewrite lookup_remove_other in H by exact X. eauto.
    - destruct (lookup (files s) f) as [fh|] eqn:E; cbn [fst]; [|constructor; auto].
      constructor; cbn [next archs files finds]; auto.
      + apply below_update; auto.
      + rewrite keys_update. auto.
      + intros g gh H. destruct (N.eqb_spec g f) as [X|X].
        * subst g. rewrite (lookup_update_same _ _ _ _ E) in H. inversion H; subst. cbn [f_pos f_data].
          pose proof (Hp f fh E). lia.
        * rewrite lookup_update_other in H by exact X. eauto.
    - destruct (lookup (files s) f) as [fh|] eqn:E; cbn [fst]; [|constructor; auto].
      destruct (2 <? method); cbn [fst]; [constructor; auto|].
      constructor; cbn [next archs files finds]; auto.
      + apply below_update; auto.
      + rewrite keys_update. auto.
      + intros g gh H. destruct (N.eqb_spec g f) as [X|X].
        * subst g. rewrite (lookup_update_same _ _ _ _ E) in H. inversion H; subst. cbn [f_pos f_data].
          destruct (_ <? 0)%Z; lia.
        * rewrite lookup_update_other in H by exact X. eauto.
    - destruct (lookup (files s) f); cbn [fst]; constructor; auto.
    - destruct (lookup (archs s) h) as [k|]; [destruct (world k)|]; cbn [fst]; constructor; auto.
    - destruct (lookup (archs s) h) as [k|]; cbn [fst]; [|constructor; auto].
      destruct (world k) as [w|]; cbn [fst]; [|constructor; auto].
      destruct (filter (matches mask) (map fst w)); cbn [fst]; [constructor; auto|].
      constructor; cbn [next archs files finds]; auto.
      + apply (below_mono (next s)); [auto|lia].
      + apply (below_mono (next s)); [auto|lia].
      + constructor; [cbn; lia|]. apply (below_mono (next s)); [auto|lia].
      + apply NoDup_cons_below; assumption.
    - destruct (lookup (finds s) q) as [qh|]; cbn [fst]; [|constructor; auto].
      destruct (q_rest qh); cbn [fst]; [constructor; auto|].
      constructor; cbn [next archs files finds]; auto.
      + apply below_update; auto.
      + rewrite keys_update. auto.
    - destruct (lookup (finds s) q); cbn [fst]; [|constructor; auto].
      constructor; cbn [next archs files finds]; auto.
      + apply below_remove; auto.
      + apply NoDup_remove; auto.
  Qed.

  Lemma WF_run cs : forall s, WF s -> WF (fst (hrun world s cs)).
  Proof.
    induction cs as [|c r IH]; intros s W; cbn [hrun]; [exact W|].
    pose proof (WF_step s c W) as W1. destruct (hstep world s c) as [s1 o]. cbn [fst] in W1.
    pose proof (IH s1 W1) as W2. destruct (hrun world s1 r) as [s2 os]. exact W2.
  Qed.

  (* ---- invalid handles ----------------------------------------------------------------------- *)
  (* a handle that is in none of the tables is rejected by every call and nothing changes *)
  Theorem invalid_handle_rejected s h :
    lookup (archs s) h = None -> lookup (files s) h = None -> lookup (finds s) h = None ->
    forall c, In c [CClose h; CCloseFile h; CSize h; CFindNext h; CFindClose h] \/
              (exists n, c = CRead h n) \/ (exists o m, c = CSeek h o m) \/ (exists nm, c = COpenFile h nm \/ c = CHas h nm \/ c = CFindFirst h nm) ->
    hstep world s c = (s, OErr EInvalidHandle).
  Proof.
    intros Ha Hf Hq c [I|[[n E]|[[o [m E]]|[nm [E|[E|E]]]]]]; try (subst c; cbn [hstep]; rewrite ?Ha, ?Hf, ?Hq; reflexivity).
    cbn [In] in I. repeat (destruct I as [I|I]; [subst c; cbn [hstep]; rewrite ?Ha, ?Hf, ?Hq; reflexivity|]). contradiction.
  Qed.

  (* handles that were never issued are in no table *)
  Theorem unissued_handle_invalid s h : WF s -> next s <= h ->
    lookup (archs s) h = None /\ lookup (files s) h = None /\ lookup (finds s) h = None.
  Proof. intros [Ba Bf Bq _ _ _ _] H. repeat split; eapply lookup_below; eauto. Qed.

  (* a newly issued handle is different from every handle in use *)
  Theorem issued_handle_fresh s c h : WF s -> snd (hstep world s c) = OHandle h ->
    h = next s /\ lookup (archs s) h = None /\ lookup (files s) h = None /\ lookup (finds s) h = None.
  Proof.
    intros W H.
    assert (E : h = next s).
    { destruct c; cbn [hstep] in H;
        repeat match type of H with context [match ?x with _ => _ end] => destruct x eqn:? end; cbn [snd] in H; try discriminate; inversion H; reflexivity. }
    split; [exact E|]. subst h. apply unissued_handle_invalid; [exact W|lia].
  Qed.

  (* ---- closing an archive ---------------------------------------------------------------------- *)
  Theorem close_invalidates_exactly_own s h s' :
    WF s -> hstep world s (CClose h) = (s', OOk) ->
    lookup (archs s') h = None /\
    (forall a, a <> h -> lookup (archs s') a = lookup (archs s) a) /\
    (forall f fh, lookup (files s) f = Some fh -> lookup (files s') f = if f_arch fh =? h then None else Some fh) /\
    (forall f, lookup (files s) f = None -> lookup (files s') f = None) /\
    (forall q qh, lookup (finds s) q = Some qh -> lookup (finds s') q = if q_arch qh =? h then None else Some qh) /\
    (forall q, lookup (finds s) q = None -> lookup (finds s') q = None).
  Proof.
    intros [Ba Bf Bq Na Nf Nq Hp] H. cbn [hstep] in H. destruct (lookup (archs s) h); [|discriminate]. inversion H; subst s'. cbn [archs files finds].
    repeat split.
    - apply lookup_remove_same.
    - intros a Ha. apply lookup_remove_other. exact Ha.
    - intros f fh E. destruct (f_arch fh =? h) eqn:Eh.
      + apply (lookup_filter_drop _ _ f fh); [exact Nf|exact E|]. cbn [snd]. rewrite Eh. reflexivity.
      + apply lookup_filter_keep; [exact E|]. cbn [snd]. rewrite Eh. reflexivity.
    - intros f E. destruct (lookup (filter _ (files s)) f) as [w|] eqn:X; [|reflexivity].
      apply lookup_In in X. apply filter_In in X. destruct X as [X _]. rewrite (NoDup_lookup _ _ _ Nf X) in E. discriminate.
    - intros q qh E. destruct (q_arch qh =? h) eqn:Eh.
      + apply (lookup_filter_drop _ _ q qh); [exact Nq|exact E|]. cbn [snd]. rewrite Eh. reflexivity.
      + apply lookup_filter_keep; [exact E|]. cbn [snd]. rewrite Eh. reflexivity.
    - intros q E. destruct (lookup (filter _ (finds s)) q) as [w|] eqn:X; [|reflexivity].
      apply lookup_In in X. apply filter_In in X. destruct X as [X _]. rewrite (NoDup_lookup _ _ _ Nq X) in E. discriminate.
  Qed.

  (* ---- reads ------------------------------------------------------------------------------------- *)
  Lemma slice_length bs off len : off + len <= lenN bs -> lenN (slice bs off len) = len.
  Proof. intro H. unfold slice, lenN in *. rewrite firstn_length, skipn_length. lia. Qed.

  (* a read returns at most the buffer size, exactly the bytes at the current position, and
     never moves the position past the end of the file *)
  Theorem read_within_bounds s f n fh :
    WF s -> lookup (files s) f = Some fh ->
    exists d s', hstep world s (CRead f n) = (s', OData d) /\
      lenN d <= n /\ lenN d = N.min n (lenN (f_data fh) - f_pos fh) /\
      d = slice (f_data fh) (f_pos fh) (lenN d) /\
      lookup (files s') f = Some {| f_arch := f_arch fh; f_data := f_data fh; f_pos := f_pos fh + lenN d |} /\
      f_pos fh + lenN d <= lenN (f_data fh).
  Proof.
    intros W E. pose proof (wf_pos s W f fh E) as Hp. cbn [hstep]. rewrite E.
    set (k := N.min n (lenN (f_data fh) - f_pos fh)).
    assert (L : lenN (slice (f_data fh) (f_pos fh) k) = k) by (apply slice_length; unfold k; lia).
    eexists. eexists. split; [reflexivity|]. rewrite L. repeat split; try (unfold k; lia).
    cbn [files]. apply (lookup_update_same _ _ _ _ E).
  Qed.

  (* a closed handle is never valid again, whatever is called afterwards *)
  Theorem no_reuse cs : forall s h, WF s -> h < next s ->
    lookup (archs s) h = None -> lookup (files s) h = None -> lookup (finds s) h = None ->
    let s' := fst (hrun world s cs) in
    lookup (archs s') h = None /\ lookup (files s') h = None /\ lookup (finds s') h = None.
  Proof.
    induction cs as [|c r IH]; intros s h W Hn Ha Hf Hq; cbn [hrun fst]; [auto|].
    pose proof (WF_step s c W) as W1. pose proof (step_next_mono s c) as M.
    assert (K : lookup (archs (fst (hstep world s c))) h = None /\ lookup (files (fst (hstep world s c))) h = None /\ lookup (finds (fst (hstep world s c))) h = None).
    { destruct c as [k|g|g name|g|g n|g off method|g|g name|g mask|g|g]; cbn [hstep].
      - destruct (world k); cbn [fst archs files finds lookup]; auto. destruct (N.eqb_spec (next s) h); [lia|auto].
      - destruct (lookup (archs s) g); cbn [fst archs files finds]; auto. repeat split.
        + destruct (N.eqb_spec h g); [subst; apply lookup_remove_same|rewrite lookup_remove_other; auto].
        + destruct (lookup (filter _ (files s)) h) as [w|] eqn:X; [|reflexivity]. apply lookup_In in X. apply filter_In in X. destruct X as [X _].
          rewrite (NoDup_lookup _ _ _ (wf_nf s W) X) in Hf. discriminate.
        + destruct (lookup (filter _ (finds s)) h) as [w|] eqn:X; [|reflexivity]. apply lookup_In in X. apply filter_In in X. destruct X as [X _].
          rewrite (NoDup_lookup _ _ _ (wf_nq s W) X) in Hq. discriminate.
      - destruct (lookup (archs s) g) as [k|]; cbn [fst]; auto. destruct (world k) as [w|]; cbn [fst]; auto.
        destruct (find_content w name); cbn [fst archs files finds lookup]; auto. destruct (N.eqb_spec (next s) h); [lia|auto].
      - destruct (lookup (files s) g); cbn [fst archs files finds]; auto. repeat split; auto.
        destruct (N.eqb_spec h g); [subst; apply lookup_remove_same|rewrite lookup_remove_other; auto].
      - destruct (lookup (files s) g) as [fh|] eqn:E; cbn [fst archs files finds]; auto. repeat split; auto.
        destruct (N.eqb_spec h g); [subst; congruence|rewrite lookup_update_other; auto].
      - destruct (lookup (files s) g) as [fh|] eqn:E; cbn [fst]; auto. destruct (2 <? method); cbn [fst archs files finds]; auto. repeat split; auto.
        destruct (N.eqb_spec h g); [subst; congruence|rewrite lookup_update_other; auto].
      - destruct (lookup (files s) g); cbn [fst]; auto.
      - destruct (lookup (archs s) g) as [k|]; [destruct (world k)|]; cbn [fst]; auto.
      - destruct (lookup (archs s) g) as [k|]; cbn [fst]; auto. destruct (world k) as [w|]; cbn [fst]; auto.
        destruct (filter (matches mask) (map fst w)); cbn [fst archs files finds lookup]; auto. destruct (N.eqb_spec (next s) h); [lia|auto].
      - destruct (lookup (finds s) g) as [qh|] eqn:E; cbn [fst]; auto. destruct (q_rest qh); cbn [fst archs files finds]; auto. repeat split; auto.
        destruct (N.eqb_spec h g); [subst; congruence|rewrite lookup_update_other; auto].
      - destruct (lookup (finds s) g); cbn [fst archs files finds]; auto. repeat split; auto.
        destruct (N.eqb_spec h g); [subst; apply lookup_remove_same|rewrite lookup_remove_other; auto]. }
    destruct K as [K1 [K2 K3]].
    destruct (hstep world s c) as [s1 o] eqn:Es. cbn [fst] in *.
    specialize (IH s1 h W1 ltac:(lia) K1 K2 K3). cbn zeta in IH.
    destruct (hrun world s1 r) as [s2 os]. cbn [fst] in *. exact IH.
  Qed.
End World.

Example wild_examples :
  wild [97;42;46;116;120;116] [97;46;116;120;116] = true /\ wild [97;42;46;116;120;116] [97;98;46;116;120;116] = true
  /\ wild [42;46;116;120;116] [120;46;116;120;116] = true /\ wild [97;63;99] [97;99] = false /\ matches [42;46;42] [110;111;100;111;116] = true.
Proof. vm_compute. repeat split. Qed.
