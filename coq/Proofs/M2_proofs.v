(* References keep designating the same bytes when the data in front of them moves;
   arrays laid out one after the other lie inside the file without overlap. *)
From Coq Require Import List NArith Bool Arith Lia.
From WR Require Import Lib.Bits Fmt.Blp Fmt.M2 Proofs.Blp_proofs.
Import ListNotations.
Open Scope N_scope.

Lemma skipn_add {A} (l : list A) : forall a b, skipn a (skipn b l) = skipn (b + a) l.
Proof.
  induction l as [|x r IH]; intros a b.
  - rewrite !skipn_nil. reflexivity.
  - destruct b as [|b']; cbn [skipn Nat.add]; [reflexivity|]. apply IH.
Qed.

Lemma skipn_app_exact {A} (a b : list A) n : length a = n -> skipn n (a ++ b) = b.
Proof. intro H. subst. rewrite skipn_app, skipn_all, Nat.sub_diag. reflexivity. Qed.

(* relocation: a reference into [body] reads the same bytes in pre' ++ body ++ post' as in pre ++ body ++ post *)
Theorem relocation_preserves (pre pre' body post post' : list N) (a : aref) :
  lenN pre <= a_off a -> a_off a + a_count a * a_esize a <= lenN pre + lenN body ->
  deref (pre' ++ body ++ post') (relocate (lenN pre) (lenN pre') a) = deref (pre ++ body ++ post) a.
Proof.
  intros H1 H2. unfold deref, relocate, slice. cbn [a_off a_count a_esize].
  set (n := a_count a * a_esize a) in *. set (k := a_off a - lenN pre).
  assert (E1 : N.to_nat (k + lenN pre') = (length pre' + N.to_nat k)%nat) by (unfold k, lenN in *; lia).
  assert (E2 : N.to_nat (a_off a) = (length pre + N.to_nat k)%nat) by (unfold k, lenN in *; lia).
  rewrite E1, E2.
  assert (L : (N.to_nat k + N.to_nat n <= length body)%nat) by (unfold k, lenN in *; lia).
  assert (S : forall (p q : list N), firstn (N.to_nat n) (skipn (length p + N.to_nat k) (p ++ body ++ q)) = firstn (N.to_nat n) (skipn (N.to_nat k) body)).
  { intros p q. rewrite <- skipn_add. rewrite (skipn_app_exact p (body ++ q) (length p) eq_refl).
    rewrite skipn_app. replace (N.to_nat k - length body)%nat with 0%nat by lia. cbn [skipn].
    rewrite firstn_app. rewrite skipn_length. replace (N.to_nat n - (length body - N.to_nat k))%nat with 0%nat by lia.
    cbn [firstn]. apply app_nil_r. }
  rewrite (S pre' post'), (S pre post). reflexivity.
Qed.

(* moving by nothing changes nothing *)
Lemma relocate_same (pre : list N) a : lenN pre <= a_off a -> relocate (lenN pre) (lenN pre) a = a.
Proof. intro H. unfold relocate. destruct a as [c o e]. cbn in *. f_equal. lia. Qed.

Lemma nth_error_combine {A B} (l : list A) : forall (m : list B) i a b,
  nth_error (combine l m) i = Some (a, b) -> nth_error l i = Some a /\ nth_error m i = Some b.
Proof.
  induction l as [|x r IH]; intros m i a b E; [destruct i; discriminate|].
  destruct m as [|y m']; [destruct i; discriminate|]. destruct i; cbn in *; [inversion E; auto|apply IH; exact E].
Qed.

Lemma layout_nth_size sizes : forall base k o s, nth_error (layout_offsets base sizes) k = Some (o, s) -> nth_error sizes k = Some s.
Proof.
  induction sizes as [|z r IH]; intros base k o s H; [destruct k; discriminate|].
  destruct k; cbn in *; [inversion H; reflexivity|eapply IH; exact H].
Qed.

Lemma layout_offsets_length base sizes : length (layout_offsets base sizes) = length sizes.
Proof. revert base. induction sizes as [|s r IH]; intro base; cbn [layout_offsets length]; auto. Qed.

(* arrays placed one after the other behind the header lie in order, without overlap, before the end of the data *)
Theorem placed_disjoint hsize bodies i j ai aj :
  (i < j)%nat -> nth_error (place hsize bodies) i = Some ai -> nth_error (place hsize bodies) j = Some aj ->
  Forall (fun '(c, e, b) => lenN b = c * e) bodies ->
  hsize <= a_off ai /\ a_off ai + a_count ai * a_esize ai <= a_off aj /\
  a_off aj + a_count aj * a_esize aj <= hsize + lenN (write_bodies bodies).
Proof.
  intros Lij Hi Hj Hw. unfold place in *.
  set (sizes := map (fun '(_, _, b) => lenN b) bodies) in *.
  set (lo := layout_offsets hsize sizes) in *.
  rewrite nth_error_map in Hi, Hj.
  destruct (nth_error (combine bodies lo) i) as [[[[ci ei] bi] [oi si]]|] eqn:Ei; [|discriminate].
  destruct (nth_error (combine bodies lo) j) as [[[[cj ej] bj] [oj sj]]|] eqn:Ej; [|discriminate].
  cbn in Hi, Hj. inversion Hi; inversion Hj; subst ai aj. cbn [a_off a_count a_esize].
  (* components of the combined list *)
  pose proof (nth_error_combine _ _ _ _ _ Ei) as Ci. pose proof (nth_error_combine _ _ _ _ _ Ej) as Cj.
  destruct Ci as [Bi Li], Cj as [Bj Lj].
  destruct (layout_disjoint sizes hsize i j oi si oj sj Lij Li Lj) as [A [B D]].
  (* the recorded sizes are the body lengths, which are count * element size *)
  assert (S : forall k c e b o s, nth_error bodies k = Some (c, e, b) -> nth_error lo k = Some (o, s) -> s = c * e).
  { intros k c e b o s Hb Hl.
    assert (Hs : nth_error sizes k = Some (lenN b)) by (unfold sizes; rewrite nth_error_map, Hb; reflexivity).
    assert (Hs2 : nth_error sizes k = Some s) by (exact (layout_nth_size sizes hsize k o s Hl)).
    rewrite Hs in Hs2. inversion Hs2; subst s.
    pose proof (proj1 (Forall_forall _ _) Hw (c, e, b) (nth_error_In _ _ Hb)) as W. exact W. }
  rewrite <- (S i ci ei bi oi si Bi Li), <- (S j cj ej bj oj sj Bj Lj).
  assert (T : fold_right N.add 0 sizes = lenN (write_bodies bodies)).
  { unfold sizes, write_bodies. clear. induction bodies as [|[[c e] b] r IH]; cbn [map fold_right concat]; [reflexivity|].
    rewrite IH. unfold lenN. rewrite app_length. lia. }
  rewrite <- T. repeat split; assumption.
Qed.

Example m2_example :
  let bodies := [(2, 2, [1;2;3;4]); (0, 4, []); (3, 1, [9;8;7])] in
  place 10 bodies = [{| a_count := 2; a_off := 10; a_esize := 2 |}; {| a_count := 0; a_off := 14; a_esize := 4 |}; {| a_count := 3; a_off := 14; a_esize := 1 |}]
  /\ deref (repeat 0 10 ++ write_bodies bodies) {| a_count := 3; a_off := 14; a_esize := 1 |} = [9;8;7]
  /\ refs_ok 17 (place 10 bodies) = true /\ refs_ok 16 (place 10 bodies) = false.
Proof. vm_compute. repeat split. Qed.
