(* The sparse encoder: sparse_compress emits a well-formed token stream of its input (with an
   optional final clipped zero run), so sparse_decompress inverts it on every non-empty input. *)
From WR Require Import Lib.Bits Mpq.Sparse Proofs.Codec_proofs Proofs.Compress_proofs.
From Coq Require Import ZArith Lia ZifyN ZifyNat ZifyBool.
Open Scope N_scope.

Definition toks_ok (ts : list token) : Prop := Forall (fun t => token_ok t = true) ts.

Lemma tokens_bytes_app a b : tokens_bytes (a ++ b) = tokens_bytes a ++ tokens_bytes b.
Proof. unfold tokens_bytes. rewrite map_app, concat_app. reflexivity. Qed.
Lemma tokens_data_app a b : tokens_data (a ++ b) = tokens_data a ++ tokens_data b.
Proof. unfold tokens_data. rewrite map_app, concat_app. reflexivity. Qed.

Lemma firstn_plus {A} (a b : nat) (l : list A) : firstn (a + b) l = firstn a l ++ firstn b (skipn a l).
Proof.
  revert l. induction a as [|a IH]; intro l; [reflexivity|].
  destruct l as [|x l]; [cbn; rewrite firstn_nil; reflexivity|]. cbn [Nat.add firstn skipn app]. rewrite IH. reflexivity.
Qed.
Lemma skipn_plus {A} (a b : nat) (l : list A) : skipn (a + b) l = skipn b (skipn a l).
Proof.
  revert l. induction a as [|a IH]; intro l; [reflexivity|].
  destruct l as [|x l]; [cbn; rewrite skipn_nil; reflexivity|]. cbn [Nat.add skipn]. apply IH.
Qed.

Lemma pair_inj {A B} (a c : A) (b d : B) : (a, b) = (c, d) -> a = c /\ b = d.
Proof. intro H. injection H as -> ->. split; reflexivity. Qed.

Definition zeros_at (l : list N) : Prop := Forall (fun b => b = 0) l.

Lemma zeros_repeat l : zeros_at l -> l = repeat 0 (length l).
Proof. induction 1 as [|x r Hx Hr IH]; [reflexivity|]. cbn [length repeat]. subst x. f_equal. exact IH. Qed.

(* ---- the inner scan ------------------------------------------------------------------------ *)
Lemma scan_spec : forall r P idx lastnz zeros a z,
  scan r idx lastnz zeros = (a, z) ->
  length P = idx -> idx = (lastnz + zeros)%nat -> zeros_at (skipn lastnz P) ->
  (lastnz <= a)%nat /\ (a + z <= length (P ++ r))%nat /\ zeros_at (firstn z (skipn a (P ++ r))) /\
  ((3 <= z)%nat \/ (a + z = length (P ++ r))%nat).
Proof.
  induction r as [|b r IH]; intros P idx lastnz zeros a z H HP Hidx Hz; cbn [scan] in H.
  - injection H as <- <-. rewrite app_nil_r. split; [lia|]. split; [lia|]. split; [|right; lia].
    rewrite firstn_all2; [exact Hz | rewrite skipn_length; lia].
  - destruct (b =? 0) eqn:Eb.
    + apply N.eqb_eq in Eb. subst b.
      specialize (IH (P ++ [0]) (S idx) lastnz (S zeros) a z H).
      rewrite <- app_assoc in IH. cbn [app] in IH. apply IH.
      * rewrite app_length. cbn [length]. lia.
      * lia.
      * rewrite skipn_app. apply Forall_app. split; [exact Hz|].
        replace (lastnz - length P)%nat with 0%nat by lia. cbn [skipn]. repeat constructor.
    + destruct (Nat.leb 3 zeros) eqn:E3.
      * injection H as <- <-. apply Nat.leb_le in E3. split; [lia|]. rewrite app_length. cbn [length]. split; [lia|].
        split; [|left; exact E3].
        rewrite skipn_app, firstn_app. replace (lastnz - length P)%nat with 0%nat by lia.
        rewrite skipn_length. replace (zeros - (length P - lastnz))%nat with 0%nat by lia.
        cbn [skipn firstn]. rewrite app_nil_r. rewrite firstn_all2 by (rewrite skipn_length; lia). exact Hz.
      * specialize (IH (P ++ [b]) (S idx) (S idx) O a z H).
        rewrite <- app_assoc in IH. cbn [app] in IH.
        destruct IH as (A1 & A2 & A3 & A4).
        -- rewrite app_length. cbn [length]. lia.
        -- lia.
        -- rewrite skipn_all2 by (rewrite app_length; cbn [length]; lia). constructor.
        -- split; [lia|]. split; [exact A2|]. split; [exact A3 | exact A4].
Qed.

(* ---- literal runs --------------------------------------------------------------------------- *)
Lemma flush_big_spec : forall fuel l nnz o l' n',
  flush_big fuel l nnz = (o, l', n') -> (nnz <= length l)%nat -> (nnz <= fuel + 128)%nat ->
  exists ts, toks_ok ts /\ o = tokens_bytes ts /\ tokens_data ts = firstn (nnz - n') l /\ l' = skipn (nnz - n') l /\
             (n' <= nnz)%nat /\ (n' <= 129)%nat /\ (1 <= nnz -> 1 <= n')%nat.
Proof.
  induction fuel as [|fuel IH]; intros l nnz o l' n' H Hl Hf; cbn [flush_big] in H.
  - injection H as <- <- <-. exists []. replace (nnz - nnz)%nat with 0%nat by lia.
    split; [constructor|]. split; [reflexivity|]. split; [reflexivity|]. split; [reflexivity|]. repeat split; lia.
  - destruct (Nat.ltb 129 nnz) eqn:E.
    + apply Nat.ltb_lt in E.
      destruct (flush_big fuel (skipn 128 l) (nnz - 128)) as [[o1 l1] n1] eqn:Er. injection H as <- <- <-.
      destruct (IH _ _ _ _ _ Er) as (ts & Hok & -> & Hd & -> & B1 & B2 & B3).
      { rewrite skipn_length. lia. }
      { lia. }
      exists (Lit (firstn 128 l) :: ts).
      assert (L128 : length (firstn 128 l) = 128%nat) by (rewrite firstn_length; lia).
      split; [constructor; [cbn [token_ok]; rewrite L128; reflexivity | exact Hok]|].
      split; [unfold tokens_bytes; cbn [map concat token_bytes]; rewrite L128; reflexivity|].
      split.
      { unfold tokens_data in *. cbn [map concat token_data]. rewrite Hd.
        replace (nnz - n1)%nat with (128 + (nnz - 128 - n1))%nat by lia. rewrite firstn_plus. reflexivity. }
      split.
      { replace (nnz - n1)%nat with (128 + (nnz - 128 - n1))%nat by lia. rewrite skipn_plus. reflexivity. }
      repeat split; lia.
    + apply Nat.ltb_ge in E. injection H as <- <- <-. exists []. replace (nnz - nnz)%nat with 0%nat by lia.
      split; [constructor|]. split; [reflexivity|]. split; [reflexivity|]. split; [reflexivity|]. repeat split; lia.
Qed.

Lemma flush_nonzeros_spec l nnz o l' :
  flush_nonzeros l nnz = (o, l') -> (1 <= nnz)%nat -> (nnz <= length l)%nat ->
  exists ts, toks_ok ts /\ o = tokens_bytes ts /\ tokens_data ts = firstn nnz l /\ l' = skipn nnz l.
Proof.
  intros H H1 Hl. unfold flush_nonzeros in H.
  destruct (flush_big (S nnz) l nnz) as [[o1 l1] n1] eqn:Eb.
  destruct (flush_big_spec _ _ _ _ _ _ Eb Hl ltac:(lia)) as (ts1 & Hok1 & -> & Hd1 & -> & B1 & B2 & B3).
  specialize (B3 H1).
  set (c := (nnz - n1)%nat) in *.
  assert (Hrest : (n1 <= length (skipn c l))%nat) by (rewrite skipn_length; lia).
  destruct (Nat.ltb 128 n1) eqn:E128.
  - (* n1 = 129: one byte alone, then 128 *)
    apply Nat.ltb_lt in E128. assert (n1 = 129%nat) by lia. subst n1.
    change (129 - 1)%nat with 128%nat in H.
    destruct (Nat.leb 1 128) eqn:E1; [clear E1 | vm_compute in E1; discriminate E1].
    destruct (skipn c l) as [|x r] eqn:Es; [cbn [length] in Hrest; lia|]. change (hd 0 (x :: r)) with x in H. change (tl (x :: r)) with r in H. cbn [length] in Hrest.
    apply pair_inj in H. destruct H as [<- <-].
    exists (ts1 ++ [Lit [x]; Lit (firstn 128 r)]).
    assert (L128 : length (firstn 128 r) = 128%nat) by (rewrite firstn_length; lia).
    split; [apply Forall_app; split; [exact Hok1|]; repeat constructor; cbn [token_ok]; rewrite ?L128; reflexivity|].
    split.
    { rewrite tokens_bytes_app. unfold tokens_bytes. cbn [map concat token_bytes]. rewrite L128, app_nil_r. reflexivity. }
    split.
    { rewrite tokens_data_app, Hd1. unfold tokens_data. cbn [map concat token_data app]. rewrite app_nil_r.
      replace (firstn nnz l) with (firstn (c + 129) l) by (f_equal; unfold c; lia). rewrite firstn_plus, Es. reflexivity. }
    { replace (skipn nnz l) with (skipn (c + 129) l) by (f_equal; unfold c; lia). rewrite skipn_plus, Es. reflexivity. }
  - apply Nat.ltb_ge in E128.
    replace (Nat.leb 1 n1) with true in H by (symmetry; apply Nat.leb_le; lia).
    apply pair_inj in H. destruct H as [<- <-].
    exists (ts1 ++ [Lit (firstn n1 (skipn c l))]).
    assert (Ln : length (firstn n1 (skipn c l)) = n1) by (rewrite firstn_length; lia).
    split; [apply Forall_app; split; [exact Hok1|]; repeat constructor; cbn [token_ok]; rewrite Ln;
            apply andb_true_iff; split; apply Nat.leb_le; lia|].
    split.
    { rewrite tokens_bytes_app. unfold tokens_bytes. cbn [map concat token_bytes]. rewrite Ln, app_nil_r. cbn [app]. reflexivity. }
    split.
    { rewrite tokens_data_app, Hd1. unfold tokens_data. cbn [map concat token_data]. rewrite app_nil_r.
      replace (firstn nnz l) with (firstn (c + n1) l) by (f_equal; unfold c; lia). rewrite firstn_plus. reflexivity. }
    { replace (skipn nnz l) with (skipn (c + n1) l) by (f_equal; unfold c; lia). rewrite skipn_plus. reflexivity. }
Qed.

(* ---- zero runs ------------------------------------------------------------------------------ *)
Lemma zeros_sub l nz j k : zeros_at (firstn nz l) -> (j + k <= nz)%nat -> zeros_at (firstn k (skipn j l)).
Proof.
  intros H Hle. replace nz with (j + (k + (nz - j - k)))%nat in H by lia.
  rewrite firstn_plus in H. apply Forall_app in H. destruct H as [_ H].
  rewrite firstn_plus in H. apply Forall_app in H. destruct H as [H _]. exact H.
Qed.

Lemma zeros_firstn_repeat l n : zeros_at (firstn n l) -> (n <= length l)%nat -> firstn n l = repeat 0 n.
Proof. intros H Hl. rewrite (zeros_repeat _ H). rewrite firstn_length. f_equal. lia. Qed.

Lemma flush_zero_big_spec : forall fuel l nz o l' n',
  flush_zero_big fuel l nz = (o, l', n') -> (nz <= length l)%nat -> zeros_at (firstn nz l) -> (nz <= fuel + 133)%nat ->
  exists ts, toks_ok ts /\ o = tokens_bytes ts /\ tokens_data ts = firstn (nz - n') l /\ l' = skipn (nz - n') l /\
             (n' <= nz)%nat /\ (n' <= 133)%nat /\ (3 <= nz -> 3 <= n')%nat /\ (nz <= 133 -> n' = nz)%nat.
Proof.
  induction fuel as [|fuel IH]; intros l nz o l' n' H Hl Hz Hf; cbn [flush_zero_big] in H.
  - apply pair_inj in H. destruct H as [H <-]. apply pair_inj in H. destruct H as [<- <-].
    exists []. replace (nz - nz)%nat with 0%nat by lia.
    split; [constructor|]. split; [reflexivity|]. split; [reflexivity|]. split; [reflexivity|]. repeat split; lia.
  - destruct (Nat.ltb 133 nz) eqn:E.
    + apply Nat.ltb_lt in E.
      destruct (flush_zero_big fuel (skipn 130 l) (nz - 130)) as [[o1 l1] n1] eqn:Er.
      apply pair_inj in H. destruct H as [H <-]. apply pair_inj in H. destruct H as [<- <-].
      destruct (IH _ _ _ _ _ Er) as (ts & Hok & -> & Hd & -> & B1 & B2 & B3 & B4).
      { rewrite skipn_length. lia. }
      { apply (zeros_sub l nz 130 (nz - 130)); [exact Hz | lia]. }
      { lia. }
      exists (Zeros 130 :: ts).
      split; [constructor; [reflexivity | exact Hok]|].
      split; [reflexivity|].
      split.
      { unfold tokens_data in *. cbn [map concat token_data]. rewrite Hd.
        replace (nz - n1)%nat with (130 + (nz - 130 - n1))%nat by lia. rewrite firstn_plus. f_equal.
        symmetry. apply zeros_firstn_repeat; [|lia]. replace (firstn 130 l) with (firstn 130 (skipn 0 l)) by reflexivity.
        apply (zeros_sub l nz 0 130); [exact Hz | lia]. }
      split.
      { replace (nz - n1)%nat with (130 + (nz - 130 - n1))%nat by lia. rewrite skipn_plus. reflexivity. }
      repeat split; lia.
    + apply Nat.ltb_ge in E. apply pair_inj in H. destruct H as [H <-]. apply pair_inj in H. destruct H as [<- <-].
      exists []. replace (nz - nz)%nat with 0%nat by lia.
      split; [constructor|]. split; [reflexivity|]. split; [reflexivity|]. split; [reflexivity|]. repeat split; lia.
Qed.

Lemma flush_zeros_spec l nz o l' :
  flush_zeros l nz = (o, l') -> (nz <= length l)%nat -> zeros_at (firstn nz l) ->
  exists ts c, toks_ok ts /\ o = tokens_bytes ts /\ tokens_data ts = firstn c l /\ l' = skipn c l /\
               (c <= nz)%nat /\ (3 <= nz -> c = nz)%nat /\ (nz < 3 -> c = 0)%nat.
Proof.
  intros H Hl Hz. unfold flush_zeros in H.
  destruct (flush_zero_big (S nz) l nz) as [[o1 l1] n1] eqn:Eb.
  destruct (flush_zero_big_spec _ _ _ _ _ _ Eb Hl Hz ltac:(lia)) as (ts1 & Hok1 & -> & Hd1 & -> & B1 & B2 & B3 & B4).
  set (c0 := (nz - n1)%nat) in *.
  destruct (Nat.ltb 130 n1) eqn:E130.
  - (* 131..133 zeros left: three alone, then the rest (128..130) *)
    apply Nat.ltb_lt in E130.
    replace (Nat.leb 3 (n1 - 3)) with true in H by (symmetry; apply Nat.leb_le; lia).
    apply pair_inj in H. destruct H as [<- <-].
    exists (ts1 ++ [Zeros 3; Zeros (n1 - 3)]), nz.
    split; [apply Forall_app; split; [exact Hok1|]; repeat constructor; cbn [token_ok];
            apply andb_true_iff; split; apply Nat.leb_le; lia|].
    split; [rewrite tokens_bytes_app; reflexivity|].
    split.
    { rewrite tokens_data_app, Hd1. unfold tokens_data. cbn [map concat token_data]. rewrite app_nil_r.
      replace (firstn nz l) with (firstn (c0 + (3 + (n1 - 3))) l) by (f_equal; unfold c0; lia).
      rewrite firstn_plus. f_equal. rewrite firstn_plus. f_equal.
      - symmetry. apply zeros_firstn_repeat; [|rewrite skipn_length; unfold c0; lia].
        apply (zeros_sub l nz c0 3); [exact Hz | unfold c0; lia].
      - symmetry. rewrite <- skipn_plus. apply zeros_firstn_repeat; [|rewrite skipn_length; unfold c0; lia].
        apply (zeros_sub l nz (c0 + 3) (n1 - 3)); [exact Hz | unfold c0; lia]. }
    split.
    { replace (skipn nz l) with (skipn (c0 + (3 + (n1 - 3))) l) by (f_equal; unfold c0; lia).
      rewrite !skipn_plus. reflexivity. }
    repeat split; lia.
  - apply Nat.ltb_ge in E130.
    destruct (Nat.leb 3 n1) eqn:E3.
    + apply Nat.leb_le in E3. apply pair_inj in H. destruct H as [<- <-].
      exists (ts1 ++ [Zeros n1]), nz.
      split; [apply Forall_app; split; [exact Hok1|]; repeat constructor; cbn [token_ok];
              apply andb_true_iff; split; apply Nat.leb_le; lia|].
      split; [rewrite tokens_bytes_app; unfold tokens_bytes; cbn [map concat token_bytes]; rewrite !app_nil_r; reflexivity|].
      split.
      { rewrite tokens_data_app, Hd1. unfold tokens_data. cbn [map concat token_data]. rewrite app_nil_r.
        replace (firstn nz l) with (firstn (c0 + n1) l) by (f_equal; unfold c0; lia).
        rewrite firstn_plus. f_equal.
        symmetry. apply zeros_firstn_repeat; [|rewrite skipn_length; unfold c0; lia].
        apply (zeros_sub l nz c0 n1); [exact Hz | unfold c0; lia]. }
      split.
      { replace (skipn nz l) with (skipn (c0 + n1) l) by (f_equal; unfold c0; lia). rewrite skipn_plus. reflexivity. }
      repeat split; lia.
    + apply Nat.leb_gt in E3. apply pair_inj in H. destruct H as [<- <-].
      assert (nz < 3)%nat by (destruct (Nat.le_gt_cases 3 nz) as [G|G]; [specialize (B3 G); lia | exact G]).
      assert (c0 = 0)%nat by (unfold c0; specialize (B4 ltac:(lia)); lia).
      exists ts1, 0%nat.
      split; [exact Hok1|]. split; [rewrite !app_nil_r; reflexivity|].
      split; [rewrite Hd1, H0; reflexivity|]. split; [rewrite H0; reflexivity|]. repeat split; lia.
Qed.

(* ---- the whole encoder ------------------------------------------------------------------------ *)
Definition tailz (z : nat) : list N := if Nat.eqb z 0 then [] else [127].

Definition emits (o data : list N) : Prop :=
  exists ts z, toks_ok ts /\ (z <= 130)%nat /\ o = tokens_bytes ts ++ tailz z /\ data = tokens_data ts ++ repeat 0 z.

Lemma existsb_false_zeros l : existsb (fun b => negb (b =? 0)) l = false -> zeros_at l.
Proof.
  induction l as [|x r IH]; intro H; [constructor|]. cbn [existsb] in H. apply orb_false_iff in H. destruct H as [H1 H2].
  constructor; [|apply IH, H2]. apply negb_false_iff, N.eqb_eq in H1. exact H1.
Qed.

Lemma flush_last_spec l : (length l <= 3)%nat -> emits (flush_last l) l /\ (l <> [] -> flush_last l <> []).
Proof.
  intro Hl. unfold flush_last. destruct l as [|x r]; [split; [exists [], 0%nat; repeat split; [constructor | lia] | congruence]|].
  set (l := x :: r) in *.
  destruct (existsb (fun b => negb (b =? 0)) l) eqn:E.
  - replace (Nat.leb (length l) 128) with true by (symmetry; apply Nat.leb_le; lia).
    split; [|discriminate].
    exists [Lit l], 0%nat. split; [repeat constructor; cbn [token_ok]; apply andb_true_iff; split; apply Nat.leb_le; unfold l in *; cbn [length] in *; lia|].
    split; [lia|]. unfold tokens_bytes, tokens_data, tailz. cbn [map concat token_bytes token_data Nat.eqb repeat]. rewrite !app_nil_r. split; reflexivity.
  - split; [|discriminate].
    exists [], (length l). split; [constructor|]. split; [lia|].
    unfold tokens_bytes, tokens_data, tailz. cbn [map concat app]. split; [reflexivity|].
    apply zeros_repeat, existsb_false_zeros, E.
Qed.

Lemma emits_prepend ts o data : toks_ok ts -> emits o data -> emits (tokens_bytes ts ++ o) (tokens_data ts ++ data).
Proof.
  intros Hok (ts' & z & Hok' & Hz & -> & ->). exists (ts ++ ts'), z.
  split; [apply Forall_app; split; assumption|]. split; [exact Hz|].
  rewrite tokens_bytes_app, tokens_data_app, <- !app_assoc. split; reflexivity.
Qed.

Lemma sp_main_spec : forall fuel l, (length l < fuel)%nat ->
  exists o, sp_main fuel l = Some o /\ emits o l /\ (l <> [] -> o <> []).
Proof.
  induction fuel as [|fuel IH]; intros l Hf; [lia|].
  cbn [sp_main].
  destruct (Nat.ltb 3 (length (firstn 4 l))) eqn:E4.
  - apply Nat.ltb_lt in E4. rewrite firstn_length in E4. assert (L4 : (4 <= length l)%nat) by lia.
    destruct (scan l 0 0 0) as [nnz nz] eqn:Es.
    destruct (scan_spec l [] 0 0 0 nnz nz Es eq_refl eq_refl ltac:(constructor)) as (_ & S2 & S3 & S4).
    cbn [app] in S2, S3, S4.
    (* literal part *)
    assert (Hlit : exists ts1, toks_ok ts1 /\
              (if Nat.eqb nnz 0 then ([], l) else flush_nonzeros l nnz) = (tokens_bytes ts1, skipn nnz l) /\ tokens_data ts1 = firstn nnz l).
    { destruct (Nat.eqb nnz 0) eqn:E0.
      - apply Nat.eqb_eq in E0. subst nnz. exists []. split; [constructor|]. split; reflexivity.
      - apply Nat.eqb_neq in E0. destruct (flush_nonzeros l nnz) as [o1 l1] eqn:Ef.
        destruct (flush_nonzeros_spec _ _ _ _ Ef ltac:(lia) ltac:(lia)) as (ts1 & Hok & -> & Hd & ->).
        exists ts1. split; [exact Hok|]. split; [reflexivity | exact Hd]. }
    destruct Hlit as (ts1 & Hok1 & -> & Hd1).
    destruct (flush_zeros (skipn nnz l) nz) as [o2 l2] eqn:Ez.
    destruct (flush_zeros_spec _ _ _ _ Ez) as (ts2 & c & Hok2 & -> & Hd2 & -> & C1 & C2 & C3).
    { rewrite skipn_length. lia. }
    { exact S3. }
    assert (Hprog : (1 <= nnz + c)%nat).
    { destruct S4 as [S4 | S4]; [rewrite (C2 S4); lia|].
      destruct (Nat.le_gt_cases 3 nz) as [G | G]; [rewrite (C2 G); lia | lia]. }
    destruct (IH (skipn c (skipn nnz l))) as (o & Ho & Hem & Hne).
    { rewrite !skipn_length. lia. }
    rewrite Ho. eexists. split; [reflexivity|]. split.
    + assert (El : tokens_data ts1 ++ tokens_data ts2 ++ skipn c (skipn nnz l) = l).
      { rewrite Hd1, Hd2. rewrite (firstn_skipn c). apply firstn_skipn. }
      pose proof (emits_prepend ts1 _ _ Hok1 (emits_prepend ts2 _ _ Hok2 Hem)) as G. rewrite El in G. exact G.
    + intros _ Hnil. apply app_eq_nil in Hnil. destruct Hnil as [N1 Hnil]. apply app_eq_nil in Hnil. destruct Hnil as [N2 N3].
      (* something was emitted: at least one byte was consumed *)
      assert (D1 : tokens_data ts1 = []) by (destruct ts1 as [|t ts]; [reflexivity|]; unfold tokens_bytes in N1; cbn [map concat] in N1; apply app_eq_nil in N1; destruct N1 as [N1 _]; destruct t; discriminate N1).
      assert (D2 : tokens_data ts2 = []) by (destruct ts2 as [|t ts]; [reflexivity|]; unfold tokens_bytes in N2; cbn [map concat] in N2; apply app_eq_nil in N2; destruct N2 as [N2 _]; destruct t; discriminate N2).
      rewrite Hd1 in D1. rewrite Hd2 in D2.
      apply (f_equal (@length N)) in D1, D2. rewrite firstn_length in D1, D2. rewrite skipn_length in D2. cbn [length] in D1, D2. lia.
  - apply Nat.ltb_ge in E4. rewrite firstn_length in E4.
    destruct (flush_last_spec l ltac:(lia)) as [A B]. eexists. split; [reflexivity|]. split; assumption.
Qed.

(* ---- the decoder on such a stream --------------------------------------------------------------- *)
Lemma sp_dec_emitted ts z : forall fuel,
  toks_ok ts -> (z <= 130)%nat ->
  (length (tokens_bytes ts ++ tailz z) < fuel)%nat ->
  sp_dec_loop fuel (tokens_bytes ts ++ tailz z) (lenN (tokens_data ts ++ repeat 0 z)) = Some (tokens_data ts ++ repeat 0 z).
Proof.
  induction ts as [|t ts IH]; intros fuel Hok Hz Hf.
  - unfold tokens_bytes, tokens_data, tailz in *. cbn [map concat app] in *.
    destruct (Nat.eqb z 0) eqn:E0.
    + apply Nat.eqb_eq in E0. subst z. destruct fuel; [cbn in Hf; lia | reflexivity].
    + apply Nat.eqb_neq in E0. cbn [length] in Hf.
      destruct fuel as [|[|fuel]]; try lia. cbn [sp_dec_loop].
      replace (128 <=? 127) with false by reflexivity.
      unfold lenN. rewrite repeat_length.
      replace (N.min (127 + 3) (N.of_nat z)) with (N.of_nat z) by lia.
      rewrite Nat2N.id, app_nil_r. reflexivity.
  - inversion Hok as [|? ? Ht Hts]; subst.
    unfold tokens_bytes, tokens_data in *. cbn [map concat] in *.
    fold (tokens_bytes ts) in *. fold (tokens_data ts) in *.
    rewrite <- !app_assoc in *.
    destruct fuel as [|fuel]; [cbn in Hf; lia|].
    destruct t as [bs | n]; cbn [token_ok] in Ht; apply andb_true_iff in Ht; destruct Ht as [H1 H2];
      apply Nat.leb_le in H1, H2; cbn [token_bytes token_data app sp_dec_loop] in *.
    + replace (128 <=? 128 + N.of_nat (length bs - 1)) with true by (symmetry; apply N.leb_le; lia).
      replace (N.to_nat (128 + N.of_nat (length bs - 1) - 128 + 1)) with (length bs) by lia.
      rewrite firstn_app_exact by reflexivity.
      unfold lenN at 1. replace (N.of_nat (length bs) =? 0) with false by (symmetry; apply N.eqb_neq; lia).
      unfold lenN. rewrite app_length.
      replace (N.min (N.of_nat (length bs)) (N.of_nat (length bs + length (tokens_data ts ++ repeat 0 z))))
        with (N.of_nat (length bs)) by lia.
      rewrite Nat2N.id. rewrite firstn_app_exact, skipn_app_exact by reflexivity.
      replace (N.of_nat (length bs + length (tokens_data ts ++ repeat 0 z)) - N.of_nat (length bs))
        with (lenN (tokens_data ts ++ repeat 0 z)) by (unfold lenN; lia).
      rewrite IH by (assumption || (cbn [length] in Hf; rewrite app_length in Hf; lia)). reflexivity.
    + replace (128 <=? N.of_nat (n - 3)) with false by (symmetry; apply N.leb_gt; lia).
      unfold lenN. rewrite app_length, repeat_length.
      replace (N.min (N.of_nat (n - 3) + 3) (N.of_nat (n + length (tokens_data ts ++ repeat 0 z)))) with (N.of_nat n) by lia.
      rewrite Nat2N.id.
      replace (N.of_nat (n + length (tokens_data ts ++ repeat 0 z)) - N.of_nat n)
        with (lenN (tokens_data ts ++ repeat 0 z)) by (unfold lenN; lia).
      rewrite IH by (assumption || (cbn [length] in Hf; lia)). reflexivity.
Qed.

Theorem sparse_roundtrip (data : list N) :
  data <> [] -> lenN data < 4294967296 ->
  exists c, sparse_compress data = Some c /\ sparse_decompress c (lenN data) = SOk data.
Proof.
  intros Hne Hlt. unfold sparse_compress.
  destruct (sp_main_spec (S (length data)) data ltac:(lia)) as (o & Ho & (ts & z & Hok & Hz & -> & Ed) & Hno).
  rewrite Ho. eexists. split; [reflexivity|].
  specialize (Hno Hne).
  unfold sparse_decompress.
  set (n := lenN data) in *. set (o := tokens_bytes ts ++ tailz z) in *.
  assert (Eb : be32 (be32_bytes n ++ o) = n) by (unfold be32_bytes, be32; cbn [app]; lia).
  destruct o as [|b0 tb] eqn:Eo; [congruence|]. rewrite <- Eo in *.
  replace (Nat.ltb (length (firstn 5 (be32_bytes n ++ o))) 5) with false by (rewrite Eo; reflexivity).
  rewrite Eb, N.ltb_irrefl.
  change (skipn 4 (be32_bytes n ++ o)) with o.
  unfold n. rewrite Ed. unfold o. rewrite sp_dec_emitted; [reflexivity | exact Hok | exact Hz |].
  fold o. rewrite app_length. lia.
Qed.
