(* Non-vacuity: a concrete two-sector file (first sector shrinks, second is stored raw;
   fix-key encryption; checksum table) meets every hypothesis of compressed_sectors_roundtrip. *)
From WR Require Import Lib.Bits Lib.Codec Mpq.Crypt Mpq.Archive Proofs.FileLayout_proofs Proofs.Sectors_proofs.
From Coq Require Import ZArith Lia.
Open Scope N_scope.

Definition toy_c (m : N) (d : list N) : option (list N) :=
  match d with
  | b :: _ => if forallb (N.eqb b) d then Some [1; b] else Some d
  | [] => Some d
  end.
Definition toy_d (m : N) (p : list N) (n : N) : option (list N) :=
  match p with [b] => Some (repeat b (N.to_nat n)) | _ => None end.

Definition ex_name : list N := [97; 46; 98].
Definition ex_data : list N := repeat 65 512 ++ map N.of_nat (seq 0 100).
Definition ex_file : file_spec := {| f_name := ex_name; f_data := ex_data; f_comp := 2; f_enc := 2 |}.
Definition ex_written := write_file toy_c 512 true ex_file 32.
Definition ex_bytes := match ex_written with Some (b, _, _) => b | None => [] end.
Definition ex_csize := match ex_written with Some (_, c, _) => c | None => 0 end.
Definition ex_flags := match ex_written with Some (_, _, f) => f | None => 0 end.
Definition ex_archive : archive :=
  {| a_bytes := repeat 0 32 ++ ex_bytes ++ [9; 9];
     a_version := 1; a_shift := 0;
     a_hash := match ht_insert (repeat hempty 16) ex_name 0 with InsOk t => t | _ => [] end;
     a_blocks := [{| b_pos := 32; b_csize := ex_csize; b_fsize := lenN ex_data; b_flags := ex_flags + fl_exists |}] |}.

Example compressed_sectors_hypotheses_met :
  f_enc ex_file < 3 /\ wf_bytes (f_data ex_file) /\ 0 < 512 /\ 512 < lenN (f_data ex_file) /\ lenN (f_data ex_file) < M32 /\
  Forall (unit_contract toy_c toy_d (f_comp ex_file)) (sectors 512 (f_data ex_file)) /\
  write_file toy_c 512 true ex_file 32 = Some (ex_bytes, ex_csize, ex_flags) /\
  has_flag ex_flags fl_compress = true /\ lenN ex_bytes < M32 /\
  carries ex_name ex_archive 32 ex_bytes ex_csize (lenN (f_data ex_file)) ex_flags 512 /\
  read_file toy_d ex_archive ex_name = ROk ex_data.
Proof.
  split; [reflexivity|]. split.
  { apply Forall_forall. intros b Hb. apply in_app_or in Hb. destruct Hb as [Hb|Hb].
    - apply repeat_spec in Hb. subst. reflexivity.
    - apply in_map_iff in Hb. destruct Hb as (k & <- & Hk). apply in_seq in Hk. lia. }
  split; [reflexivity|]. split; [reflexivity|]. split; [reflexivity|]. split.
  { vm_compute sectors. constructor; [|constructor; [|constructor]].
    - intros c Hc El. vm_compute in Hc. injection Hc as <-. split; [repeat constructor|]. split; [reflexivity|].
      exists 1, [65]. split; reflexivity.
    - intros c Hc El. vm_compute in Hc. injection Hc as <-. vm_compute in El. discriminate. }
  split; [vm_compute; reflexivity|]. split; [vm_compute; reflexivity|]. split; [vm_compute; reflexivity|]. split.
  { split; [exists (repeat 0 32), [9; 9]; split; reflexivity|]. split; [reflexivity|]. split; [reflexivity|].
    vm_compute. reflexivity. }
  vm_compute. reflexivity.
Qed.
