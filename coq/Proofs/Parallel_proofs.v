From Coq Require Import NArith List Bool Arith Lia.
Import ListNotations.
From WR Require Import Mpq.Parallel.

Section Facts.
  Variable name data : Type.
  Variable read : name -> option data.

  Lemma chunks_fuel_concat fuel : forall n l,
    (1 <= n)%nat -> (length l <= fuel)%nat -> concat (chunks_fuel name fuel n l) = l.
  Proof.
    induction fuel as [|f IH]; intros n l Hn Hl.
    - destruct l; [reflexivity | cbn in Hl; lia].
    - cbn [chunks_fuel]. destruct l as [|x r] eqn:E; [reflexivity|]. rewrite <- E in *.
      cbn [concat]. rewrite IH; [apply firstn_skipn | exact Hn|].
      rewrite skipn_length. subst l. cbn [length] in *. lia.
  Qed.

  (* concat . chunks = id, for every batch size >= 1 and every length *)
  Theorem chunks_concat n l : (1 <= n)%nat -> concat (chunks name n l) = l.
  Proof. intro H. apply chunks_fuel_concat; [exact H | lia]. Qed.

  Theorem flatten_chunks {B} (f : name -> B) n l :
    (1 <= n)%nat -> concat (map (map f) (chunks name n l)) = map f l.
  Proof. intro H. rewrite <- concat_map, chunks_concat by exact H. reflexivity. Qed.

  Lemma all_ok_app a b : all_ok name data (a ++ b) = all_ok name data a && all_ok name data b.
  Proof.
    induction a as [|[x [d|]] a IH]; cbn [app all_ok andb]; [reflexivity | exact IH | reflexivity].
  Qed.

  Lemma all_ok_concat_map cs :
    all_ok name data (map (slot name data read) (concat cs)) = forallb (fun c => all_ok name data (map (slot name data read) c)) cs.
  Proof.
    induction cs as [|c cs IH]; [reflexivity|]. cbn [concat forallb]. rewrite map_app, all_ok_app, IH. reflexivity.
  Qed.

  Lemma collect_batches_skip cs :
    collect_batches name data (map (batch name data read true) cs) = Some (map (slot name data read) (concat cs)).
  Proof.
    induction cs as [|c cs IH]; [reflexivity|].
    cbn [map collect_batches batch concat]. rewrite IH, map_app. reflexivity.
  Qed.

  Lemma collect_batches_noskip cs :
    collect_batches name data (map (batch name data read false) cs) =
    if all_ok name data (map (slot name data read) (concat cs)) then Some (map (slot name data read) (concat cs)) else None.
  Proof.
    induction cs as [|c cs IH]; [reflexivity|].
    cbn [map collect_batches concat]. unfold batch at 1. cbn beta iota.
    rewrite map_app, all_ok_app.
    destruct (all_ok name data (map (slot name data read) c)); cbn [andb]; [|reflexivity].
    rewrite IH. destruct (all_ok name data (map (slot name data read) (concat cs))); reflexivity.
  Qed.

  (* both code paths (<= 1000 names and > 1000 names) compute the specification, for
     every thread count, batch size >= 1, request list and error-skipping mode *)
  Theorem extract_eq_spec skip threads batch_size names :
    (1 <= batch_size)%nat ->
    extract name data read skip threads batch_size names = spec name data read skip names.
  Proof.
    intro Hb. unfold extract, spec.
    destruct (Nat.ltb 1000 (length names)); [|reflexivity].
    assert (He : (1 <= effective_batch (length names) threads batch_size)%nat).
    { unfold effective_batch. destruct (Nat.ltb 5000 (length names)); lia. }
    destruct skip.
    - rewrite collect_batches_skip, chunks_concat by exact He. reflexivity.
    - rewrite collect_batches_noskip, chunks_concat by exact He. reflexivity.
  Qed.

  (* with error-skipping every slot is exactly what a sequential read returns *)
  Corollary skip_errors_slotwise threads batch_size names :
    (1 <= batch_size)%nat ->
    extract name data read true threads batch_size names = Some (map (fun x => (x, read x)) names).
  Proof. intro H. rewrite extract_eq_spec by exact H. reflexivity. Qed.

  (* without it, a failing name fails the call as a whole; otherwise all slots are filled *)
  Corollary fail_as_whole threads batch_size names :
    (1 <= batch_size)%nat ->
    (exists x, In x names /\ read x = None) ->
    extract name data read false threads batch_size names = None.
  Proof.
    intros H (x & Hin & Hx). rewrite extract_eq_spec by exact H. unfold spec.
    replace (all_ok name data (map (slot name data read) names)) with false; [reflexivity|].
    symmetry. induction names as [|y r IH]; [contradiction|].
    cbn [map all_ok]. unfold slot at 1. destruct Hin as [-> | Hin].
    - rewrite Hx. reflexivity.
    - destruct (read y); [apply IH, Hin | reflexivity].
  Qed.
End Facts.

(* ---- schedule independence -------------------------------------------------------------- *)
Section SchedFacts.
  Variable R : Type.
  Variable task : nat -> R.

  Lemma find_slot_fold sched : forall slots i,
    find_slot R (fold_left (exec R task) sched slots) i =
    if existsb (Nat.eqb i) sched then Some (task i) else find_slot R slots i.
  Proof.
    induction sched as [|j r IH]; intros slots i; cbn [fold_left existsb]; [reflexivity|].
    rewrite IH. unfold exec. cbn [find_slot].
    destruct (existsb (Nat.eqb i) r) eqn:E.
    - rewrite orb_true_r. reflexivity.
    - rewrite orb_false_r. destruct (Nat.eqb i j) eqn:Eq; [|reflexivity].
      apply Nat.eqb_eq in Eq. subst. reflexivity.
  Qed.

  (* whatever the order (and however often a task is retried), once every index has been
     executed the result vector is the sequential one *)
  Theorem schedule_independent sched k :
    (forall i, (i < k)%nat -> In i sched) ->
    run_schedule R task sched k = map (fun i => Some (task i)) (seq 0 k).
  Proof.
    intro H. unfold run_schedule. apply map_ext_in. intros i Hi. apply in_seq in Hi.
    rewrite find_slot_fold. replace (existsb (Nat.eqb i) sched) with true; [reflexivity|].
    symmetry. apply existsb_exists. exists i. split; [apply H; lia | apply Nat.eqb_refl].
  Qed.
End SchedFacts.
