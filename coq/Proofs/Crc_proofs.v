(* CRC-32 (the checksum of the (attributes) file): every single-byte alteration changes it, at every
   position and for every length, because each bit step is injective on 32-bit states. *)
From WR Require Import Lib.Bits Mpq.Archive Mpq.Integrity Proofs.Bits_proofs Proofs.Integrity_proofs.
From Coq Require Import ZArith Lia ZifyN ZifyNat ZifyBool.
Ltac Zify.zify_post_hook ::= Z.div_mod_to_equations.
Open Scope N_scope.

Definition POLY : N := 3988292384.
Definition bit_step (c : N) : N := if N.odd c then N.lxor (N.shiftr c 1) POLY else N.shiftr c 1.

Lemma crc32_bits_step n c : crc32_bits (S n) c = crc32_bits n (bit_step c).
Proof. reflexivity. Qed.

Lemma testbit_small a n : a < 2 ^ n -> N.testbit a n = false.
Proof.
  intro H. destruct (N.eq_dec a 0) as [-> | Ha]; [apply N.bits_0|].
  apply N.bits_above_log2. apply N.log2_lt_pow2 in H; lia.
Qed.

Lemma half_lt c : c < M32 -> N.shiftr c 1 < 2 ^ 31.
Proof. intro H. rewrite N.shiftr_div_pow2. change (2 ^ 1) with 2. change (2 ^ 31) with 2147483648. unfold M32 in H. lia. Qed.

Lemma bit_step_lt c : c < M32 -> bit_step c < M32.
Proof.
  intro H. pose proof (half_lt c H) as Hh. unfold bit_step. destruct (N.odd c).
  - apply lxor_lt_M32; [change (2 ^ 31) with 2147483648 in Hh; unfold M32; lia | reflexivity].
  - change (2 ^ 31) with 2147483648 in Hh. unfold M32. lia.
Qed.

Lemma bit_step_top c : c < M32 -> N.testbit (bit_step c) 31 = N.odd c.
Proof.
  intro H. pose proof (testbit_small _ 31 (half_lt c H)) as T. unfold bit_step. destruct (N.odd c).
  - rewrite N.lxor_spec, T. reflexivity.
  - exact T.
Qed.

Lemma bit_step_inj c d : c < M32 -> d < M32 -> bit_step c = bit_step d -> c = d.
Proof.
  intros Hc Hd E.
  assert (Eo : N.odd c = N.odd d) by (rewrite <- (bit_step_top c Hc), <- (bit_step_top d Hd), E; reflexivity).
  assert (Eh : N.shiftr c 1 = N.shiftr d 1).
  { unfold bit_step in E. rewrite <- Eo in E. destruct (N.odd c); [|exact E].
    rewrite <- (lxor_cancel_r (N.shiftr c 1) POLY), E. apply lxor_cancel_r. }
  pose proof (N.div2_odd c) as Dc. pose proof (N.div2_odd d) as Dd. rewrite N.div2_spec in Dc, Dd.
  rewrite Eh, Eo in Dc. transitivity (2 * N.shiftr d 1 + N.b2n (N.odd d)); [exact Dc | symmetry; exact Dd].
Qed.

Lemma crc32_bits_lt n : forall c, c < M32 -> crc32_bits n c < M32.
Proof. induction n as [|n IH]; intros c H; [exact H|]. rewrite crc32_bits_step. apply IH, bit_step_lt, H. Qed.

Lemma crc32_bits_inj n : forall c d, c < M32 -> d < M32 -> crc32_bits n c = crc32_bits n d -> c = d.
Proof.
  induction n as [|n IH]; intros c d Hc Hd E; [exact E|]. rewrite !crc32_bits_step in E.
  apply bit_step_inj; [exact Hc | exact Hd |]. apply IH; [apply bit_step_lt, Hc | apply bit_step_lt, Hd | exact E].
Qed.

Definition byte_step (c x : N) : N := crc32_bits 8 (N.lxor c x).

Lemma byte_step_lt c x : c < M32 -> x < 256 -> byte_step c x < M32.
Proof. intros Hc Hx. apply crc32_bits_lt, lxor_lt_M32; [exact Hc | unfold M32; lia]. Qed.

Lemma fold_lt bs : forall c, c < M32 -> wf_bytes bs -> fold_left byte_step bs c < M32.
Proof.
  induction bs as [|x r IH]; intros c Hc Hw; [exact Hc|]. inversion Hw; subst. cbn [fold_left].
  apply IH; [apply byte_step_lt; assumption | assumption].
Qed.

Lemma fold_inj bs : forall c d, c < M32 -> d < M32 -> wf_bytes bs -> c <> d -> fold_left byte_step bs c <> fold_left byte_step bs d.
Proof.
  induction bs as [|x r IH]; intros c d Hc Hd Hw Hne; [exact Hne|]. inversion Hw; subst. cbn [fold_left].
  apply IH; try (apply byte_step_lt; assumption); try assumption.
  intro E. apply Hne. unfold byte_step in E.
  apply crc32_bits_inj in E; try (apply lxor_lt_M32; [assumption | unfold M32; lia]).
  rewrite <- (lxor_cancel_r c x), E. apply lxor_cancel_r.
Qed.

Lemma crc32_fold bs : crc32 bs = N.lxor (fold_left byte_step bs 4294967295) 4294967295.
Proof. reflexivity. Qed.

Theorem crc32_single_byte (l1 l2 : list N) (x y : N) :
  wf_bytes l1 -> wf_bytes l2 -> x < 256 -> y < 256 -> x <> y -> crc32 (l1 ++ x :: l2) <> crc32 (l1 ++ y :: l2).
Proof.
  intros W1 W2 Hx Hy Hne E. rewrite !crc32_fold, !fold_left_app in E. cbn [fold_left] in E.
  set (s := fold_left byte_step l1 4294967295) in *.
  assert (Hs : s < M32) by (apply fold_lt; [reflexivity | exact W1]).
  assert (E2 : fold_left byte_step l2 (byte_step s x) = fold_left byte_step l2 (byte_step s y)).
  { rewrite <- (lxor_cancel_r (fold_left byte_step l2 (byte_step s x)) 4294967295), E. apply lxor_cancel_r. }
  revert E2. apply fold_inj; try (apply byte_step_lt; assumption); [exact W2|].
  intro E3. unfold byte_step in E3. apply crc32_bits_inj in E3; try (apply lxor_lt_M32; [assumption | unfold M32; lia]).
  apply Hne. rewrite <- (lxor_cancel_r x s), <- (lxor_cancel_r y s), (N.lxor_comm x s), (N.lxor_comm y s), E3. reflexivity.
Qed.

Theorem crc32_detects_alteration (bs : list N) (off : nat) (v : N) :
  (off < length bs)%nat -> wf_bytes bs -> v < 256 -> nth off bs 0 <> v -> crc32 (alter bs off v) <> crc32 bs.
Proof.
  intros Hlt Hb Hv Hne.
  destruct (alter_split bs off v Hlt) as (l1 & x & l2 & E & L & A).
  rewrite A. rewrite E at 1. rewrite E in Hb. apply Forall_app in Hb. destruct Hb as [W1 Hb]. inversion Hb as [|? ? Hx W2]; subst.
  apply crc32_single_byte; try assumption.
  intro Hc. apply Hne. rewrite app_nth2 by lia. rewrite Nat.sub_diag. cbn [nth]. symmetry; exact Hc.
Qed.
