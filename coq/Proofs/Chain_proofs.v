From Coq Require Import ZArith Lia List Bool.
Import ListNotations.
From WR Require Import Mpq.Chain.
Open Scope Z_scope.

(* ---- sortedness is an invariant of every reachable chain ---------------------------- *)
Lemma sorted_tail x r : sorted (x :: r) -> sorted r.
Proof. cbn [sorted]. tauto. Qed.

Lemma insert_head_prio c e :
  match insert_by_prio c e with
  | [] => False
  | y :: _ => e_prio y = e_prio e \/ (exists x r, c = x :: r /\ y = x /\ e_prio e <= e_prio x)
  end.
Proof.
  destruct c as [|x r]; cbn [insert_by_prio]; [left; reflexivity|].
  destruct (Z.ltb_spec (e_prio x) (e_prio e)); [left; reflexivity|].
  right. exists x, r. repeat split. lia.
Qed.

Lemma insert_sorted c e : sorted c -> sorted (insert_by_prio c e).
Proof.
  induction c as [|x r IH]; intro H; cbn [insert_by_prio].
  - cbn. tauto.
  - destruct (Z.ltb_spec (e_prio x) (e_prio e)) as [L | G].
    + cbn [sorted] in *. split; [lia | exact H].
    + cbn [sorted] in H. destruct H as [Hx Hr]. specialize (IH Hr).
      cbn [sorted]. split; [|exact IH].
      pose proof (insert_head_prio r e) as P.
      destruct (insert_by_prio r e) as [|y t]; [exact I|].
      destruct P as [E | (x' & r' & -> & -> & _)]; [lia | exact Hx].
Qed.

Lemma remove_first_sorted c id : sorted c -> sorted (fst (remove_first c id)).
Proof.
  induction c as [|x r IH]; intro H; cbn [remove_first]; [exact I|].
  destruct (e_id x =? id); [cbn [fst]; exact (sorted_tail _ _ H)|].
  destruct (remove_first r id) as [r' b] eqn:E. cbn [fst] in *.
  cbn [sorted] in H. destruct H as [Hx Hr]. specialize (IH Hr).
  cbn [sorted]. split; [|exact IH].
  (* the new neighbour of x comes from r, and r is sorted below x *)
  destruct r' as [|y t]; [exact I|].
  assert (Hall : forall z, In z r -> e_prio z <= e_prio x).
  { clear -Hx Hr. revert x Hx. induction r as [|a r IHr]; intros x Hx z Hz; [contradiction|].
    destruct Hz as [-> | Hz]; [exact Hx|].
    cbn [sorted] in Hr. destruct Hr as [Ha Hr'].
    destruct r as [|b r'']; [contradiction|]. specialize (IHr Hr' a Ha z Hz). lia. }
  apply Hall.
  assert (Hsub : forall z, In z (fst (remove_first r id)) -> In z r).
  { clear. induction r as [|a r IHr]; intros z Hz; cbn [remove_first] in Hz; [contradiction|].
    destruct (e_id a =? id); [right; exact Hz|].
    destruct (remove_first r id) as [q b]. cbn [fst] in *. destruct Hz as [-> | Hz]; [left; reflexivity | right; apply IHr, Hz]. }
  apply Hsub. rewrite E. left. reflexivity.
Qed.

Lemma step_sorted c o : sorted c -> sorted (step c o).
Proof.
  intro H. destruct o as [id p | id | id p |]; cbn [step].
  - apply insert_sorted, H.
  - apply remove_first_sorted, H.
  - pose proof (remove_first_sorted c id H) as R.
    destruct (remove_first c id) as [c' found]. cbn [fst] in R.
    destruct found; [apply insert_sorted, R | exact H].
  - exact I.
Qed.

Theorem run_sorted ops : sorted (run ops).
Proof.
  unfold run. assert (G : forall c, sorted c -> sorted (fold_left step ops c)).
  { induction ops as [|o r IH]; intros c H; cbn [fold_left]; [exact H | apply IH, step_sorted, H]. }
  apply G. exact I.
Qed.

(* ---- parallel construction = sequential construction -------------------------------- *)
Theorem parallel_eq_sequential l :
  from_parallel l = run (map (fun '(id, p) => Add id p) l).
Proof.
  unfold from_parallel, run. generalize (@nil entry) as c.
  induction l as [|[id p] r IH]; intro c; cbn [map fold_left]; [reflexivity | apply IH].
Qed.

(* ---- the stamped specification refines to the implementation's list ----------------- *)
Lemma forget_sinsert c e :
  forget (sinsert c e) = insert_by_prio (forget c) {| e_id := s_id e; e_prio := s_prio e |}.
Proof.
  induction c as [|x r IH]; cbn [sinsert forget map insert_by_prio e_prio]; [reflexivity|].
  destruct (s_prio x <? s_prio e); cbn [map]; [reflexivity|]. f_equal. exact IH.
Qed.

Lemma forget_sremove c id :
  forget (fst (sremove c id)) = fst (remove_first (forget c) id) /\
  snd (sremove c id) = snd (remove_first (forget c) id).
Proof.
  induction c as [|x r [IH1 IH2]]; cbn [sremove forget map remove_first e_id]; [split; reflexivity|].
  destruct (s_id x =? id); [split; reflexivity|].
  fold (forget r). destruct (sremove r id) as [r' b]. destruct (remove_first (forget r) id) as [q b'].
  cbn [fst snd] in *. subst. split; reflexivity.
Qed.

Lemma forget_sstep st o : forget (fst (sstep st o)) = step (forget (fst st)) o.
Proof.
  destruct st as [c n]. cbn [fst]. destruct o as [id p | id | id p |]; cbn [sstep step].
  - cbn [fst]. apply forget_sinsert.
  - cbn [fst]. apply (forget_sremove c id).
  - destruct (forget_sremove c id) as [E1 E2].
    destruct (sremove c id) as [c' f]. destruct (remove_first (forget c) id) as [q f'].
    cbn [fst snd] in *. subst. destruct f'; cbn [fst]; [apply forget_sinsert | reflexivity].
  - reflexivity.
Qed.

Theorem forget_srun ops : forget (fst (srun ops)) = run ops.
Proof.
  unfold srun, run.
  assert (G : forall st c, forget (fst st) = c -> forget (fst (fold_left sstep ops st)) = fold_left step ops c).
  { induction ops as [|o r IH]; intros st c H; cbn [fold_left]; [exact H|].
    apply IH. rewrite forget_sstep, H. reflexivity. }
  apply G. reflexivity.
Qed.

(* ---- order by (priority desc, stamp asc) is an invariant ---------------------------- *)
Lemma better_trans a b c : better a b = true -> better b c = true -> better a c = true.
Proof. unfold better. intros H1 H2. apply orb_true_iff in H1, H2. apply orb_true_iff. lia. Qed.

Definition stamps_below (c : list sentry) (n : Z) : Prop := forall s, In s c -> s_stamp s < n.

Lemma sorder_tail x r : sorder (x :: r) -> sorder r.
Proof. cbn [sorder]. tauto. Qed.

Lemma sinsert_sorder c e :
  sorder c -> stamps_below c (s_stamp e) -> sorder (sinsert c e).
Proof.
  induction c as [|x r IH]; intros H B; cbn [sinsert].
  - cbn. tauto.
  - destruct (Z.ltb_spec (s_prio x) (s_prio e)) as [L | G].
    + cbn [sorder] in *. split; [|exact H]. unfold better. apply orb_true_iff. left. lia.
    + cbn [sorder] in H. destruct H as [Hx Hr].
      assert (Br : stamps_below r (s_stamp e)) by (intros s Hs; apply B; right; exact Hs).
      specialize (IH Hr Br). cbn [sorder]. split; [|exact IH].
      destruct r as [|y t]; cbn [sinsert].
      * unfold better. apply orb_true_iff. assert (s_stamp x < s_stamp e) by (apply B; left; reflexivity). lia.
      * destruct (Z.ltb_spec (s_prio y) (s_prio e)).
        -- unfold better. apply orb_true_iff. assert (s_stamp x < s_stamp e) by (apply B; left; reflexivity). lia.
        -- exact Hx.
Qed.

Lemma sorder_head_best x r : sorder (x :: r) -> forall s, In s r -> better x s = true.
Proof.
  revert x. induction r as [|y t IH]; intros x H s Hs; [contradiction|].
  cbn [sorder] in H. destruct H as [Hxy Hr]. destruct Hs as [-> | Hs]; [exact Hxy|].
  eapply better_trans; [exact Hxy | apply (IH y Hr s Hs)].
Qed.

Lemma sremove_sub c id s : In s (fst (sremove c id)) -> In s c.
Proof.
  induction c as [|a r IH]; cbn [sremove fst]; [tauto|].
  destruct (s_id a =? id); [cbn [fst In]; tauto|].
  destruct (sremove r id) as [q b]. cbn [fst] in *. intros [-> | H]; [left; reflexivity | right; apply IH, H].
Qed.

Lemma sremove_sorder c id : sorder c -> sorder (fst (sremove c id)).
Proof.
  induction c as [|x r IH]; intro H; cbn [sremove]; [exact I|].
  destruct (s_id x =? id); [cbn [fst]; exact (sorder_tail _ _ H)|].
  pose proof (sorder_head_best x r H) as HB.
  pose proof (sremove_sub r id) as Sub.
  destruct (sremove r id) as [r' b]. cbn [fst] in *.
  cbn [sorder] in H. destruct H as [_ Hr]. specialize (IH Hr).
  cbn [sorder]. split; [|exact IH].
  destruct r' as [|y t]; [exact I|]. apply HB, Sub. left. reflexivity.
Qed.

Lemma sinsert_in c e s : In s (sinsert c e) -> s = e \/ In s c.
Proof.
  induction c as [|x r IH]; cbn [sinsert]; [intros [<- | []]; left; reflexivity|].
  destruct (s_prio x <? s_prio e); cbn [In]; [intros [<- | H]; [left; reflexivity | right; exact H]|].
  intros [-> | H]; [right; left; reflexivity|]. destruct (IH H) as [-> | H']; [left; reflexivity | right; right; exact H'].
Qed.

Definition sinv (st : list sentry * Z) : Prop := sorder (fst st) /\ stamps_below (fst st) (snd st).

Lemma sstep_inv st o : sinv st -> sinv (sstep st o).
Proof.
  destruct st as [c n]. unfold sinv. cbn [fst snd]. intros [Ho Hb].
  destruct o as [id p | id | id p |]; cbn [sstep].
  - cbn [fst snd]. split.
    + apply sinsert_sorder; [exact Ho | exact Hb].
    + intros s Hs. destruct (sinsert_in _ _ _ Hs) as [-> | Hin]; [cbn; lia | specialize (Hb s Hin); lia].
  - cbn [fst snd]. split; [apply sremove_sorder, Ho|]. intros s Hs. apply Hb, (sremove_sub c id), Hs.
  - pose proof (sremove_sorder c id Ho) as R. pose proof (sremove_sub c id) as Sub.
    destruct (sremove c id) as [c' f]. cbn [fst] in *. destruct f; cbn [fst snd].
    + split.
      * apply sinsert_sorder; [exact R|]. intros s Hs. cbn. apply Hb, Sub, Hs.
      * intros s Hs. destruct (sinsert_in _ _ _ Hs) as [-> | Hin]; [cbn; lia | specialize (Hb s (Sub s Hin)); lia].
    + split; assumption.
  - cbn [fst snd]. split; [exact I | intros s []].
Qed.

Theorem srun_inv ops : sinv (srun ops).
Proof.
  unfold srun. assert (G : forall st, sinv st -> sinv (fold_left sstep ops st)).
  { induction ops as [|o r IH]; intros st H; cbn [fold_left]; [exact H | apply IH, sstep_inv, H]. }
  apply G. split; [exact I | intros s []].
Qed.

(* ---- lookup returns the highest-priority holder, earliest insertion among equals ----- *)
Section LookupFacts.
  Variable holds : Z -> Z -> option Z.

  Lemma lookup_first c name i v :
    sorder c -> lookup holds (forget c) name = Some (i, v) ->
    exists w, In w c /\ s_id w = i /\ holds i name = Some v /\
              forall s, In s c -> holds (s_id s) name <> None -> s = w \/ better w s = true.
  Proof.
    induction c as [|x r IH]; intros Ho H; cbn [forget map lookup e_id] in H; [discriminate|].
    fold (forget r) in H. destruct (holds (s_id x) name) as [vx|] eqn:Ex.
    - inversion H; subst. exists x. repeat split; [left; reflexivity | exact Ex|].
      intros s [-> | Hs] _; [left; reflexivity | right; apply (sorder_head_best x r Ho s Hs)].
    - destruct (IH (sorder_tail _ _ Ho) H) as (w & Hw & Hid & Hv & Hbest).
      exists w. repeat split; [right; exact Hw | exact Hid | exact Hv|].
      intros s [-> | Hs] Hh; [congruence | apply Hbest; assumption].
  Qed.

  Lemma lookup_none c name :
    lookup holds c name = None <-> forall x, In x c -> holds (e_id x) name = None.
  Proof.
    induction c as [|x r IH]; cbn [lookup]; [split; [intros _ y [] | reflexivity]|].
    destruct (holds (e_id x) name) eqn:E.
    - split; [discriminate|]. intro H. specialize (H x (or_introl eq_refl)). congruence.
    - rewrite IH. split.
      + intros H y [<- | Hy]; [exact E | apply H, Hy].
      + intros H y Hy. apply H. right. exact Hy.
  Qed.

  (* whatever the history: reading a name through the chain returns the content held by
     the holder with the highest priority, earliest (re)insertion winning ties; a name
     no archive of the chain holds is not found *)
  Theorem lookup_highest ops name i v :
    lookup holds (run ops) name = Some (i, v) ->
    exists w, In w (fst (srun ops)) /\ s_id w = i /\ holds i name = Some v /\
              forall s, In s (fst (srun ops)) -> holds (s_id s) name <> None -> s = w \/ better w s = true.
  Proof.
    rewrite <- forget_srun. apply lookup_first. destruct (srun_inv ops) as [H _]. exact H.
  Qed.

  Theorem absent_not_found ops name :
    (forall x, In x (run ops) -> holds (e_id x) name = None) -> lookup holds (run ops) name = None.
  Proof. apply lookup_none. Qed.
End LookupFacts.

(* non-vacuity: a history with ties, a negative priority and a re-prioritisation *)
Example chain_example :
  map e_id (run [Add 1 0; Add 2 5; Add 3 5; Add 4 (-1); SetPrio 2 5; Remove 4; Add 5 0]) = [3; 2; 1; 5].
Proof. reflexivity. Qed.
