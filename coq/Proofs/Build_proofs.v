(* Composition of a whole archive: what ArchiveBuilder writes (header, files one after the other,
   encrypted hash and block tables) is opened by Archive::open, every pending file is found
   through the hash table at its own block entry and read back bit-identically. *)
From WR Require Import Lib.Bits Lib.Codec Mpq.Crypt Mpq.Archive Proofs.Bits_proofs Proofs.Codec_proofs Proofs.Crypt_proofs
  Proofs.HashTable_proofs Proofs.FileLayout_proofs Proofs.Sectors_proofs.
From Coq Require Import ZArith Lia ZifyN ZifyNat ZifyBool.
Ltac Zify.zify_post_hook ::= Z.div_mod_to_equations.
Open Scope N_scope.

(* ---- bounds of hash values --------------------------------------------------------------- *)
Lemma crypt_table_bounded : forallb (fun w => w <? M32) crypt_table = true.
Proof. vm_compute. reflexivity. Qed.

Lemma tbl_lt i : tbl i < M32.
Proof.
  unfold tbl, nth_N.
  destruct (nth_in_or_default (N.to_nat i) crypt_table 0) as [H | ->]; [|reflexivity].
  pose proof crypt_table_bounded as B. rewrite forallb_forall in B. apply N.ltb_lt, B, H.
Qed.

Lemma hash_core_lt ht cs : forall s1 s2, s1 < M32 -> hash_core ht cs s1 s2 < M32.
Proof.
  induction cs as [|ch r IH]; intros s1 s2 H; cbn [hash_core]; [exact H|].
  apply IH. apply lxor_lt_M32; [apply tbl_lt | unfold add32; apply N.mod_lt; discriminate].
Qed.

Lemma hash_string_lt name ht : hash_string name ht < M32.
Proof. unfold hash_string. apply hash_core_lt. reflexivity. Qed.

(* ---- table entries stay plain: locale 0, platform 0, 32-bit fields ------------------------ *)
Definition hplain (e : hentry) : Prop :=
  h_locale e = 0 /\ h_platform e = 0 /\ h_a e < M32 /\ h_b e < M32 /\ h_block e < M32.

Lemma set_nth_forall {A} (P : A -> Prop) (l : list A) x : forall i, Forall P l -> P x -> Forall P (set_nth l i x).
Proof.
  induction l as [|y r IH]; intros i Hl Hx; [destruct i; constructor|].
  inversion Hl; subst. destruct i; cbn [set_nth]; constructor; auto.
Qed.

Lemma insert_loop_plain fuel : forall t size idx a b blk t',
  Forall hplain t -> a < M32 -> b < M32 -> blk < M32 ->
  ht_insert_loop fuel t size idx a b blk = InsOk t' -> Forall hplain t'.
Proof.
  induction fuel as [|fuel IH]; intros t size idx a b blk t' Ht Ha Hb Hk H; cbn [ht_insert_loop] in H; [discriminate|].
  destruct (h_block (nth (N.to_nat idx) t hempty) =? he_never_used).
  - injection H as <-. apply set_nth_forall; [exact Ht|]. unfold hplain; cbn [h_locale h_platform h_a h_b h_block]; repeat split; (assumption || reflexivity).
  - destruct ((h_a (nth (N.to_nat idx) t hempty) =? a) && (h_b (nth (N.to_nat idx) t hempty) =? b) && (h_locale (nth (N.to_nat idx) t hempty) =? 0)); [discriminate|].
    exact (IH t size _ a b blk t' Ht Ha Hb Hk H).
Qed.

Lemma ht_insert_plain t name blk t' : Forall hplain t -> blk < M32 -> ht_insert t name blk = InsOk t' -> Forall hplain t'.
Proof. intros Ht Hk H. unfold ht_insert in H. exact (insert_loop_plain _ _ _ _ _ _ _ _ Ht (hash_string_lt _ _) (hash_string_lt _ _) Hk H). Qed.

Lemma hempty_plain n : Forall hplain (repeat hempty n).
Proof. apply Forall_forall. intros e He. apply repeat_spec in He. subst. repeat split. Qed.

Lemma insert_loop_length fuel : forall t size idx a b blk t',
  ht_insert_loop fuel t size idx a b blk = InsOk t' -> length t' = length t.
Proof.
  induction fuel as [|fuel IH]; intros t size idx a b blk t' H; cbn [ht_insert_loop] in H; [discriminate|].
  destruct (h_block (nth (N.to_nat idx) t hempty) =? he_never_used).
  - injection H as <-. apply set_nth_length.
  - destruct ((h_a (nth (N.to_nat idx) t hempty) =? a) && (h_b (nth (N.to_nat idx) t hempty) =? b) && (h_locale (nth (N.to_nat idx) t hempty) =? 0)); [discriminate|].
    eapply IH; eassumption.
Qed.

Lemma ht_insert_length t name blk t' : ht_insert t name blk = InsOk t' -> length t' = length t.
Proof. unfold ht_insert. apply insert_loop_length. Qed.

(* ---- the files, one after the other --------------------------------------------------------- *)
Definition hkey (f : file_spec) : N * N := (hash_string (f_name f) ht_name_a, hash_string (f_name f) ht_name_b).

Fixpoint add_items (L : list item) (fs : list file_spec) (blk : N) : list item :=
  match fs with
  | [] => L
  | f :: r => add_items (item_of (f_name f) blk :: L) r (blk + 1)
  end.

Lemma add_items_keeps L fs : forall blk it, In it L -> In it (add_items L fs blk).
Proof. revert L. induction fs as [|f r IH]; intros L blk it H; cbn [add_items]; [exact H|]. apply IH. right. exact H. Qed.

Lemma add_items_nth fs : forall L blk i f, nth_error fs i = Some f -> In (item_of (f_name f) (blk + N.of_nat i)) (add_items L fs blk).
Proof.
  induction fs as [|g r IH]; intros L blk i f H; [destruct i; discriminate|].
  cbn [add_items]. destruct i as [|i]; cbn [nth_error] in H.
  - injection H as ->. apply add_items_keeps. left. f_equal. lia.
  - replace (blk + N.of_nat (S i)) with (blk + 1 + N.of_nat i) by lia. apply IH, H.
Qed.

Section Build.
  Variable compress : N -> list N -> option (list N).
  Variable decompress : N -> list N -> N -> option (list N).
  Variable ssz : N.
  Variable crc : bool.

  Fixpoint laid (pos : N) (fs : list file_spec) (body : list N) (bs : list bentry) : Prop :=
    match fs, bs with
    | [], [] => body = []
    | f :: r, b :: br =>
      exists bytes csize flags rest,
        write_file compress ssz crc f pos = Some (bytes, csize, flags) /\ body = bytes ++ rest /\
        b = {| b_pos := w32 pos; b_csize := csize; b_fsize := lenN (f_data f); b_flags := flags + fl_exists |} /\
        laid (pos + lenN bytes) r rest br
    | _, _ => False
    end.

  Lemma write_files_laid : forall fs pos blk ht body bs ht' done,
    write_files compress ssz crc fs pos blk ht = Some (Some (body, bs, ht', done)) ->
    done = fs /\ laid pos fs body bs.
  Proof.
    induction fs as [|f r IH]; intros pos blk ht body bs ht' done H; cbn [write_files] in H.
    - injection H as <- <- <- <-. split; reflexivity.
    - destruct (write_file compress ssz crc f pos) as [[[bytes csize] flags]|] eqn:Ew; [|discriminate].
      destruct (ht_insert ht (f_name f) blk) as [ht1| |] eqn:Ei; try discriminate.
      destruct (write_files compress ssz crc r (pos + lenN bytes) (blk + 1) ht1) as [[[[[rest bs'] ht2] done']|]|] eqn:Er; try discriminate.
      injection H as <- <- <- <-.
      destruct (IH _ _ _ _ _ _ _ Er) as [-> Hl].
      split; [reflexivity|]. cbn [laid]. exists bytes, csize, flags, rest. repeat split; assumption.
  Qed.

  Lemma laid_nth : forall fs pos body bs i f,
    laid pos fs body bs -> nth_error fs i = Some f ->
    exists pre bytes csize flags post,
      body = pre ++ bytes ++ post /\
      write_file compress ssz crc f (pos + lenN pre) = Some (bytes, csize, flags) /\
      nth_error bs i = Some {| b_pos := w32 (pos + lenN pre); b_csize := csize; b_fsize := lenN (f_data f); b_flags := flags + fl_exists |}.
  Proof.
    induction fs as [|g r IH]; intros pos body bs i f Hl Hn; [destruct i; discriminate|].
    destruct bs as [|b br]; [destruct Hl|]. cbn [laid] in Hl.
    destruct Hl as (bytes & csize & flags & rest & Ew & -> & -> & Hl).
    destruct i as [|i]; cbn [nth_error] in Hn |- *.
    - injection Hn as ->. exists [], bytes, csize, flags, rest.
      replace (pos + lenN []) with pos by (unfold lenN; cbn [length]; lia).
      repeat split; assumption.
    - destruct (IH _ _ _ _ _ Hl Hn) as (pre & b2 & c2 & f2 & post & -> & Ew2 & Hb).
      exists (bytes ++ pre), b2, c2, f2, post.
      replace (pos + lenN (bytes ++ pre)) with (pos + lenN bytes + lenN pre) by (unfold lenN; rewrite app_length; lia).
      split; [rewrite <- app_assoc; reflexivity|]. split; assumption.
  Qed.

  Lemma laid_length : forall fs pos body bs, laid pos fs body bs -> length bs = length fs.
  Proof.
    induction fs as [|g r IH]; intros pos body bs Hl; destruct bs as [|b br]; try reflexivity; try destruct Hl.
    cbn [laid] in *. destruct H as (csize & flags & rest & _ & _ & _ & Hl). cbn [length]. f_equal. eapply IH, Hl.
  Qed.

  (* the hash table after all insertions *)
  Lemma write_files_inv : forall fs pos blk ht body bs ht' done k L,
    write_files compress ssz crc fs pos blk ht = Some (Some (body, bs, ht', done)) ->
    Inv ht k L -> Forall hplain ht ->
    NoDup (map hkey fs) -> (forall f, In f fs -> ~ key_in L (fst (hkey f)) (snd (hkey f))) ->
    blk + lenN fs <= he_deleted ->
    Inv ht' k (add_items L fs blk) /\ Forall hplain ht' /\ length ht' = length ht.
  Proof.
    induction fs as [|f r IH]; intros pos blk ht body bs ht' done k L H HI Hp Hnd Hfresh Hblk; cbn [write_files] in H.
    - injection H as <- <- <- <-. cbn [add_items]. split; [exact HI | split; [exact Hp | reflexivity]].
    - destruct (write_file compress ssz crc f pos) as [[[bytes csize] flags]|] eqn:Ew; [|discriminate].
      destruct (ht_insert ht (f_name f) blk) as [ht1| |] eqn:Ei; try discriminate.
      destruct (write_files compress ssz crc r (pos + lenN bytes) (blk + 1) ht1) as [[[[[rest bs'] ht2] done']|]|] eqn:Er; try discriminate.
      injection H as <- <- <- <-.
      cbn [map] in Hnd. inversion Hnd as [|? ? Hnotin Hnd']; subst.
      assert (Hlen : lenN (f :: r) = lenN r + 1) by (unfold lenN; cbn [length]; lia).
      assert (HI1 : Inv ht1 k (item_of (f_name f) blk :: L)).
      { eapply ht_insert_inv; [exact HI | apply (Hfresh f); left; reflexivity | unfold he_deleted in *; lia | exact Ei]. }
      assert (Hp1 : Forall hplain ht1).
      { eapply ht_insert_plain; [exact Hp | | exact Ei]. unfold he_deleted, M32 in *. lia. }
      destruct (IH _ _ _ _ _ _ _ k _ Er HI1 Hp1 Hnd') as (A & B & Cc).
      + intros g Hg (it & [<- | Hit] & Ea & Eb).
        * cbn [item_of i_a i_b] in Ea, Eb. apply Hnotin. apply in_map_iff. exists g. split; [|exact Hg].
          unfold hkey. cbn [fst snd] in *. rewrite Ea, Eb. reflexivity.
        * apply (Hfresh g (or_intror Hg)). exists it. repeat split; assumption.
      + lia.
      + cbn [add_items]. split; [exact A|]. split; [exact B|]. rewrite Cc. eapply ht_insert_length, Ei.
  Qed.
End Build.

(* ---- tables: written encrypted, read back entry by entry ------------------------------------ *)
Lemma group4_words {A} (w : A -> list N) :
  (forall x, exists a b c d, w x = [a; b; c; d]) ->
  forall es, group4 (length es) (concat (map w es)) = map w es.
Proof.
  intros Hw. induction es as [|e r IH]; [reflexivity|].
  cbn [length map concat group4]. destruct (Hw e) as (a & b & c & d & ->). cbn [app]. rewrite IH. reflexivity.
Qed.

Lemma concat_words_length {A} (w : A -> list N) :
  (forall x, exists a b c d, w x = [a; b; c; d]) ->
  forall es, length (concat (map w es)) = (4 * length es)%nat.
Proof.
  intros Hw. induction es as [|e r IH]; [reflexivity|].
  cbn [map concat length]. rewrite app_length, IH. destruct (Hw e) as (a & b & c & d & ->). cbn [length]. lia.
Qed.

Lemma dec_table_spec (p q ws : list N) (key count : N) :
  length ws = (4 * N.to_nat count)%nat -> Forall (fun w => w < M32) ws ->
  dec_table (skipn (N.to_nat (lenN p)) (p ++ enc_table ws key ++ q)) count key = group4 (N.to_nat count) ws.
Proof.
  intros Hl Hw. unfold dec_table, enc_table, lenN. rewrite Nat2N.id.
  rewrite skipn_app_exact by reflexivity.
  replace (N.to_nat (count * 4)) with (length (encrypt_block ws key)) by (rewrite encrypt_block_length; lia).
  rewrite words_of_bytes_of_words by (apply encrypt_block_lt, Hw).
  rewrite decrypt_encrypt_block. reflexivity.
Qed.

Lemma enc_table_length ws key : lenN (enc_table ws key) = 4 * lenN ws.
Proof. unfold enc_table, lenN. rewrite bytes_of_words_length, encrypt_block_length. lia. Qed.

Definition bplain (b : bentry) : Prop := b_pos b < M32 /\ b_csize b < M32 /\ b_fsize b < M32 /\ b_flags b < M32.

Lemma hentry_words_shape e : exists a b c d, hentry_words e = [a; b; c; d].
Proof. unfold hentry_words. eauto. Qed.
Lemma bentry_words_shape e : exists a b c d, bentry_words e = [a; b; c; d].
Proof. unfold bentry_words. eauto. Qed.

Lemma hwords_bounded ht : Forall hplain ht -> Forall (fun w => w < M32) (concat (map hentry_words ht)).
Proof.
  induction 1 as [|e r (H1 & H2 & H3 & H4 & H5) Hr IH]; [constructor|].
  cbn [map concat]. unfold hentry_words at 1. cbn [app]. rewrite H1, H2.
  repeat (constructor; [first [assumption | reflexivity]|]). exact IH.
Qed.
Lemma bwords_bounded bs : Forall bplain bs -> Forall (fun w => w < M32) (concat (map bentry_words bs)).
Proof.
  induction 1 as [|e r (H1 & H2 & H3 & H4) Hr IH]; [constructor|].
  cbn [map concat]. unfold bentry_words at 1. cbn [app]. repeat (constructor; [assumption|]). exact IH.
Qed.

Definition hdecode (w : list N) : hentry :=
  match w with
  | [a; b; lp; blk] => {| h_a := a; h_b := b; h_locale := lp mod 65536; h_platform := lp / 65536; h_block := blk |}
  | _ => hempty
  end.
Definition bdecode (w : list N) : bentry :=
  match w with
  | [p; cs; fs; fl] => {| b_pos := p; b_csize := cs; b_fsize := fs; b_flags := fl |}
  | _ => bempty
  end.

Lemma hdecode_words ht : Forall hplain ht -> map hdecode (map hentry_words ht) = ht.
Proof.
  induction 1 as [|e r (H1 & H2 & _) Hr IH]; [reflexivity|].
  cbn [map]. rewrite IH. f_equal. destruct e as [a b l p k]. cbn in H1, H2. subst. reflexivity.
Qed.
Lemma bdecode_words bs : map bdecode (map bentry_words bs) = bs.
Proof. induction bs as [|e r IH]; [reflexivity|]. cbn [map]. rewrite IH. destruct e; reflexivity. Qed.

(* ---- Archive::open on what write_archive emits ---------------------------------------------- *)
Local Opaque hash_string key_hash_table key_block_table encrypt_block decrypt_block.
Lemma lenN_app {A} (a b : list A) : lenN (a ++ b) = lenN a + lenN b.
Proof. unfold lenN. rewrite app_length. lia. Qed.

Lemma header_length c asz hp bp hs bs :
  c_version c = 1 \/ c_version c = 2 -> lenN (header_bytes c asz hp bp hs bs) = header_size (c_version c).
Proof.
  intros [E | E]; unfold header_bytes, header_size, lenN; rewrite E; cbn [N.eqb Pos.eqb];
    rewrite !app_length, !le_bytes_length; reflexivity.
Qed.

Lemma open_built (c : cfg) (asz hash_pos block_pos hsize bsize : N) (body abytes : list N) (ht : list hentry) (blocks : list bentry) :
  let H := header_bytes c asz hash_pos block_pos hsize bsize in
  let hbytes := enc_table (concat (map hentry_words ht)) key_hash_table in
  let bbytes := enc_table (concat (map bentry_words blocks)) key_block_table in
  let bytes := H ++ body ++ abytes ++ hbytes ++ bbytes in
  (c_version c = 1 \/ c_version c = 2) -> c_shift c < 65536 ->
  hash_pos = lenN H + lenN body + lenN abytes -> block_pos = hash_pos + lenN hbytes ->
  hsize = lenN ht -> bsize = lenN blocks -> lenN bytes < M32 ->
  Forall hplain ht -> Forall bplain blocks ->
  open bytes = Some {| a_bytes := bytes; a_version := c_version c; a_shift := c_shift c; a_hash := ht; a_blocks := blocks |}.
Proof.
  intros H hbytes bbytes bytes Hv Hsh Ehp Ebp Ehs Ebs Hlen Hht Hbl.
  set (tail := if c_version c =? 1 then [] else le_bytes 8 0 ++ le_bytes 2 (N.shiftr hash_pos 32) ++ le_bytes 2 (N.shiftr block_pos 32)).
  set (rest := body ++ abytes ++ hbytes ++ bbytes).
  assert (EH : H = le_bytes 4 mpq_signature ++ le_bytes 4 (header_size (c_version c)) ++ le_bytes 4 (N.min asz 4294967295)
                  ++ le_bytes 2 (c_version c - 1) ++ le_bytes 2 (c_shift c)
                  ++ le_bytes 4 (w32 hash_pos) ++ le_bytes 4 (w32 block_pos) ++ le_bytes 4 hsize ++ le_bytes 4 bsize ++ tail) by reflexivity.
  assert (LH : lenN H = header_size (c_version c)) by (apply header_length, Hv).
  assert (Ehb : hbytes = enc_table (concat (map hentry_words ht)) key_hash_table) by reflexivity.
  assert (Ebb : bbytes = enc_table (concat (map bentry_words blocks)) key_block_table) by reflexivity.
  assert (Erest : rest = body ++ abytes ++ hbytes ++ bbytes) by reflexivity.
  assert (Ebytes : bytes = H ++ rest) by reflexivity.
  clearbody tail rest bytes hbytes bbytes H.
  assert (LH32 : 32 <= lenN H) by (rewrite LH; destruct Hv as [-> | ->]; vm_compute; discriminate).
  assert (Lhb : lenN hbytes = 16 * hsize).
  { rewrite Ehb, enc_table_length. unfold lenN. rewrite (concat_words_length _ hentry_words_shape). subst hsize. unfold lenN. lia. }
  assert (Lbb : lenN bbytes = 16 * bsize).
  { rewrite Ebb, enc_table_length. unfold lenN. rewrite (concat_words_length _ bentry_words_shape). subst bsize. unfold lenN. lia. }
  assert (Lall : lenN bytes = block_pos + lenN bbytes).
  { rewrite Ebytes, Erest, !lenN_app. clear - Ehp Ebp. lia. }
  assert (Fsig : u32_of_bytes bytes = mpq_signature).
  { unfold u32_of_bytes. rewrite Ebytes, EH. rewrite <- app_assoc.
    rewrite firstn_app_exact by apply le_bytes_length. apply le_value_le_bytes. vm_compute. reflexivity. }
  assert (Fld : forall (bs p x q : list N) off len, bs = p ++ x ++ q -> off = lenN p -> len = lenN x -> slice bs off len = x).
  { intros bs p x q off len -> -> ->. apply slice_mid. }
  assert (Fver : slice bytes 12 2 = le_bytes 2 (c_version c - 1)).
  { apply (Fld _ (le_bytes 4 mpq_signature ++ le_bytes 4 (header_size (c_version c)) ++ le_bytes 4 (N.min asz 4294967295)) _
               (le_bytes 2 (c_shift c) ++ le_bytes 4 (w32 hash_pos) ++ le_bytes 4 (w32 block_pos) ++ le_bytes 4 hsize ++ le_bytes 4 bsize ++ tail ++ rest)).
    - rewrite Ebytes, EH. rewrite <- !app_assoc. reflexivity.
    - unfold lenN. rewrite !app_length, !le_bytes_length. reflexivity.
    - unfold lenN. rewrite le_bytes_length. reflexivity. }
  assert (Fsh : slice bytes 14 2 = le_bytes 2 (c_shift c)).
  { apply (Fld _ (le_bytes 4 mpq_signature ++ le_bytes 4 (header_size (c_version c)) ++ le_bytes 4 (N.min asz 4294967295) ++ le_bytes 2 (c_version c - 1)) _
               (le_bytes 4 (w32 hash_pos) ++ le_bytes 4 (w32 block_pos) ++ le_bytes 4 hsize ++ le_bytes 4 bsize ++ tail ++ rest)).
    - rewrite Ebytes, EH. rewrite <- !app_assoc. reflexivity.
    - unfold lenN. rewrite !app_length, !le_bytes_length. reflexivity.
    - unfold lenN. rewrite le_bytes_length. reflexivity. }
  assert (Fhp : slice bytes 16 4 = le_bytes 4 (w32 hash_pos)).
  { apply (Fld _ (le_bytes 4 mpq_signature ++ le_bytes 4 (header_size (c_version c)) ++ le_bytes 4 (N.min asz 4294967295) ++ le_bytes 2 (c_version c - 1) ++ le_bytes 2 (c_shift c)) _
               (le_bytes 4 (w32 block_pos) ++ le_bytes 4 hsize ++ le_bytes 4 bsize ++ tail ++ rest)).
    - rewrite Ebytes, EH. rewrite <- !app_assoc. reflexivity.
    - unfold lenN. rewrite !app_length, !le_bytes_length. reflexivity.
    - unfold lenN. rewrite le_bytes_length. reflexivity. }
  assert (Fbp : slice bytes 20 4 = le_bytes 4 (w32 block_pos)).
  { apply (Fld _ (le_bytes 4 mpq_signature ++ le_bytes 4 (header_size (c_version c)) ++ le_bytes 4 (N.min asz 4294967295) ++ le_bytes 2 (c_version c - 1) ++ le_bytes 2 (c_shift c) ++ le_bytes 4 (w32 hash_pos)) _
               (le_bytes 4 hsize ++ le_bytes 4 bsize ++ tail ++ rest)).
    - rewrite Ebytes, EH. rewrite <- !app_assoc. reflexivity.
    - unfold lenN. rewrite !app_length, !le_bytes_length. reflexivity.
    - unfold lenN. rewrite le_bytes_length. reflexivity. }
  assert (Fhs : slice bytes 24 4 = le_bytes 4 hsize).
  { apply (Fld _ (le_bytes 4 mpq_signature ++ le_bytes 4 (header_size (c_version c)) ++ le_bytes 4 (N.min asz 4294967295) ++ le_bytes 2 (c_version c - 1) ++ le_bytes 2 (c_shift c) ++ le_bytes 4 (w32 hash_pos) ++ le_bytes 4 (w32 block_pos)) _
               (le_bytes 4 bsize ++ tail ++ rest)).
    - rewrite Ebytes, EH. rewrite <- !app_assoc. reflexivity.
    - unfold lenN. rewrite !app_length, !le_bytes_length. reflexivity.
    - unfold lenN. rewrite le_bytes_length. reflexivity. }
  assert (Fbs : slice bytes 28 4 = le_bytes 4 bsize).
  { apply (Fld _ (le_bytes 4 mpq_signature ++ le_bytes 4 (header_size (c_version c)) ++ le_bytes 4 (N.min asz 4294967295) ++ le_bytes 2 (c_version c - 1) ++ le_bytes 2 (c_shift c) ++ le_bytes 4 (w32 hash_pos) ++ le_bytes 4 (w32 block_pos) ++ le_bytes 4 hsize) _
               (tail ++ rest)).
    - rewrite Ebytes, EH. rewrite <- !app_assoc. reflexivity.
    - unfold lenN. rewrite !app_length, !le_bytes_length. reflexivity.
    - unfold lenN. rewrite le_bytes_length. reflexivity. }
  assert (Eb1 : bytes = (H ++ body ++ abytes) ++ hbytes ++ bbytes) by (rewrite Ebytes, Erest, <- !app_assoc; reflexivity).
  assert (Eb2 : bytes = (H ++ body ++ abytes ++ hbytes) ++ bbytes ++ []) by (rewrite Ebytes, Erest, <- !app_assoc, app_nil_r; reflexivity).
  assert (Lb1 : lenN (H ++ body ++ abytes) = hash_pos) by (rewrite !lenN_app; clear - Ehp; lia).
  assert (Lb2 : lenN (H ++ body ++ abytes ++ hbytes) = block_pos) by (rewrite !lenN_app; clear - Ehp Ebp; lia).
  assert (L32 : 32 <= lenN bytes) by (rewrite Ebytes, lenN_app; clear - LH32; lia).
  clear EH Erest Ebytes Fld.
  assert (P4 : pow256 4 = M32) by reflexivity.
  assert (P2 : pow256 2 = 65536) by reflexivity.
  assert (Hhp32 : hash_pos < M32) by (clear - Lall Hlen Ebp; lia).
  assert (Hbp32 : block_pos < M32) by (clear - Lall Hlen; lia).
  assert (Hhs32 : hsize < M32) by (clear - Lall Hlen Ebp Lhb; lia).
  assert (Hbs32 : bsize < M32) by (clear - Lall Hlen Lbb; lia).
  assert (Hv16 : c_version c - 1 < 65536) by (clear - Hv; lia).
  assert (Hw1 : w32 hash_pos < M32) by (apply N.mod_lt; discriminate).
  assert (Hw2 : w32 block_pos < M32) by (apply N.mod_lt; discriminate).
  unfold open.
  replace (lenN bytes <? 32) with false by (symmetry; apply N.ltb_ge; exact L32).
  rewrite Fsig, N.eqb_refl. cbn [negb].
  rewrite Fver, Fsh, Fhp, Fbp, Fhs, Fbs.
  clear Fsig Fver Fsh Fhp Fbp Fhs Fbs.
  rewrite !le_value_le_bytes by (rewrite ?P4, ?P2; assumption).
  unfold w32. rewrite !N.mod_small by assumption.
  replace (lenN bytes <? hash_pos + hsize * 16) with false by (symmetry; apply N.ltb_ge; clear - Lall Ebp Lhb; lia).
  replace (lenN bytes <? block_pos + bsize * 16) with false by (symmetry; apply N.ltb_ge; clear - Lall Lbb; lia).
  replace (c_version c - 1 + 1) with (c_version c) by (destruct Hv as [-> | ->]; reflexivity).
  f_equal. f_equal.
  - change (map hdecode (dec_table (skipn (N.to_nat hash_pos) bytes) hsize key_hash_table) = ht).
    rewrite Eb1 at 1. rewrite <- Lb1. rewrite Ehb, dec_table_spec.
    + subst hsize. unfold lenN. rewrite Nat2N.id. rewrite (group4_words _ hentry_words_shape). apply hdecode_words, Hht.
    + rewrite (concat_words_length _ hentry_words_shape). subst hsize. unfold lenN. lia.
    + apply hwords_bounded, Hht.
  - change (map bdecode (dec_table (skipn (N.to_nat block_pos) bytes) bsize key_block_table) = blocks).
    rewrite Eb2 at 1. rewrite <- Lb2. rewrite Ebb, dec_table_spec.
    + subst bsize. unfold lenN. rewrite Nat2N.id. rewrite (group4_words _ bentry_words_shape). apply bdecode_words.
    + rewrite (concat_words_length _ bentry_words_shape). subst bsize. unfold lenN. lia.
    + apply bwords_bounded, Hbl.
Qed.

(* ---- facts about one written file ------------------------------------------------------------- *)
Lemma compress_sectors_length compress method : forall ss cs b,
  compress_sectors compress method ss = Some (cs, b) -> length cs = length ss.
Proof.
  induction ss as [|s r IH]; intros cs b H; cbn [compress_sectors] in H.
  - injection H as <- <-. reflexivity.
  - destruct (compress_unit compress method s) as [[c b1]|]; [|discriminate].
    destruct (compress_sectors compress method r) as [[cs' b2]|] eqn:Er; [|discriminate].
    injection H as <- <-. cbn [length]. f_equal. eapply IH. reflexivity.
Qed.

Lemma exists_flag_ok (fl : N) :
  In fl [0; fl_encrypted; fl_encrypted + fl_fix_key] ->
  forall (single crc comp : bool),
    let w := (if single then fl_single_unit else 0) + (if crc then fl_sector_crc else 0) + (if comp then fl_compress else 0) + fl in
    has_flag (w + fl_exists) fl_exists = true /\ w + fl_exists < M32.
Proof.
  intros [<- | [<- | [<- | []]]] single crc comp; destruct single, crc, comp; vm_compute; split; reflexivity.
Qed.

Lemma enc_flags_in enc : In (enc_flags enc) [0; fl_encrypted; fl_encrypted + fl_fix_key].
Proof. unfold enc_flags. destruct (enc =? 0); [left; reflexivity|]. destruct (enc =? 1); [right; left; reflexivity | right; right; left; reflexivity]. Qed.

Lemma write_file_props compress ssz crc f pos bytes csize flags :
  write_file compress ssz crc f pos = Some (bytes, csize, flags) ->
  has_flag (flags + fl_exists) fl_exists = true /\ flags + fl_exists < M32 /\ csize <= lenN bytes.
Proof.
  intro H. unfold write_file in H.
  destruct (lenN (f_data f) <=? ssz).
  - destruct (compress_unit compress (f_comp f) (f_data f)) as [[c shrunk]|]; [|discriminate].
    injection H as <- <- <-.
    destruct (exists_flag_ok _ (enc_flags_in (f_enc f)) true crc shrunk) as [A B].
    split; [exact A|]. split; [exact B|]. unfold lenN. rewrite app_length. lia.
  - destruct (compress_sectors compress (f_comp f) (sectors ssz (f_data f))) as [[cs shrunk]|] eqn:Ecs; [|discriminate].
    destruct shrunk; cbn [negb] in H; injection H as <- <- <-.
    + destruct (exists_flag_ok _ (enc_flags_in (f_enc f)) false crc true) as [A B]. cbn [N.add] in A, B.
      split; [exact A|]. split; [exact B|].
      pose proof (compress_sectors_length _ _ _ _ _ Ecs) as Lcs.
      match goal with |- _ <= lenN (?T ++ ?C ++ ?B) => assert (Lt : length T = (4 * S (length cs))%nat) end.
      { destruct (f_enc f =? 0).
        - rewrite concat_bytes_of_u32, bytes_of_words_length, offsets_length. reflexivity.
        - rewrite bytes_of_words_length, encrypt_block_length, offsets_length. reflexivity. }
      unfold lenN in *. rewrite !app_length, Lt, Lcs. lia.
    + destruct (exists_flag_ok _ (enc_flags_in (f_enc f)) false false false) as [A B]. cbn [N.add] in A, B.
      split; [exact A|]. split; [exact B|]. lia.
Qed.

Lemma next_pow2_loop_pow fuel : forall p n, (exists k, p = 2 ^ k) -> exists k, next_pow2_loop fuel p n = 2 ^ k.
Proof.
  induction fuel as [|fuel IH]; intros p n [k ->]; cbn [next_pow2_loop]; [eauto|].
  destruct (n <=? 2 ^ k); [eauto|]. apply IH. exists (k + 1). rewrite N.pow_add_r. lia.
Qed.

Lemma next_pow2_pow n : exists k, next_pow2 n = 2 ^ k.
Proof. unfold next_pow2. apply next_pow2_loop_pow. exists 0. reflexivity. Qed.

Lemma sector_size_pos shift : 0 < sector_size shift.
Proof. unfold sector_size. rewrite N.shiftl_mul_pow2. assert (0 < 2 ^ shift) by (apply N.neq_0_lt_0, N.pow_nonzero; discriminate). unfold sector_base. lia. Qed.

(* ---- the whole archive -------------------------------------------------------------------------- *)
Lemma BOk_inj a b : BOk a = BOk b -> a = b.
Proof. intro H. injection H as H. exact H. Qed.

Section Whole.
  Variable compress : N -> list N -> option (list N).
  Variable decompress : N -> list N -> N -> option (list N).

  Definition file_ok (ssz : N) (f : file_spec) : Prop :=
    f_enc f < 3 /\ wf_bytes (f_data f) /\ lenN (f_data f) < M32 /\
    (if lenN (f_data f) <=? ssz then unit_contract compress decompress (f_comp f) (f_data f)
     else Forall (unit_contract compress decompress (f_comp f)) (sectors ssz (f_data f))).

  Lemma build_structure (c : cfg) (files : list file_spec) (bytes : list N) :
    (c_version c = 1 \/ c_version c = 2) -> c_shift c < 65536 ->
    build compress c files = BOk bytes -> lenN bytes < M32 ->
    Forall (file_ok (sector_size (c_shift c))) (pending c files) ->
    NoDup (map hkey (pending c files)) ->
    (c_attrs c = 1 -> ~ In (hash_string s_attributes ht_name_a, hash_string s_attributes ht_name_b) (map hkey (pending c files))) ->
    exists (body abytes : list N) (ht1 : list hentry) (allblocks : list bentry) (k : N) (L1 : list item) (hash_pos block_pos : N),
      let hbytes := enc_table (concat (map hentry_words ht1)) key_hash_table in
      let bbytes := enc_table (concat (map bentry_words allblocks)) key_block_table in
      let H := header_bytes c (block_pos + lenN bbytes) hash_pos block_pos (lenN ht1) (lenN allblocks) in
      bytes = H ++ body ++ abytes ++ hbytes ++ bbytes /\
      hash_pos = lenN H + lenN body + lenN abytes /\ block_pos = hash_pos + lenN hbytes /\
      Inv ht1 k L1 /\ Forall hplain ht1 /\ Forall bplain allblocks /\
      (forall f, In f (pending c files) ->
         exists i pre fb cs fl post,
           body = pre ++ fb ++ post /\
           write_file compress (sector_size (c_shift c)) (c_crc c) f (header_size (c_version c) + lenN pre) = Some (fb, cs, fl) /\
           nth_error allblocks i = Some {| b_pos := header_size (c_version c) + lenN pre; b_csize := cs; b_fsize := lenN (f_data f); b_flags := fl + fl_exists |} /\
           In (item_of (f_name f) (N.of_nat i)) L1).
  Proof.
    intros Hv Hsh Hb Hlen Hok Hnd Hattr.
    unfold build in Hb.
    remember (pending c files) as pend eqn:Epend.
    remember (sector_size (c_shift c)) as ssz eqn:Essz.
    remember (hash_table_size c (lenN pend)) as hsize eqn:Ehsize.
    remember (header_size (c_version c)) as hdr eqn:Ehdr.
    destruct (write_files compress ssz (c_crc c) pend hdr 0 (repeat hempty (N.to_nat hsize)))
      as [[[[[body blocks] ht] done]|]|] eqn:Ew; try discriminate.
    destruct (write_files_laid _ _ _ _ _ _ _ _ _ _ _ Ew) as [-> Hlaid].
    pose proof (laid_length _ _ _ _ _ _ _ Hlaid) as Lbl.
    destruct (next_pow2_pow (N.max ((lenN pend + (if c_listfile c then 1 else 0) + (if c_attrs c =? 0 then 0 else 1)) * ht_load_factor) ht_min_size)) as [k Hk].
    fold (hash_table_size c (lenN pend)) in Hk. rewrite <- Ehsize in Hk.
    (* attributes entry *)
    remember (hdr + lenN body) as pos1 eqn:Epos1.
    remember (if c_attrs c =? 1
              then match ht_insert ht s_attributes (lenN blocks) with
                   | InsOk ht' => (attributes_bytes pend,
                                   [{| b_pos := w32 pos1; b_csize := lenN (attributes_bytes pend); b_fsize := lenN (attributes_bytes pend); b_flags := fl_exists |}], ht')
                   | _ => ([], [], [])
                   end
              else ([], [], ht)) as att eqn:Eatt.
    destruct att as [[abytes ablocks] ht1].
    destruct (is_nil ht1) eqn:Enil; [discriminate|].
    apply BOk_inj in Hb. rename Hb into Hbytes.
    remember (pos1 + lenN abytes) as hash_pos eqn:Ehash_pos.
    remember (enc_table (concat (map hentry_words ht1)) key_hash_table) as hbytes eqn:Ehbytes.
    remember (hash_pos + lenN hbytes) as block_pos eqn:Eblock_pos.
    remember (blocks ++ ablocks) as allblocks eqn:Eall.
    remember (enc_table (concat (map bentry_words allblocks)) key_block_table) as bbytes eqn:Ebbytes.
    remember (header_bytes c (block_pos + lenN bbytes) hash_pos block_pos hsize (lenN allblocks)) as H eqn:EH.
    assert (LH : lenN H = hdr) by (rewrite EH, Ehdr; apply header_length, Hv).
    assert (Hbytes' : bytes = H ++ body ++ abytes ++ hbytes ++ bbytes) by (symmetry; exact Hbytes).
    assert (Lbytes : lenN bytes = lenN H + lenN body + lenN abytes + lenN hbytes + lenN bbytes).
    { rewrite Hbytes', !lenN_app. clear. lia. }
    (* sizes *)
    assert (Lbb : lenN bbytes = 16 * lenN allblocks).
    { rewrite Ebbytes, enc_table_length. unfold lenN. rewrite (concat_words_length _ bentry_words_shape). clear. lia. }
    assert (Lallb : lenN allblocks = lenN blocks + lenN ablocks) by (rewrite Eall; apply lenN_app).
    assert (Lblocks : lenN blocks = lenN pend) by (unfold lenN; rewrite Lbl; reflexivity).
    assert (Hcount : lenN pend < 268435456) by (unfold M32 in Hlen; clear - Hlen Lbytes Lbb Lallb Lblocks; lia).
    (* the hash table *)
    destruct (write_files_inv compress decompress _ _ _ _ _ _ _ _ _ _ k [] Ew) as (HI & Hpl & Hlt).
    { rewrite Hk. apply inv_empty. }
    { apply hempty_plain. }
    { exact Hnd. }
    { intros f _ (it & [] & _). }
    { unfold he_deleted. clear - Hcount. lia. }
    assert (Hht1 : exists L1, Inv ht1 k L1 /\ Forall hplain ht1 /\ (forall it, In it (add_items [] pend 0) -> In it L1)).
    { destruct (c_attrs c =? 1) eqn:Ea.
      - destruct (ht_insert ht s_attributes (lenN blocks)) as [ht'| |] eqn:Ei; injection Eatt as -> -> ->; [| discriminate Enil | discriminate Enil].
        exists (item_of s_attributes (lenN blocks) :: add_items [] pend 0). split; [|split].
        + eapply ht_insert_inv; [exact HI | | | exact Ei].
          * intros (it & Hit & Ea1 & Eb1). apply (Hattr (proj1 (N.eqb_eq _ _) Ea)).
            assert (G : forall fs L blk it, In it (add_items L fs blk) -> In it L \/ exists f, In f fs /\ i_a it = fst (hkey f) /\ i_b it = snd (hkey f)).
            { clear. induction fs as [|g r IHf]; intros L0 blk it0 Hin; cbn [add_items] in Hin; [left; exact Hin|].
              destruct (IHf _ _ _ Hin) as [[<- | Hl] | (f0 & Hf0 & E1 & E2)].
              - right. exists g. split; [left; reflexivity | split; reflexivity].
              - left. exact Hl.
              - right. exists f0. split; [right; exact Hf0 | split; assumption]. }
            destruct (G _ _ _ _ Hit) as [[] | (f0 & Hf0 & E1 & E2)].
            apply in_map_iff. exists f0. split; [|exact Hf0].
            unfold hkey in *. cbn [fst snd] in *. rewrite <- E1, <- E2, Ea1, Eb1. reflexivity.
          * unfold he_deleted. clear - Hcount Lblocks. lia.
        + eapply ht_insert_plain; [exact Hpl | | exact Ei]. unfold M32. clear - Hcount Lblocks. lia.
        + intros it Hit. right. exact Hit.
      - injection Eatt as -> -> ->. exists (add_items [] pend 0). split; [exact HI | split; [exact Hpl | auto]]. }
    destruct Hht1 as (L1 & HI1 & Hpl1 & HL1).
    (* block entries *)
    assert (Hblocks : Forall bplain blocks).
    { apply Forall_forall. intros b Hb. apply In_nth_error in Hb. destruct Hb as [i Hi].
      assert (Hif : exists f, nth_error pend i = Some f).
      { destruct (nth_error pend i) as [f|] eqn:E; [eauto|]. apply nth_error_None in E.
        assert (i < length blocks)%nat by (apply nth_error_Some; rewrite Hi; discriminate). clear - E H0 Lbl. lia. }
      destruct Hif as [f Hf].
      destruct (laid_nth compress decompress _ _ _ _ _ _ _ _ Hlaid Hf) as (pre & fb & cs & fl & post & Eb & Ewf & Hnb).
      rewrite Hi in Hnb. injection Hnb as ->.
      destruct (write_file_props _ _ _ _ _ _ _ _ Ewf) as (_ & Hfl & Hcs).
      rewrite Forall_forall in Hok. destruct (Hok f (nth_error_In _ _ Hf)) as (_ & _ & Hfs & _).
      unfold bplain. cbn [b_pos b_csize b_fsize b_flags].
      split; [unfold w32; apply N.mod_lt; discriminate|]. split; [|split; assumption].
      assert (lenN fb <= lenN body) by (rewrite Eb, !lenN_app; clear; lia).
      clear - H0 Hcs Lbytes Hlen. lia. }
    assert (Hall : Forall bplain allblocks).
    { rewrite Eall. apply Forall_app. split; [exact Hblocks|].
      destruct (c_attrs c =? 1).
      - destruct (ht_insert ht s_attributes (lenN blocks)); injection Eatt as -> -> ->; try constructor; [|constructor].
        unfold bplain. cbn [b_pos b_csize b_fsize b_flags].
        split; [unfold w32; apply N.mod_lt; discriminate|].
        split; [clear - Lbytes Hlen; lia|]. split; [clear - Lbytes Hlen; lia | reflexivity].
      - injection Eatt as -> -> ->. constructor. }
    assert (Ehs : hsize = lenN ht1) by (pose proof (inv_len _ _ _ HI1) as E1; rewrite E1, <- Hk; reflexivity).
    exists body, abytes, ht1, allblocks, k, L1, hash_pos, block_pos. cbv zeta.
    rewrite <- Ehbytes, <- Ebbytes, <- Ehs, <- EH.
    split; [exact Hbytes'|]. split; [rewrite LH, Ehash_pos, Epos1; clear; lia|]. split; [exact Eblock_pos|].
    split; [exact HI1|]. split; [exact Hpl1|]. split; [exact Hall|].
    intros f Hf. apply In_nth_error in Hf. destruct Hf as [i Hi].
    destruct (laid_nth compress decompress _ _ _ _ _ _ _ _ Hlaid Hi) as (pre & fb & cs & fl & post & Eb & Ewf & Hnb).
    assert (Hbody : lenN body = lenN pre + lenN fb + lenN post) by (rewrite Eb, !lenN_app; clear; lia).
    assert (Hpos : hdr + lenN pre + lenN fb <= lenN bytes) by (clear - Hbody Lbytes LH; lia).
    exists i, pre, fb, cs, fl, post.
    split; [exact Eb|]. split; [exact Ewf|]. split.
    - rewrite Eall. rewrite nth_error_app1 by (apply nth_error_Some; rewrite Hnb; discriminate).
      rewrite Hnb. unfold w32. rewrite N.mod_small by (clear - Hpos Hlen; lia). reflexivity.
    - apply HL1. replace (N.of_nat i) with (0 + N.of_nat i) by (clear; lia). apply add_items_nth, Hi.
  Qed.

  Theorem build_roundtrip (c : cfg) (files : list file_spec) (bytes : list N) :
    (c_version c = 1 \/ c_version c = 2) -> c_shift c < 65536 ->
    build compress c files = BOk bytes -> lenN bytes < M32 ->
    Forall (file_ok (sector_size (c_shift c))) (pending c files) ->
    NoDup (map hkey (pending c files)) ->
    (c_attrs c = 1 -> ~ In (hash_string s_attributes ht_name_a, hash_string s_attributes ht_name_b) (map hkey (pending c files))) ->
    exists a, open bytes = Some a /\
              forall f, In f (pending c files) -> read_file decompress a (f_name f) = ROk (f_data f).
  Proof.
    intros Hv Hsh Hb Hlen Hok Hnd Hattr.
    destruct (build_structure c files bytes Hv Hsh Hb Hlen Hok Hnd Hattr)
      as (body & abytes & ht1 & allblocks & k & L1 & hash_pos & block_pos & S).
    cbv zeta in S. destruct S as (Ebytes & Ehp & Ebp & HI1 & Hpl1 & Hall & Hfiles).
    pose proof (open_built c (block_pos + lenN (enc_table (concat (map bentry_words allblocks)) key_block_table)) hash_pos block_pos
                  (lenN ht1) (lenN allblocks) body abytes ht1 allblocks) as Ho.
    cbv zeta in Ho. rewrite <- Ebytes in Ho.
    specialize (Ho Hv Hsh Ehp Ebp eq_refl eq_refl Hlen Hpl1 Hall).
    eexists. split; [exact Ho|].
    intros f Hf.
    destruct (Hfiles f Hf) as (i & pre & fb & cs & fl & post & Eb & Ewf & Hnb & Hit).
    rewrite Forall_forall in Hok. destruct (Hok f Hf) as (Henc & Hwf & Hfs & Hcon).
    destruct (write_file_props _ _ _ _ _ _ _ _ Ewf) as (Hex & Hfl & Hcs).
    set (H := header_bytes c _ hash_pos block_pos (lenN ht1) (lenN allblocks)) in *.
    assert (LH : lenN H = header_size (c_version c)) by (apply header_length, Hv).
    assert (Hpos : header_size (c_version c) + lenN pre + lenN fb <= lenN bytes).
    { rewrite Ebytes, Eb, !lenN_app, LH. clear. lia. }
    assert (Hfb32 : lenN fb < M32) by (clear - Hpos Hlen; lia).
    refine (file_roundtrip compress decompress (f_name f) _ (sector_size (c_shift c)) (c_crc c) f (header_size (c_version c) + lenN pre) fb cs fl
              eq_refl Henc Hwf (sector_size_pos _) Hfs Hfb32 Hcon Ewf _).
    split; [|split; [reflexivity | split; [clear - Hpos Hlen; lia|]]].
    - exists (H ++ pre), (post ++ abytes ++ enc_table (concat (map hentry_words ht1)) key_hash_table ++ enc_table (concat (map bentry_words allblocks)) key_block_table).
      cbn [a_bytes]. split.
      + rewrite Ebytes, Eb. rewrite <- !app_assoc. reflexivity.
      + rewrite lenN_app, LH. reflexivity.
    - unfold find_block. cbn [a_hash a_blocks].
      destruct (ht_find_inserted ht1 k L1 (f_name f) (N.of_nat i) HI1 Hit) as [idx Hidx].
      rewrite Hidx. rewrite Nat2N.id, Hnb. cbn [b_flags]. rewrite Hex. reflexivity.
  Qed.
End Whole.
