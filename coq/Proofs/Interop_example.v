(* Non-vacuity of library_archive_read_by_reference: on the concrete archive of Build_example the
   reference opens the built bytes and reads the (unencrypted) listfile; evaluated directly. *)
From WR Require Import Lib.Bits Lib.Codec Mpq.Crypt Mpq.Archive Mpq.MpqRef Proofs.Sectors_example Proofs.Build_proofs Proofs.Build_example Proofs.Interop_proofs.
From Coq Require Import ZArith Lia.
Open Scope N_scope.

Example reference_reads_listfile :
  exists f, In f (pending ex_cfg ex_files) /\ f_enc f = 0 /\ wf_bytes (f_name f) /\
  exists ra, ref_open ex_built = Some ra /\ ref_read toy_d ra (f_name f) = Some (f_data f).
Proof.
  exists {| f_name := s_listfile; f_data := listfile_content (map normalize_file ex_files) true; f_comp := 2; f_enc := 0 |}.
  split; [unfold pending; cbn [c_listfile ex_cfg]; apply in_or_app; right; left; reflexivity|].
  split; [reflexivity|]. split.
  { apply Forall_forall. intros b Hb. vm_compute in Hb. repeat (destruct Hb as [<- | Hb]; [reflexivity|]). destruct Hb. }
  destruct (ref_open ex_built) as [ra|] eqn:Eo; [|vm_compute in Eo; discriminate].
  exists ra. split; [reflexivity|].
  assert (Ea : Some ra = ref_open ex_built) by (symmetry; exact Eo). clear Eo.
  vm_compute in Ea. injection Ea as ->. vm_compute. reflexivity.
Qed.
