(* Proofs about integrity metadata: adler32 detects every single-byte change, the
   readers only return what matches the stored checksums, the 64 KiB hashing loop
   covers every signed byte, sign / verify. *)
From Coq Require Import List NArith ZArith Bool Lia ZifyBool ZifyNat ZifyN.
From WR Require Import Lib.Bits Lib.Md5 Gen.Consts Mpq.Archive Mpq.Integrity Proofs.Bits_proofs Proofs.FileLayout_proofs.
Import ListNotations.
Open Scope N_scope.
Ltac Zify.zify_post_hook ::= Z.div_mod_to_equations.

(* ---- adler32 ------------------------------------------------------------------------------ *)
Definition sumN (l : list N) : N := fold_right N.add 0 l.

Definition astep : N * N -> N -> N * N :=
  fun '(a, b) x => let a' := (a + x) mod 65521 in (a', (b + a') mod 65521).

Lemma adler32_unfold bs : adler32 bs = snd (fold_left astep bs (1, 0)) * 65536 + fst (fold_left astep bs (1, 0)).
Proof. unfold adler32. fold astep. destruct (fold_left astep bs (1, 0)); reflexivity. Qed.

Lemma astep_fst bs : forall a b, fst (fold_left astep bs (a, b)) = if bs then a else (a + sumN bs) mod 65521.
Proof.
  induction bs as [|x r IH]; intros a b; [reflexivity|].
  cbn [fold_left astep]. rewrite IH. destruct r as [|y r']; cbn [sumN fold_right].
  - f_equal. lia.
  - fold (sumN r'). rewrite N.add_mod_idemp_l by lia. f_equal. lia.
Qed.

Lemma astep_fst_lt bs a b : a < 65521 -> fst (fold_left astep bs (a, b)) < 65521.
Proof.
  intro Ha. rewrite astep_fst. destruct bs; [exact Ha|]. apply N.mod_lt. lia.
Qed.

Lemma adler32_low bs : adler32 bs mod 65536 = (1 + sumN bs) mod 65521.
Proof.
  rewrite adler32_unfold.
  assert (Hl : fst (fold_left astep bs (1, 0)) < 65521) by (apply astep_fst_lt; lia).
  rewrite N.add_comm, N.mod_add by lia. rewrite N.mod_small by lia.
  rewrite astep_fst. destruct bs; [reflexivity|reflexivity].
Qed.

Lemma sumN_app a b : sumN (a ++ b) = sumN a + sumN b.
Proof. induction a as [|x r IH]; cbn [app sumN fold_right]; [reflexivity|]. fold (sumN (r ++ b)) (sumN r). rewrite IH. lia. Qed.

(* changing one byte always changes the checksum, whatever the length of the data *)
Theorem adler32_single_byte (l1 l2 : list N) (x y : N) :
  x < 256 -> y < 256 -> x <> y -> adler32 (l1 ++ x :: l2) <> adler32 (l1 ++ y :: l2).
Proof.
  intros Hx Hy Hne Heq.
  assert (H : adler32 (l1 ++ x :: l2) mod 65536 = adler32 (l1 ++ y :: l2) mod 65536) by (rewrite Heq; reflexivity).
  rewrite !adler32_low, !sumN_app in H. cbn [sumN fold_right] in H. fold (sumN l2) in H.
  set (s := sumN l1) in *. set (t := sumN l2) in *. lia.
Qed.

(* ---- alteration ----------------------------------------------------------------------------- *)
Lemma alter_split (bs : list N) (off : nat) (v : N) :
  (off < length bs)%nat -> exists l1 x l2, bs = l1 ++ x :: l2 /\ length l1 = off /\ alter bs off v = l1 ++ v :: l2.
Proof.
  revert off. induction bs as [|b r IH]; intros off Hlt; cbn [length] in Hlt; [lia|].
  destruct off as [|k].
  - exists [], b, r. repeat split.
  - destruct (IH k) as (l1 & x & l2 & E & L & A); [lia|].
    exists (b :: l1), x, l2. cbn [alter app length]. rewrite A, L. rewrite E at 1. repeat split.
Qed.

Lemma alter_length bs : forall off v, length (alter bs off v) = length bs.
Proof. induction bs as [|b r IH]; intros [|k] v; cbn [alter length]; auto. Qed.

Theorem adler32_detects_alteration (bs : list N) (off : nat) (v : N) :
  (off < length bs)%nat -> Forall (fun b => b < 256) bs -> v < 256 -> nth off bs 0 <> v ->
  adler32 (alter bs off v) <> adler32 bs.
Proof.
  intros Hlt Hb Hv Hne.
  destruct (alter_split bs off v Hlt) as (l1 & x & l2 & E & L & A).
  rewrite A. rewrite E at 1. apply adler32_single_byte; [exact Hv| |].
  - rewrite E in Hb. apply Forall_app in Hb. destruct Hb as [_ Hb]. inversion Hb; assumption.
  - intro Hc. apply Hne. rewrite E, <- L. rewrite app_nth2 by lia. rewrite Nat.sub_diag. cbn [nth]. symmetry; exact Hc.
Qed.

(* ---- the readers return only what matches the stored checksum ---------------------------------- *)
Section Readers.
  Variable decompress : N -> list N -> N -> option (list N).

  (* sectored files with the builder's checksum table: the result is a concatenation of
     sectors whose ADLER32 values are exactly the stored table *)
  Lemma read_sectors_chk_sound fuel : forall a pos offs crcs enc key i remaining ssz out,
    read_sectors_chk decompress fuel a pos offs crcs enc key i remaining ssz = Some out ->
    exists ss, out = concat ss /\ length ss = fuel /\ map adler32 ss = firstn fuel crcs.
  Proof.
    induction fuel as [|f IH]; intros a pos offs crcs enc key i remaining ssz out H; cbn [read_sectors_chk] in H.
    - inversion H. exists []. repeat split.
    - destruct offs as [|s [|e rest]]; try discriminate.
      destruct crcs as [|k crest]; try discriminate.
      match type of H with (if adler32 ?t =? k then _ else _) = _ => set (o := t) in * end.
      destruct (adler32 o =? k) eqn:Ek; [|discriminate].
      match type of H with match ?r with _ => _ end = _ => destruct r as [r'|] eqn:Er end; [|discriminate].
      inversion H; subst out. destruct (IH _ _ _ _ _ _ _ _ _ _ Er) as (ss & E1 & E2 & E3).
      exists (o :: ss). cbn [concat length map firstn]. rewrite E1, E2, E3. apply N.eqb_eq in Ek. rewrite Ek. repeat split.
  Qed.
End Readers.

(* ---- the 64 KiB loop hashes the archive range with the signature area zeroed --------------------- *)
Lemma lenN_app {A} (a b : list A) : lenN (a ++ b) = lenN a + lenN b.
Proof. unfold lenN. rewrite app_length. lia. Qed.

Lemma mapi_app {A B} (f : N -> A -> B) (a b : list A) : forall i, mapi f i (a ++ b) = mapi f i a ++ mapi f (i + lenN a) b.
Proof.
  induction a as [|x r IH]; intro i; cbn [app mapi].
  - replace (i + lenN (@nil A)) with i by (unfold lenN; cbn [length]; lia). reflexivity.
  - rewrite IH. replace (i + 1 + lenN r) with (i + lenN (x :: r)) by (unfold lenN; cbn [length]; lia). reflexivity.
Qed.

Lemma mapi_ext {A B} (f g : N -> A -> B) (l : list A) : forall i,
  (forall j x, i <= j < i + lenN l -> f j x = g j x) -> mapi f i l = mapi g i l.
Proof.
  induction l as [|x r IH]; intros i H; cbn [mapi]; [reflexivity|].
  f_equal.
  - apply H. unfold lenN; cbn [length]. lia.
  - apply IH. intros j y Hj. apply H. unfold lenN in *; cbn [length]. lia.
Qed.

Lemma mapi_id {A} (f : N -> A -> A) (l : list A) i : (forall j x, f j x = x) -> mapi f i l = l.
Proof. intro H. revert i. induction l as [|x r IH]; intro i; cbn [mapi]; [reflexivity|]. rewrite H, IH. reflexivity. Qed.

Lemma mapi_shift {A B} (f : N -> A -> B) (l : list A) : forall i d, mapi f (i + d) l = mapi (fun j x => f (j + d) x) i l.
Proof.
  induction l as [|x r IH]; intros i d; cbn [mapi]; [reflexivity|].
  f_equal. replace (i + d + 1) with (i + 1 + d) by lia. apply IH.
Qed.


(* ---- slices ---------------------------------------------------------------------------------- *)
Lemma slice_as_firstn_skipn (bs : list N) (off len : N) :
  slice bs off len = firstn (N.to_nat len) (skipn (N.to_nat off) bs).
Proof.
  unfold slice, lenN.
  destruct (N.le_gt_cases (N.of_nat (length bs)) off) as [Ho|Ho].
  - rewrite (N.min_r off) by lia. rewrite Nat2N.id. rewrite !skipn_all2 by lia. rewrite !firstn_nil. reflexivity.
  - rewrite (N.min_l off) by lia.
    destruct (N.le_gt_cases len (N.of_nat (length bs))) as [Hl|Hl].
    + rewrite N.min_l by lia. reflexivity.
    + rewrite N.min_r by lia. rewrite Nat2N.id.
      rewrite !firstn_all2; [reflexivity| |]; rewrite skipn_length; lia.
Qed.

Lemma skipn_add {A} (l : list A) : forall a b, skipn a (skipn b l) = skipn (b + a) l.
Proof.
  induction l as [|x r IH]; intros a b.
  - rewrite !skipn_nil. reflexivity.
  - destruct b as [|b']; cbn [skipn Nat.add]; [reflexivity|]. apply IH.
Qed.

Lemma slice_length (bs : list N) (off len : N) :
  lenN (slice bs off len) = N.min len (lenN bs - off).
Proof. rewrite slice_as_firstn_skipn. unfold lenN. rewrite firstn_length, skipn_length. lia. Qed.

Lemma slice_beyond (bs : list N) (off len : N) : lenN bs <= off -> slice bs off len = [].
Proof.
  intro H. apply length_zero_iff_nil. pose proof (slice_length bs off len) as L. unfold lenN in *. lia.
Qed.

Lemma slice_split (bs : list N) (off a b : N) :
  slice bs off (a + b) = slice bs off a ++ slice bs (off + lenN (slice bs off a)) b.
Proof.
  rewrite (slice_length bs off a). rewrite !slice_as_firstn_skipn.
  set (l := skipn (N.to_nat off) bs).
  destruct (N.le_gt_cases a (lenN bs - off)) as [Ha|Ha].
  - rewrite N.min_l by lia.
    replace (N.to_nat (a + b)) with (N.to_nat a + N.to_nat b)%nat by lia.
    replace (skipn (N.to_nat (off + a)) bs) with (skipn (N.to_nat a) l).
    + rewrite <- (firstn_skipn (N.to_nat a) l) at 1.
      assert (Hl : length (firstn (N.to_nat a) l) = N.to_nat a).
      { rewrite firstn_length. unfold l. rewrite skipn_length. unfold lenN in Ha. lia. }
      rewrite firstn_app. rewrite Hl. replace (N.to_nat a + N.to_nat b - N.to_nat a)%nat with (N.to_nat b) by lia.
      f_equal. rewrite firstn_firstn. f_equal. lia.
    + unfold l. rewrite skipn_add. f_equal. lia.
  - rewrite N.min_r by lia.
    assert (Hlen : (length l <= N.to_nat a)%nat) by (unfold l; rewrite skipn_length; unfold lenN in Ha; lia).
    rewrite !firstn_all2 by lia.
    rewrite skipn_all2 by (unfold lenN in *; lia). rewrite firstn_nil, app_nil_r. reflexivity.
Qed.

Lemma zero_range_app a b base lo hi :
  zero_range (a ++ b) base lo hi = zero_range a base lo hi ++ zero_range b (base + lenN a) lo hi.
Proof. unfold zero_range. apply mapi_app. Qed.

Lemma mapi_length {A B} (f : N -> A -> B) l : forall i, length (mapi f i l) = length l.
Proof. induction l as [|x r IH]; intro i; cbn [mapi length]; auto. Qed.

(* a chunk is the corresponding part of the specification *)
Lemma chunk_at_spec bs si cur :
  si_exb si <= si_exe si ->
  chunk_at bs si cur = zero_range (slice bs cur (N.min (si_end si - cur) digest_unit)) cur (si_exb si) (si_exe si).
Proof.
  intro Hex. unfold chunk_at, zero_range.
  set (raw := slice bs cur (N.min (si_end si - cur) digest_unit)).
  destruct ((cur <? si_exe si) && (si_exb si <? cur + lenN raw)) eqn:Eo.
  - apply andb_prop in Eo. destruct Eo as [Ea Eb]. apply N.ltb_lt in Ea, Eb.
    pose proof (mapi_shift (fun p x : N => if (si_exb si <=? p) && (p <? si_exe si) then 0 else x) raw 0 cur) as Hs.
    rewrite N.add_0_l in Hs. rewrite Hs. clear Hs.
    apply mapi_ext. intros j x Hj.
    destruct (cur <? si_exb si) eqn:E1, (si_exe si <? cur + lenN raw) eqn:E2;
      try apply N.ltb_lt in E1; try apply N.ltb_ge in E1; try apply N.ltb_lt in E2; try apply N.ltb_ge in E2;
      repeat match goal with |- context [N.leb ?a ?b] => destruct (N.leb_spec a b) | |- context [N.ltb ?a ?b] => destruct (N.ltb_spec a b) end;
      cbn [andb]; try reflexivity; lia.
  - symmetry. rewrite <- (mapi_id (fun _ x => x) raw cur) at 2 by reflexivity.
    apply mapi_ext. intros j x Hj.
    apply andb_false_iff in Eo.
    repeat match goal with |- context [N.leb ?a ?b] => destruct (N.leb_spec a b) | |- context [N.ltb ?a ?b] => destruct (N.ltb_spec a b) end;
      cbn [andb]; try reflexivity.
    destruct Eo as [Eo|Eo]; [apply N.ltb_ge in Eo|apply N.ltb_ge in Eo]; lia.
Qed.

Lemma zero_range_nil_inv l base lo hi : zero_range l base lo hi = [] -> l = [].
Proof. destruct l; [reflexivity|discriminate]. Qed.

Lemma zero_range_length l base lo hi : lenN (zero_range l base lo hi) = lenN l.
Proof. unfold zero_range, lenN. rewrite mapi_length. reflexivity. Qed.

(* the loop, started anywhere, yields the rest of the view *)
Lemma hash_chunks_spec bs si (Hex : si_exb si <= si_exe si) : forall fuel cur,
  (length bs < fuel + N.to_nat cur)%nat \/ (N.to_nat (si_end si - cur) < fuel)%nat ->
  concat (hash_chunks fuel bs si cur) = zero_range (slice bs cur (si_end si - cur)) cur (si_exb si) (si_exe si).
Proof.
  induction fuel as [|f IH]; intros cur Hf.
  - cbn [hash_chunks concat].
    assert (Hs : slice bs cur (si_end si - cur) = []).
    { apply length_zero_iff_nil. pose proof (slice_length bs cur (si_end si - cur)) as L. unfold lenN in L. lia. }
    rewrite Hs. reflexivity.
  - cbn [hash_chunks]. destruct (N.ltb_spec cur (si_end si)) as [Hlt|Hge].
    + rewrite chunk_at_spec by exact Hex.
      set (n := N.min (si_end si - cur) digest_unit).
      replace (slice bs cur (si_end si - cur)) with (slice bs cur (n + (si_end si - cur - n))) by (f_equal; unfold n, digest_unit; lia).
      rewrite slice_split, zero_range_app.
      destruct (zero_range (slice bs cur n) cur (si_exb si) (si_exe si)) as [|c0 cr] eqn:Ec.
      * apply zero_range_nil_inv in Ec. rewrite Ec. cbn [concat app lenN length].
        (* EOF: nothing further can be read either *)
        assert (Hz : lenN (slice bs cur n) = 0) by (rewrite Ec; reflexivity).
        rewrite slice_length in Hz.
        assert (Hs : slice bs (cur + N.of_nat 0) (si_end si - cur - n) = []).
        { apply length_zero_iff_nil. pose proof (slice_length bs (cur + N.of_nat 0) (si_end si - cur - n)) as L. unfold lenN in L.
          unfold n, digest_unit, lenN in Hz. lia. }
        unfold lenN in Hs |- *. cbn [length]. rewrite Hs. reflexivity.
      * rewrite <- Ec. cbn [concat]. f_equal.
        rewrite zero_range_length.
        assert (Hn : 0 < lenN (slice bs cur n)).
        { rewrite <- (zero_range_length _ cur (si_exb si) (si_exe si)), Ec. unfold lenN; cbn [length]; lia. }
        rewrite IH.
        -- f_equal. rewrite slice_length in *.
           destruct (N.le_gt_cases n (lenN bs - cur)) as [Hc|Hc].
           ++ f_equal. lia.
           ++ rewrite !slice_beyond by lia. reflexivity.
        -- rewrite slice_length in *. unfold n, digest_unit, lenN in *. lia.
    + cbn [concat].
      replace (si_end si - cur) with 0 by lia.
      unfold slice. rewrite N.min_0_l. reflexivity.
Qed.

(* the library's 64 KiB loop hashes exactly the archive range with the signature area zeroed *)
Theorem hashed_stream_is_view bs si :
  si_exb si <= si_exe si -> hashed_stream bs si = signed_view bs si.
Proof.
  intro Hex. unfold hashed_stream, signed_view. apply hash_chunks_spec; [exact Hex|]. left. lia.
Qed.

(* ---- every byte of the archive range outside the signature area reaches the digest ----------------- *)
Lemma mapi_nth {A} (f : N -> A -> A) (l : list A) (d : A) : forall k i,
  (k < length l)%nat -> nth k (mapi f i l) d = f (i + N.of_nat k) (nth k l d).
Proof.
  induction l as [|x r IH]; intros k i Hk; cbn [length] in Hk; [lia|].
  destruct k as [|k']; cbn [mapi nth].
  - f_equal. lia.
  - rewrite IH by lia. f_equal. lia.
Qed.

Lemma nth_firstn_lt {A} (l : list A) (d : A) : forall n k, (k < n)%nat -> nth k (firstn n l) d = nth k l d.
Proof.
  induction l as [|x r IH]; intros n k Hk.
  - rewrite firstn_nil. reflexivity.
  - destruct n as [|n']; [lia|]. destruct k as [|k']; cbn [firstn nth]; [reflexivity|]. apply IH. lia.
Qed.

Lemma nth_skipn_add {A} (l : list A) (d : A) : forall m k, nth k (skipn m l) d = nth (m + k) l d.
Proof.
  induction l as [|x r IH]; intros m k.
  - rewrite skipn_nil. destruct k, m; reflexivity.
  - destruct m as [|m']; cbn [skipn Nat.add nth]; [reflexivity|]. apply IH.
Qed.

Lemma slice_nth (bs : list N) (off len : N) (k : nat) (d : N) :
  (k < length (slice bs off len))%nat -> nth k (slice bs off len) d = nth (N.to_nat off + k) bs d.
Proof.
  rewrite slice_as_firstn_skipn. intro Hk. rewrite firstn_length in Hk.
  rewrite nth_firstn_lt by lia. apply nth_skipn_add.
Qed.

Lemma view_nth (bs : list N) (si : siginfo) (p : nat) :
  si_begin si <= N.of_nat p < si_end si -> (p < length bs)%nat ->
  nth (p - N.to_nat (si_begin si)) (signed_view bs si) 0 =
  if (si_exb si <=? N.of_nat p) && (N.of_nat p <? si_exe si) then 0 else nth p bs 0.
Proof.
  intros Hr Hp. unfold signed_view, zero_range.
  assert (Hk : (p - N.to_nat (si_begin si) < length (slice bs (si_begin si) (si_end si - si_begin si)))%nat).
  { pose proof (slice_length bs (si_begin si) (si_end si - si_begin si)) as L. unfold lenN in L. lia. }
  rewrite mapi_nth by exact Hk.
  replace (si_begin si + N.of_nat (p - N.to_nat (si_begin si))) with (N.of_nat p) by lia.
  rewrite slice_nth by exact Hk.
  replace (N.to_nat (si_begin si) + (p - N.to_nat (si_begin si)))%nat with p by lia. reflexivity.
Qed.

(* two inputs with the same view agree on every signed byte outside the signature area *)
Theorem view_covers (bs bs' : list N) (si : siginfo) (p : nat) :
  signed_view bs si = signed_view bs' si ->
  si_begin si <= N.of_nat p < si_end si -> (p < length bs)%nat -> (p < length bs')%nat ->
  ~ (si_exb si <= N.of_nat p < si_exe si) ->
  nth p bs 0 = nth p bs' 0.
Proof.
  intros Hv Hr Hp Hp' Hex.
  pose proof (view_nth bs si p Hr Hp) as A. pose proof (view_nth bs' si p Hr Hp') as B.
  rewrite Hv in A. rewrite A in B.
  destruct ((si_exb si <=? N.of_nat p) && (N.of_nat p <? si_exe si)) eqn:E; [|exact B].
  apply andb_prop in E. destruct E as [E1 E2]. apply N.leb_le in E1. apply N.ltb_lt in E2. lia.
Qed.

(* ---- sign / verify ------------------------------------------------------------------------------ *)
Lemma list_eqb_refl a : list_eqb a a = true.
Proof. induction a as [|x r IH]; cbn [list_eqb]; [reflexivity|]. rewrite N.eqb_refl, IH. reflexivity. Qed.

Lemma list_eqb_eq a : forall b, list_eqb a b = true -> a = b.
Proof.
  induction a as [|x a IH]; intros [|y b] H; cbn [list_eqb] in H; try discriminate; [reflexivity|].
  apply andb_prop in H. destruct H as [H1 H2]. apply N.eqb_eq in H1. rewrite H1, (IH b H2). reflexivity.
Qed.

Lemma pkcs1_pad_inj h h' : length h = length h' -> pkcs1_pad h = pkcs1_pad h' -> h = h'.
Proof.
  unfold pkcs1_pad. intros L E. rewrite L in E.
  repeat (apply app_inv_head in E). exact E.
Qed.

Section SignVerify.
  Variable rsa_pub rsa_priv : list N -> list N.
  Variable H : list N -> list N.
  Hypothesis H_len : forall x, length (H x) = 16%nat.

  (* a signature produced by the library verifies, provided the two RSA directions invert
     each other on the padded digest *)
  Theorem sign_then_verify bs si :
    rsa_pub (rsa_priv (pkcs1_pad (H (hashed_stream bs si)))) = pkcs1_pad (H (hashed_stream bs si)) ->
    weak_verify rsa_pub H bs (rev (rsa_priv (pkcs1_pad (H (hashed_stream bs si))))) si = true.
  Proof. intro E. unfold weak_verify. rewrite rev_involutive, E. apply list_eqb_refl. Qed.

  (* the signature file carries that signature at offset 8 *)
  Lemma weak_sign_layout bs si :
    length (rsa_priv (pkcs1_pad (H (hashed_stream bs si)))) = 64%nat ->
    firstn 64 (skipn 8 (weak_sign rsa_priv H bs si)) = rev (rsa_priv (pkcs1_pad (H (hashed_stream bs si)))).
  Proof.
    intro L. unfold weak_sign. cbn [repeat app skipn]. apply firstn_all2. rewrite rev_length. lia.
  Qed.

  (* one signature accepted for two byte strings: same digest; if the digest does not
     collide on them, every signed byte outside the signature area is the same *)
  Theorem verified_bytes_are_signed bs bs' sig si p :
    si_exb si <= si_exe si ->
    weak_verify rsa_pub H bs sig si = true ->
    weak_verify rsa_pub H bs' sig si = true ->
    (H (signed_view bs si) = H (signed_view bs' si) -> signed_view bs si = signed_view bs' si) ->
    si_begin si <= N.of_nat p < si_end si -> (p < length bs)%nat -> (p < length bs')%nat ->
    ~ (si_exb si <= N.of_nat p < si_exe si) ->
    nth p bs 0 = nth p bs' 0.
  Proof.
    intros Hex V1 V2 Hcf Hr Hp Hp' Hx.
    unfold weak_verify in V1, V2. apply list_eqb_eq in V1, V2.
    rewrite V1 in V2. apply pkcs1_pad_inj in V2; [|rewrite !H_len; reflexivity].
    rewrite !hashed_stream_is_view in V2 by exact Hex.
    exact (view_covers bs bs' si p (Hcf V2) Hr Hp Hp' Hx).
  Qed.

  (* two signatures accepted for one byte string decrypt to the same block *)
  Theorem verified_signatures_agree bs sig sig' si :
    weak_verify rsa_pub H bs sig si = true -> weak_verify rsa_pub H bs sig' si = true ->
    rsa_pub (rev sig) = rsa_pub (rev sig').
  Proof.
    unfold weak_verify. intros V1 V2. apply list_eqb_eq in V1, V2. rewrite V1, V2. reflexivity.
  Qed.
End SignVerify.

(* new_weak: the signed range is the whole archive, wherever it starts *)
Lemma new_weak_range start size pos len :
  si_begin (new_weak start size pos len) = start /\ si_end (new_weak start size pos len) = start + size /\
  si_exb (new_weak start size pos len) <= si_exe (new_weak start size pos len).
Proof. unfold new_weak; cbn. repeat split. lia. Qed.

(* ---- Archive::read_file on single-unit files with a checksum ------------------------------------------ *)
Section SingleUnit.
  Variable decompress : N -> list N -> N -> option (list N).

  (* whatever the bytes of the archive are: content returned for a single-unit file that
     carries a checksum matches the stored ADLER32, except for block entries no builder
     writes (compressed flag with equal sizes; encrypted, uncompressed and longer than
     its file size), where the stored bytes are returned as they are *)
  Theorem single_unit_read_checked (a : archive) (name : list N) (b : bentry) (c : list N) :
    find_block a name = Some b ->
    has_flag (b_flags b) fl_sector_crc = true -> has_flag (b_flags b) fl_single_unit = true ->
    read_file decompress a name = ROk c ->
    adler32 c = le_value (slice (a_bytes a) (b_pos b + b_csize b) 4)
    \/ (has_flag (b_flags b) fl_compress = true /\ lenN c = b_fsize b)
    \/ (has_flag (b_flags b) fl_compress = false /\ has_flag (b_flags b) fl_encrypted = true /\ lenN c = b_fsize b).
  Proof.
    intros Hf Hcrc Hs Hr. unfold read_file in Hr. rewrite Hf in Hr.
    destruct (has_flag (b_flags b) fl_patch_file); [discriminate|].
    destruct (lenN (a_bytes a) <? b_pos b + b_csize b); [discriminate|].
    rewrite Hs, Hcrc in Hr. cbn [orb andb] in Hr.
    match type of Hr with context [if has_flag (b_flags b) fl_encrypted then ?x else ?y] => set (data := if has_flag (b_flags b) fl_encrypted then x else y) in * end.
    destruct (lenN (a_bytes a) <? b_pos b + b_csize b + 4); [discriminate|].
    destruct (has_flag (b_flags b) fl_compress) eqn:Ec.
    - destruct data as [|m payload] eqn:Ed; [discriminate|].
      destruct (decompress m payload (b_fsize b)) as [p|] eqn:Edc; [|discriminate].
      destruct (adler32 p =? le_value (slice (a_bytes a) (b_pos b + b_csize b) 4)) eqn:Ea; [|discriminate].
      destruct (lenN (m :: payload) =? b_fsize b) eqn:El.
      + inversion Hr; subst c. right. left. split; [reflexivity|]. apply N.eqb_eq in El. exact El.
      + inversion Hr; subst c. left. apply N.eqb_eq in Ea. exact Ea.
    - destruct (adler32 data =? le_value (slice (a_bytes a) (b_pos b + b_csize b) 4)) eqn:Ea; [|discriminate].
      apply N.eqb_eq in Ea.
      destruct (has_flag (b_flags b) fl_encrypted) eqn:Ee; cbn [andb] in Hr.
      + destruct (b_fsize b <? lenN data) eqn:El.
        * inversion Hr; subst c. right. right. repeat split.
          apply N.ltb_lt in El. unfold lenN in *. rewrite firstn_length. lia.
        * inversion Hr; subst c. left. exact Ea.
      + inversion Hr; subst c. left. exact Ea.
  Qed.
End SingleUnit.

Section MultiSector.
  Variable decompress : N -> list N -> N -> option (list N).

  (* compressed multi-sector files in the layout ArchiveBuilder writes (checksum table right
     behind the offset table, not counted in the compressed size, so that the last sector
     offset is compressed size + table size): content is returned only when every sector
     matches its stored ADLER32 *)
  Theorem multi_sector_read_checked (a : archive) (name : list N) (b : bentry) (c : list N) :
    let ssz := sector_size (a_shift a) in
    let nsec := (b_fsize b + ssz - 1) / ssz in
    let enc := has_flag (b_flags b) fl_encrypted in
    let key := if enc then file_key name (b_pos b) (b_fsize b) (has_flag (b_flags b) fl_fix_key) else 0 in
    let tbl_raw := slice (a_bytes a) (b_pos b) ((nsec + 1) * 4) in
    let offs := words_of_bytes (N.to_nat (nsec + 1)) (if enc then decrypt_file_data tbl_raw (sub32 key 1) else tbl_raw) in
    find_block a name = Some b ->
    has_flag (b_flags b) fl_sector_crc = true -> has_flag (b_flags b) fl_single_unit = false ->
    has_flag (b_flags b) fl_compress = true ->
    nth (N.to_nat nsec) offs 0 = b_csize b + nsec * 4 ->
    read_file decompress a name = ROk c ->
    exists ss, c = concat ss /\ length ss = N.to_nat nsec /\
               map adler32 ss = firstn (N.to_nat nsec) (words_of_bytes (N.to_nat nsec) (slice (a_bytes a) (b_pos b + (nsec + 1) * 4) (nsec * 4))).
  Proof.
    intros ssz nsec enc key tbl_raw offs Hf Hcrc Hs Hc Hn Hr.
    unfold read_file in Hr. rewrite Hf in Hr.
    destruct (has_flag (b_flags b) fl_patch_file); [discriminate|].
    destruct (lenN (a_bytes a) <? b_pos b + b_csize b); [discriminate|].
    rewrite Hs, Hc, Hcrc in Hr. cbn [orb andb negb] in Hr.
    fold ssz nsec enc in Hr. fold key in Hr. fold tbl_raw in Hr.
    destruct (lenN tbl_raw <? (nsec + 1) * 4); [discriminate|].
    fold offs in Hr. rewrite Hn in Hr.
    rewrite N.eqb_refl in Hr. cbn [orb andb] in Hr.
    destruct (lenN (slice (a_bytes a) (b_pos b + (nsec + 1) * 4) (nsec * 4)) <? nsec * 4); [discriminate|].
    match type of Hr with match ?r with _ => _ end = _ => destruct r as [d|] eqn:Er end; [|discriminate].
    inversion Hr; subst c. exact (read_sectors_chk_sound decompress _ _ _ _ _ _ _ _ _ _ _ Er).
  Qed.

  (* a file that carries a checksum flag is never patched up with zero-filled sectors when
     its checksums cannot be used: every sector returned was decoded *)
  Lemma read_sectors_nr_sound fuel : forall a pos offs enc key i remaining ssz out,
    read_sectors_nr decompress fuel a pos offs enc key i remaining ssz = Some out ->
    exists ss raws, out = concat ss /\ length ss = fuel /\ length raws = fuel /\
      Forall2 (fun s '(j, raw, expected) => read_sector_opt decompress enc key j raw expected true = Some s) ss raws.
  Proof.
    induction fuel as [|f IH]; intros a pos offs enc key i remaining ssz out H; cbn [read_sectors_nr] in H.
    - inversion H. exists [], []. repeat split. constructor.
    - destruct offs as [|s [|e rest]]; try discriminate.
      destruct (e <? s); [discriminate|].
      match type of H with match ?r with _ => _ end = _ => destruct r as [o|] eqn:Eo end; [|discriminate].
      match type of H with match ?r with _ => _ end = _ => destruct r as [r'|] eqn:Er end; [|discriminate].
      inversion H; subst out. destruct (IH _ _ _ _ _ _ _ _ _ Er) as (ss & raws & E1 & E2 & E3 & E4).
      exists (o :: ss), ((i, slice a (pos + s) (e - s), N.min remaining ssz) :: raws).
      cbn [concat length]. rewrite E1, E2, E3. repeat split. constructor; assumption.
  Qed.
End MultiSector.

(* ---- the premises are satisfiable ------------------------------------------------------------------- *)
Example adler32_wikipedia : adler32 [87;105;107;105;112;101;100;105;97] = 300286872.
Proof. vm_compute. reflexivity. Qed.

Example view_example :
  signed_view [1;2;3;4;5;6;7;8;9;10] (new_weak 2 7 4 3) = [3;4;0;0;0;8;9]
  /\ hashed_stream [1;2;3;4;5;6;7;8;9;10] (new_weak 2 7 4 3) = [3;4;0;0;0;8;9].
Proof. vm_compute. split; reflexivity. Qed.
