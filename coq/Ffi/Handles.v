(* The handle tables of the StormLib-style C API (ffi/storm-ffi/src/lib.rs): one counter
   issues handles for archives, open files and searches; three tables hold them.
   Archive contents are given by the Rust API's view [world k] = listing (name, bytes)
   of the k-th prepared archive. *)
From Coq Require Import List NArith ZArith Bool Lia.
Import ListNotations.
Open Scope N_scope.

Record fileh := { f_arch : N; f_data : list N; f_pos : N }.
Record findh := { q_arch : N; q_rest : list (list N) }.
Record st := { next : N; archs : list (N * N); files : list (N * fileh); finds : list (N * findh) }.

Definition hinit : st := {| next := 1; archs := []; files := []; finds := [] |}.

Inductive call :=
| COpen (k : N)
| CClose (h : N)
| COpenFile (h : N) (name : list N)
| CCloseFile (f : N)
| CRead (f : N) (n : N)
| CSeek (f : N) (off : Z) (method : N)
| CSize (f : N)
| CHas (h : N) (name : list N)
| CFindFirst (h : N) (mask : list N)
| CFindNext (q : N)
| CFindClose (q : N).

Inductive err := EInvalidHandle | ENotFound | ENoMoreFiles | EInvalidParameter.
Inductive out := OHandle (h : N) | OOk | OErr (e : err) | OData (d : list N) | ONum (n : N) | OName (name : list N) | OBool (b : bool).

Fixpoint lookup {A} (t : list (N * A)) (h : N) : option A :=
  match t with [] => None | (k, v) :: r => if k =? h then Some v else lookup r h end.
Fixpoint remove {A} (t : list (N * A)) (h : N) : list (N * A) :=
  match t with [] => [] | (k, v) :: r => if k =? h then remove r h else (k, v) :: remove r h end.
Fixpoint update {A} (t : list (N * A)) (h : N) (v : A) : list (N * A) :=
  match t with [] => [] | (k, w) :: r => if k =? h then (k, v) :: r else (k, w) :: update r h v end.

Fixpoint list_eqb (a b : list N) : bool :=
  match a, b with [], [] => true | x :: a', y :: b' => (x =? y) && list_eqb a' b' | _, _ => false end.

Definition lower (c : N) : N := if (65 <=? c) && (c <=? 90) then c + 32 else c.

(* wildcard_match: * matches any hrun (also the empty one), ? one character *)
Fixpoint wild (m s : list N) : bool :=
  match m with
  | [] => match s with [] => true | _ => false end
  | c :: m' =>
    if c =? 42 then
      match m' with
      | [] => true
      | _ => (fix star (t : list N) : bool := wild m' t || match t with [] => false | _ :: t' => star t' end) s
      end
    else match s with
         | [] => false
         | d :: s' => if c =? 63 then wild m' s' else (c =? d) && wild m' s'
         end
  end.

Definition matches (mask name : list N) : bool :=
  if list_eqb mask [42] || list_eqb mask [42; 46; 42] then true
  else wild (map lower mask) (map lower name).

Fixpoint find_content (w : list (list N * list N)) (name : list N) : option (list N) :=
  match w with [] => None | (n, d) :: r => if list_eqb (map lower n) (map lower name) then Some d else find_content r name end.

Definition lenN {A} (l : list A) : N := N.of_nat (length l).
Definition slice (bs : list N) (off len : N) : list N := firstn (N.to_nat len) (skipn (N.to_nat off) bs).

Section World.
  Variable world : N -> option (list (list N * list N)).

  Definition hstep (s : st) (c : call) : st * out :=
    match c with
    | COpen k =>
      match world k with
      | Some _ => ({| next := next s + 1; archs := (next s, k) :: archs s; files := files s; finds := finds s |}, OHandle (next s))
      | None => (s, OErr ENotFound)
      end
    | CClose h =>
      match lookup (archs s) h with
      | Some _ =>
        ({| next := next s; archs := remove (archs s) h;
            files := filter (fun e => negb (f_arch (snd e) =? h)) (files s);
            finds := filter (fun e => negb (q_arch (snd e) =? h)) (finds s) |}, OOk)
      | None => (s, OErr EInvalidHandle)
      end
    | COpenFile h name =>
      match lookup (archs s) h with
      | Some k =>
        match world k with
        | Some w =>
          match find_content w name with
          | Some d => ({| next := next s + 1; archs := archs s;
                          files := (next s, {| f_arch := h; f_data := d; f_pos := 0 |}) :: files s; finds := finds s |}, OHandle (next s))
          | None => (s, OErr ENotFound)
          end
        | None => (s, OErr ENotFound)
        end
      | None => (s, OErr EInvalidHandle)
      end
    | CCloseFile f =>
      match lookup (files s) f with
      | Some _ => ({| next := next s; archs := archs s; files := remove (files s) f; finds := finds s |}, OOk)
      | None => (s, OErr EInvalidHandle)
      end
    | CRead f n =>
      match lookup (files s) f with
      | Some fh =>
        let k := N.min n (lenN (f_data fh) - f_pos fh) in
        ({| next := next s; archs := archs s;
            files := update (files s) f {| f_arch := f_arch fh; f_data := f_data fh; f_pos := f_pos fh + k |}; finds := finds s |},
         OData (slice (f_data fh) (f_pos fh) k))
      | None => (s, OErr EInvalidHandle)
      end
    | CSeek f off method =>
      match lookup (files s) f with
      | Some fh =>
        if 2 <? method then (s, OErr EInvalidParameter) else
        let len := lenN (f_data fh) in
        let base := if method =? 0 then 0%Z else if method =? 1 then Z.of_N (f_pos fh) else Z.of_N len in
        let v := (base + off)%Z in
        let p := if (v <? 0)%Z then len else N.min (Z.to_N v) len in
        ({| next := next s; archs := archs s;
            files := update (files s) f {| f_arch := f_arch fh; f_data := f_data fh; f_pos := p |}; finds := finds s |}, ONum p)
      | None => (s, OErr EInvalidHandle)
      end
    | CSize f =>
      match lookup (files s) f with
      | Some fh => (s, ONum (lenN (f_data fh)))
      | None => (s, OErr EInvalidHandle)
      end
    | CHas h name =>
      match lookup (archs s) h with
      | Some k => match world k with
                  | Some w => (s, OBool (match find_content w name with Some _ => true | None => false end))
                  | None => (s, OBool false)
                  end
      | None => (s, OErr EInvalidHandle)
      end
    | CFindFirst h mask =>
      match lookup (archs s) h with
      | Some k =>
        match world k with
        | Some w =>
          match filter (matches mask) (map fst w) with
          | [] => (s, OErr ENotFound)
          | n :: rest => ({| next := next s + 1; archs := archs s; files := files s;
                             finds := (next s, {| q_arch := h; q_rest := rest |}) :: finds s |}, OHandle (next s))
          end
        | None => (s, OErr ENotFound)
        end
      | None => (s, OErr EInvalidHandle)
      end
    | CFindNext q =>
      match lookup (finds s) q with
      | Some qh =>
        match q_rest qh with
        | [] => (s, OErr ENoMoreFiles)
        | n :: rest => ({| next := next s; archs := archs s; files := files s;
                           finds := update (finds s) q {| q_arch := q_arch qh; q_rest := rest |} |}, OName n)
        end
      | None => (s, OErr EInvalidHandle)
      end
    | CFindClose q =>
      match lookup (finds s) q with
      | Some _ => ({| next := next s; archs := archs s; files := files s; finds := remove (finds s) q |}, OOk)
      | None => (s, OErr EInvalidHandle)
      end
    end.

  Fixpoint hrun (s : st) (cs : list call) : st * list out :=
    match cs with
    | [] => (s, [])
    | c :: r => let '(s1, o) := hstep s c in let '(s2, os) := hrun s1 r in (s2, o :: os)
    end.
End World.

(* the first name a search returns (kept apart from the handle it issues) *)
Definition first_match (w : list (list N * list N)) (mask : list N) : option (list N) :=
  match filter (matches mask) (map fst w) with [] => None | n :: _ => Some n end.

Definition first_name (world : N -> option (list (list N * list N))) (s : st) (h : N) (mask : list N) : option (list N) :=
  match lookup (archs s) h with
  | Some k => match world k with Some w => first_match w mask | None => None end
  | None => None
  end.
