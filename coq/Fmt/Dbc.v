(* DBC tables (file-formats/database/wow-cdbc): writer.rs (write_records, build_string_block,
   write_record), parser.rs / field_parser.rs (records, string references),
   parser.rs (create_sorted_key_map, get_record_by_key_binary_search).
   Numbers are raw little-endian bit patterns of their width; a string cell holds its bytes. *)
From Coq Require Import List NArith Bool Arith.
From WR Require Import Lib.Bits Lib.Codec.
Import ListNotations.
Open Scope N_scope.

Inductive ftype := TNum (w : nat) | TStr.
Definition field := (ftype * nat)%type.                 (* element type, element count (1 = scalar) *)
Inductive cell := CNum (v : N) | CStr (s : list N).
Definition record := list cell.                         (* one cell per element, arrays flattened *)

Definition width (t : ftype) : nat := match t with TNum w => w | TStr => 4%nat end.
Definition flat (sch : list field) : list ftype := flat_map (fun f => repeat (fst f) (snd f)) sch.
Definition lay (sch : list field) : layout := map width (flat sch).

(* header field count: every array element counts when the schema has an array, else one per field
   (schema.rs: validate; the writer uses the same rule) *)
Definition field_count (sch : list field) (arrays : bool) : N :=
  if arrays then N.of_nat (length (flat sch)) else N.of_nat (length sch).

(* ---- string block ------------------------------------------------------------------------------ *)
Fixpoint assoc_find (a : list (list N * N)) (s : list N) : option N :=
  match a with [] => None | (k, o) :: r => if list_eqb k s then Some o else assoc_find r s end.

Definition sb_state := (list N * list (list N * N))%type.
Definition sb_init : sb_state := ([0], [([], 0)]).
Definition sb_add (st : sb_state) (s : list N) : sb_state :=
  match assoc_find (snd st) s with
  | Some _ => st
  | None => (fst st ++ s ++ [0], (s, lenN (fst st)) :: snd st)
  end.

Definition strings_of_record (r : record) : list (list N) :=
  flat_map (fun c => match c with CStr s => [s] | CNum _ => [] end) r.
Definition strings_of (recs : list record) : list (list N) := flat_map strings_of_record recs.
Definition build_block (recs : list record) : sb_state := fold_left sb_add (strings_of recs) sb_init.

Definition offset_of (a : list (list N * N)) (s : list N) : N :=
  match assoc_find a s with Some o => o | None => 0 end.

(* ---- writer ---------------------------------------------------------------------------------------- *)
Definition cell_num (a : list (list N * N)) (c : cell) : N :=
  match c with CNum v => v | CStr s => offset_of a s end.
Definition write_record (l : layout) (a : list (list N * N)) (r : record) : list N := enc l (map (cell_num a) r).

Definition dbc_magic : list N := [87; 68; 66; 67].      (* WDBC *)

Definition dbc_write (sch : list field) (arrays : bool) (recs : list record) : list N :=
  let st := build_block recs in
  dbc_magic ++ le_bytes 4 (lenN recs) ++ le_bytes 4 (field_count sch arrays) ++ le_bytes 4 (N.of_nat (lay_size (lay sch)))
  ++ le_bytes 4 (lenN (fst st)) ++ concat (map (write_record (lay sch) (snd st)) recs) ++ fst st.

(* ---- reader ---------------------------------------------------------------------------------------- *)
Fixpoint cstr_at (bs : list N) : list N :=
  match bs with [] => [] | c :: r => if c =? 0 then [] else c :: cstr_at r end.
Definition get_string (block : list N) (off : N) : list N := cstr_at (skipn (N.to_nat off) block).

Fixpoint cells_of (ts : list ftype) (vs : list N) (block : list N) : record :=
  match ts, vs with
  | t :: ts', v :: vs' => (match t with TNum _ => CNum v | TStr => CStr (get_string block v) end) :: cells_of ts' vs' block
  | _, _ => []
  end.

Definition read_record (sch : list field) (block : list N) (bs : list N) : option (record * list N) :=
  match dec (lay sch) bs with
  | Some (vs, rest) => Some (cells_of (flat sch) vs block, rest)
  | None => None
  end.

Fixpoint read_records (n : nat) (sch : list field) (block : list N) (bs : list N) : option (list record) :=
  match n with
  | O => Some []
  | S k => match read_record sch block bs with
           | Some (r, rest) => match read_records k sch block rest with Some rs => Some (r :: rs) | None => None end
           | None => None
           end
  end.

Definition dbc_read (sch : list field) (bs : list N) : option (list record) :=
  if negb (list_eqb (firstn 4 bs) dbc_magic) then None else
  let count := le_value (firstn 4 (skipn 4 bs)) in
  let rsize := le_value (firstn 4 (skipn 12 bs)) in
  let bsize := le_value (firstn 4 (skipn 16 bs)) in
  if negb (rsize =? N.of_nat (lay_size (lay sch))) then None else
  let body := skipn 20 bs in
  let block := firstn (N.to_nat bsize) (skipn (N.to_nat (count * rsize)) body) in
  read_records (N.to_nat count) sch block body.

(* ---- key lookup -------------------------------------------------------------------------------------- *)
(* binary search over (key, record index) pairs sorted by key *)
Fixpoint bsearch (fuel : nat) (t : list (N * N)) (lo hi : nat) (key : N) : option nat :=
  match fuel with
  | O => None
  | S f =>
    if (hi <=? lo)%nat then None else
    let mid := (lo + (hi - lo) / 2)%nat in
    match nth_error t mid with
    | None => None
    | Some (k, _) => if k =? key then Some mid else if k <? key then bsearch f t (S mid) hi key else bsearch f t lo mid key
    end
  end.

Definition lookup_sorted (t : list (N * N)) (key : N) : option N :=
  match bsearch (S (length t)) t 0 (length t) key with
  | Some pos => match nth_error t pos with Some (_, i) => Some i | None => None end
  | None => None
  end.

(* insertion sort by key, stable (sort_by_key is stable) *)
Fixpoint insert_key (e : N * N) (t : list (N * N)) : list (N * N) :=
  match t with [] => [e] | x :: r => if fst e <=? fst x then e :: t else x :: insert_key e r end.
Definition sort_keys (t : list (N * N)) : list (N * N) := fold_right insert_key [] t.
