(* BLP textures (file-formats/graphics/wow-blp): mipmap chain (types/header.rs: mipmaps_count,
   mipmap_size), alpha quantisation and packing of the palettised encoding
   (convert/raw1.rs: index_alpha_*bit, raw1_to_image), layout of the mipmap data. *)
From Coq Require Import List NArith Bool Arith.
Import ListNotations.
Open Scope N_scope.

(* ---- mipmap chain ---------------------------------------------------------------------------------- *)
Definition mip_count (w h : N) : N := N.max (N.log2 w) (N.log2 h).
Definition mip_size (w h i : N) : N * N :=
  if i =? 0 then (w, h) else (N.max (N.shiftr w i) 1, N.max (N.shiftr h i) 1).

(* ---- alpha ------------------------------------------------------------------------------------------ *)
(* stored value for a source alpha (0..255) at a bit depth of 1, 4 or 8 *)
Definition quant (bits a : N) : N :=
  if bits =? 1 then (if 0 <? a then 1 else 0)
  else if bits =? 4 then (a * 30 + 255) / 510            (* round(a / 255 * 15) *)
  else a.
(* decoded alpha for a stored value *)
Definition expand (bits q : N) : N :=
  if bits =? 1 then (if q =? 1 then 255 else 0)
  else if bits =? 4 then q * 17                          (* (nibble << 4) | nibble *)
  else q.

(* values of [bits] bits each, [per] of them in a byte, lowest first *)
Fixpoint group_byte (bits : N) (g : list N) : N :=
  match g with [] => 0 | v :: r => v + 2 ^ bits * group_byte bits r end.
Fixpoint ungroup (bits : N) (k : nat) (b : N) : list N :=
  match k with O => [] | S k' => b mod 2 ^ bits :: ungroup bits k' (b / 2 ^ bits) end.

Fixpoint pack (fuel : nat) (bits : N) (per : nat) (l : list N) : list N :=
  match fuel with
  | O => []
  | S f => match l with [] => [] | _ => group_byte bits (firstn per l) :: pack f bits per (skipn per l) end
  end.
Definition unpack (bits : N) (per : nat) (n : nat) (bytes : list N) : list N :=
  firstn n (flat_map (ungroup bits per) bytes).

Definition alpha_plane (bits : N) (alphas : list N) : list N :=
  if bits =? 0 then []
  else if bits =? 8 then alphas
  else pack (length alphas) bits (N.to_nat (8 / bits)) (map (quant bits) alphas).

(* ---- layout of mipmap data: consecutive blocks starting at [base] ----------------------------------------- *)
Fixpoint layout_offsets (base : N) (sizes : list N) : list (N * N) :=
  match sizes with [] => [] | s :: r => (base, s) :: layout_offsets (base + s) r end.
