(* WDL offset table discipline, checked on real bytes with the proven chunk walk:
   every non-zero MAOF entry is the file offset of a complete MARE chunk, every
   MARE chunk is referenced by exactly one entry, and a MAHO chunk directly follows
   the MARE chunk it belongs to. *)
From WR Require Export Lib.Bits Lib.Codec.
Open Scope N_scope.

Definition W_MAOF := magic4 70 79 65 77.   (* "FOAM" *)
Definition W_MARE := magic4 69 82 65 77.   (* "ERAM" *)
Definition W_MAHO := magic4 79 72 65 77.   (* "OHAM" *)

(* chunk list with absolute start offsets *)
Fixpoint with_offsets (cs : list (N * N * list N)) (off : N) : list (N * (N * N * list N)) :=
  match cs with
  | [] => []
  | (m, sz, d) :: r => (off, (m, sz, d)) :: with_offsets r (off + 8 + lenN d)
  end.

Fixpoint words_of (fuel : nat) (bs : list N) : list N :=
  match fuel with
  | O => []
  | S f => match bs with
           | a :: b :: c :: d :: r => le_value [a; b; c; d] :: words_of f r
           | _ => []
           end
  end.

Definition find_chunk (m : N) (cs : list (N * (N * N * list N))) : option (list N) :=
  match filter (fun c => fst (fst (snd c)) =? m) cs with
  | (_, (_, _, d)) :: _ => Some d
  | [] => None
  end.

Definition mare_at (cs : list (N * (N * N * list N))) (off : N) : bool :=
  existsb (fun c => let '(o, (m, sz, d)) := c in (o =? off) && (m =? W_MARE) && (lenN d =? sz) && (sz =? 1090)) cs.

Fixpoint count_eq (x : N) (l : list N) : nat :=
  match l with [] => O | y :: r => ((if x =? y then 1 else 0) + count_eq x r)%nat end.

Definition maof_check (bs : list N) : bool :=
  let cs := with_offsets (walk_all bs) 0 in
  match find_chunk W_MAOF cs with
  | None => false
  | Some d =>
    let offs := words_of 4096 d in
    Nat.eqb (length offs) 4096
    && forallb (fun o => (o =? 0) || mare_at cs o) offs
    && forallb (fun c => let '(o, (m, sz, dd)) := c in
                         negb (m =? W_MARE) || Nat.eqb (count_eq o offs) 1) cs
    && forallb chunk_complete (walk_all bs)
    && (fold_left (fun acc c => acc + 8 + lenN (snd c)) (walk_all bs) 0 =? lenN bs)
  end.
