(* wow-wdt/src/lib.rs tile_to_world / world_to_tile on IEEE-754 binary32 (Flocq).
   Every f32 operation of the Rust code is one correctly rounded Flocq operation
   (round to nearest even); `as f32` from u32 is binary_normalize; `as u32` is the
   saturating truncation Rust defines (NaN -> 0). *)
From Coq Require Import ZArith List.
From Flocq Require Import Core BinarySingleNaN Binary Bits.
From WR Require Import Gen.Consts.
Import ListNotations.
Open Scope Z_scope.

Definition f32 := binary32.
Definition f32_of_bits (b : Z) : f32 := b32_of_bits b.
Definition bits_of_f32 (x : f32) : Z := bits_of_b32 x.

Definition f32_of_u32 (n : Z) : f32 := Binary.binary_normalize 24 128 eq_refl eq_refl mode_NE n 0 false.

Definition u32_of_f32 (x : f32) : Z :=
  match x with
  | B754_nan _ _ _ _ _ => 0
  | B754_infinity _ _ s => if s then 0 else 4294967295
  | _ =>
    let t := Binary.Btrunc 24 128 x in
    if t <? 0 then 0 else if 4294967295 <? t then 4294967295 else t
  end.

Definition fmul := b32_mult mode_NE.
Definition fsub := b32_minus mode_NE.
Definition fadd := b32_plus mode_NE.
Definition fdiv := b32_div mode_NE.

Definition t2w_size := f32_of_bits (Z.of_N wdt_t2w_map_size_bits).
Definition t2w_offset := fmul (f32_of_bits (Z.of_N wdt_t2w_half_tiles_bits)) t2w_size.
Definition w2t_size := f32_of_bits (Z.of_N wdt_w2t_map_size_bits).
Definition w2t_offset := fmul (f32_of_bits (Z.of_N wdt_w2t_half_tiles_bits)) w2t_size.
Definition w2t_eps := f32_of_bits (Z.of_N wdt_w2t_eps_bits).

(* world_x = MAP_OFFSET - (tile_y as f32 * MAP_SIZE); world_y likewise from tile_x *)
Definition t2w1 (t : Z) : f32 := fsub t2w_offset (fmul (f32_of_u32 t) t2w_size).
Definition tile_to_world (tx ty : Z) : f32 * f32 := (t2w1 ty, t2w1 tx).

(* tile_x = ((MAP_OFFSET - world_y) / MAP_SIZE + TILE_EPSILON) as u32, clamped *)
Definition w2t1 (w : f32) : Z :=
  Z.min (u32_of_f32 (fadd (fdiv (fsub w2t_offset w) w2t_size) w2t_eps)) (Z.of_N wdt_w2t_clamp).
Definition world_to_tile (wx wy : f32) : Z * Z := (w2t1 wy, w2t1 wx).

(* the code before the repair (no epsilon): kept to state what was wrong *)
Definition w2t1_old (w : f32) : Z :=
  Z.min (u32_of_f32 (fdiv (fsub w2t_offset w) w2t_size)) (Z.of_N wdt_w2t_clamp).
Definition world_to_tile_old (wx wy : f32) : Z * Z := (w2t1_old wy, w2t1_old wx).

Definition idx64 : list Z := map Z.of_nat (seq 0 64).
Definition all_tiles : list (Z * Z) := flat_map (fun x => map (fun y => (x, y)) idx64) idx64.

Definition tile_ok (t : Z * Z) : bool :=
  let '(x, y) := t in
  let '(wx, wy) := tile_to_world x y in
  let '(x', y') := world_to_tile wx wy in
  (x' =? x) && (y' =? y).

Definition tile_ok_old (t : Z * Z) : bool :=
  let '(x, y) := t in
  let '(wx, wy) := tile_to_world x y in
  let '(x', y') := world_to_tile_old wx wy in
  (x' =? x) && (y' =? y).
