(* Byte-level model of wow-wdt: WdtWriter::write, WdtReader::read and the chunk
   codecs in chunks/{mod,mphd,maid}.rs.  Content is kept in canonical form:
   u32/u16 fields as N, f32 fields as their 32-bit patterns (the Rust code only
   moves floats through to_le_bytes/from_le_bytes), names as byte lists. *)
From WR Require Export Lib.Bits Lib.Codec.
Open Scope N_scope.

Definition MVER := magic4 82 69 86 77.   (* "REVM" *)
Definition MPHD := magic4 68 72 80 77.   (* "DHPM" *)
Definition MAIN := magic4 78 73 65 77.   (* "NIAM" *)
Definition MAID := magic4 68 73 65 77.   (* "DIAM" *)
Definition MWMO := magic4 79 77 87 77.   (* "OMWM" *)
Definition MODF := magic4 70 68 79 77.   (* "FDOM" *)

Definition WDT_VERSION : N := 18.
Definition TILES : nat := 4096.

Definition words (n : nat) : layout := repeat 4%nat n.
Definition modf_layout : layout := repeat 4%nat 14 ++ repeat 2%nat 4.   (* 64 bytes *)

Record wdt := {
  mver : N;
  mphd : list N;                    (* 8 words as they appear in the file: flags, then 7 *)
  main : list N;                    (* 2*4096 words: (flags, area_id) per tile, row-major *)
  maid : option (list N);           (* k*4096 words *)
  mwmo : option (list (list N));
  modf : option (list (list N));    (* per entry: 14 words + 4 halfwords *)
}.

Definition opt_chunk {A} (o : option A) (f : A -> chunk) : list chunk :=
  match o with Some a => [f a] | None => [] end.

(* version.rs: has_terrain_mwmo = pre-Cataclysm (Classic 0, TBC 1, WotLK 2) *)
Definition has_terrain_mwmo (version : N) : bool := version <? 3.
Definition is_wmo_only (w : wdt) : bool := N.testbit (hd 0 (mphd w)) 0.
Definition should_write_mwmo (version : N) (w : wdt) : bool :=
  is_wmo_only w || has_terrain_mwmo version.

Definition wdt_chunks (version : N) (w : wdt) : list chunk :=
  [ {| c_magic := MVER; c_data := le_bytes 4 (mver w) |};
    {| c_magic := MPHD; c_data := enc (words 8) (mphd w) |};
    {| c_magic := MAIN; c_data := enc (words (2 * TILES)) (main w) |} ]
  ++ opt_chunk (maid w) (fun m => {| c_magic := MAID; c_data := enc (words (length m)) m |})
  ++ (if should_write_mwmo version w
      then opt_chunk (mwmo w) (fun ns => {| c_magic := MWMO; c_data := cstrs_enc ns |})
      else [])
  ++ opt_chunk (modf w) (fun es => {| c_magic := MODF; c_data := concat (map (enc modf_layout) es) |}).

Definition wdt_write (version : N) (w : wdt) : list N := write_chunks (wdt_chunks version w).

(* ---- reader -------------------------------------------------------------------- *)
Inductive result (A : Type) := Ok (a : A) | Err.
Arguments Ok {A} a.
Arguments Err {A}.

Definition dec_exact (l : layout) (bs : list N) : option (list N) :=
  match dec l bs with
  | Some (vs, []) => Some vs
  | _ => None
  end.

Fixpoint dec_records (fuel : nat) (l : layout) (bs : list N) : option (list (list N)) :=
  match bs with
  | [] => Some []
  | _ =>
    match fuel with
    | O => None
    | S f =>
      match dec l bs with
      | Some (vs, r) =>
        match dec_records f l r with Some rs => Some (vs :: rs) | None => None end
      | None => None
      end
    end
  end.

Record rstate := {
  r_mver : option N; r_mphd : option (list N); r_main : option (list N);
  r_maid : option (list N); r_mwmo : option (list (list N)); r_modf : option (list (list N))
}.
Definition rstate0 : rstate :=
  {| r_mver := None; r_mphd := None; r_main := None; r_maid := None; r_mwmo := None; r_modf := None |}.

Definition MAID_SECTION_BYTES : N := 16384.

Inductive kind := KMver | KMphd | KMain | KMaid | KMwmo | KModf | KOther.
Definition classify (m : N) : kind :=
  if m =? MVER then KMver else if m =? MPHD then KMphd else if m =? MAIN then KMain
  else if m =? MAID then KMaid else if m =? MWMO then KMwmo else if m =? MODF then KModf else KOther.

(* one chunk of the read loop; None = the reader returns an error *)
Definition read_step (s : rstate) (c : N * N * list N) : option rstate :=
  let '(m, sz, d) := c in
  let complete := lenN d =? sz in
  match classify m with
  | KMver =>
    if negb (sz =? 4) then None else
    if negb complete then None else
    let v := le_value d in
    if negb (v =? WDT_VERSION) then None
    else Some {| r_mver := Some v; r_mphd := r_mphd s; r_main := r_main s; r_maid := r_maid s; r_mwmo := r_mwmo s; r_modf := r_modf s |}
  | KMphd =>
    if negb (sz =? 32) then None else
    match dec_exact (words 8) d with
    | Some ws =>
      if 65536 <=? hd 0 ws then None   (* MphdFlags::from_bits rejects unknown bits *)
      else Some {| r_mver := r_mver s; r_mphd := Some ws; r_main := r_main s; r_maid := r_maid s; r_mwmo := r_mwmo s; r_modf := r_modf s |}
    | None => None
    end
  | KMain =>
    if negb (sz =? 32768) then None else
    match dec_exact (words (2 * TILES)) d with
    | Some ws => Some {| r_mver := r_mver s; r_mphd := r_mphd s; r_main := Some ws; r_maid := r_maid s; r_mwmo := r_mwmo s; r_modf := r_modf s |}
    | None => None
    end
  | KMaid =>
    if negb (sz mod MAID_SECTION_BYTES =? 0) then None else
    if negb complete then None else
    match dec_exact (words (N.to_nat (sz / 4))) d with
    | Some ws => Some {| r_mver := r_mver s; r_mphd := r_mphd s; r_main := r_main s; r_maid := Some ws; r_mwmo := r_mwmo s; r_modf := r_modf s |}
    | None => None
    end
  | KMwmo =>
    if negb complete then None
    else Some {| r_mver := r_mver s; r_mphd := r_mphd s; r_main := r_main s; r_maid := r_maid s; r_mwmo := Some (cstrs_split d []); r_modf := r_modf s |}
  | KModf =>
    if negb (sz mod 64 =? 0) then None else
    if negb complete then None else
    match dec_records (S (length d)) modf_layout d with
    | Some es => Some {| r_mver := r_mver s; r_mphd := r_mphd s; r_main := r_main s; r_maid := r_maid s; r_mwmo := r_mwmo s; r_modf := Some es |}
    | None => None
    end
  | KOther => Some s   (* unknown chunk: skipped *)
  end.

Fixpoint read_loop (cs : list (N * N * list N)) (s : rstate) : option rstate :=
  match cs with
  | [] => Some s
  | c :: r => match read_step s c with Some s' => read_loop r s' | None => None end
  end.

Definition wdt_read (bs : list N) : result wdt :=
  match read_loop (walk_all bs) rstate0 with
  | Some s =>
    match r_mver s, r_mphd s, r_main s with
    | Some v, Some p, Some m =>
      Ok {| mver := v; mphd := p; main := m; maid := r_maid s; mwmo := r_mwmo s; modf := r_modf s |}
    | _, _, _ => Err
    end
  | None => Err
  end.

(* well-formed content: what the writer accepts and the reader will give back *)
Definition nonempty (s : list N) : bool := match s with [] => false | _ => true end.
Definition name_ok (s : list N) : bool := cstr_ok s && nonempty s.

Definition opt_all {A} (o : option A) (p : A -> bool) : bool :=
  match o with Some a => p a | None => true end.

Definition wdt_wf (version : N) (w : wdt) : bool :=
  (mver w =? WDT_VERSION)
  && wt (words 8) (mphd w) && (hd 0 (mphd w) <? 65536)
  && wt (words (2 * TILES)) (main w)
  && opt_all (maid w) (fun m => wt (words (length m)) m && (N.of_nat (length m) mod 4096 =? 0)
                                && (N.of_nat (length m) <? 1073741824))
  && opt_all (mwmo w) (fun ns => forallb name_ok ns && should_write_mwmo version w
                                 && (lenN (cstrs_enc ns) <? 4294967296))
  && opt_all (modf w) (fun es => forallb (wt modf_layout) es && (N.of_nat (length es) <? 67108864)).
