(* M2 files (file-formats/graphics/wow-m2): a header of (count, offset) array references
   followed by the array data; writing lays the arrays out one after the other
   (model.rs: write), version conversion and re-writing move them (relocate_* helpers). *)
From Coq Require Import List NArith Bool Arith.
From WR Require Import Lib.Bits Fmt.Blp.
Import ListNotations.
Open Scope N_scope.

(* an array reference: element count, byte offset, element size *)
Record aref := { a_count : N; a_off : N; a_esize : N }.

Definition slice (bs : list N) (off len : N) : list N := firstn (N.to_nat len) (skipn (N.to_nat off) bs).

(* bytes a reference designates *)
Definition deref (file : list N) (a : aref) : list N := slice file (a_off a) (a_count a * a_esize a).

(* every reference lies inside the file *)
Definition refs_ok (len : N) (rs : list aref) : bool :=
  forallb (fun a => a_off a + a_count a * a_esize a <=? len) rs.

(* lay the array bodies out behind a header of [hsize] bytes, in order *)
Definition place (hsize : N) (bodies : list (N * N * list N)) : list aref :=     (* (count, esize, bytes) *)
  map (fun '(c, e, _, (o, _)) => {| a_count := c; a_off := o; a_esize := e |})
      (combine bodies (layout_offsets hsize (map (fun '(_, _, b) => lenN b) bodies))).

Definition write_bodies (bodies : list (N * N * list N)) : list N := concat (map (fun '(_, _, b) => b) bodies).

(* move a reference when the data in front of it grows or shrinks from [old_pre] to [new_pre] bytes *)
Definition relocate (old_pre new_pre : N) (a : aref) : aref :=
  {| a_count := a_count a; a_off := a_off a - old_pre + new_pre; a_esize := a_esize a |}.
