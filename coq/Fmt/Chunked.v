(* Offset tables over chunked files (ADT: MHDR and MCIN; WMO string tables):
   where each chunk of a chunk list starts, and a check that an offset names a chunk
   of the expected type. *)
From Coq Require Import List NArith Bool Arith.
From WR Require Import Lib.Bits Lib.Codec.
Import ListNotations.
Open Scope N_scope.

(* file offset of the header of every chunk when the list is written at [base] *)
Fixpoint chunk_offsets (base : N) (cs : list chunk) : list (N * N) :=
  match cs with
  | [] => []
  | c :: r => (c_magic c, base) :: chunk_offsets (base + 8 + lenN (c_data c)) r
  end.

(* offset of the first chunk with the given magic *)
Fixpoint offset_of_magic (m : N) (offs : list (N * N)) : option N :=
  match offs with [] => None | (k, o) :: r => if k =? m then Some o else offset_of_magic m r end.

(* does a chunk header with magic [m] start at file offset [off]? *)
Definition chunk_at (bs : list N) (off m : N) : bool :=
  match read_header (skipn (N.to_nat off) bs) with
  | Some (k, _, _) => k =? m
  | None => false
  end.

(* an offset table: (expected magic, offset relative to [origin]); zero entries are unused *)
Definition table_ok (bs : list N) (origin : N) (tab : list (N * N)) : bool :=
  forallb (fun e => (snd e =? 0) || chunk_at bs (origin + snd e) (fst e)) tab.

(* NUL-terminated name table: offset of every name, the first at 0 *)
Fixpoint name_offsets (base : N) (names : list (list N)) : list N :=
  match names with [] => [] | s :: r => base :: name_offsets (base + lenN s + 1) r end.

Fixpoint cstr_from (bs : list N) : list N :=
  match bs with [] => [] | c :: r => if c =? 0 then [] else c :: cstr_from r end.
Definition name_at (block : list N) (off : N) : list N := cstr_from (skipn (N.to_nat off) block).
