(* Extraction of the executable models.  ExtrOcamlBasic only: N/positive/nat stay
   Coq datatypes; no Extract Constant, no integer extraction modules.
   Compiled by setup.sh / the check driver from directory ocaml/gen. *)
Require Extraction.
Require ExtrOcamlBasic.
From WR Require Import Lib.Bits Lib.Codec Mpq.Crypt Mpq.Jenkins Mpq.Sparse Mpq.CompressWrap Mpq.Path Mpq.Chain Mpq.Patch Mpq.Parallel Mpq.Archive Mpq.Rebuild Mpq.MpqRef Mpq.Modify Mpq.Integrity Mpq.Security Lib.Md5 Lib.Fs Ffi.Handles Cli.Outcome Fmt.Dbc Fmt.Blp Fmt.Chunked Fmt.M2 Fmt.Wdt Fmt.Wdl.
Extraction Language OCaml.
Extraction "model.ml"
  Crypt.crypt_table Crypt.hash_string Crypt.ref_hash Crypt.encrypt_block Crypt.decrypt_block
  Crypt.decrypt_dword Crypt.encrypt_data Crypt.decrypt_file_data Crypt.ref_table
  Crypt.ref_enc Crypt.ref_dec
  Jenkins.jenkins_one_at_a_time Jenkins.hashlittle2 Jenkins.het_hash Jenkins.ref_hashlittle2 Jenkins.het_hash_ref Jenkins.ref_oaat
  Codec.walk_all Codec.write_chunks Codec.enc Codec.dec Codec.cstrs_enc Codec.cstrs_split
  Wdt.wdt_write Wdt.wdt_read Wdt.wdt_wf Wdl.maof_check
  Sparse.sparse_compress Sparse.sparse_decompress CompressWrap.compress CompressWrap.decompress
  CompressWrap.validate_op CompressWrap.adaptive_limit CompressWrap.result_size_ok
  Path.extraction_target Path.old_target_location Path.components
  Chain.run Chain.from_parallel Chain.lookup Chain.srun Md5.md5 Patch.parse_patch Patch.apply_patch Patch.make_copy_patch Patch.rle_decompress
  Parallel.extract Parallel.spec Parallel.chunks
  Archive.build Archive.open Archive.read_file Archive.list_files Archive.pending Archive.sectors Archive.sector_size
  Archive.adler32 Archive.crc32 Archive.parse_listfile Archive.ht_find Archive.ht_insert
  Rebuild.rebuild_specs Rebuild.rebuild_cfg
  MpqRef.ref_open MpqRef.ref_read MpqRef.ref_write MpqRef.ref_find MpqRef.ref_table_sane
  Modify.spec_run Modify.sget Modify.fold_name Modify.mt_add Modify.mt_find Modify.mt_remove
  M2.refs_ok M2.deref M2.relocate
  Chunked.table_ok Chunked.chunk_at Chunked.chunk_offsets Chunked.name_offsets Chunked.name_at
  Security.validate_header Security.array_ok
  Blp.mip_count Blp.mip_size Blp.quant Blp.expand Blp.alpha_plane Blp.layout_offsets
  Dbc.dbc_write Dbc.dbc_read Dbc.sort_keys Dbc.lookup_sorted
  Outcome.extract_loop Outcome.blp_validate_ok Outcome.extract_cmd Outcome.extract_exit_ok Outcome.validate_exit_ok
  Handles.hrun Handles.hstep Handles.hinit Handles.first_match Handles.first_name
  Fs.fs_run Fs.fs_step Fs.content Fs.discipline Fs.fresh
  Integrity.mpq_hash_md5 Integrity.hashed_stream Integrity.signed_view Integrity.new_weak Integrity.pkcs1_pad Integrity.alter.
