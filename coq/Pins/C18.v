From Coq Require Import ZArith List.
From WR Require Import Lib.Bits Lib.Codec Fmt.Wdt Fmt.Coords Proofs.Codec_proofs Proofs.Wdt_proofs Props.C18.
Definition pin_1 : forall x y : Z, (0 <= x < 64)%Z -> (0 <= y < 64)%Z ->
  let '(wx, wy) := tile_to_world x y in world_to_tile wx wy = (x, y) := C18_tile_world_roundtrip.
Definition pin_2 : forall version w, wdt_wf version w = true -> wdt_read (wdt_write version w) = Ok w := C18_wdt_roundtrip.
Definition pin_3 : forall cs, Forall chunk_ok cs -> walk_all (write_chunks cs) = map chunk_view cs := C18_chunk_framing_tiles.
Definition pin_4 : forall l vs r, wt l vs = true -> dec l (enc l vs ++ r) = Some (vs, r) := C18_record_codec_roundtrip.
