From Coq Require Import NArith List Bool Arith.
Import ListNotations.
From WR Require Import Cli.Outcome Proofs.Outcome_proofs Props.C20.
Open Scope N_scope.


Definition pin_1 : forall (name path : Type) (target : name -> option path) results p d,
    In (p, d) (written path (extract_loop name path target results)) -> exists n, In (n, RData d) results /\ target n = Some p := C20_written_sound.
Definition pin_2 : forall (name path : Type) (target : name -> option path) results,
    extract_exit_ok path false (extract_loop name path target results) = true <->
    (forall n r, In (n, r) results -> exists d p, r = RData d /\ target n = Some p) := C20_exit_ok_iff_complete.
Definition pin_3 : forall (name path : Type) (target : name -> option path) results,
    errors path (extract_loop name path target results) = 0 ->
    forall n r, In (n, r) results -> exists d p, r = RData d /\ target n = Some p /\ In (p, d) (written path (extract_loop name path target results)) := C20_no_errors_complete.
Definition pin_4 : forall (name path : Type) (target : name -> option path) results,
    errors path (extract_loop name path target results) + N.of_nat (length (written path (extract_loop name path target results))) = N.of_nat (length results) := C20_errors_count.
Definition pin_5 : forall (name path : Type) (target : name -> option path) (inputs : list (name * list N)),
    (forall n c, In (n, c) inputs -> exists p, target n = Some p) ->
    let o := extract_loop name path target (map (fun e => (fst e, RData (snd e))) inputs) in
    errors path o = 0 /\ length (written path o) = length inputs /\
    (forall n c, In (n, c) inputs -> exists p, target n = Some p /\ In (p, c) (written path o)) := C20_roundtrip_files.
Definition pin_6 : forall (name path : Type) (target : name -> option path) skip results,
    (forall p d, In (p, d) (snd (extract_cmd name path target skip results)) -> exists n, In (n, RData d) results /\ target n = Some p) /\
    (skip = false -> fst (extract_cmd name path target skip results) = true ->
       forall n r, In (n, r) results -> exists d p, r = RData d /\ target n = Some p /\ In (p, d) (snd (extract_cmd name path target skip results))) /\
    (skip = false -> fst (extract_cmd name path target skip results) = false ->
       exists n r, In (n, r) results /\ (r = RFail \/ target n = None)) := C20_extract_cmd_truth.
Definition pin_7 : forall (name : Type) (results : list (name * rd)),
    validate_exit_ok name results = true <-> (forall n r, In (n, r) results -> exists d, r = RData d) := C20_validate_exit_truth.
Definition pin_8 : forall strict jpeg w h,
    blp_validate_ok strict true jpeg w h = true -> w mod 4 = 0 /\ h mod 4 = 0 /\ w <> 0 /\ h <> 0 := C20_blp_validate_dxt.
