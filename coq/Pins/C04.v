From Coq Require Import NArith List Bool Arith.
Import ListNotations.
From WR Require Import Lib.Bits Mpq.Crypt Proofs.Crypt_proofs Mpq.Jenkins Proofs.Jenkins_proofs Props.C04.
Open Scope N_scope.


Definition pin_1 : forall key ws, decrypt_block (encrypt_block ws key) key = ws := C04_decrypt_encrypt_block.
Definition pin_2 : forall key ws, encrypt_block (decrypt_block ws key) key = ws := C04_encrypt_decrypt_block.
Definition pin_3 : forall key bs, wf_bytes bs -> decrypt_file_data (encrypt_data bs key) key = bs := C04_bytes_decrypt_encrypt.
Definition pin_4 : forall ht s, wf_bytes s ->
    hash_string (map swap_case s) ht = hash_string s ht /\
    hash_string (map swap_slash s) ht = hash_string s ht := C04_hash_case_slash_invariant.
Definition pin_5 : forall ht s1 s2, map norm s1 = map norm s2 -> hash_string s1 ht = hash_string s2 ht := C04_hash_fold_invariant.
Definition pin_6 : crypt_table = ref_table := C04_crypt_table_reference.
Definition pin_7 : forall name ht, ht <= 1024 -> wf_bytes name -> hash_string name ht = ref_hash name ht := C04_hash_string_eq_ref.
Definition pin_8 : forall ht c, ht <= 1024 -> c < 256 -> w32 (ht + norm c) < ct_len := C04_hash_index_in_range.
Definition pin_9 : hash_string str_listfile 0 = 0x5F3DE859 /\
  hash_string str_hash_table 768 = 0xC3AF3770 /\
  hash_string str_block_table 768 = 0xEC83B3A3 /\
  nth_N crypt_table 0 0 = 0x55C636E2 /\ nth_N crypt_table 1 0 = 0x02BE0170 := C04_published_vectors.
Definition pin_10 : forall ws key, key <> 0 -> key < M32 -> encrypt_block ws key = ref_enc ws key 4008636142 := C04_encrypt_block_eq_ref.
Definition pin_11 : forall ws key, key <> 0 -> key < M32 -> decrypt_block ws key = ref_dec ws key 4008636142 := C04_decrypt_block_eq_ref.
Definition pin_12 : forall key pc pb, hashlittle2 key pc pb = ref_hashlittle2 key pc pb := C04_hashlittle2_eq_ref.
Definition pin_13 : forall name hash_bits, wf_bytes name -> het_hash name hash_bits = het_hash_ref name hash_bits := C04_het_hash_eq_ref.
Definition pin_14 : forall name, wf_bytes name -> jenkins_one_at_a_time name = ref_oaat name := C04_oaat_eq_ref.
