From Coq Require Import NArith List Bool Arith.
Import ListNotations.
From WR Require Import Lib.Bits Lib.Codec Fmt.Dbc Proofs.Dbc_proofs Props.C17.
Open Scope N_scope.


Definition pin_1 : forall recs,
    Forall nul_free (strings_of recs) ->
    let st := build_block recs in
    NoDup (map fst (snd st)) /\
    forall s, In s (strings_of recs) -> get_string (fst st) (offset_of (snd st) s) = s := C17_string_block_correct.
Definition pin_2 : forall sch block a r rest,
    fits (flat sch) r = true ->
    (forall s, In s (strings_of_record r) -> get_string block (offset_of a s) = s /\ offset_of a s < pow256 4) ->
    read_record sch block (write_record (lay sch) a r ++ rest) = Some (r, rest) := C17_record_roundtrip.
Definition pin_3 : forall sch block a recs rest,
    Forall (fun r => fits (flat sch) r = true) recs ->
    (forall s, In s (strings_of recs) -> get_string block (offset_of a s) = s /\ offset_of a s < pow256 4) ->
    read_records (length recs) sch block (concat (map (write_record (lay sch) a) recs) ++ rest) = Some recs := C17_records_roundtrip.
Definition pin_4 : forall t key i, lookup_sorted t key = Some i -> In (key, i) t := C17_lookup_sorted_sound.
Definition pin_5 : forall t key i,
    sorted_keys t -> In (key, i) t -> exists j, lookup_sorted t key = Some j /\ In (key, j) t := C17_lookup_sorted_complete.
Definition pin_6 : forall sch arrays recs,
    Forall (fun r => fits (flat sch) r = true) recs ->
    Forall nul_free (strings_of recs) ->
    lenN recs < pow256 4 -> field_count sch arrays < pow256 4 -> N.of_nat (lay_size (lay sch)) < pow256 4 ->
    lenN (fst (build_block recs)) < pow256 4 ->
    dbc_read sch (dbc_write sch arrays recs) = Some recs := C17_dbc_roundtrip.
Definition pin_7 : forall t key,
    (forall i, In (key, i) t -> exists j, lookup_sorted (sort_keys t) key = Some j /\ In (key, j) t) /\
    (forall j, lookup_sorted (sort_keys t) key = Some j -> In (key, j) t) := C17_built_table_lookup.
