From Coq Require Import NArith List Bool Arith.
Import ListNotations.
From WR Require Import Lib.Fs Proofs.Fs_proofs Props.C12.
Open Scope N_scope.


Definition pin_1 : forall dst old ob s0 ops k,
    Inv dst old ob s0 -> quiet_all dst s0 ops = true ->
    content (fs_run s0 (firstn k ops)) dst = content s0 dst := C12_untouched_at_every_prefix.
Definition pin_2 : forall dst old ob s0 pre t post k,
    Inv dst old ob s0 ->
    quiet_all dst s0 pre = true -> forallb (settled dst) post = true -> t <> dst ->
    let s := fs_run s0 (firstn k (pre ++ ORename t dst :: post)) in
    content s dst = content s0 dst \/ content s dst = content (fs_run s0 pre) t := C12_atomic_replacement.
Definition pin_3 : forall dst old ob s0 ops k,
    Inv dst old ob s0 ->
    (discipline dst s0 ops = 0 -> content (fs_run s0 (firstn k ops)) dst = content s0 dst) /\
    (discipline dst s0 ops = 1 -> exists pre t post, ops = pre ++ ORename t dst :: post /\
        (content (fs_run s0 (firstn k ops)) dst = content s0 dst \/ content (fs_run s0 (firstn k ops)) dst = content (fs_run s0 pre) t)) := C12_discipline_sound.
Definition pin_4 : forall dst names0 inodes0 next old,
    names0 dst = old ->
    (forall i p, old = Some i -> p <> dst -> names0 p <> Some i) ->
    (forall p j, names0 p = Some j -> j < next) ->
    Inv dst old (match old with Some i => inodes0 i | None => [] end) (fresh names0 inodes0 next) := C12_fresh_inv.
