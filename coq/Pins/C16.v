From Coq Require Import NArith List Bool Arith.
Import ListNotations.
From WR Require Import Fmt.Blp Proofs.Blp_proofs Props.C16.
Open Scope N_scope.


Definition pin_1 : forall w h, 0 < w -> 0 < h -> mip_size w h (mip_count w h) = (if mip_count w h =? 0 then (w, h) else (1, 1)) := C16_mip_chain_ends.
Definition pin_2 : forall w h i, 0 < w -> 0 < h ->
    mip_size w h (i + 1) = (N.max (fst (mip_size w h i) / 2) 1, N.max (snd (mip_size w h i) / 2) 1) := C16_mip_halves.
Definition pin_3 : forall a, a < 256 -> alpha_facts a = true := C16_alpha_quantisation.
Definition pin_4 : forall bits per, 0 < bits -> (0 < per)%nat -> forall fuel l,
    (length l <= fuel)%nat -> Forall (fun v => v < 2 ^ bits) l ->
    unpack bits per (length l) (pack fuel bits per l) = l := C16_unpack_pack.
Definition pin_5 : forall bits per, (0 < per)%nat -> forall fuel l, (length l <= fuel)%nat ->
    length (pack fuel bits per l) = ((length l + per - 1) / per)%nat := C16_pack_length.
Definition pin_6 : forall sizes base i j oi si oj sj,
    (i < j)%nat -> nth_error (layout_offsets base sizes) i = Some (oi, si) -> nth_error (layout_offsets base sizes) j = Some (oj, sj) ->
    base <= oi /\ oi + si <= oj /\ oj + sj <= base + fold_right N.add 0 sizes := C16_layout_disjoint.
