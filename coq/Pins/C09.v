From Coq Require Import NArith List Bool Arith.
Import ListNotations.
From WR Require Import Mpq.Parallel Props.C09.
Definition pin_1 : forall (name data : Type) (read : name -> option data) skip threads batch_size names,
    (1 <= batch_size)%nat ->
    extract name data read skip threads batch_size names = spec name data read skip names := C09_extract_eq_spec.
Definition pin_2 : forall (R : Type) (task : nat -> R) sched k,
    (forall i, (i < k)%nat -> In i sched) ->
    run_schedule R task sched k = map (fun i => Some (task i)) (seq 0 k) := C09_schedule_independent.
