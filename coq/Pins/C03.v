From WR Require Import Lib.Bits Mpq.Sparse Mpq.CompressWrap Props.C03.
Open Scope N_scope.
Definition pin_1 : forall (ic : N -> list N -> option (list N)) data m r,
    compress ic data m = Some r -> lenN r <= lenN data := C03_store_raw_never_expands.
Definition pin_2 : forall c n m, 0 < c -> n <= 2097152 -> n / c <= adaptive_limit c m ->
    (128 < m -> n / c <= adaptive_limit c m / 2) -> validate_op c n m = true := C03_limits_accept_own_output.
Definition pin_3 : forall ts, Forall (fun t => token_ok t = true) ts ->
    lenN (tokens_data ts) < 4294967296 -> (1 <= length (tokens_bytes ts))%nat ->
    sparse_decompress (be32_bytes (lenN (tokens_data ts)) ++ tokens_bytes ts) (lenN (tokens_data ts))
    = SOk (tokens_data ts) := C03_sparse_roundtrip_partial.
