From Coq Require Import NArith List Bool Arith.
Import ListNotations.
From WR Require Import Lib.Bits Mpq.Sparse Mpq.CompressWrap Proofs.Compress_proofs Proofs.Sparse_proofs Props.C03.
Open Scope N_scope.


Definition pin_1 : forall (ic : N -> list N -> option (list N)) data m r,
    compress ic data m = Some r -> lenN r <= lenN data := C03_store_raw_never_expands.
Definition pin_2 : forall (ic : N -> list N -> option (list N)) data m r,
    compress ic data m = Some r ->
    r = data \/ exists c, ic m data = Some c /\ r = m :: c /\ lenN r < lenN data := C03_compress_tagged.
Definition pin_3 : forall (ic : N -> list N -> option (list N)) data m r,
    compress ic data m = Some r -> lenN r = lenN data -> r = data := C03_reader_decision_sound.
Definition pin_4 : forall (ic : N -> list N -> option (list N)) (id : N -> list N -> N -> option (list N)) data m r,
    (forall c, ic m data = Some c -> id m c (lenN data) = Some data) ->
    compress ic data m = Some r -> r <> data -> m <> 0 ->
    lenN data <= max_decompressed ->
    validate_op (lenN (tl r)) (lenN data) m = true ->
    decompress id (tl r) (hd 0 r) (lenN data) = Some data := C03_wrapper_roundtrip.
Definition pin_5 : forall c n m, 0 < c -> n <= 2097152 ->
    n / c <= adaptive_limit c m ->
    (128 < m -> n / c <= adaptive_limit c m / 2) ->
    validate_op c n m = true := C03_limits_accept_own_output.
Definition pin_6 : validate_op_old 43 65536 16 = false /\ validate_op 43 65536 16 = true := C03_old_limits_refuted.
Definition pin_7 : validate_op 48 2097152 16 = false /\ adaptive_limit 48 16 = 30000 /\ 2097152 / 48 = 43690 := C03_limits_refuted_bzip2_2MiB.
Definition pin_8 : forall ts, Forall (fun t => token_ok t = true) ts ->
    lenN (tokens_data ts) < 4294967296 ->
    (1 <= length (tokens_bytes ts))%nat ->
    sparse_decompress (be32_bytes (lenN (tokens_data ts)) ++ tokens_bytes ts) (lenN (tokens_data ts))
    = SOk (tokens_data ts) := C03_sparse_roundtrip_partial.
Definition pin_9 : forall data, data <> [] -> lenN data < 4294967296 ->
    exists c, sparse_compress data = Some c /\ sparse_decompress c (lenN data) = SOk data := C03_sparse_roundtrip.
