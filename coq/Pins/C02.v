From WR Require Import Lib.Bits Mpq.Crypt Mpq.MpqRef Props.C02.
Open Scope N_scope.
Definition pin_1 : forall ws key, key <> 0 -> key < M32 -> encrypt_block ws key = ref_enc ws key 4008636142 := C02_cipher_agrees_on_dwords.
