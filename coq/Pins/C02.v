From Coq Require Import NArith List Bool Arith.
Import ListNotations.
From WR Require Import Lib.Bits Mpq.Crypt Mpq.MpqRef Proofs.Crypt_proofs Mpq.Archive Mpq.MpqRef Proofs.HashTable_proofs Proofs.Build_proofs Proofs.Interop_proofs Proofs.Interop_example Props.C02.
Open Scope N_scope.


Definition pin_1 : forall ws key, key <> 0 -> key < M32 -> encrypt_block ws key = ref_enc ws key 4008636142 := C02_cipher_agrees_on_dwords.
Definition pin_2 : forall name ht, ht <= 1024 -> wf_bytes name -> hash_string name ht = ref_hash name ht := C02_hash_agrees.
Definition pin_3 : forall bs key n, length bs = (4 * n)%nat -> (0 < n)%nat -> key <> 0 -> key < M32 ->
    encrypt_data bs key = r_crypt true bs key := C02_byte_cipher_agrees_on_whole_dwords.
Definition pin_4 : encrypt_data [1; 2; 3; 4; 5] 4660 <> r_crypt true [1; 2; 3; 4; 5] 4660 := C02_tail_bytes_differ_refuted.
Definition pin_5 : forall bs a, open bs = Some a -> ref_open bs = Some (as_ref a) := C02_ref_open_of_open.
Definition pin_6 : forall (a : archive) (k : N) (name : list N),
    Forall hplain (a_hash a) -> lenN (a_hash a) = 2 ^ k -> wf_bytes name ->
    ref_find (as_ref a) name = option_map bentry_words (find_block a name) := C02_ref_find_equiv.
Definition pin_7 : forall (compress : N -> list N -> option (list N)) (decompress : N -> list N -> N -> option (list N))
         (c : cfg) (files : list file_spec) (bytes : list N),
    (c_version c = 1 \/ c_version c = 2) -> c_shift c < 65536 ->
    build compress c files = BOk bytes -> lenN bytes < M32 ->
    Forall (file_ok compress decompress (sector_size (c_shift c))) (pending c files) ->
    NoDup (map hkey (pending c files)) ->
    (c_attrs c = 1 -> ~ In (hash_string s_attributes ht_name_a, hash_string s_attributes ht_name_b) (map hkey (pending c files))) ->
    exists ra, ref_open bytes = Some ra /\
               forall f, In f (pending c files) -> f_enc f = 0 -> wf_bytes (f_name f) ->
                         ref_read decompress ra (f_name f) = Some (f_data f) := C02_library_archive_read_by_reference.
