From WR Require Import Lib.Bits Mpq.Archive Mpq.Rebuild Props.C07.
Open Scope N_scope.
Definition pin_1 : forall (decompress : N -> list N -> N -> option (list N)) a o n d,
    In n (listed decompress a) -> excluded a o n = false -> read_file decompress a n = ROk d ->
    exists f, In f (rebuild_specs decompress a o) /\ f_name f = n /\ f_data f = d := C07_rebuild_specs_complete.
