From Coq Require Import NArith List Bool Arith.
Import ListNotations.
From WR Require Import Lib.Bits Mpq.Crypt Mpq.Archive Mpq.Rebuild Proofs.Rebuild_proofs Proofs.HashTable_proofs Proofs.Build_proofs Proofs.RebuildWhole_proofs Props.C07.
Open Scope N_scope.


Definition pin_1 : forall (decompress : N -> list N -> N -> option (list N)) a o f,
    In f (rebuild_specs decompress a o) ->
    In (f_name f) (listed decompress a) /\ excluded a o (f_name f) = false /\
    read_file decompress a (f_name f) = ROk (f_data f) := C07_rebuild_specs_sound.
Definition pin_2 : forall (decompress : N -> list N -> N -> option (list N)) a o n d,
    In n (listed decompress a) -> excluded a o n = false -> read_file decompress a n = ROk d ->
    exists f, In f (rebuild_specs decompress a o) /\ f_name f = n /\ f_data f = d := C07_rebuild_specs_complete.
Definition pin_3 : forall (decompress : N -> list N -> N -> option (list N)) a o n,
    read_file decompress a n = RErr -> ~ exists f, In f (rebuild_specs decompress a o) /\ f_name f = n := C07_rebuild_unreadable_dropped.
Definition pin_4 : forall (compress : N -> list N -> option (list N)) (decompress : N -> list N -> N -> option (list N))
         (a : archive) (o : ropts) (bytes : list N),
    let specs := rebuild_specs decompress a o in
    let c := rebuild_cfg a o specs in
    (c_version c = 1 \/ c_version c = 2) -> c_shift c < 65536 ->
    build compress c specs = BOk bytes -> lenN bytes < M32 ->
    Forall (file_ok compress decompress (sector_size (c_shift c))) (pending c specs) ->
    NoDup (map hkey (pending c specs)) ->
    exists a', open bytes = Some a' /\
               forall n d, In n (listed decompress a) -> excluded a o n = false ->
                           read_file decompress a n = ROk d -> read_file decompress a' n = ROk d := C07_rebuild_roundtrip.
Definition pin_5 : forall (decompress : N -> list N -> N -> option (list N)) a n1 n2,
    map norm n1 = map norm n2 -> read_file decompress a n1 = read_file decompress a n2 := C07_read_file_spelling.
