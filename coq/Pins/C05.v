From Coq Require Import NArith List Bool Arith.
Import ListNotations.
From WR Require Import Lib.Bits Lib.Codec Gen.Consts Mpq.Security Proofs.Security_proofs Proofs.Codec_proofs Props.C05.
Open Scope N_scope.


Definition pin_1 : forall h,
    validate_header h = 0 ->
    h_hsize h <= sec_max_hash_entries /\ h_bsize h <= sec_max_block_entries /\
    h_hsize h * 16 <= sec_max_hash_entries * 16 /\ h_bsize h * 16 <= sec_max_block_entries * 16 /\
    h_hpos h + h_hsize h * 16 <= h_asize h + sec_table_tolerance /\
    h_bpos h + h_bsize h * 16 <= h_asize h + sec_table_tolerance /\
    h_shift h <= sec_max_sector_shift /\ 0 < h_hsize h /\ h_asize h <= sec_max_archive_gib * 1073741824 := C05_admitted_header_bounded.
Definition pin_2 : forall len off count esize, array_ok len off count esize = true -> count * esize <= len /\ off <= len := C05_array_ok_bounded.
Definition pin_3 : forall fuel bs, Forall (fun '(_, sz, d) => lenN d <= sz /\ (length d <= length bs)%nat) (walk fuel bs) := C05_walk_payload_bound.
