From WR Require Import Lib.Bits Mpq.Path Props.C11.
Definition pin_1 : forall out preserve name loc,
    target_location out preserve name = Some loc ->
    within out loc = true /\
    exists rel, loc = out ++ rel /\ rel <> [] /\ Forall (fun n => plain_name n = true) rel := C11_extraction_contained.
