From WR Require Import Lib.Bits Mpq.Crypt Mpq.Archive Mpq.Modify Proofs.HashTable_proofs Proofs.Modify_proofs Props.C06.
Open Scope N_scope.
Definition pin_1 : forall m o m', spec_step m o = (m', false) -> m' = m := C06_spec_fail_unchanged.
Definition pin_2 : forall t k L name t', InvD t k L -> mt_remove t name = Some t' -> mt_find t' name = None := C06_mt_remove_then_absent.
Definition pin_3 : forall t k L name blk, InvD t k L -> In (item_of name blk) L -> exists idx, mt_find t name = Some (idx, blk) := C06_mt_find_inserted.
