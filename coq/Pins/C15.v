From Coq Require Import NArith List Bool Arith.
Import ListNotations.
From WR Require Import Lib.Bits Lib.Codec Fmt.Chunked Proofs.Codec_proofs Proofs.Chunked_proofs Props.C15.
Open Scope N_scope.


Definition pin_1 : forall cs, Forall chunk_ok cs -> walk_all (write_chunks cs) = map chunk_view cs := C15_walk_all_write.
Definition pin_2 : forall cs pre m o,
    Forall chunk_ok cs -> In (m, o) (chunk_offsets (lenN pre) cs) ->
    chunk_at (pre ++ write_chunks cs) o m = true := C15_offsets_point_at_chunks.
Definition pin_3 : forall cs pre origin tab,
    Forall chunk_ok cs ->
    (forall m rel, In (m, rel) tab -> rel = 0 \/ In (m, origin + rel) (chunk_offsets (lenN pre) cs)) ->
    table_ok (pre ++ write_chunks cs) origin tab = true := C15_table_from_offsets_ok.
Definition pin_4 : forall names pre i s o,
    Forall (Forall (fun c => c <> 0)) names ->
    nth_error names i = Some s -> nth_error (name_offsets (lenN pre) names) i = Some o ->
    name_at (pre ++ concat (map (fun n => n ++ [0]) names)) o = s := C15_names_at_offsets.
