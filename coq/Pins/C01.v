From WR Require Import Lib.Bits Mpq.Archive Props.C01.
