From Coq Require Import NArith List Bool Arith.
Import ListNotations.
From WR Require Import Lib.Bits Mpq.Crypt Mpq.Archive Proofs.HashTable_proofs Proofs.FileLayout_proofs Proofs.Sectors_proofs Proofs.Sectors_example Proofs.Build_proofs Proofs.Build_example Props.C01.
Open Scope N_scope.


Definition pin_1 : forall k, Inv (repeat hempty (N.to_nat (2 ^ k))) k [] := C01_ht_empty_inv.
Definition pin_2 : forall t k L name blk t',
    Inv t k L -> ~ key_in L (hash_string name ht_name_a) (hash_string name ht_name_b) -> blk < he_deleted ->
    ht_insert t name blk = InsOk t' -> Inv t' k (item_of name blk :: L) := C01_ht_insert_inv.
Definition pin_3 : forall t k L name blk, Inv t k L -> In (item_of name blk) L -> exists idx, ht_find t name = Some (idx, blk) := C01_ht_find_inserted.
Definition pin_4 : forall t k L name,
    Inv t k L -> ~ key_in L (hash_string name ht_name_a) (hash_string name ht_name_b) -> ht_find t name = None := C01_ht_find_absent.
Definition pin_5 : forall t n1 n2, map norm n1 = map norm n2 -> ht_find t n1 = ht_find t n2 := C01_ht_find_spelling.
Definition pin_6 : forall (compress : N -> list N -> option (list N)) (decompress : N -> list N -> N -> option (list N))
         (name : list N) (a : archive) (ssz : N) (crc : bool) (f : file_spec) (pos : N) (bytes : list N) (csize flags : N),
    f_name f = name -> f_enc f < 3 -> wf_bytes (f_data f) ->
    lenN (f_data f) <= ssz -> lenN (f_data f) < M32 ->
    unit_contract compress decompress (f_comp f) (f_data f) ->
    write_file compress ssz crc f pos = Some (bytes, csize, flags) ->
    carries name a pos bytes csize (lenN (f_data f)) flags ssz ->
    read_file decompress a name = ROk (f_data f) := C01_single_unit_roundtrip.
Definition pin_7 : forall (compress : N -> list N -> option (list N)) (decompress : N -> list N -> N -> option (list N))
         (name : list N) (a : archive) (ssz : N) (crc : bool) (f : file_spec) (pos : N) (bytes : list N) (csize flags : N),
    f_name f = name -> f_enc f < 3 -> wf_bytes (f_data f) ->
    0 < ssz -> ssz < lenN (f_data f) -> lenN (f_data f) < M32 ->
    write_file compress ssz crc f pos = Some (bytes, csize, flags) ->
    has_flag flags fl_compress = false ->
    carries name a pos bytes csize (lenN (f_data f)) flags ssz ->
    read_file decompress a name = ROk (f_data f) := C01_stored_sectors_roundtrip.
Definition pin_8 : forall (compress : N -> list N -> option (list N)) (decompress : N -> list N -> N -> option (list N))
         (name : list N) (a : archive) (ssz : N) (crc : bool) (f : file_spec) (pos : N) (bytes : list N) (csize flags : N),
    f_name f = name -> f_enc f < 3 -> wf_bytes (f_data f) ->
    0 < ssz -> ssz < lenN (f_data f) -> lenN (f_data f) < M32 ->
    Forall (unit_contract compress decompress (f_comp f)) (sectors ssz (f_data f)) ->
    write_file compress ssz crc f pos = Some (bytes, csize, flags) ->
    has_flag flags fl_compress = true ->
    lenN bytes < M32 ->
    carries name a pos bytes csize (lenN (f_data f)) flags ssz ->
    read_file decompress a name = ROk (f_data f) := C01_compressed_sectors_roundtrip.
Definition pin_9 : forall (compress : N -> list N -> option (list N)) (decompress : N -> list N -> N -> option (list N))
         (name : list N) (a : archive) (ssz : N) (crc : bool) (f : file_spec) (pos : N) (bytes : list N) (csize flags : N),
    f_name f = name -> f_enc f < 3 -> wf_bytes (f_data f) ->
    0 < ssz -> lenN (f_data f) < M32 -> lenN bytes < M32 ->
    (if lenN (f_data f) <=? ssz then unit_contract compress decompress (f_comp f) (f_data f)
     else Forall (unit_contract compress decompress (f_comp f)) (sectors ssz (f_data f))) ->
    write_file compress ssz crc f pos = Some (bytes, csize, flags) ->
    carries name a pos bytes csize (lenN (f_data f)) flags ssz ->
    read_file decompress a name = ROk (f_data f) := C01_file_roundtrip.
Definition pin_10 : forall (compress : N -> list N -> option (list N)) (decompress : N -> list N -> N -> option (list N))
         (c : cfg) (files : list file_spec) (bytes : list N),
    (c_version c = 1 \/ c_version c = 2) -> c_shift c < 65536 ->
    build compress c files = BOk bytes -> lenN bytes < M32 ->
    Forall (file_ok compress decompress (sector_size (c_shift c))) (pending c files) ->
    NoDup (map hkey (pending c files)) ->
    (c_attrs c = 1 -> ~ In (hash_string s_attributes ht_name_a, hash_string s_attributes ht_name_b) (map hkey (pending c files))) ->
    exists a, open bytes = Some a /\
              forall f, In f (pending c files) -> read_file decompress a (f_name f) = ROk (f_data f) := C01_build_roundtrip.
