From WR Require Import Lib.Bits Mpq.Crypt Mpq.Archive Proofs.HashTable_proofs Proofs.FileLayout_proofs Props.C01.
Open Scope N_scope.
Definition pin_1 : forall t k L name blk, Inv t k L -> In (item_of name blk) L -> exists idx, ht_find t name = Some (idx, blk) := C01_ht_find_inserted.
Definition pin_2 : forall t k L name,
    Inv t k L -> ~ key_in L (hash_string name ht_name_a) (hash_string name ht_name_b) -> ht_find t name = None := C01_ht_find_absent.
Definition pin_3 : forall (compress : N -> list N -> option (list N)) (decompress : N -> list N -> N -> option (list N))
         (name : list N) (a : archive) (ssz : N) (crc : bool) (f : file_spec) (pos : N) (bytes : list N) (csize flags : N),
    f_name f = name -> f_enc f < 3 -> wf_bytes (f_data f) ->
    lenN (f_data f) <= ssz -> lenN (f_data f) < M32 ->
    unit_contract compress decompress (f_comp f) (f_data f) ->
    write_file compress ssz crc f pos = Some (bytes, csize, flags) ->
    carries name a pos bytes csize (lenN (f_data f)) flags ssz ->
    read_file decompress a name = ROk (f_data f) := C01_single_unit_roundtrip.
