From Coq Require Import ZArith List.
Import ListNotations.
From WR Require Import Lib.Bits Mpq.Chain Mpq.Patch Props.C08.
Definition pin_1 : forall (holds : Z -> Z -> option Z) ops name i v,
    lookup holds (run ops) name = Some (i, v) ->
    exists w, In w (fst (srun ops)) /\ s_id w = i /\ holds i name = Some v /\
              forall s, In s (fst (srun ops)) -> holds (s_id s) name <> None -> s = w \/ better w s = true := C08_lookup_highest.
Definition pin_2 : forall (digest : list N -> list N) p base out,
    apply_patch_with digest p base = POk out ->
    digest base = p_md5_before p /\ digest out = p_md5_after p := C08_patch_result_verified.
Definition pin_3 : forall l, from_parallel l = run (map (fun '(id, p) => Chain.Add id p) l) := C08_parallel_eq_sequential.
