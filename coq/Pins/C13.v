From Coq Require Import NArith List Bool Arith.
Import ListNotations.
From WR Require Import Lib.Bits Fmt.Blp Fmt.M2 Proofs.M2_proofs Props.C13.
Open Scope N_scope.


Definition pin_1 : forall (pre pre' body post post' : list N) (a : aref),
    lenN pre <= a_off a -> a_off a + a_count a * a_esize a <= lenN pre + lenN body ->
    deref (pre' ++ body ++ post') (relocate (lenN pre) (lenN pre') a) = deref (pre ++ body ++ post) a := C13_relocation_preserves.
Definition pin_2 : forall hsize bodies i j ai aj,
    (i < j)%nat -> nth_error (place hsize bodies) i = Some ai -> nth_error (place hsize bodies) j = Some aj ->
    Forall (fun '(c, e, b) => lenN b = c * e) bodies ->
    hsize <= a_off ai /\ a_off ai + a_count ai * a_esize ai <= a_off aj /\
    a_off aj + a_count aj * a_esize aj <= hsize + lenN (write_bodies bodies) := C13_placed_disjoint.
Definition pin_3 : forall (pre : list N) a, lenN pre <= a_off a -> relocate (lenN pre) (lenN pre) a = a := C13_relocate_same.
