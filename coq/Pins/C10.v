From Coq Require Import NArith List Bool Arith.
Import ListNotations.
From WR Require Import Lib.Bits Gen.Consts Mpq.Crypt Mpq.Archive Mpq.Integrity Proofs.Integrity_proofs Proofs.Crc_proofs Props.C10.
Open Scope N_scope.


Definition pin_1 : forall (l1 l2 : list N) (x y : N),
    x < 256 -> y < 256 -> x <> y -> adler32 (l1 ++ x :: l2) <> adler32 (l1 ++ y :: l2) := C10_adler32_single_byte.
Definition pin_2 : forall (bs : list N) (off : nat) (v : N),
    (off < length bs)%nat -> Forall (fun b => b < 256) bs -> v < 256 -> nth off bs 0 <> v ->
    adler32 (alter bs off v) <> adler32 bs := C10_adler32_detects_alteration.
Definition pin_3 : forall (decompress : N -> list N -> N -> option (list N)) (a : archive) (name : list N) (b : bentry) (c : list N),
    find_block a name = Some b ->
    has_flag (b_flags b) fl_sector_crc = true -> has_flag (b_flags b) fl_single_unit = true ->
    read_file decompress a name = ROk c ->
    adler32 c = le_value (slice (a_bytes a) (b_pos b + b_csize b) 4)
    \/ (has_flag (b_flags b) fl_compress = true /\ lenN c = b_fsize b)
    \/ (has_flag (b_flags b) fl_compress = false /\ has_flag (b_flags b) fl_encrypted = true /\ lenN c = b_fsize b) := C10_single_unit_read_checked.
Definition pin_4 : forall (decompress : N -> list N -> N -> option (list N)) (a : archive) (name : list N) (b : bentry) (c : list N),
    let ssz := sector_size (a_shift a) in
    let nsec := (b_fsize b + ssz - 1) / ssz in
    let enc := has_flag (b_flags b) fl_encrypted in
    let key := if enc then file_key name (b_pos b) (b_fsize b) (has_flag (b_flags b) fl_fix_key) else 0 in
    let tbl_raw := slice (a_bytes a) (b_pos b) ((nsec + 1) * 4) in
    let offs := words_of_bytes (N.to_nat (nsec + 1)) (if enc then decrypt_file_data tbl_raw (sub32 key 1) else tbl_raw) in
    find_block a name = Some b ->
    has_flag (b_flags b) fl_sector_crc = true -> has_flag (b_flags b) fl_single_unit = false ->
    has_flag (b_flags b) fl_compress = true ->
    nth (N.to_nat nsec) offs 0 = b_csize b + nsec * 4 ->
    read_file decompress a name = ROk c ->
    exists ss, c = concat ss /\ length ss = N.to_nat nsec /\
               map adler32 ss = firstn (N.to_nat nsec) (words_of_bytes (N.to_nat nsec) (slice (a_bytes a) (b_pos b + (nsec + 1) * 4) (nsec * 4))) := C10_multi_sector_read_checked.
Definition pin_5 : forall bs si, si_exb si <= si_exe si -> hashed_stream bs si = signed_view bs si := C10_hashed_stream_is_view.
Definition pin_6 : forall (bs bs' : list N) (si : siginfo) (p : nat),
    signed_view bs si = signed_view bs' si ->
    si_begin si <= N.of_nat p < si_end si -> (p < length bs)%nat -> (p < length bs')%nat ->
    ~ (si_exb si <= N.of_nat p < si_exe si) ->
    nth p bs 0 = nth p bs' 0 := C10_view_covers.
Definition pin_7 : forall (rsa_pub rsa_priv H : list N -> list N) bs si,
    rsa_pub (rsa_priv (pkcs1_pad (H (hashed_stream bs si)))) = pkcs1_pad (H (hashed_stream bs si)) ->
    weak_verify rsa_pub H bs (rev (rsa_priv (pkcs1_pad (H (hashed_stream bs si))))) si = true := C10_sign_then_verify.
Definition pin_8 : forall (rsa_pub H : list N -> list N), (forall x, length (H x) = 16%nat) ->
  forall bs bs' sig si p,
    si_exb si <= si_exe si ->
    weak_verify rsa_pub H bs sig si = true ->
    weak_verify rsa_pub H bs' sig si = true ->
    (H (signed_view bs si) = H (signed_view bs' si) -> signed_view bs si = signed_view bs' si) ->
    si_begin si <= N.of_nat p < si_end si -> (p < length bs)%nat -> (p < length bs')%nat ->
    ~ (si_exb si <= N.of_nat p < si_exe si) ->
    nth p bs 0 = nth p bs' 0 := C10_verified_bytes_are_signed.
Definition pin_9 : forall (rsa_pub H : list N -> list N) bs sig sig' si,
    weak_verify rsa_pub H bs sig si = true -> weak_verify rsa_pub H bs sig' si = true ->
    rsa_pub (rev sig) = rsa_pub (rev sig') := C10_verified_signatures_agree.
Definition pin_10 : forall (l1 l2 : list N) (x y : N),
    wf_bytes l1 -> wf_bytes l2 -> x < 256 -> y < 256 -> x <> y -> crc32 (l1 ++ x :: l2) <> crc32 (l1 ++ y :: l2) := C10_crc32_single_byte.
Definition pin_11 : forall (bs : list N) (off : nat) (v : N),
    (off < length bs)%nat -> wf_bytes bs -> v < 256 -> nth off bs 0 <> v -> crc32 (alter bs off v) <> crc32 bs := C10_crc32_detects_alteration.
