(* Fixed-width unsigned machine arithmetic over N with explicit wrap-around.
   Models Rust's u8/u16/u32/u64 `wrapping_*` operations, shifts and rotates.
   Definitions only (the models built on these must stay runnable even when a
   proof elsewhere breaks); lemmas live in Proofs/Bits_proofs.v. *)
From Coq Require Export NArith List Bool.
Export ListNotations.
Open Scope N_scope.

Definition M8  : N := 256.
Definition M16 : N := 65536.
Definition M32 : N := 4294967296.
Definition M64 : N := 18446744073709551616.

Definition w8  (x : N) : N := x mod M8.
Definition w16 (x : N) : N := x mod M16.
Definition w32 (x : N) : N := x mod M32.
Definition w64 (x : N) : N := x mod M64.

(* wrapping_add / wrapping_sub / wrapping_mul on u32 *)
Definition add32 (a b : N) : N := (a + b) mod M32.
Definition sub32 (a b : N) : N := (a + (M32 - b mod M32)) mod M32.
Definition mul32 (a b : N) : N := (a * b) mod M32.
Definition shl32 (a k : N) : N := (N.shiftl a k) mod M32.
Definition shr32 (a k : N) : N := N.shiftr a k.
Definition not32 (a : N) : N := N.lxor (a mod M32) (M32 - 1).
Definition rotl32 (a k : N) : N := N.lor (shl32 a k) (N.shiftr (a mod M32) (32 - k)).

Definition add64 (a b : N) : N := (a + b) mod M64.
Definition sub64 (a b : N) : N := (a + (M64 - b mod M64)) mod M64.
Definition shl64 (a k : N) : N := (N.shiftl a k) mod M64.
Definition shr64 (a k : N) : N := N.shiftr a k.

(* checked arithmetic: None = Rust debug-build overflow panic *)
Definition cadd (m a b : N) : option N := if a + b <? m then Some (a + b) else None.
Definition csub (a b : N) : option N := if b <=? a then Some (a - b) else None.
Definition cmul (m a b : N) : option N := if a * b <? m then Some (a * b) else None.

(* little-endian byte <-> word conversions; bytes are N < 256 *)
Definition byte_of (x i : N) : N := N.land (N.shiftr x (8 * i)) 255.
Definition bytes_of_u16 (x : N) : list N := [byte_of x 0; byte_of x 1].
Definition bytes_of_u32 (x : N) : list N := [byte_of x 0; byte_of x 1; byte_of x 2; byte_of x 3].
Definition bytes_of_u64 (x : N) : list N :=
  [byte_of x 0; byte_of x 1; byte_of x 2; byte_of x 3;
   byte_of x 4; byte_of x 5; byte_of x 6; byte_of x 7].

Fixpoint le_value (bs : list N) : N :=
  match bs with
  | [] => 0
  | b :: r => b + 256 * le_value r
  end.

Definition u32_of_bytes (bs : list N) : N := le_value (firstn 4 bs).
Definition u16_of_bytes (bs : list N) : N := le_value (firstn 2 bs).
Definition u64_of_bytes (bs : list N) : N := le_value (firstn 8 bs).

Definition is_byte (b : N) : bool := b <? 256.
Definition wf_bytes (bs : list N) : Prop := Forall (fun b => b < 256) bs.
Definition wf_bytesb (bs : list N) : bool := forallb is_byte bs.

(* words <-> bytes over whole buffers (length multiple of 4 for the exact inverse) *)
Fixpoint words_of_bytes (fuel : nat) (bs : list N) : list N :=
  match fuel with
  | O => []
  | S f =>
    match bs with
    | a :: b :: c :: d :: r => le_value [a; b; c; d] :: words_of_bytes f r
    | _ => []
    end
  end.

Fixpoint bytes_of_words (ws : list N) : list N :=
  match ws with
  | [] => []
  | w :: r => bytes_of_u32 w ++ bytes_of_words r
  end.

Definition nth_N {A} (l : list A) (i : N) (d : A) : A := nth (N.to_nat i) l d.
Definition lenN {A} (l : list A) : N := N.of_nat (length l).

Fixpoint repeatN {A} (x : A) (n : nat) : list A :=
  match n with O => [] | S k => x :: repeatN x k end.

Fixpoint list_eqb (a b : list N) : bool :=
  match a, b with
  | [], [] => true
  | x :: a', y :: b' => (x =? y) && list_eqb a' b'
  | _, _ => false
  end.
