(* Generic little-endian field codecs, flat record layouts, NUL-terminated string
   tables and IFF-style chunk framing (magic:4, size:u32 LE, payload).
   Definitions only; theorems are in Proofs/Codec_proofs.v. *)
From WR Require Export Lib.Bits.
Open Scope N_scope.

(* ---- scalar fields --------------------------------------------------------- *)
Fixpoint le_bytes (w : nat) (v : N) : list N :=
  match w with
  | O => []
  | S k => v mod 256 :: le_bytes k (v / 256)
  end.

Definition pow256 (w : nat) : N := 256 ^ N.of_nat w.

(* ---- flat layouts: a record is a list of field widths (bytes) --------------- *)
Definition layout := list nat.

Fixpoint lay_size (l : layout) : nat :=
  match l with [] => O | w :: r => (w + lay_size r)%nat end.

Fixpoint enc (l : layout) (vs : list N) : list N :=
  match l, vs with
  | w :: l', v :: vs' => le_bytes w v ++ enc l' vs'
  | _, _ => []
  end.

Fixpoint dec (l : layout) (bs : list N) : option (list N * list N) :=
  match l with
  | [] => Some ([], bs)
  | w :: l' =>
    let h := firstn w bs in          (* length h <= w: no pass over the whole buffer *)
    if Nat.ltb (length h) w then None
    else
      match dec l' (skipn w bs) with
      | Some (vs, r) => Some (le_value h :: vs, r)
      | None => None
      end
  end.

Fixpoint wt (l : layout) (vs : list N) : bool :=
  match l, vs with
  | [], [] => true
  | w :: l', v :: vs' => (v <? pow256 w) && wt l' vs'
  | _, _ => false
  end.

(* n records of the same layout *)
Fixpoint rep_layout (n : nat) (l : layout) : layout :=
  match n with O => [] | S k => l ++ rep_layout k l end.

(* ---- NUL-terminated string tables (MWMO, MTEX, ...) -------------------------- *)
Definition cstr_ok (s : list N) : bool := forallb (fun c => (0 <? c) && (c <? 256)) s.

Fixpoint cstrs_enc (ss : list (list N)) : list N :=
  match ss with [] => [] | s :: r => s ++ 0 :: cstrs_enc r end.

(* splitting at NUL bytes; empty pieces are dropped (as the WDT/WDL readers do);
   an unterminated last piece is kept *)
Fixpoint cstrs_split (bs : list N) (cur : list N) : list (list N) :=
  match bs with
  | [] => match cur with [] => [] | _ => [rev cur] end
  | b :: r =>
    if b =? 0 then
      match cur with
      | [] => cstrs_split r []
      | _ => rev cur :: cstrs_split r []
      end
    else cstrs_split r (b :: cur)
  end.

(* ---- chunk framing ------------------------------------------------------------ *)
Record chunk := { c_magic : N; c_data : list N }.

Definition write_chunk (c : chunk) : list N :=
  le_bytes 4 (c_magic c) ++ le_bytes 4 (lenN (c_data c)) ++ c_data c.

Definition write_chunks (cs : list chunk) : list N := concat (map write_chunk cs).

(* One framing step.  None = fewer than 8 bytes left (readers stop there). *)
Definition read_header (bs : list N) : option (N * N * list N) :=
  if Nat.ltb (length bs) 8 then None
  else Some (le_value (firstn 4 bs), le_value (firstn 4 (skipn 4 bs)), skipn 8 bs).

(* walk: list of (magic, declared size, available payload bytes).  A truncated
   last payload is reported with the bytes that are there; fuel = length bs. *)
Fixpoint walk (fuel : nat) (bs : list N) : list (N * N * list N) :=
  match fuel with
  | O => []
  | S f =>
    match read_header bs with
    | None => []
    | Some (m, sz, rest) =>
      (* a declared size beyond the end of the file selects what is there *)
      let n := N.to_nat (N.min sz (lenN rest)) in
      (m, sz, firstn n rest) :: walk f (skipn n rest)
    end
  end.

Definition walk_all (bs : list N) : list (N * N * list N) := walk (S (length bs)) bs.

(* every walked chunk complete? *)
Definition chunk_complete (c : N * N * list N) : bool :=
  let '(_, sz, d) := c in lenN d =? sz.

(* magic as written in the files: four ASCII bytes, first byte least significant *)
Definition magic4 (a b c d : N) : N := a + 256 * b + 65536 * c + 16777216 * d.
