(* A small POSIX file-system model for atomic-replacement arguments: names map to
   inodes, descriptors are bound to inodes (so a rename does not disturb an open
   descriptor), writes go through descriptors.  Operations are the successful system
   calls of a process as strace shows them; failed calls change nothing and are left
   out by the translator.  Paths and descriptors are numbers. *)
From Coq Require Import List NArith Bool Lia.
Import ListNotations.
Open Scope N_scope.

Record fdesc := { fd_ino : N; fd_off : N; fd_w : bool; fd_app : bool }.

Record fs := {
  names : N -> option N;          (* path -> inode *)
  inodes : N -> list N;           (* inode -> bytes *)
  fds : N -> option fdesc;        (* descriptor -> open file description *)
  next_ino : N }.

Definition upd {A} (f : N -> A) (k : N) (v : A) : N -> A := fun x => if x =? k then v else f x.

Inductive fsop :=
| OOpen (fd p : N) (creat trunc wr app : bool)
| OWrite (fd : N) (data : list N)
| OPwrite (fd off : N) (data : list N)
| OSeek (fd pos : N)
| OTrunc (fd len : N)
| OClose (fd : N)
| ORename (a b : N)
| OUnlink (p : N)
| OOther.

Definition fs_len {A} (l : list A) : N := N.of_nat (length l).

(* bytes with [data] written at [off]; a gap is filled with zeros *)
Definition write_at (bs : list N) (off : N) (data : list N) : list N :=
  let o := N.to_nat off in
  firstn o bs ++ repeat 0 (o - length bs) ++ data ++ skipn (o + length data) bs.

Definition resize (bs : list N) (len : N) : list N :=
  let n := N.to_nat len in firstn n bs ++ repeat 0 (n - length bs).

Definition fs_step (s : fs) (o : fsop) : fs :=
  match o with
  | OOpen fd p creat trunc wr app =>
    match names s p with
    | Some i =>
      {| names := names s;
         inodes := if trunc && wr then upd (inodes s) i [] else inodes s;
         fds := upd (fds s) fd (Some {| fd_ino := i; fd_off := 0; fd_w := wr; fd_app := app |});
         next_ino := next_ino s |}
    | None =>
      if creat then
        let i := next_ino s in
        {| names := upd (names s) p (Some i);
           inodes := upd (inodes s) i [];
           fds := upd (fds s) fd (Some {| fd_ino := i; fd_off := 0; fd_w := wr; fd_app := app |});
           next_ino := i + 1 |}
      else s
    end
  | OWrite fd data =>
    match fds s fd with
    | Some d =>
      if fd_w d then
        let off := if fd_app d then fs_len (inodes s (fd_ino d)) else fd_off d in
        {| names := names s;
           inodes := upd (inodes s) (fd_ino d) (write_at (inodes s (fd_ino d)) off data);
           fds := upd (fds s) fd (Some {| fd_ino := fd_ino d; fd_off := off + fs_len data; fd_w := true; fd_app := fd_app d |});
           next_ino := next_ino s |}
      else s
    | None => s
    end
  | OPwrite fd off data =>
    match fds s fd with
    | Some d =>
      if fd_w d then
        {| names := names s;
           inodes := upd (inodes s) (fd_ino d) (write_at (inodes s (fd_ino d)) off data);
           fds := fds s; next_ino := next_ino s |}
      else s
    | None => s
    end
  | OSeek fd pos =>
    match fds s fd with
    | Some d => {| names := names s; inodes := inodes s;
                   fds := upd (fds s) fd (Some {| fd_ino := fd_ino d; fd_off := pos; fd_w := fd_w d; fd_app := fd_app d |});
                   next_ino := next_ino s |}
    | None => s
    end
  | OTrunc fd len =>
    match fds s fd with
    | Some d =>
      if fd_w d then
        {| names := names s; inodes := upd (inodes s) (fd_ino d) (resize (inodes s (fd_ino d)) len);
           fds := fds s; next_ino := next_ino s |}
      else s
    | None => s
    end
  | OClose fd => {| names := names s; inodes := inodes s; fds := upd (fds s) fd None; next_ino := next_ino s |}
  | ORename a b =>
    match names s a with
    | Some i => if a =? b then s else
                {| names := upd (upd (names s) b (Some i)) a None; inodes := inodes s; fds := fds s; next_ino := next_ino s |}
    | None => s
    end
  | OUnlink p => {| names := upd (names s) p None; inodes := inodes s; fds := fds s; next_ino := next_ino s |}
  | OOther => s
  end.

Definition fs_run (s : fs) (ops : list fsop) : fs := fold_left fs_step ops s.

Definition content (s : fs) (p : N) : option (list N) :=
  match names s p with Some i => Some (inodes s i) | None => None end.

(* ---- the discipline of an atomic replacement of [dst] --------------------------------------- *)
(* before the rename: dst is not created, truncated, renamed or unlinked, and nothing is
   written through a descriptor of the file dst names *)
Definition quiet (dst : N) (s : fs) (o : fsop) : bool :=
  match o with
  | OOpen _ p creat trunc _ _ => negb (p =? dst) || (negb creat && negb trunc)
  | OWrite fd _ | OPwrite fd _ _ | OTrunc fd _ =>
    match fds s fd, names s dst with
    | Some d, Some i => negb (fd_w d) || negb (fd_ino d =? i)
    | _, _ => true
    end
  | ORename a b => negb (a =? dst) && negb (b =? dst)
  | OUnlink p => negb (p =? dst)
  | _ => true
  end.

Fixpoint quiet_all (dst : N) (s : fs) (ops : list fsop) : bool :=
  match ops with
  | [] => true
  | o :: r => quiet dst s o && quiet_all dst (fs_step s o) r
  end.

(* after the rename: nothing is written any more and dst keeps its name *)
Definition settled (dst : N) (o : fsop) : bool :=
  match o with
  | OOpen _ p creat trunc wr _ => negb trunc && (negb (p =? dst) || negb creat)
  | OWrite _ _ | OPwrite _ _ _ | OTrunc _ _ => false
  | ORename a b => negb (a =? dst) && negb (b =? dst)
  | OUnlink p => negb (p =? dst)
  | _ => true
  end.

(* splits a trace at the first rename onto dst *)
Fixpoint split_at_rename (dst : N) (ops : list fsop) : option (list fsop * N * list fsop) :=
  match ops with
  | [] => None
  | ORename a b :: r =>
    if b =? dst then Some ([], a, r)
    else match split_at_rename dst r with Some (pre, t, post) => Some (ORename a b :: pre, t, post) | None => None end
  | o :: r => match split_at_rename dst r with Some (pre, t, post) => Some (o :: pre, t, post) | None => None end
  end.

(* verdict on a whole trace fs_run from state s0: 0 = leaves dst alone, 1 = disciplined atomic
   replacement, 2 = not disciplined *)
Definition discipline (dst : N) (s0 : fs) (ops : list fsop) : N :=
  match split_at_rename dst ops with
  | None => if quiet_all dst s0 ops then 0 else 2
  | Some (pre, t, post) =>
    if quiet_all dst s0 pre && forallb (settled dst) post && negb (t =? dst) then 1 else 2
  end.

(* a fresh process on a file system where dst, if it exists, has one name *)
Definition fresh (names0 : N -> option N) (inodes0 : N -> list N) (next : N) : fs :=
  {| names := names0; inodes := inodes0; fds := fun _ => None; next_ino := next |}.
