(* MD5 (RFC 1321) over byte lists, executable.  Used where the code verifies or produces
   MD5 digests (patch files, attributes, v4 header digests, weak signature).  Theorems that
   only need "some digest function" quantify over it instead. *)
From WR Require Export Lib.Bits.
Open Scope N_scope.

Definition md5_K : list N := [3614090360; 3905402710; 606105819; 3250441966; 4118548399; 1200080426; 2821735955; 4249261313; 1770035416; 2336552879; 4294925233; 2304563134; 1804603682; 4254626195; 2792965006; 1236535329; 4129170786; 3225465664; 643717713; 3921069994; 3593408605; 38016083; 3634488961; 3889429448; 568446438; 3275163606; 4107603335; 1163531501; 2850285829; 4243563512; 1735328473; 2368359562; 4294588738; 2272392833; 1839030562; 4259657740; 2763975236; 1272893353; 4139469664; 3200236656; 681279174; 3936430074; 3572445317; 76029189; 3654602809; 3873151461; 530742520; 3299628645; 4096336452; 1126891415; 2878612391; 4237533241; 1700485571; 2399980690; 4293915773; 2240044497; 1873313359; 4264355552; 2734768916; 1309151649; 4149444226; 3174756917; 718787259; 3951481745].
Definition md5_S : list N := [7; 12; 17; 22; 7; 12; 17; 22; 7; 12; 17; 22; 7; 12; 17; 22; 5; 9; 14; 20; 5; 9; 14; 20; 5; 9; 14; 20; 5; 9; 14; 20; 4; 11; 16; 23; 4; 11; 16; 23; 4; 11; 16; 23; 4; 11; 16; 23; 6; 10; 15; 21; 6; 10; 15; 21; 6; 10; 15; 21; 6; 10; 15; 21].

Definition md5_pad (msg : list N) : list N :=
  let len := length msg in
  let zeros := Nat.modulo (Nat.sub 119 (Nat.modulo len 64)) 64 in   (* (55 - len) mod 64 *)
  msg ++ [128] ++ repeat 0 zeros ++ bytes_of_u64 ((N.of_nat len * 8) mod M64).

Definition md5_round (i : nat) (st : N * N * N * N) (m : list N) : N * N * N * N :=
  let '(a, b, c, d) := st in
  let r := Nat.div i 16 in
  let f := match r with
           | O => N.lor (N.land b c) (N.land (not32 b) d)
           | 1%nat => N.lor (N.land d b) (N.land (not32 d) c)
           | 2%nat => N.lxor (N.lxor b c) d
           | _ => N.lxor c (N.lor b (not32 d))
           end in
  let g := match r with
           | O => i
           | 1%nat => Nat.modulo (5 * i + 1) 16
           | 2%nat => Nat.modulo (3 * i + 5) 16
           | _ => Nat.modulo (7 * i) 16
           end in
  let f2 := add32 (add32 (add32 f a) (nth i md5_K 0)) (nth g m 0) in
  (d, add32 b (rotl32 f2 (nth i md5_S 0)), b, c).

Fixpoint md5_rounds (n : nat) (i : nat) (st : N * N * N * N) (m : list N) : N * N * N * N :=
  match n with
  | O => st
  | S k => md5_rounds k (S i) (md5_round i st m) m
  end.

Definition md5_block (st : N * N * N * N) (block : list N) : N * N * N * N :=
  let m := words_of_bytes 16 block in
  let '(a, b, c, d) := st in
  let '(a2, b2, c2, d2) := md5_rounds 64 0 st m in
  (add32 a a2, add32 b b2, add32 c c2, add32 d d2).

Fixpoint md5_blocks (fuel : nat) (st : N * N * N * N) (bs : list N) : N * N * N * N :=
  match fuel with
  | O => st
  | S f =>
    match bs with
    | [] => st
    | _ => md5_blocks f (md5_block st (firstn 64 bs)) (skipn 64 bs)
    end
  end.

Definition md5 (msg : list N) : list N :=
  let p := md5_pad msg in
  let '(a, b, c, d) := md5_blocks (S (Nat.div (length p) 64)) (1732584193, 4023233417, 2562383102, 271733878) p in
  bytes_of_u32 a ++ bytes_of_u32 b ++ bytes_of_u32 c ++ bytes_of_u32 d.
