(* C08 - patch-chain lookup returns the highest-priority version whatever the history;
   patch application never returns unverified bytes. *)
From Coq Require Import ZArith List.
Import ListNotations.
From WR Require Import Lib.Bits Mpq.Chain Mpq.Patch Proofs.Chain_proofs Proofs.Patch_proofs.

Theorem C08_run_sorted : forall ops, sorted (run ops).
Proof. exact run_sorted. Qed.
Print Assumptions C08_run_sorted.

Theorem C08_lookup_highest :
  forall (holds : Z -> Z -> option Z) ops name i v,
    lookup holds (run ops) name = Some (i, v) ->
    exists w, In w (fst (srun ops)) /\ s_id w = i /\ holds i name = Some v /\
              forall s, In s (fst (srun ops)) -> holds (s_id s) name <> None -> s = w \/ better w s = true.
Proof. exact lookup_highest. Qed.
Print Assumptions C08_lookup_highest.

Theorem C08_absent_not_found :
  forall (holds : Z -> Z -> option Z) ops name,
    (forall x, In x (run ops) -> holds (e_id x) name = None) -> lookup holds (run ops) name = None.
Proof. exact absent_not_found. Qed.
Print Assumptions C08_absent_not_found.

Theorem C08_stamped_spec_refines : forall ops, forget (fst (srun ops)) = run ops.
Proof. exact forget_srun. Qed.
Print Assumptions C08_stamped_spec_refines.

Theorem C08_stamped_order_invariant : forall ops, sinv (srun ops).
Proof. exact srun_inv. Qed.
Print Assumptions C08_stamped_order_invariant.

Theorem C08_parallel_eq_sequential :
  forall l, from_parallel l = run (map (fun '(id, p) => Chain.Add id p) l).
Proof. exact parallel_eq_sequential. Qed.
Print Assumptions C08_parallel_eq_sequential.

Theorem C08_patch_result_verified :
  forall (digest : list N -> list N) p base out,
    apply_patch_with digest p base = POk out ->
    digest base = p_md5_before p /\ digest out = p_md5_after p.
Proof. exact patch_result_verified. Qed.
Print Assumptions C08_patch_result_verified.

Theorem C08_copy_patch_exact :
  forall (digest : list N -> list N) p base out,
    p_type p = PCopy -> apply_patch_with digest p base = POk out ->
    out = p_data p /\ lenN base = p_before p /\ lenN out = p_after p.
Proof. exact copy_patch_exact. Qed.
Print Assumptions C08_copy_patch_exact.

Theorem C08_bsd0_output_size :
  forall p base out, apply_bsd0 p base = POk out -> lenN out = p_after p /\ lenN base = p_before p.
Proof. exact bsd0_output_size. Qed.
Print Assumptions C08_bsd0_output_size.
