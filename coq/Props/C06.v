(* C06 - in-place archive modification behaves as a persistent name -> bytes map. *)
From WR Require Import Lib.Bits Mpq.Crypt Mpq.Archive Mpq.Modify Proofs.HashTable_proofs Proofs.Modify_proofs.
Open Scope N_scope.

(* specification laws *)
Theorem C06_spec_fail_unchanged : forall m o m', spec_step m o = (m', false) -> m' = m.
Proof. exact spec_fail_unchanged. Qed.
Print Assumptions C06_spec_fail_unchanged.

Theorem C06_spec_run_untouched :
  forall ops m k, forallb (fun o => negb (touches o k)) ops = true -> sget (fst (spec_run m ops)) k = sget m k.
Proof. exact spec_run_untouched. Qed.
Print Assumptions C06_spec_run_untouched.

(* the hash table with tombstones is a finite map from hash pairs to block indices *)
Theorem C06_mt_add_inv :
  forall t k L name blk t',
    InvD t k L -> ~ key_in L (hash_string name ht_name_a) (hash_string name ht_name_b) -> blk < he_deleted ->
    mt_add t name blk = Some t' -> InvD t' k (item_of name blk :: L).
Proof. exact mt_add_inv. Qed.
Print Assumptions C06_mt_add_inv.

Theorem C06_mt_remove_inv :
  forall t k L name t',
    InvD t k L -> mt_remove t name = Some t' ->
    InvD t' k (without L (hash_string name ht_name_a) (hash_string name ht_name_b)).
Proof. exact mt_remove_inv. Qed.
Print Assumptions C06_mt_remove_inv.

Theorem C06_mt_find_inserted :
  forall t k L name blk, InvD t k L -> In (item_of name blk) L -> exists idx, mt_find t name = Some (idx, blk).
Proof. exact mt_find_inserted. Qed.
Print Assumptions C06_mt_find_inserted.

Theorem C06_mt_find_absent :
  forall t k L name,
    InvD t k L -> ~ key_in L (hash_string name ht_name_a) (hash_string name ht_name_b) -> mt_find t name = None.
Proof. exact mt_find_absent. Qed.
Print Assumptions C06_mt_find_absent.

Theorem C06_mt_remove_then_absent :
  forall t k L name t', InvD t k L -> mt_remove t name = Some t' -> mt_find t' name = None.
Proof. exact mt_remove_then_absent. Qed.
Print Assumptions C06_mt_remove_then_absent.

(* termination is NOT guaranteed by the code as found: on a full table the insertion loop
   has no exit (the model runs out of fuel) *)
Theorem C06_add_full_table_no_exit_refuted :
  let full := repeat {| h_a := 1; h_b := 1; h_locale := 0; h_platform := 0; h_block := 0 |} 4 in
  mt_add full [97] 1 = None.
Proof. exact mt_add_full_no_exit. Qed.
Print Assumptions C06_add_full_table_no_exit_refuted.
