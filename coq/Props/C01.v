(* C01 - MPQ build -> open round trip returns every file bit-identically. *)
From WR Require Import Lib.Bits Mpq.Crypt Mpq.Archive Proofs.HashTable_proofs Proofs.FileLayout_proofs Proofs.Sectors_proofs Proofs.Sectors_example Proofs.Build_proofs Proofs.Build_example.
Open Scope N_scope.

(* hash table: every successful insertion keeps the invariant ... *)
Theorem C01_ht_empty_inv : forall k, Inv (repeat hempty (N.to_nat (2 ^ k))) k [].
Proof. exact inv_empty. Qed.
Print Assumptions C01_ht_empty_inv.

Theorem C01_ht_insert_inv :
  forall t k L name blk t',
    Inv t k L -> ~ key_in L (hash_string name ht_name_a) (hash_string name ht_name_b) -> blk < he_deleted ->
    ht_insert t name blk = InsOk t' -> Inv t' k (item_of name blk :: L).
Proof. exact ht_insert_inv. Qed.
Print Assumptions C01_ht_insert_inv.

(* ... under which every inserted name is found with its own block index ... *)
Theorem C01_ht_find_inserted :
  forall t k L name blk, Inv t k L -> In (item_of name blk) L -> exists idx, ht_find t name = Some (idx, blk).
Proof. exact ht_find_inserted. Qed.
Print Assumptions C01_ht_find_inserted.

(* ... a name whose hash pair was never inserted is not found (never resolved to another file) ... *)
Theorem C01_ht_find_absent :
  forall t k L name,
    Inv t k L -> ~ key_in L (hash_string name ht_name_a) (hash_string name ht_name_b) -> ht_find t name = None.
Proof. exact ht_find_absent. Qed.
Print Assumptions C01_ht_find_absent.

(* ... and the lookup does not depend on ASCII case or slash direction of the spelling *)
Theorem C01_ht_find_spelling :
  forall t n1 n2, map norm n1 = map norm n2 -> ht_find t n1 = ht_find t n2.
Proof. exact ht_find_spelling. Qed.
Print Assumptions C01_ht_find_spelling.

(* single-unit files: every combination of compression outcome, encryption mode and checksum *)
Theorem C01_single_unit_roundtrip :
  forall (compress : N -> list N -> option (list N)) (decompress : N -> list N -> N -> option (list N))
         (name : list N) (a : archive) (ssz : N) (crc : bool) (f : file_spec) (pos : N) (bytes : list N) (csize flags : N),
    f_name f = name -> f_enc f < 3 -> wf_bytes (f_data f) ->
    lenN (f_data f) <= ssz -> lenN (f_data f) < M32 ->
    unit_contract compress decompress (f_comp f) (f_data f) ->
    write_file compress ssz crc f pos = Some (bytes, csize, flags) ->
    carries name a pos bytes csize (lenN (f_data f)) flags ssz ->
    read_file decompress a name = ROk (f_data f).
Proof. exact single_unit_roundtrip. Qed.
Print Assumptions C01_single_unit_roundtrip.

(* files longer than one sector of which no sector shrank: a plain run of (separately encrypted) sectors *)
Theorem C01_stored_sectors_roundtrip :
  forall (compress : N -> list N -> option (list N)) (decompress : N -> list N -> N -> option (list N))
         (name : list N) (a : archive) (ssz : N) (crc : bool) (f : file_spec) (pos : N) (bytes : list N) (csize flags : N),
    f_name f = name -> f_enc f < 3 -> wf_bytes (f_data f) ->
    0 < ssz -> ssz < lenN (f_data f) -> lenN (f_data f) < M32 ->
    write_file compress ssz crc f pos = Some (bytes, csize, flags) ->
    has_flag flags fl_compress = false ->
    carries name a pos bytes csize (lenN (f_data f)) flags ssz ->
    read_file decompress a name = ROk (f_data f).
Proof. exact stored_sectors_roundtrip. Qed.
Print Assumptions C01_stored_sectors_roundtrip.

(* files written as separately compressed sectors behind an offset table, with or without the
   checksum table, plain or encrypted, for every length and sector size *)
Theorem C01_compressed_sectors_roundtrip :
  forall (compress : N -> list N -> option (list N)) (decompress : N -> list N -> N -> option (list N))
         (name : list N) (a : archive) (ssz : N) (crc : bool) (f : file_spec) (pos : N) (bytes : list N) (csize flags : N),
    f_name f = name -> f_enc f < 3 -> wf_bytes (f_data f) ->
    0 < ssz -> ssz < lenN (f_data f) -> lenN (f_data f) < M32 ->
    Forall (unit_contract compress decompress (f_comp f)) (sectors ssz (f_data f)) ->
    write_file compress ssz crc f pos = Some (bytes, csize, flags) ->
    has_flag flags fl_compress = true ->
    lenN bytes < M32 ->
    carries name a pos bytes csize (lenN (f_data f)) flags ssz ->
    read_file decompress a name = ROk (f_data f).
Proof. exact compressed_sectors_roundtrip. Qed.
Print Assumptions C01_compressed_sectors_roundtrip.

(* every file the builder lays out - one unit, a plain run of sectors, or compressed sectors - reads back whole *)
Theorem C01_file_roundtrip :
  forall (compress : N -> list N -> option (list N)) (decompress : N -> list N -> N -> option (list N))
         (name : list N) (a : archive) (ssz : N) (crc : bool) (f : file_spec) (pos : N) (bytes : list N) (csize flags : N),
    f_name f = name -> f_enc f < 3 -> wf_bytes (f_data f) ->
    0 < ssz -> lenN (f_data f) < M32 -> lenN bytes < M32 ->
    (if lenN (f_data f) <=? ssz then unit_contract compress decompress (f_comp f) (f_data f)
     else Forall (unit_contract compress decompress (f_comp f)) (sectors ssz (f_data f))) ->
    write_file compress ssz crc f pos = Some (bytes, csize, flags) ->
    carries name a pos bytes csize (lenN (f_data f)) flags ssz ->
    read_file decompress a name = ROk (f_data f).
Proof. exact file_roundtrip. Qed.
Print Assumptions C01_file_roundtrip.

(* the whole archive: what ArchiveBuilder writes (V1/V2 header, files one after the other, encrypted hash and
   block tables, optional CRC attributes) is opened by Archive::open, and every pending file - the listfile
   included - is found at its own block entry and read back bit-identically *)
Theorem C01_build_roundtrip :
  forall (compress : N -> list N -> option (list N)) (decompress : N -> list N -> N -> option (list N))
         (c : cfg) (files : list file_spec) (bytes : list N),
    (c_version c = 1 \/ c_version c = 2) -> c_shift c < 65536 ->
    build compress c files = BOk bytes -> lenN bytes < M32 ->
    Forall (file_ok compress decompress (sector_size (c_shift c))) (pending c files) ->
    NoDup (map hkey (pending c files)) ->
    (c_attrs c = 1 -> ~ In (hash_string s_attributes ht_name_a, hash_string s_attributes ht_name_b) (map hkey (pending c files))) ->
    exists a, open bytes = Some a /\
              forall f, In f (pending c files) -> read_file decompress a (f_name f) = ROk (f_data f).
Proof. exact build_roundtrip. Qed.
Print Assumptions C01_build_roundtrip.
