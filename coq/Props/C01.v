(* C01 - MPQ build -> open round trip (placeholder theorems added as proofs land). *)
From WR Require Import Lib.Bits Mpq.Archive.
