(* C07 - rebuilding an archive preserves its file set and contents. *)
From WR Require Import Lib.Bits Mpq.Crypt Mpq.Archive Mpq.Rebuild Proofs.Rebuild_proofs Proofs.HashTable_proofs Proofs.Build_proofs Proofs.RebuildWhole_proofs.
Open Scope N_scope.

Theorem C07_rebuild_specs_sound :
  forall (decompress : N -> list N -> N -> option (list N)) a o f,
    In f (rebuild_specs decompress a o) ->
    In (f_name f) (listed decompress a) /\ excluded a o (f_name f) = false /\
    read_file decompress a (f_name f) = ROk (f_data f).
Proof. exact rebuild_specs_sound. Qed.
Print Assumptions C07_rebuild_specs_sound.

Theorem C07_rebuild_specs_complete :
  forall (decompress : N -> list N -> N -> option (list N)) a o n d,
    In n (listed decompress a) -> excluded a o n = false -> read_file decompress a n = ROk d ->
    exists f, In f (rebuild_specs decompress a o) /\ f_name f = n /\ f_data f = d.
Proof. exact rebuild_specs_complete. Qed.
Print Assumptions C07_rebuild_specs_complete.

(* the code's gap, stated: an unreadable listed file is dropped, the summary still says Ok *)
Theorem C07_rebuild_unreadable_dropped :
  forall (decompress : N -> list N -> N -> option (list N)) a o n,
    read_file decompress a n = RErr -> ~ exists f, In f (rebuild_specs decompress a o) /\ f_name f = n.
Proof. exact rebuild_unreadable_dropped. Qed.
Print Assumptions C07_rebuild_unreadable_dropped.

(* end to end in the model: the archive built from what rebuild hands to the builder opens, and every
   listed, non-excluded, readable file of the source reads the same from it (under any spelling) *)
Theorem C07_rebuild_roundtrip :
  forall (compress : N -> list N -> option (list N)) (decompress : N -> list N -> N -> option (list N))
         (a : archive) (o : ropts) (bytes : list N),
    let specs := rebuild_specs decompress a o in
    let c := rebuild_cfg a o specs in
    (c_version c = 1 \/ c_version c = 2) -> c_shift c < 65536 ->
    build compress c specs = BOk bytes -> lenN bytes < M32 ->
    Forall (file_ok compress decompress (sector_size (c_shift c))) (pending c specs) ->
    NoDup (map hkey (pending c specs)) ->
    exists a', open bytes = Some a' /\
               forall n d, In n (listed decompress a) -> excluded a o n = false ->
                           read_file decompress a n = ROk d -> read_file decompress a' n = ROk d.
Proof. exact rebuild_roundtrip. Qed.
Print Assumptions C07_rebuild_roundtrip.

Theorem C07_read_file_spelling :
  forall (decompress : N -> list N -> N -> option (list N)) a n1 n2,
    map norm n1 = map norm n2 -> read_file decompress a n1 = read_file decompress a n2.
Proof. exact read_file_spelling. Qed.
Print Assumptions C07_read_file_spelling.
