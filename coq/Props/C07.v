(* C07 - rebuilding an archive preserves its file set and contents. *)
From WR Require Import Lib.Bits Mpq.Archive Mpq.Rebuild Proofs.Rebuild_proofs.
Open Scope N_scope.

Theorem C07_rebuild_specs_sound :
  forall (decompress : N -> list N -> N -> option (list N)) a o f,
    In f (rebuild_specs decompress a o) ->
    In (f_name f) (listed decompress a) /\ excluded a o (f_name f) = false /\
    read_file decompress a (f_name f) = ROk (f_data f).
Proof. exact rebuild_specs_sound. Qed.
Print Assumptions C07_rebuild_specs_sound.

Theorem C07_rebuild_specs_complete :
  forall (decompress : N -> list N -> N -> option (list N)) a o n d,
    In n (listed decompress a) -> excluded a o n = false -> read_file decompress a n = ROk d ->
    exists f, In f (rebuild_specs decompress a o) /\ f_name f = n /\ f_data f = d.
Proof. exact rebuild_specs_complete. Qed.
Print Assumptions C07_rebuild_specs_complete.

(* the code's gap, stated: an unreadable listed file is dropped, the summary still says Ok *)
Theorem C07_rebuild_unreadable_dropped :
  forall (decompress : N -> list N -> N -> option (list N)) a o n,
    read_file decompress a n = RErr -> ~ exists f, In f (rebuild_specs decompress a o) /\ f_name f = n.
Proof. exact rebuild_unreadable_dropped. Qed.
Print Assumptions C07_rebuild_unreadable_dropped.
