(* C20 - the command-line tool's exit status and outputs tell the truth. *)
From Coq Require Import NArith List Bool Arith.
Import ListNotations.
From WR Require Import Cli.Outcome Proofs.Outcome_proofs.
Open Scope N_scope.

Theorem C20_written_sound :
  forall (name path : Type) (target : name -> option path) results p d,
    In (p, d) (written path (extract_loop name path target results)) -> exists n, In (n, RData d) results /\ target n = Some p.
Proof. exact written_sound. Qed.
Print Assumptions C20_written_sound.

Theorem C20_exit_ok_iff_complete :
  forall (name path : Type) (target : name -> option path) results,
    extract_exit_ok path false (extract_loop name path target results) = true <->
    (forall n r, In (n, r) results -> exists d p, r = RData d /\ target n = Some p).
Proof. exact exit_ok_iff_complete. Qed.
Print Assumptions C20_exit_ok_iff_complete.

Theorem C20_no_errors_complete :
  forall (name path : Type) (target : name -> option path) results,
    errors path (extract_loop name path target results) = 0 ->
    forall n r, In (n, r) results -> exists d p, r = RData d /\ target n = Some p /\ In (p, d) (written path (extract_loop name path target results)).
Proof. exact no_errors_complete. Qed.
Print Assumptions C20_no_errors_complete.

Theorem C20_errors_count :
  forall (name path : Type) (target : name -> option path) results,
    errors path (extract_loop name path target results) + N.of_nat (length (written path (extract_loop name path target results))) = N.of_nat (length results).
Proof. exact errors_count. Qed.
Print Assumptions C20_errors_count.

Theorem C20_roundtrip_files :
  forall (name path : Type) (target : name -> option path) (inputs : list (name * list N)),
    (forall n c, In (n, c) inputs -> exists p, target n = Some p) ->
    let o := extract_loop name path target (map (fun e => (fst e, RData (snd e))) inputs) in
    errors path o = 0 /\ length (written path o) = length inputs /\
    (forall n c, In (n, c) inputs -> exists p, target n = Some p /\ In (p, c) (written path o)).
Proof. exact roundtrip_files. Qed.
Print Assumptions C20_roundtrip_files.

Theorem C20_extract_cmd_truth :
  forall (name path : Type) (target : name -> option path) skip results,
    (forall p d, In (p, d) (snd (extract_cmd name path target skip results)) -> exists n, In (n, RData d) results /\ target n = Some p) /\
    (skip = false -> fst (extract_cmd name path target skip results) = true ->
       forall n r, In (n, r) results -> exists d p, r = RData d /\ target n = Some p /\ In (p, d) (snd (extract_cmd name path target skip results))) /\
    (skip = false -> fst (extract_cmd name path target skip results) = false ->
       exists n r, In (n, r) results /\ (r = RFail \/ target n = None)).
Proof. exact extract_cmd_truth. Qed.
Print Assumptions C20_extract_cmd_truth.

Theorem C20_validate_exit_truth :
  forall (name : Type) (results : list (name * rd)),
    validate_exit_ok name results = true <-> (forall n r, In (n, r) results -> exists d, r = RData d).
Proof. exact validate_exit_truth. Qed.
Print Assumptions C20_validate_exit_truth.

Theorem C20_blp_validate_dxt :
  forall strict jpeg w h,
    blp_validate_ok strict true jpeg w h = true -> w mod 4 = 0 /\ h mod 4 = 0 /\ w <> 0 /\ h <> 0.
Proof. exact blp_validate_dxt. Qed.
Print Assumptions C20_blp_validate_dxt.
