(* C18 - WDT/WDL map files survive write->parse; tile<->world coordinates invert. *)
From Coq Require Import ZArith List.
From WR Require Import Lib.Bits Lib.Codec Fmt.Wdt Fmt.Coords Proofs.Codec_proofs Proofs.Wdt_proofs Proofs.Coords_proofs.

Theorem C18_tile_world_roundtrip :
  forall x y : Z, (0 <= x < 64)%Z -> (0 <= y < 64)%Z ->
  let '(wx, wy) := tile_to_world x y in world_to_tile wx wy = (x, y).
Proof. exact tile_world_roundtrip. Qed.
Print Assumptions C18_tile_world_roundtrip.

Theorem C18_old_code_refuted :
  tile_ok_old (0, 4)%Z = false /\ length (filter (fun t => negb (tile_ok_old t)) all_tiles) = 960%nat.
Proof. exact old_code_refuted. Qed.
Print Assumptions C18_old_code_refuted.

Theorem C18_wdt_roundtrip :
  forall version w, wdt_wf version w = true -> wdt_read (wdt_write version w) = Ok w.
Proof. exact wdt_roundtrip. Qed.
Print Assumptions C18_wdt_roundtrip.

Theorem C18_wdt_second_write_identical :
  forall version w, wdt_wf version w = true ->
  match wdt_read (wdt_write version w) with
  | Ok w' => wdt_write version w' = wdt_write version w
  | Err => False
  end.
Proof. exact wdt_second_write_identical. Qed.
Print Assumptions C18_wdt_second_write_identical.

Theorem C18_chunk_framing_tiles :
  forall cs, Forall chunk_ok cs -> walk_all (write_chunks cs) = map chunk_view cs.
Proof. exact walk_all_write. Qed.
Print Assumptions C18_chunk_framing_tiles.

Theorem C18_record_codec_roundtrip :
  forall l vs r, wt l vs = true -> dec l (enc l vs ++ r) = Some (vs, r).
Proof. exact dec_enc. Qed.
Print Assumptions C18_record_codec_roundtrip.

Theorem C18_name_table_roundtrip :
  forall ss, Forall (fun s => cstr_ok s = true /\ s <> []) ss -> cstrs_split (cstrs_enc ss) [] = ss.
Proof. exact cstrs_roundtrip. Qed.
Print Assumptions C18_name_table_roundtrip.
