(* C15 - WMO root and group files survive write -> parse; framing, name tables. *)
From Coq Require Import NArith List Bool Arith.
Import ListNotations.
From WR Require Import Lib.Bits Lib.Codec Fmt.Chunked Proofs.Codec_proofs Proofs.Chunked_proofs.
Open Scope N_scope.

Theorem C15_walk_all_write :
  forall cs, Forall chunk_ok cs -> walk_all (write_chunks cs) = map chunk_view cs.
Proof. exact walk_all_write. Qed.
Print Assumptions C15_walk_all_write.

Theorem C15_offsets_point_at_chunks :
  forall cs pre m o,
    Forall chunk_ok cs -> In (m, o) (chunk_offsets (lenN pre) cs) ->
    chunk_at (pre ++ write_chunks cs) o m = true.
Proof. exact offsets_point_at_chunks. Qed.
Print Assumptions C15_offsets_point_at_chunks.

Theorem C15_table_from_offsets_ok :
  forall cs pre origin tab,
    Forall chunk_ok cs ->
    (forall m rel, In (m, rel) tab -> rel = 0 \/ In (m, origin + rel) (chunk_offsets (lenN pre) cs)) ->
    table_ok (pre ++ write_chunks cs) origin tab = true.
Proof. exact table_from_offsets_ok. Qed.
Print Assumptions C15_table_from_offsets_ok.

Theorem C15_names_at_offsets :
  forall names pre i s o,
    Forall (Forall (fun c => c <> 0)) names ->
    nth_error names i = Some s -> nth_error (name_offsets (lenN pre) names) i = Some o ->
    name_at (pre ++ concat (map (fun n => n ++ [0]) names)) o = s.
Proof. exact names_at_offsets. Qed.
Print Assumptions C15_names_at_offsets.
