(* C02 - interoperability with an independent implementation (theorems added below). *)
From WR Require Import Lib.Bits Mpq.Crypt Mpq.MpqRef Proofs.Crypt_proofs.
Open Scope N_scope.

(* the library's cipher and the reference cipher agree on whole dwords for every non-zero key *)
Theorem C02_cipher_agrees_on_dwords :
  forall ws key, key <> 0 -> key < M32 -> encrypt_block ws key = ref_enc ws key 4008636142.
Proof. exact encrypt_block_eq_ref. Qed.
Print Assumptions C02_cipher_agrees_on_dwords.

Theorem C02_hash_agrees :
  forall name ht, ht <= 1024 -> wf_bytes name -> hash_string name ht = ref_hash name ht.
Proof. exact hash_string_eq_ref. Qed.
Print Assumptions C02_hash_agrees.

Theorem C02_byte_cipher_agrees_on_whole_dwords :
  forall bs key n, length bs = (4 * n)%nat -> (0 < n)%nat -> key <> 0 -> key < M32 ->
    encrypt_data bs key = r_crypt true bs key.
Proof. exact encrypt_data_eq_ref. Qed.
Print Assumptions C02_byte_cipher_agrees_on_whole_dwords.

(* known difference: trailing 1-3 bytes are ciphered by the library, left alone by the format *)
Theorem C02_tail_bytes_differ_refuted :
  encrypt_data [1; 2; 3; 4; 5] 4660 <> r_crypt true [1; 2; 3; 4; 5] 4660.
Proof. exact interop_tail_differs. Qed.
Print Assumptions C02_tail_bytes_differ_refuted.
