(* C02 - interoperability with an independent implementation (theorems added below). *)
From WR Require Import Lib.Bits Mpq.Crypt Mpq.MpqRef Proofs.Crypt_proofs Mpq.Archive Mpq.MpqRef Proofs.HashTable_proofs Proofs.Build_proofs Proofs.Interop_proofs Proofs.Interop_example.
Open Scope N_scope.

(* the library's cipher and the reference cipher agree on whole dwords for every non-zero key *)
Theorem C02_cipher_agrees_on_dwords :
  forall ws key, key <> 0 -> key < M32 -> encrypt_block ws key = ref_enc ws key 4008636142.
Proof. exact encrypt_block_eq_ref. Qed.
Print Assumptions C02_cipher_agrees_on_dwords.

Theorem C02_hash_agrees :
  forall name ht, ht <= 1024 -> wf_bytes name -> hash_string name ht = ref_hash name ht.
Proof. exact hash_string_eq_ref. Qed.
Print Assumptions C02_hash_agrees.

Theorem C02_byte_cipher_agrees_on_whole_dwords :
  forall bs key n, length bs = (4 * n)%nat -> (0 < n)%nat -> key <> 0 -> key < M32 ->
    encrypt_data bs key = r_crypt true bs key.
Proof. exact encrypt_data_eq_ref. Qed.
Print Assumptions C02_byte_cipher_agrees_on_whole_dwords.

(* known difference: trailing 1-3 bytes are ciphered by the library, left alone by the format *)
Theorem C02_tail_bytes_differ_refuted :
  encrypt_data [1; 2; 3; 4; 5] 4660 <> r_crypt true [1; 2; 3; 4; 5] 4660.
Proof. exact interop_tail_differs. Qed.
Print Assumptions C02_tail_bytes_differ_refuted.

(* whatever Archive::open accepts, the reference reader (written from the published format) opens to the same tables *)
Theorem C02_ref_open_of_open : forall bs a, open bs = Some a -> ref_open bs = Some (as_ref a).
Proof. exact ref_open_of_open. Qed.
Print Assumptions C02_ref_open_of_open.

(* the reference finds exactly the block entry the library finds *)
Theorem C02_ref_find_equiv : forall (a : archive) (k : N) (name : list N),
    Forall hplain (a_hash a) -> lenN (a_hash a) = 2 ^ k -> wf_bytes name ->
    ref_find (as_ref a) name = option_map bentry_words (find_block a name).
Proof. exact ref_find_equiv. Qed.
Print Assumptions C02_ref_find_equiv.

(* interoperability in the direction library -> reference: every V1/V2 archive the builder writes is opened by the
   reference reader, and every unencrypted file of it (single unit, plain sector run, compressed sectors with or
   without checksum table; the listfile included) is read bit-identically *)
Theorem C02_library_archive_read_by_reference :
  forall (compress : N -> list N -> option (list N)) (decompress : N -> list N -> N -> option (list N))
         (c : cfg) (files : list file_spec) (bytes : list N),
    (c_version c = 1 \/ c_version c = 2) -> c_shift c < 65536 ->
    build compress c files = BOk bytes -> lenN bytes < M32 ->
    Forall (file_ok compress decompress (sector_size (c_shift c))) (pending c files) ->
    NoDup (map hkey (pending c files)) ->
    (c_attrs c = 1 -> ~ In (hash_string s_attributes ht_name_a, hash_string s_attributes ht_name_b) (map hkey (pending c files))) ->
    exists ra, ref_open bytes = Some ra /\
               forall f, In f (pending c files) -> f_enc f = 0 -> wf_bytes (f_name f) ->
                         ref_read decompress ra (f_name f) = Some (f_data f).
Proof. exact library_archive_read_by_reference. Qed.
Print Assumptions C02_library_archive_read_by_reference.
