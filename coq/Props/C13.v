(* C13 - M2, skin and anim files survive write -> parse, also across version conversion. *)
From Coq Require Import NArith List Bool Arith.
Import ListNotations.
From WR Require Import Lib.Bits Fmt.Blp Fmt.M2 Proofs.M2_proofs.
Open Scope N_scope.

Theorem C13_relocation_preserves :
  forall (pre pre' body post post' : list N) (a : aref),
    lenN pre <= a_off a -> a_off a + a_count a * a_esize a <= lenN pre + lenN body ->
    deref (pre' ++ body ++ post') (relocate (lenN pre) (lenN pre') a) = deref (pre ++ body ++ post) a.
Proof. exact relocation_preserves. Qed.
Print Assumptions C13_relocation_preserves.

Theorem C13_placed_disjoint :
  forall hsize bodies i j ai aj,
    (i < j)%nat -> nth_error (place hsize bodies) i = Some ai -> nth_error (place hsize bodies) j = Some aj ->
    Forall (fun '(c, e, b) => lenN b = c * e) bodies ->
    hsize <= a_off ai /\ a_off ai + a_count ai * a_esize ai <= a_off aj /\
    a_off aj + a_count aj * a_esize aj <= hsize + lenN (write_bodies bodies).
Proof. exact placed_disjoint. Qed.
Print Assumptions C13_placed_disjoint.

Theorem C13_relocate_same :
  forall (pre : list N) a, lenN pre <= a_off a -> relocate (lenN pre) (lenN pre) a = a.
Proof. exact relocate_same. Qed.
Print Assumptions C13_relocate_same.
