(* C03 - lossless codecs invert exactly, never expand, accept their own output. *)
From WR Require Import Lib.Bits Mpq.Sparse Mpq.CompressWrap Proofs.Compress_proofs Proofs.Sparse_proofs.
Open Scope N_scope.

Theorem C03_store_raw_never_expands :
  forall (ic : N -> list N -> option (list N)) data m r,
    compress ic data m = Some r -> lenN r <= lenN data.
Proof. exact store_raw_never_expands. Qed.
Print Assumptions C03_store_raw_never_expands.

Theorem C03_compress_tagged :
  forall (ic : N -> list N -> option (list N)) data m r,
    compress ic data m = Some r ->
    r = data \/ exists c, ic m data = Some c /\ r = m :: c /\ lenN r < lenN data.
Proof. exact compress_tagged. Qed.
Print Assumptions C03_compress_tagged.

Theorem C03_reader_decision_sound :
  forall (ic : N -> list N -> option (list N)) data m r,
    compress ic data m = Some r -> lenN r = lenN data -> r = data.
Proof. exact reader_decision_sound. Qed.
Print Assumptions C03_reader_decision_sound.

Theorem C03_wrapper_roundtrip :
  forall (ic : N -> list N -> option (list N)) (id : N -> list N -> N -> option (list N)) data m r,
    (forall c, ic m data = Some c -> id m c (lenN data) = Some data) ->
    compress ic data m = Some r -> r <> data -> m <> 0 ->
    lenN data <= max_decompressed ->
    validate_op (lenN (tl r)) (lenN data) m = true ->
    decompress id (tl r) (hd 0 r) (lenN data) = Some data.
Proof. exact wrapper_roundtrip. Qed.
Print Assumptions C03_wrapper_roundtrip.

Theorem C03_limits_accept_own_output :
  forall c n m, 0 < c -> n <= 2097152 ->
    n / c <= adaptive_limit c m ->
    (128 < m -> n / c <= adaptive_limit c m / 2) ->
    validate_op c n m = true.
Proof. exact limits_accept_own_output. Qed.
Print Assumptions C03_limits_accept_own_output.

Theorem C03_old_limits_refuted :
  validate_op_old 43 65536 16 = false /\ validate_op 43 65536 16 = true.
Proof. exact old_limits_reject_own_output_refuted. Qed.
Print Assumptions C03_old_limits_refuted.

Theorem C03_limits_refuted_bzip2_2MiB :
  validate_op 48 2097152 16 = false /\ adaptive_limit 48 16 = 30000 /\ 2097152 / 48 = 43690.
Proof. exact limits_refuted_bzip2_2MiB. Qed.
Print Assumptions C03_limits_refuted_bzip2_2MiB.

(* sparse decoder inverts every well-formed token stream (the decoder half; the full round trip
   is C03_sparse_roundtrip below) *)
Theorem C03_sparse_roundtrip_partial :
  forall ts, Forall (fun t => token_ok t = true) ts ->
    lenN (tokens_data ts) < 4294967296 ->
    (1 <= length (tokens_bytes ts))%nat ->
    sparse_decompress (be32_bytes (lenN (tokens_data ts)) ++ tokens_bytes ts) (lenN (tokens_data ts))
    = SOk (tokens_data ts).
Proof. exact sparse_decode_tokens. Qed.
Print Assumptions C03_sparse_roundtrip_partial.

(* the sparse codec as a whole: for every non-empty input below 4 GiB the encoder terminates with an
   output that the decoder turns back into the input *)
Theorem C03_sparse_roundtrip :
  forall data, data <> [] -> lenN data < 4294967296 ->
    exists c, sparse_compress data = Some c /\ sparse_decompress c (lenN data) = SOk data.
Proof. exact sparse_roundtrip. Qed.
Print Assumptions C03_sparse_roundtrip.
