(* C19 - the StormLib-style C API agrees with the Rust API and rejects invalid handles. *)
From Coq Require Import NArith ZArith List Bool Arith.
Import ListNotations.
From WR Require Import Ffi.Handles Proofs.Handles_proofs.
Open Scope N_scope.

Theorem C19_WF_run :
  forall world cs s, WF s -> WF (fst (hrun world s cs)).
Proof. exact WF_run. Qed.
Print Assumptions C19_WF_run.

Theorem C19_invalid_handle_rejected :
  forall world s h,
    lookup (archs s) h = None -> lookup (files s) h = None -> lookup (finds s) h = None ->
    forall c, In c [CClose h; CCloseFile h; CSize h; CFindNext h; CFindClose h] \/
              (exists n, c = CRead h n) \/ (exists o m, c = CSeek h o m) \/ (exists nm, c = COpenFile h nm \/ c = CHas h nm \/ c = CFindFirst h nm) ->
    hstep world s c = (s, OErr EInvalidHandle).
Proof. exact invalid_handle_rejected. Qed.
Print Assumptions C19_invalid_handle_rejected.

Theorem C19_unissued_handle_invalid :
  forall s h, WF s -> next s <= h ->
    lookup (archs s) h = None /\ lookup (files s) h = None /\ lookup (finds s) h = None.
Proof. exact unissued_handle_invalid. Qed.
Print Assumptions C19_unissued_handle_invalid.

Theorem C19_issued_handle_fresh :
  forall world s c h, WF s -> snd (hstep world s c) = OHandle h ->
    h = next s /\ lookup (archs s) h = None /\ lookup (files s) h = None /\ lookup (finds s) h = None.
Proof. exact issued_handle_fresh. Qed.
Print Assumptions C19_issued_handle_fresh.

Theorem C19_close_invalidates_exactly_own :
  forall world s h s',
    WF s -> hstep world s (CClose h) = (s', OOk) ->
    lookup (archs s') h = None /\
    (forall a, a <> h -> lookup (archs s') a = lookup (archs s) a) /\
    (forall f fh, lookup (files s) f = Some fh -> lookup (files s') f = if f_arch fh =? h then None else Some fh) /\
    (forall f, lookup (files s) f = None -> lookup (files s') f = None) /\
    (forall q qh, lookup (finds s) q = Some qh -> lookup (finds s') q = if q_arch qh =? h then None else Some qh) /\
    (forall q, lookup (finds s) q = None -> lookup (finds s') q = None).
Proof. exact close_invalidates_exactly_own. Qed.
Print Assumptions C19_close_invalidates_exactly_own.

Theorem C19_read_within_bounds :
  forall world s f n fh,
    WF s -> lookup (files s) f = Some fh ->
    exists d s', hstep world s (CRead f n) = (s', OData d) /\
      lenN d <= n /\ lenN d = N.min n (lenN (f_data fh) - f_pos fh) /\
      d = slice (f_data fh) (f_pos fh) (lenN d) /\
      lookup (files s') f = Some {| f_arch := f_arch fh; f_data := f_data fh; f_pos := f_pos fh + lenN d |} /\
      f_pos fh + lenN d <= lenN (f_data fh).
Proof. exact read_within_bounds. Qed.
Print Assumptions C19_read_within_bounds.

Theorem C19_no_reuse :
  forall world cs s h, WF s -> h < next s ->
    lookup (archs s) h = None -> lookup (files s) h = None -> lookup (finds s) h = None ->
    let s' := fst (hrun world s cs) in
    lookup (archs s') h = None /\ lookup (files s') h = None /\ lookup (finds s') h = None.
Proof. exact no_reuse. Qed.
Print Assumptions C19_no_reuse.
