(* C11 - extraction never writes outside the chosen output directory. *)
From WR Require Import Lib.Bits Mpq.Path Proofs.Path_proofs.

Theorem C11_extraction_contained :
  forall out preserve name loc,
    target_location out preserve name = Some loc ->
    within out loc = true /\
    exists rel, loc = out ++ rel /\ rel <> [] /\ Forall (fun n => plain_name n = true) rel.
Proof. exact extraction_contained. Qed.
Print Assumptions C11_extraction_contained.

Theorem C11_old_preserve_escape_refuted :
  within n_out (old_target_location n_out true n_escape) = false /\
  old_target_location n_out true n_escape = [[97%N]; [101;115;99;97;112;101;100;46;116;120;116]%N] /\
  within n_out (old_target_location n_out true n_abs) = false /\
  target_location n_out true n_escape = None /\ target_location n_out true n_abs = None.
Proof. exact old_preserve_escape_refuted. Qed.
Print Assumptions C11_old_preserve_escape_refuted.

Theorem C11_components_plain :
  forall p, Forall (fun c => match c with Normal n => plain_name n = true | _ => True end) (components p).
Proof. exact components_plain. Qed.
Print Assumptions C11_components_plain.
