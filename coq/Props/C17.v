(* C17 - DBC tables survive write -> parse and all access paths agree. *)
From Coq Require Import NArith List Bool Arith.
Import ListNotations.
From WR Require Import Lib.Bits Lib.Codec Fmt.Dbc Proofs.Dbc_proofs.
Open Scope N_scope.

Theorem C17_string_block_correct :
  forall recs,
    Forall nul_free (strings_of recs) ->
    let st := build_block recs in
    NoDup (map fst (snd st)) /\
    forall s, In s (strings_of recs) -> get_string (fst st) (offset_of (snd st) s) = s.
Proof. exact string_block_correct. Qed.
Print Assumptions C17_string_block_correct.

Theorem C17_record_roundtrip :
  forall sch block a r rest,
    fits (flat sch) r = true ->
    (forall s, In s (strings_of_record r) -> get_string block (offset_of a s) = s /\ offset_of a s < pow256 4) ->
    read_record sch block (write_record (lay sch) a r ++ rest) = Some (r, rest).
Proof. exact record_roundtrip. Qed.
Print Assumptions C17_record_roundtrip.

Theorem C17_records_roundtrip :
  forall sch block a recs rest,
    Forall (fun r => fits (flat sch) r = true) recs ->
    (forall s, In s (strings_of recs) -> get_string block (offset_of a s) = s /\ offset_of a s < pow256 4) ->
    read_records (length recs) sch block (concat (map (write_record (lay sch) a) recs) ++ rest) = Some recs.
Proof. exact records_roundtrip. Qed.
Print Assumptions C17_records_roundtrip.

Theorem C17_lookup_sorted_sound :
  forall t key i, lookup_sorted t key = Some i -> In (key, i) t.
Proof. exact lookup_sorted_sound. Qed.
Print Assumptions C17_lookup_sorted_sound.

Theorem C17_lookup_sorted_complete :
  forall t key i,
    sorted_keys t -> In (key, i) t -> exists j, lookup_sorted t key = Some j /\ In (key, j) t.
Proof. exact lookup_sorted_complete. Qed.
Print Assumptions C17_lookup_sorted_complete.

Theorem C17_dbc_roundtrip :
  forall sch arrays recs,
    Forall (fun r => fits (flat sch) r = true) recs ->
    Forall nul_free (strings_of recs) ->
    lenN recs < pow256 4 -> field_count sch arrays < pow256 4 -> N.of_nat (lay_size (lay sch)) < pow256 4 ->
    lenN (fst (build_block recs)) < pow256 4 ->
    dbc_read sch (dbc_write sch arrays recs) = Some recs.
Proof. exact dbc_roundtrip. Qed.
Print Assumptions C17_dbc_roundtrip.

(* the key table as the reader builds it (stable insertion sort of the file's (key, index) pairs):
   every key of the file is found by the binary search, and whatever is found is an entry of the file *)
Theorem C17_built_table_lookup : forall t key,
    (forall i, In (key, i) t -> exists j, lookup_sorted (sort_keys t) key = Some j /\ In (key, j) t) /\
    (forall j, lookup_sorted (sort_keys t) key = Some j -> In (key, j) t).
Proof. exact built_table_lookup. Qed.
Print Assumptions C17_built_table_lookup.
