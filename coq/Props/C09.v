(* C09 - parallel extraction is observationally identical to sequential reading. *)
From Coq Require Import NArith List Bool Arith.
Import ListNotations.
From WR Require Import Mpq.Parallel Proofs.Parallel_proofs.

Theorem C09_extract_eq_spec :
  forall (name data : Type) (read : name -> option data) skip threads batch_size names,
    (1 <= batch_size)%nat ->
    extract name data read skip threads batch_size names = spec name data read skip names.
Proof. exact extract_eq_spec. Qed.
Print Assumptions C09_extract_eq_spec.

Theorem C09_skip_errors_slotwise :
  forall (name data : Type) (read : name -> option data) threads batch_size names,
    (1 <= batch_size)%nat ->
    extract name data read true threads batch_size names = Some (map (fun x => (x, read x)) names).
Proof. exact skip_errors_slotwise. Qed.
Print Assumptions C09_skip_errors_slotwise.

Theorem C09_fail_as_whole :
  forall (name data : Type) (read : name -> option data) threads batch_size names,
    (1 <= batch_size)%nat ->
    (exists x, In x names /\ read x = None) ->
    extract name data read false threads batch_size names = None.
Proof. exact fail_as_whole. Qed.
Print Assumptions C09_fail_as_whole.

Theorem C09_flatten_chunks :
  forall (name B : Type) (f : name -> B) n l,
    (1 <= n)%nat -> concat (map (map f) (chunks name n l)) = map f l.
Proof. exact flatten_chunks. Qed.
Print Assumptions C09_flatten_chunks.

Theorem C09_schedule_independent :
  forall (R : Type) (task : nat -> R) sched k,
    (forall i, (i < k)%nat -> In i sched) ->
    run_schedule R task sched k = map (fun i => Some (task i)) (seq 0 k).
Proof. exact schedule_independent. Qed.
Print Assumptions C09_schedule_independent.
