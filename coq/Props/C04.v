(* C04 - hashing and encryption equal the MPQ algorithms and are mutually inverse.
   Property theorems only; every proof is `exact <lemma from Proofs/>`. *)
From WR Require Import Lib.Bits Mpq.Crypt Proofs.Crypt_proofs Mpq.Jenkins Proofs.Jenkins_proofs.
Open Scope N_scope.

Theorem C04_decrypt_encrypt_block : forall key ws, decrypt_block (encrypt_block ws key) key = ws.
Proof. exact decrypt_encrypt_block. Qed.
Print Assumptions C04_decrypt_encrypt_block.

Theorem C04_encrypt_decrypt_block : forall key ws, encrypt_block (decrypt_block ws key) key = ws.
Proof. exact encrypt_decrypt_block. Qed.
Print Assumptions C04_encrypt_decrypt_block.

Theorem C04_bytes_decrypt_encrypt :
  forall key bs, wf_bytes bs -> decrypt_file_data (encrypt_data bs key) key = bs.
Proof. exact bytes_decrypt_encrypt. Qed.
Print Assumptions C04_bytes_decrypt_encrypt.

Theorem C04_hash_case_slash_invariant :
  forall ht s, wf_bytes s ->
    hash_string (map swap_case s) ht = hash_string s ht /\
    hash_string (map swap_slash s) ht = hash_string s ht.
Proof. exact hash_case_slash_invariant. Qed.
Print Assumptions C04_hash_case_slash_invariant.

Theorem C04_hash_fold_invariant :
  forall ht s1 s2, map norm s1 = map norm s2 -> hash_string s1 ht = hash_string s2 ht.
Proof. exact hash_fold_invariant. Qed.
Print Assumptions C04_hash_fold_invariant.

Theorem C04_crypt_table_reference : crypt_table = ref_table.
Proof. exact crypt_table_reference. Qed.
Print Assumptions C04_crypt_table_reference.

Theorem C04_hash_string_eq_ref :
  forall name ht, ht <= 1024 -> wf_bytes name -> hash_string name ht = ref_hash name ht.
Proof. exact hash_string_eq_ref. Qed.
Print Assumptions C04_hash_string_eq_ref.

Theorem C04_hash_index_in_range :
  forall ht c, ht <= 1024 -> c < 256 -> w32 (ht + norm c) < ct_len.
Proof. exact hash_index_in_range. Qed.
Print Assumptions C04_hash_index_in_range.

Theorem C04_published_vectors :
  hash_string str_listfile 0 = 0x5F3DE859 /\
  hash_string str_hash_table 768 = 0xC3AF3770 /\
  hash_string str_block_table 768 = 0xEC83B3A3 /\
  nth_N crypt_table 0 0 = 0x55C636E2 /\ nth_N crypt_table 1 0 = 0x02BE0170.
Proof. exact published_vectors. Qed.
Print Assumptions C04_published_vectors.

Theorem C04_encrypt_block_eq_ref :
  forall ws key, key <> 0 -> key < M32 -> encrypt_block ws key = ref_enc ws key 4008636142.
Proof. exact encrypt_block_eq_ref. Qed.
Print Assumptions C04_encrypt_block_eq_ref.

Theorem C04_decrypt_block_eq_ref :
  forall ws key, key <> 0 -> key < M32 -> decrypt_block ws key = ref_dec ws key 4008636142.
Proof. exact decrypt_block_eq_ref. Qed.
Print Assumptions C04_decrypt_block_eq_ref.

(* Jenkins hashlittle2 as transcribed from jenkins.rs (block loop, `match remaining` on the zero-padded
   last block) equals the lookup3 formulation, for every key and both seeds *)
Theorem C04_hashlittle2_eq_ref : forall key pc pb, hashlittle2 key pc pb = ref_hashlittle2 key pc pb.
Proof. exact hashlittle2_eq_ref. Qed.
Print Assumptions C04_hashlittle2_eq_ref.

(* the HET name hash (normalisation, 64-bit combination, masks) equals the reference, for every name and width *)
Theorem C04_het_hash_eq_ref : forall name hash_bits, wf_bytes name -> het_hash name hash_bits = het_hash_ref name hash_bits.
Proof. exact het_hash_eq_ref. Qed.
Print Assumptions C04_het_hash_eq_ref.

(* the BET name hash (one-at-a-time over the lower-cased backslash name, 64-bit state) equals the reference *)
Theorem C04_oaat_eq_ref : forall name, wf_bytes name -> jenkins_one_at_a_time name = ref_oaat name.
Proof. exact oaat_eq_ref. Qed.
Print Assumptions C04_oaat_eq_ref.
