(* C16 - BLP encode -> parse is exact; lossless encodings preserve pixels. *)
From Coq Require Import NArith List Bool Arith.
Import ListNotations.
From WR Require Import Fmt.Blp Proofs.Blp_proofs.
Open Scope N_scope.

Theorem C16_mip_chain_ends :
  forall w h, 0 < w -> 0 < h -> mip_size w h (mip_count w h) = (if mip_count w h =? 0 then (w, h) else (1, 1)).
Proof. exact mip_chain_ends. Qed.
Print Assumptions C16_mip_chain_ends.

Theorem C16_mip_halves :
  forall w h i, 0 < w -> 0 < h ->
    mip_size w h (i + 1) = (N.max (fst (mip_size w h i) / 2) 1, N.max (snd (mip_size w h i) / 2) 1).
Proof. exact mip_halves. Qed.
Print Assumptions C16_mip_halves.

Theorem C16_alpha_quantisation :
  forall a, a < 256 -> alpha_facts a = true.
Proof. exact alpha_quantisation. Qed.
Print Assumptions C16_alpha_quantisation.

Theorem C16_unpack_pack :
  forall bits per, 0 < bits -> (0 < per)%nat -> forall fuel l,
    (length l <= fuel)%nat -> Forall (fun v => v < 2 ^ bits) l ->
    unpack bits per (length l) (pack fuel bits per l) = l.
Proof. exact unpack_pack. Qed.
Print Assumptions C16_unpack_pack.

Theorem C16_pack_length :
  forall bits per, (0 < per)%nat -> forall fuel l, (length l <= fuel)%nat ->
    length (pack fuel bits per l) = ((length l + per - 1) / per)%nat.
Proof. exact pack_length. Qed.
Print Assumptions C16_pack_length.

Theorem C16_layout_disjoint :
  forall sizes base i j oi si oj sj,
    (i < j)%nat -> nth_error (layout_offsets base sizes) i = Some (oi, si) -> nth_error (layout_offsets base sizes) j = Some (oj, sj) ->
    base <= oi /\ oi + si <= oj /\ oj + sj <= base + fold_right N.add 0 sizes.
Proof. exact layout_disjoint. Qed.
Print Assumptions C16_layout_disjoint.
