(* Model of wow-mpq/src/single_archive_parallel.rs: extract_with_config (both paths),
   ParallelArchive::extract_files_parallel / extract_files_batched, with the thread pool
   abstracted to "index-tagged tasks executed in any order, results placed by index".
   A task is a function of (archive bytes, name) only - every task opens its own handle. *)
From Coq Require Export NArith List Bool Arith.
Export ListNotations.

Section Extract.
  Variable name : Type.
  Variable data : Type.
  Variable read : name -> option data.     (* sequential read_file on a fresh handle: None = error *)

  (* slice::chunks(n), n >= 1 *)
  Fixpoint chunks_fuel (fuel n : nat) (l : list name) : list (list name) :=
    match fuel with
    | O => []
    | S f => match l with
             | [] => []
             | _ => firstn n l :: chunks_fuel f n (skipn n l)
             end
    end.
  Definition chunks (n : nat) (l : list name) : list (list name) := chunks_fuel (length l) n l.

  (* one slot *)
  Definition slot (x : name) : name * option data := (x, read x).

  (* Result<Vec<_>> from an iterator of Results: all Ok, or an error *)
  Fixpoint all_ok (l : list (name * option data)) : bool :=
    match l with
    | [] => true
    | (_, Some _) :: r => all_ok r
    | (_, None) :: _ => false
    end.

  (* one batch with its own handle *)
  Definition batch (skip : bool) (c : list name) : option (list (name * option data)) :=
    let r := map slot c in
    if skip then Some r else if all_ok r then Some r else None.

  Fixpoint collect_batches (bs : list (option (list (name * option data)))) : option (list (name * option data)) :=
    match bs with
    | [] => Some []
    | None :: _ => None
    | Some b :: r => match collect_batches r with Some t => Some (b ++ t) | None => None end
    end.

  Definition effective_batch (len threads batch_size : nat) : nat :=
    if Nat.ltb 5000 len then Nat.max batch_size (Nat.div len (threads * 2)) else batch_size.

  (* extract_with_config: None = the call fails as a whole *)
  Definition extract (skip : bool) (threads batch_size : nat) (names : list name) : option (list (name * option data)) :=
    if Nat.ltb 1000 (length names) then
      collect_batches (map (batch skip) (chunks (effective_batch (length names) threads batch_size) names))
    else
      let r := map slot names in
      if skip then Some r else if all_ok r then Some r else None.

  (* the specification: one result per requested name, in request order, each what a
     sequential read returns; without skipping a failing name fails the call *)
  Definition spec (skip : bool) (names : list name) : option (list (name * option data)) :=
    let r := map slot names in
    if skip then Some r else if all_ok r then Some r else None.
End Extract.

(* ---- scheduling: tasks run in any order, results are placed by index ------------------ *)
Section Sched.
  Variable R : Type.
  Variable task : nat -> R.

  (* slots as an association list index -> result; executing task i writes slot i *)
  Definition exec (slots : list (nat * R)) (i : nat) : list (nat * R) := (i, task i) :: slots.

  Fixpoint find_slot (slots : list (nat * R)) (i : nat) : option R :=
    match slots with
    | [] => None
    | (j, r) :: t => if Nat.eqb i j then Some r else find_slot t i
    end.

  (* run a schedule (any order, repetitions allowed), then read slots 0..k-1 *)
  Definition run_schedule (sched : list nat) (k : nat) : list (option R) :=
    let slots := fold_left exec sched [] in
    map (find_slot slots) (seq 0 k).
End Sched.
