(* Model of wow-mpq/src/crypto/jenkins.rs: one-at-a-time (64-bit state, BET) and
   hashlittle2 (HET), transcribed branch by branch, plus a reference form of
   lookup3's hashlittle2 written from Bob Jenkins' description. *)
From WR Require Export Lib.Bits Gen.Consts Mpq.Crypt.
Open Scope N_scope.

(* ---- one-at-a-time, u64 state --------------------------------------------- *)
Fixpoint oaat_loop (cs : list N) (h : N) : N :=
  match cs with
  | [] => h
  | ch :: r =>
    let h1 := add64 h ch in
    let h2 := add64 h1 (shl64 h1 10) in
    let h3 := N.lxor h2 (shr64 h2 6) in
    oaat_loop r h3
  end.

Definition jenkins_one_at_a_time (name : list N) : N :=
  let h := oaat_loop (map norm_lower name) 0 in
  let h1 := add64 h (shl64 h 3) in
  let h2 := N.lxor h1 (shr64 h1 11) in
  add64 h2 (shl64 h2 15).

(* ---- hashlittle2, implementation shaped ------------------------------------ *)
Definition mix (a b c : N) : N * N * N :=
  let a := sub32 a c in let a := N.lxor a (rotl32 c 4) in let c := add32 c b in
  let b := sub32 b a in let b := N.lxor b (rotl32 a 6) in let a := add32 a c in
  let c := sub32 c b in let c := N.lxor c (rotl32 b 8) in let b := add32 b a in
  let a := sub32 a c in let a := N.lxor a (rotl32 c 16) in let c := add32 c b in
  let b := sub32 b a in let b := N.lxor b (rotl32 a 19) in let a := add32 a c in
  let c := sub32 c b in let c := N.lxor c (rotl32 b 4) in let b := add32 b a in
  (a, b, c).

Definition final (a b c : N) : N * N * N :=
  let c := N.lxor c b in let c := sub32 c (rotl32 b 14) in
  let a := N.lxor a c in let a := sub32 a (rotl32 c 11) in
  let b := N.lxor b a in let b := sub32 b (rotl32 a 25) in
  let c := N.lxor c b in let c := sub32 c (rotl32 b 16) in
  let a := N.lxor a c in let a := sub32 a (rotl32 c 4) in
  let b := N.lxor b a in let b := sub32 b (rotl32 a 14) in
  let c := N.lxor c b in let c := sub32 c (rotl32 b 24) in
  (a, b, c).

Definition le4 (k : list N) (i : nat) : N :=
  le_value [nth i k 0; nth (i + 1) k 0; nth (i + 2) k 0; nth (i + 3) k 0].
Definition le2 (k : list N) (i : nat) : N := le_value [nth i k 0; nth (i + 1) k 0].

(* the `match remaining` of the Rust code, on the zero-padded last block *)
Definition tail_add (lb : list N) (remaining : nat) (a b c : N) : N * N * N :=
  match remaining with
  | 12%nat => (add32 a (le4 lb 0), add32 b (le4 lb 4), add32 c (le4 lb 8))
  | 11%nat => (add32 a (le4 lb 0), add32 b (le4 lb 4),
           add32 (add32 c (shl32 (nth 10 lb 0) 16)) (le2 lb 8))
  | 10%nat => (add32 a (le4 lb 0), add32 b (le4 lb 4), add32 c (le2 lb 8))
  | 9%nat => (add32 a (le4 lb 0), add32 b (le4 lb 4), add32 c (nth 8 lb 0))
  | 8%nat => (add32 a (le4 lb 0), add32 b (le4 lb 4), c)
  | 7%nat => (add32 a (le4 lb 0), add32 (add32 b (shl32 (nth 6 lb 0) 16)) (le2 lb 4), c)
  | 6%nat => (add32 a (le4 lb 0), add32 b (le2 lb 4), c)
  | 5%nat => (add32 a (le4 lb 0), add32 b (nth 4 lb 0), c)
  | 4%nat => (add32 a (le4 lb 0), b, c)
  | 3%nat => (add32 (add32 a (shl32 (nth 2 lb 0) 16)) (le2 lb 0), b, c)
  | 2%nat => (add32 a (le2 lb 0), b, c)
  | 1%nat => (add32 a (nth 0 lb 0), b, c)
  | _ => (a, b, c)
  end.

(* while k.len() > 12 { add three words; mix; k = &k[12..] } ; fuel = length *)
Fixpoint hl2_blocks (fuel : nat) (k : list N) (a b c : N) : list N * (N * N * N) :=
  match fuel with
  | O => (k, (a, b, c))
  | S f =>
    if Nat.ltb 12 (length k) then
      let '(a', b', c') := mix (add32 a (le4 k 0)) (add32 b (le4 k 4)) (add32 c (le4 k 8)) in
      hl2_blocks f (skipn 12 k) a' b' c'
    else (k, (a, b, c))
  end.

(* returns (pc, pb) = (c, b) *)
Definition hashlittle2 (key : list N) (pc pb : N) : N * N :=
  let a0 := add32 (add32 3735928559 (w32 (lenN key))) pc in
  let '(k, (a, b, c)) := hl2_blocks (length key) key a0 a0 (add32 a0 pb) in
  let remaining := length k in
  let lb := firstn 12 (k ++ repeatN 0 12) in
  let '(a, b, c) := if Nat.ltb 0 remaining then tail_add lb remaining a b c else (a, b, c) in
  let '(a, b, c) := if is_nil k then (a, b, c) else final a b c in
  (c, b).

(* jenkins_hashlittle2(filename, hash_bits) -> (file_name_hash, name_hash1).
   For hash_bits = 0 the Rust code underflows `hash_bits - 1` (debug panic); the
   model returns None there.  The `<< hash_bits` with hash_bits >= 64 is guarded
   by the `if`. *)
Definition het_hash (name : list N) (hash_bits : N) : option (N * N) :=
  let normalized := map norm name in
  let '(secondary, primary) := hashlittle2 normalized 2 1 in
  let full := N.lor (N.shiftl primary 32) secondary in
  if hash_bits <? 64 then
    if hash_bits <? 8 then None   (* hash_bits - 8 underflows (and hash_bits - 1 for 0) *)
    else
      let and_mask := N.shiftl 1 hash_bits - 1 in
      let or_mask := N.shiftl 1 (hash_bits - 1) in
      let h := N.lor (N.land full and_mask) or_mask in
      Some (h, N.land (N.shiftr h (hash_bits - 8)) 255)
  else Some (full, N.land (N.shiftr full 56) 255).

(* ---- reference hashlittle2 (lookup3.c, little-endian byte-wise reading) -----
   a = b = c = 0xdeadbeef + length + *pc ; c += *pb
   while (length > 12) { a += k[0..3]; b += k[4..7]; c += k[8..11]; mix; length -= 12; k += 12 }
   last block: the switch adds the remaining bytes at their little-endian
   positions, i.e. adds the zero-padded words; case 0 returns without final(). *)
Definition padded_word (k : list N) (i : nat) : N :=
  le_value (firstn 4 (skipn i k ++ [0; 0; 0; 0])).

Fixpoint ref_hl2_loop (fuel : nat) (k : list N) (a b c : N) : N * N :=
  match fuel with
  | O => (c, b)
  | S f =>
    if Nat.ltb 12 (length k) then
      let '(a', b', c') :=
        mix ((a + padded_word k 0) mod M32) ((b + padded_word k 4) mod M32) ((c + padded_word k 8) mod M32) in
      ref_hl2_loop f (skipn 12 k) a' b' c'
    else
      match k with
      | [] => (c, b)
      | _ =>
        let '(_, b', c') :=
          final ((a + padded_word k 0) mod M32) ((b + padded_word k 4) mod M32) ((c + padded_word k 8) mod M32) in
        (c', b')
      end
  end.

Definition ref_hashlittle2 (key : list N) (pc pb : N) : N * N :=
  let a0 := (3735928559 + lenN key + pc) mod M32 in
  ref_hl2_loop (S (length key)) key a0 a0 ((a0 + pb) mod M32).

(* het_hash computed with the reference lookup3 instead of the transcribed code *)
Definition het_hash_ref (name : list N) (hash_bits : N) : option (N * N) :=
  let normalized := map ref_norm name in
  let '(secondary, primary) := ref_hashlittle2 normalized 2 1 in
  let full := primary * 4294967296 + secondary in
  if hash_bits <? 64 then
    if hash_bits <? 8 then None
    else
      let h := N.lor (full mod 2 ^ hash_bits) (2 ^ (hash_bits - 1)) in
      Some (h, (h / 2 ^ (hash_bits - 8)) mod 256)
  else Some (full, (full / 2 ^ 56) mod 256).

(* reference one-at-a-time (Bob Jenkins), 64-bit state, lower-cased backslash name *)
Definition ref_lower (c : N) : N := if (65 <=? c) && (c <=? 90) then c + 32 else c.
Definition ref_oaat (name : list N) : N :=
  let h := fold_left (fun h c =>
             let ch := ref_lower (if c =? 47 then 92 else c) in
             let h1 := (h + ch) mod M64 in
             let h2 := (h1 + h1 * 1024) mod M64 in
             N.lxor h2 (h2 / 64)) name 0 in
  let h1 := (h + h * 8) mod M64 in
  let h2 := N.lxor h1 (h1 / 2048) in
  (h2 + h2 * 32768) mod M64.
