(* Integrity metadata of MPQ archives: the byte string a weak signature signs
   (crypto/signature.rs: calculate_mpq_hash_md5), sign / verify around an abstract RSA
   primitive, and byte alteration.  Checksums (adler32, crc32) and the readers that
   validate them live in Archive.v. *)
From Coq Require Import List NArith Bool Lia.
From WR Require Import Lib.Bits Lib.Md5 Gen.Consts Mpq.Archive.
Import ListNotations.
Open Scope N_scope.

(* replaces the byte at index [off]; out-of-range offsets leave the list unchanged *)
Fixpoint alter (bs : list N) (off : nat) (v : N) : list N :=
  match bs, off with
  | [], _ => []
  | _ :: r, O => v :: r
  | x :: r, S k => x :: alter r k v
  end.

(* ---- what is hashed ------------------------------------------------------------------- *)
Record siginfo := { si_begin : N; si_end : N; si_exb : N; si_exe : N }.

(* SignatureInfo::new_weak *)
Definition new_weak (archive_start archive_size sig_pos sig_size : N) : siginfo :=
  {| si_begin := archive_start; si_end := archive_start + archive_size; si_exb := sig_pos; si_exe := sig_pos + sig_size |}.

(* bytes of [bs], whose first element sits at absolute position [base], with the
   positions in [lo, hi) replaced by zero *)
Definition zero_range (bs : list N) (base lo hi : N) : list N :=
  mapi (fun p x => if (lo <=? p) && (p <? hi) then 0 else x) base bs.

(* specification: the archive range with the signature area zeroed *)
Definition signed_view (bs : list N) (si : siginfo) : list N :=
  zero_range (slice bs (si_begin si) (si_end si - si_begin si)) (si_begin si) (si_exb si) (si_exe si).

Definition digest_unit : N := 65536.

(* one iteration of the 64 KiB loop: the chunk as it is fed to the hasher *)
Definition chunk_at (bs : list N) (si : siginfo) (cur : N) : list N :=
  let to_read := N.min (si_end si - cur) digest_unit in
  let raw := slice bs cur to_read in
  let chunk_end := cur + lenN raw in
  if (cur <? si_exe si) && (si_exb si <? chunk_end) then
    let s := if cur <? si_exb si then si_exb si - cur else 0 in
    let e := if si_exe si <? chunk_end then si_exe si - cur else lenN raw in
    mapi (fun i x => if (s <=? i) && (i <? e) then 0 else x) 0 raw
  else raw.

Fixpoint hash_chunks (fuel : nat) (bs : list N) (si : siginfo) (cur : N) : list (list N) :=
  match fuel with
  | O => []
  | S f =>
    if cur <? si_end si then
      match chunk_at bs si cur with
      | [] => []                                  (* EOF *)
      | c => c :: hash_chunks f bs si (cur + lenN c)
      end
    else []
  end.

(* the loop needs at most one iteration per byte *)
Definition hashed_stream (bs : list N) (si : siginfo) : list N :=
  concat (hash_chunks (S (length bs)) bs si (si_begin si)).

Definition mpq_hash_md5 (bs : list N) (si : siginfo) : list N := md5 (hashed_stream bs si).

(* ---- PKCS#1 v1.5 block for MD5, 64 bytes ---------------------------------------------------- *)
Definition md5_digest_info : list N := [48; 32; 48; 12; 6; 8; 42; 134; 72; 134; 247; 13; 2; 5; 5; 0; 4; 16].
Definition pkcs1_pad (h : list N) : list N :=
  [0; 1] ++ repeat 255 (64 - length md5_digest_info - length h - 3) ++ [0] ++ md5_digest_info ++ h.

Section Rsa.
  (* the RSA primitive on 64-byte big-endian blocks, public and private direction, and the digest *)
  Variable rsa_pub rsa_priv : list N -> list N.
  Variable H : list N -> list N.

  (* generate_weak_signature: the 72-byte (signature) file *)
  Definition weak_sign (bs : list N) (si : siginfo) : list N :=
    repeat 0 8 ++ rev (rsa_priv (pkcs1_pad (H (hashed_stream bs si)))).

  (* parse_weak_signature *)
  Definition parse_weak (file : list N) : option (list N) :=
    if lenN file <? 72 then None
    else let s := firstn 64 (skipn 8 file) in
         if forallb (N.eqb 0) s then None else Some s.

  (* verify_weak_signature_stormlib *)
  Definition weak_verify (bs : list N) (sig : list N) (si : siginfo) : bool :=
    list_eqb (rsa_pub (rev sig)) (pkcs1_pad (H (hashed_stream bs si))).
End Rsa.
