(* Model of wow-mpq/src/patch/{header,apply}.rs and compression/algorithms/rle.rs:
   PTCH container parsing, COPY and BSD0 patch application with both digest checks.
   usize arithmetic is unbounded N; the two additions of untrusted 64-bit fields that
   can overflow a 64-bit usize are checked (error) since the fix: commit; PPanic is kept
   as an outcome class for the correspondence. *)
From WR Require Export Lib.Bits Lib.Codec Lib.Md5 Gen.Consts.
Open Scope N_scope.

Inductive pres (A : Type) := POk (a : A) | PErr | PPanic.
Arguments POk {A} a.
Arguments PErr {A}.
Arguments PPanic {A}.

Definition PTCH_SIG : N := ptch_sig.
Definition MD5_SIG : N := ptch_md5_sig.
Definition XFRM_SIG : N := ptch_xfrm_sig.
Definition COPY_MAGIC : N := ptch_copy_magic.
Definition BSD0_MAGIC : N := ptch_bsd0_magic.
Definition BSDIFF40 : N := ptch_bsdiff40.

Inductive ptype := PCopy | PBsd0.

Record patch := {
  p_data_size : N; p_before : N; p_after : N;
  p_md5_before : list N; p_md5_after : list N;
  p_type : ptype; p_data : list N
}.

Definition u32_at (bs : list N) (off : nat) : N := le_value (firstn 4 (skipn off bs)).
Definition u64_at (bs : list N) (off : nat) : N := le_value (firstn 8 (skipn off bs)).

(* PatchFile::parse *)
Definition parse_patch (bs : list N) : option patch :=
  if Nat.ltb (length bs) 64 then None
  else if Nat.ltb (length bs) 68 then None            (* the cursor runs out inside the XFRM block *)
  else if negb (u32_at bs 0 =? PTCH_SIG) then None
  else if negb (u32_at bs 16 =? MD5_SIG) then None
  else if negb (u32_at bs 20 =? ptch_md5_block) then None
  else if negb (u32_at bs 56 =? XFRM_SIG) then None
  else
    let ty := u32_at bs 64 in
    if ty =? COPY_MAGIC then
      Some {| p_data_size := u32_at bs 4; p_before := u32_at bs 8; p_after := u32_at bs 12;
              p_md5_before := firstn 16 (skipn 24 bs); p_md5_after := firstn 16 (skipn 40 bs);
              p_type := PCopy; p_data := skipn 68 bs |}
    else if ty =? BSD0_MAGIC then
      Some {| p_data_size := u32_at bs 4; p_before := u32_at bs 8; p_after := u32_at bs 12;
              p_md5_before := firstn 16 (skipn 24 bs); p_md5_after := firstn 16 (skipn 40 bs);
              p_type := PBsd0; p_data := skipn 68 bs |}
    else None.

(* ---- rle::decompress(compressed, size, skip_header = true) -------------------------- *)
(* output buffer of exactly `size` zero bytes, filled left to right *)
Fixpoint rle_loop (fuel : nat) (src : list N) (room : nat) : list N :=
  match fuel with
  | O => repeat 0 room
  | S f =>
    match src, room with
    | [], _ => repeat 0 room
    | _, O => []
    | b :: r, _ =>
      if 128 <=? b then
        let n := N.to_nat (b - 128 + 1) in
        let lit := firstn (Nat.min n room) r in       (* stops at the end of either buffer *)
        lit ++ rle_loop f (skipn (length lit) r) (room - length lit)
      else
        let n := Nat.min (N.to_nat (b + 1)) room in   (* skipped bytes stay zero; dst may pass the end *)
        repeat 0 n ++ rle_loop f r (room - n)
    end
  end.

Definition rle_decompress (data : list N) (size : N) : option (list N) :=
  if Nat.ltb (length data) 4 then None
  else if lenN (skipn 4 data) * 128 <? size then None      (* a declared size the stream cannot produce (repair 6d20f91) *)
  else Some (rle_loop (S (length data)) (skipn 4 data) (N.to_nat size)).

(* ---- BSD0 control loop --------------------------------------------------------------- *)
Definition add_bytes (a b : list N) : list N :=   (* wrapping_add, pairwise over the shorter of b *)
  (fix go (a b : list N) :=
     match a, b with
     | x :: a', y :: b' => (x + y) mod 256 :: go a' b'
     | _, _ => a
     end) a b.

Fixpoint bsd_loop (n : nat) (ctrl data extra base : list N)
         (new_off old_off new_size : N) (acc : list N) : option (list N * N) :=
  match n with
  | O => Some (acc, new_off)
  | S k =>
    let add_len := u32_at ctrl 0 in
    let mov_len := u32_at ctrl 4 in
    let raw := u32_at ctrl 8 in
    if new_size <? new_off + add_len then None
    else if lenN data <? add_len then None
    else
      let chunk := firstn (N.to_nat add_len) data in
      let combine := if lenN base <=? old_off + add_len then lenN base - old_off else add_len in
      let mixed := add_bytes chunk (firstn (N.to_nat combine) (skipn (N.to_nat old_off) base)) in
      let new_off1 := new_off + add_len in
      let old_off1 := old_off + add_len in
      if new_size <? new_off1 + mov_len then None
      else if lenN extra <? mov_len then None
      else
        let moved := firstn (N.to_nat mov_len) extra in
        let old_off2 :=
          if 2147483648 <=? raw then old_off1 - ((2147483648 + M32 - raw) mod M32)   (* saturating_sub *)
          else old_off1 + raw in
        bsd_loop k (skipn 12 ctrl) (skipn (N.to_nat add_len) data) (skipn (N.to_nat mov_len) extra) base
                 (new_off1 + mov_len) old_off2 new_size (acc ++ mixed ++ moved)
  end.

Definition apply_bsd0 (p : patch) (base : list N) : pres (list N) :=
  if negb (lenN base =? p_before p) then PErr
  else
    match rle_decompress (p_data p) (p_data_size p) with
    | None => PErr
    | Some bs =>
      if Nat.ltb (length bs) 32 then PErr
      else if negb (u64_at bs 0 =? BSDIFF40) then PErr
      else
        let ctrl_sz := u64_at bs 8 in
        let data_sz := u64_at bs 16 in
        let new_sz := u64_at bs 24 in
        if negb (new_sz =? p_after p) then PErr
        else if M64 <=? 32 + ctrl_sz then PErr          (* checked_add (was an overflow panic before the repair) *)
        else if M64 <=? 32 + ctrl_sz + data_sz then PErr
        else if lenN bs <? 32 + ctrl_sz + data_sz then PErr
        else
          let ctrl := firstn (N.to_nat ctrl_sz) (skipn 32 bs) in
          let data := firstn (N.to_nat data_sz) (skipn (32 + N.to_nat ctrl_sz) bs) in
          let extra := skipn (32 + N.to_nat ctrl_sz + N.to_nat data_sz) bs in
          match bsd_loop (N.to_nat (ctrl_sz / 12)) ctrl data extra base 0 0 new_sz [] with
          | None => PErr
          | Some (out, off) => if off =? new_sz then POk out else PErr
          end
    end.

Definition apply_copy (p : patch) (base : list N) : pres (list N) :=
  if negb (lenN base =? p_before p) then PErr
  else if negb (lenN (p_data p) =? p_after p) then PErr
  else POk (p_data p).

Section Digest.
  Variable digest : list N -> list N.

  (* patch::apply_patch: verify_base; transform; verify_patched *)
  Definition apply_patch_with (p : patch) (base : list N) : pres (list N) :=
    if negb (list_eqb (digest base) (p_md5_before p)) then PErr
    else
      match (match p_type p with PCopy => apply_copy p base | PBsd0 => apply_bsd0 p base end) with
      | POk out => if list_eqb (digest out) (p_md5_after p) then POk out else PErr
      | PErr => PErr
      | PPanic => PPanic
      end.
End Digest.

Definition apply_patch := apply_patch_with md5.

(* writer for test patches (COPY) - the inverse direction used by the generator *)
Definition make_copy_patch (base new : list N) : list N :=
  le_bytes 4 PTCH_SIG ++ le_bytes 4 (lenN new) ++ le_bytes 4 (lenN base) ++ le_bytes 4 (lenN new)
  ++ le_bytes 4 MD5_SIG ++ le_bytes 4 40 ++ md5 base ++ md5 new
  ++ le_bytes 4 XFRM_SIG ++ le_bytes 4 (12 + lenN new) ++ le_bytes 4 COPY_MAGIC ++ new.
