(* Model of the table side of wow-mpq/src/modification.rs (MutableArchive): lookup with
   tombstones (find_file_entry), removal (EMPTY_DELETED marker), insertion into the first
   never-used or deleted slot (add_to_hash_table), rename; and the specification the
   property compares against: a plain name -> bytes map. *)
From WR Require Export Mpq.Archive.
Open Scope N_scope.

(* ---- specification: a persistent map keyed by folded names ----------------------------- *)
Definition skey := list N.        (* name folded with Crypt.norm *)
Definition smap := list (skey * list N).

Fixpoint sget (m : smap) (k : skey) : option (list N) :=
  match m with
  | [] => None
  | (k', v) :: r => if list_eqb k' k then Some v else sget r k
  end.
Fixpoint sdel (m : smap) (k : skey) : smap :=
  match m with
  | [] => []
  | (k', v) :: r => if list_eqb k' k then sdel r k else (k', v) :: sdel r k
  end.
Definition sput (m : smap) (k : skey) (v : list N) : smap := (k, v) :: sdel m k.

Inductive mop :=
| MAdd (name : list N) (data : list N) (replace : bool)
| MRemove (name : list N)
| MRename (old new : list N)
| MCompact
| MFlush.

Definition fold_name (n : list N) : skey := map norm n.

(* (new map, operation succeeded) *)
Definition spec_step (m : smap) (o : mop) : smap * bool :=
  match o with
  | MAdd n d rep =>
    match sget m (fold_name n) with
    | Some _ => if rep then (sput m (fold_name n) d, true) else (m, false)
    | None => (sput m (fold_name n) d, true)
    end
  | MRemove n =>
    match sget m (fold_name n) with
    | Some _ => (sdel m (fold_name n), true)
    | None => (m, false)
    end
  | MRename o n =>
    match sget m (fold_name o), sget m (fold_name n) with
    | Some v, None => (sput (sdel m (fold_name o)) (fold_name n) v, true)
    | _, _ => (m, false)
    end
  | MCompact => (m, true)
  | MFlush => (m, true)
  end.

Fixpoint spec_run (m : smap) (ops : list mop) : smap * list bool :=
  match ops with
  | [] => (m, [])
  | o :: r => let '(m', ok) := spec_step m o in let '(m'', oks) := spec_run m' r in (m'', ok :: oks)
  end.

(* ---- hash table with tombstones ---------------------------------------------------------- *)
(* find_file_entry: skips deleted entries, stops at a never-used one or after one lap *)
Fixpoint mt_find_loop (fuel : nat) (t : list hentry) (size idx a b : N) : option (N * N) :=
  match fuel with
  | O => None
  | S f =>
    let e := nth (N.to_nat idx) t hempty in
    if (h_block e <? he_deleted) && (h_a e =? a) && (h_b e =? b) then Some (idx, h_block e)
    else if h_block e =? he_never_used then None
    else mt_find_loop f t size (N.land (idx + 1) (size - 1)) a b
  end.

Definition mt_find (t : list hentry) (name : list N) : option (N * N) :=
  let size := lenN t in
  if size =? 0 then None else
  mt_find_loop (length t) t size (N.land (hash_string name ht_table_offset) (size - 1))
               (hash_string name ht_name_a) (hash_string name ht_name_b).

(* add_to_hash_table: first never-used OR deleted slot; the code has no wrap guard, the
   model reports running out of fuel (a full table makes the real loop spin forever) *)
Fixpoint mt_add_loop (fuel : nat) (t : list hentry) (size idx a b blk : N) : option (list hentry) :=
  match fuel with
  | O => None
  | S f =>
    let e := nth (N.to_nat idx) t hempty in
    if he_deleted <=? h_block e then
      Some (set_nth t (N.to_nat idx) {| h_a := a; h_b := b; h_locale := 0; h_platform := 0; h_block := blk |})
    else mt_add_loop f t size (N.land (idx + 1) (size - 1)) a b blk
  end.

Definition mt_add (t : list hentry) (name : list N) (blk : N) : option (list hentry) :=
  let size := lenN t in
  mt_add_loop (S (length t)) t size (N.land (hash_string name ht_table_offset) (size - 1))
              (hash_string name ht_name_a) (hash_string name ht_name_b) blk.

(* remove_file: the slot keeps its hashes, block index becomes EMPTY_DELETED *)
Definition mt_remove (t : list hentry) (name : list N) : option (list hentry) :=
  match mt_find t name with
  | None => None
  | Some (idx, _) =>
    let e := nth (N.to_nat idx) t hempty in
    Some (set_nth t (N.to_nat idx) {| h_a := h_a e; h_b := h_b e; h_locale := h_locale e; h_platform := h_platform e; h_block := he_deleted |})
  end.

(* rename_file on the table: delete the old slot, insert the new name with the same block *)
Definition mt_rename (t : list hentry) (old new : list N) : option (list hentry) :=
  match mt_find t old, mt_find t new with
  | Some (idx, blk), None =>
    match mt_remove t old with
    | Some t' => mt_add t' new blk
    | None => None
    end
  | _, _ => None
  end.
