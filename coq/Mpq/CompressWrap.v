(* Model of wow-mpq compression/compress.rs::compress (store-raw rule, method-byte
   prefix), security.rs limit logic (validate_decompression_operation and what it
   calls) and the size checks of decompress.rs.  External codecs (zlib, bzip2, LZMA,
   PKWare, Huffman, ADPCM) are a Section parameter: the wrapper's decisions are
   modelled, the codecs' internals are not. *)
From WR Require Export Lib.Bits Gen.Consts Mpq.Sparse.
Open Scope N_scope.

(* ---- limits ------------------------------------------------------------------------ *)
Definition MiB : N := 1048576.
Definition max_decompressed : N := sec_max_decompressed_mib * MiB.
Definition max_session : N := sec_max_session_mib * MiB.

Definition clampN (lo hi x : N) : N := if x <? lo then lo else if hi <? x then hi else x.

(* AdaptiveCompressionLimits::calculate_limit (enabled) with base = default ratio *)
Definition adaptive_limit (c m : N) : N :=
  let base := sec_max_ratio in
  let size_based :=
    if c <=? ad_band1 then base * ad_mul1
    else if c <=? ad_band2 then base * ad_mul2
    else if c <=? ad_band3 then base * ad_mul3
    else if c <=? ad_band4 then base
    else base / ad_div5 in
  let method_based :=
    if m =? 2 then size_based * ad_zlib_mul
    else if m =? 16 then size_based * ad_bzip2_mul
    else if m =? 18 then size_based * ad_lzma_mul
    else if m =? 32 then size_based / ad_sparse_div
    else if m =? 8 then size_based
    else if m =? 1 then size_based / ad_huffman_div
    else if (m =? 64) || (m =? 128) then size_based * ad_adpcm_mul
    else size_based in
  clampN ad_clamp_lo ad_clamp_hi method_based.

(* validate_file_bounds(0, n, c, u64::MAX, limits with ratio r) *)
Definition file_bounds_ok (r c n : N) : bool :=
  negb (c =? 0) && (n <=? max_decompressed)
  && negb ((0 <? n) && (0 <? c) && (r <? n / c)).

(* detect_compression_bomb_patterns(c, n, m, None, default limits) *)
Definition patterns_ok (c n m : N) : bool :=
  let maxr := adaptive_limit c m in
  negb ((0 <? n) && (0 <? c) && (maxr <? n / c))
  && negb ((c <? sec_tiny_c) && (sec_tiny_n_mib * MiB <? n))
  && negb ((sec_multi_threshold <? m) && (0 <? n) && (0 <? c) && (maxr / 2 <? n / c)).

(* validate_decompression_operation with a fresh session tracker and default limits
   (after the fix: commit the bounds check uses max(adaptive, base) as its ratio) *)
Definition validate_op (c n m : N) : bool :=
  (n <=? max_session)
  && file_bounds_ok (N.max (adaptive_limit c m) sec_max_ratio) c n
  && patterns_ok c n m.

(* the same with the flat limit first, as the code was before the repair *)
Definition validate_op_old (c n m : N) : bool :=
  (n <=? max_session) && file_bounds_ok sec_max_ratio c n && patterns_ok c n m.

(* validate_decompression_result(expected, actual, tolerance%) *)
Definition result_size_ok (expected actual : N) : bool :=
  if expected =? 0 then true
  else
    let tol := expected * sec_result_tolerance / 100 in
    ((expected - tol) <=? actual) && (actual <=? expected + tol).

Section Wrapper.
  (* compress_internal for a method byte: None = the codec reported an error *)
  Variable inner_compress : N -> list N -> option (list N).
  (* algorithm dispatch of decompress_with_monitor: method, data, expected size *)
  Variable inner_decompress : N -> list N -> N -> option (list N).

  (* compress.rs::compress *)
  Definition compress (data : list N) (method : N) : option (list N) :=
    match inner_compress method data with
    | None => None
    | Some c => if lenN data <=? 1 + lenN c then Some data else Some (method :: c)
    end.

  (* decompress.rs::decompress (= decompress_secure with fresh tracker, default limits) *)
  Definition decompress (data : list N) (method size : N) : option (list N) :=
    match data with
    | [] => None
    | _ =>
      if negb (validate_op (lenN data) size method) then None
      else
        let maxsz := N.min size max_decompressed in
        if method =? 0 then (if lenN data <=? maxsz then Some data else None)
        else
          match inner_decompress method data size with
          | None => None
          | Some out =>
            if negb (lenN out <=? maxsz) then None
            else if result_size_ok size (lenN out) then Some out else None
          end
    end.
End Wrapper.
