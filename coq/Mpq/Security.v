(* Header admission (file-formats/archives/wow-mpq/src/security.rs: validate_header_security)
   with the default limits, over 32-bit fields; and the bounds check of counted arrays
   (offset + count * element size inside the file) used by the model-format parsers. *)
From Coq Require Import List NArith Bool.
From WR Require Import Gen.Consts.
Import ListNotations.
Open Scope N_scope.

Definition u32max : N := 4294967295.
Definition pow2b (n : N) : bool := negb (n =? 0) && (N.land n (n - 1) =? 0).

Record hdr := { h_sig : N; h_size : N; h_asize : N; h_ver : N; h_shift : N; h_hpos : N; h_bpos : N; h_hsize : N; h_bsize : N }.

(* 0 = accepted; otherwise the number of the first failing rule *)
Definition validate_header (h : hdr) : N :=
  if negb (h_sig h =? 441536589) then 1                                   (* "MPQ\x1A" *)
  else if negb ((sec_header_min <=? h_size h) && (h_size h <=? sec_header_max)) then 2
  else if (h_asize h =? 0) || (sec_max_archive_gib * 1073741824 <? h_asize h) then 3
  else if 4 <? h_ver h then 4
  else if sec_max_sector_shift <? h_shift h then 5
  else if h_asize h <=? h_hpos h then 6
  else if negb ((h_bsize h =? 0) && (h_bpos h =? h_asize h)) && (h_asize h <? h_bpos h) then 7
  else if sec_max_hash_entries <? h_hsize h then 8
  else if sec_max_block_entries <? h_bsize h then 9
  else if u32max <? h_hsize h * 16 then 10
  else if u32max <? h_bsize h * 16 then 11
  else if u32max <? h_hpos h + h_hsize h * 16 then 12
  else if N.min u32max (h_asize h + sec_table_tolerance) <? h_hpos h + h_hsize h * 16 then 13
  else if u32max <? h_bpos h + h_bsize h * 16 then 14
  else if N.min u32max (h_asize h + sec_table_tolerance) <? h_bpos h + h_bsize h * 16 then 15
  else if negb (pow2b (h_hsize h)) then 16
  else 0.

(* counted array inside a file of [len] bytes *)
Definition array_ok (len off count esize : N) : bool := off + count * esize <=? len.
