(* Byte-level model of wow-mpq's ArchiveBuilder (V1/V2, classic hash/block tables) and
   of Archive::open / find_file / read_file / list.  Transcribed from builder.rs
   (build, write_archive, write_file, add_to_hash_table, write_*_table, write_header),
   archive.rs (read_file, read_sectored_file, list), tables/hash.rs (find_file),
   special_files/{listfile,attributes}.rs.
   External codecs enter as functions (Section Codec); everything else is executable. *)
From WR Require Export Lib.Bits Lib.Codec Lib.Md5 Mpq.Crypt Gen.Consts.
Open Scope N_scope.

(* ---- checksums ---------------------------------------------------------------------- *)
Definition adler32 (bs : list N) : N :=
  let '(a, b) := fold_left (fun '(a, b) x => let a' := (a + x) mod 65521 in (a', (b + a') mod 65521)) bs (1, 0) in
  b * 65536 + a.

Fixpoint crc32_bits (n : nat) (c : N) : N :=
  match n with
  | O => c
  | S k => crc32_bits k (if N.odd c then N.lxor (N.shiftr c 1) 3988292384 else N.shiftr c 1)
  end.
Definition crc32 (bs : list N) : N :=
  N.lxor (fold_left (fun c x => crc32_bits 8 (N.lxor c x)) bs 4294967295) 4294967295.

(* ---- fixed names ------------------------------------------------------------------------ *)
Definition s_listfile : list N := [40;108;105;115;116;102;105;108;101;41].                      (* (listfile) *)
Definition s_attributes : list N := [40;97;116;116;114;105;98;117;116;101;115;41].            (* (attributes) *)
Definition s_hash_table : list N := [40;104;97;115;104;32;116;97;98;108;101;41].              (* (hash table) *)
Definition s_block_table : list N := [40;98;108;111;99;107;32;116;97;98;108;101;41].          (* (block table) *)
Definition CRLF : list N := [13; 10].

Definition key_hash_table : N := hash_string s_hash_table ht_file_key.
Definition key_block_table : N := hash_string s_block_table ht_file_key.

Definition has_flag (flags f : N) : bool := negb (N.land flags f =? 0).

(* ---- configuration ---------------------------------------------------------------------- *)
Record file_spec := { f_name : list N; f_data : list N; f_comp : N; f_enc : N }.   (* enc: 0 none, 1 key, 2 fix-key *)
Record cfg := { c_version : N; c_shift : N; c_listfile : bool; c_attrs : N; c_crc : bool; c_defcomp : N }.

Definition header_size (v : N) : N :=
  if v =? 1 then hdr_size_v1 else if v =? 2 then hdr_size_v2 else if v =? 3 then hdr_size_v3 else hdr_size_v4.
Definition sector_size (shift : N) : N := N.shiftl sector_base shift.

Fixpoint split_sectors (fuel : nat) (n : nat) (bs : list N) : list (list N) :=
  match fuel with
  | O => []
  | S f => match bs with
           | [] => []
           | _ => firstn n bs :: split_sectors f n (skipn n bs)
           end
  end.
Definition sectors (ssz : N) (bs : list N) : list (list N) := split_sectors (length bs) (N.to_nat ssz) bs.

(* calculate_file_key *)
Definition file_key (name : list N) (pos size : N) (fixk : bool) : N :=
  let base := hash_string name ht_file_key in
  if fixk then N.lxor (add32 base (w32 pos)) size else base.

(* running offsets of a list of blobs, starting at `start`: n+1 entries *)
Fixpoint offsets (start : N) (blobs : list (list N)) : list N :=
  match blobs with
  | [] => [start]
  | b :: r => start :: offsets (start + lenN b) r
  end.

Fixpoint mapi {A B} (f : N -> A -> B) (i : N) (l : list A) : list B :=
  match l with [] => [] | x :: r => f i x :: mapi f (i + 1) r end.

Section Codec.
  (* wow_mpq::compress(data, method): raw data back when compression does not pay,
     otherwise method byte + payload; None = the codec reported an error *)
  Variable compress : N -> list N -> option (list N).
  (* wow_mpq::decompress(payload, method byte, expected size) *)
  Variable decompress : N -> list N -> N -> option (list N).

  (* ---- builder.rs write_file ------------------------------------------------------------ *)
  (* result: bytes written at pos (including a trailing single-unit checksum / the CRC
     table), the compressed size recorded in the block table, the flags (without EXISTS) *)
  Definition compress_unit (method : N) (d : list N) : option (list N * bool) :=
    if (method =? 0) || is_nil d then Some (d, false)
    else match compress method d with
         | None => None
         | Some c => if list_eqb c d then Some (d, false) else Some (c, true)
         end.

  Fixpoint compress_sectors (method : N) (ss : list (list N)) : option (list (list N) * bool) :=
    match ss with
    | [] => Some ([], false)
    | s :: r =>
      match compress_unit method s, compress_sectors method r with
      | Some (c, b1), Some (cs, b2) => Some (c :: cs, b1 || b2)
      | _, _ => None
      end
    end.

  Definition enc_flags (enc : N) : N :=
    if enc =? 0 then 0 else if enc =? 1 then fl_encrypted else fl_encrypted + fl_fix_key.

  Definition write_file (ssz : N) (crc : bool) (f : file_spec) (pos : N) : option (list N * N * N) :=
    let data := f_data f in
    let n := lenN data in
    if n <=? ssz then
      (* single unit *)
      match compress_unit (f_comp f) data with
      | None => None
      | Some (c, shrunk) =>
        let flags := fl_single_unit + (if crc then fl_sector_crc else 0) + (if shrunk then fl_compress else 0) + enc_flags (f_enc f) in
        let key := file_key (f_name f) pos n (f_enc f =? 2) in
        let body := if f_enc f =? 0 then c else encrypt_data c key in
        Some (body ++ (if crc then bytes_of_u32 (adler32 data) else []), lenN body, flags)
      end
    else
      let ss := sectors ssz data in
      match compress_sectors (f_comp f) ss with
      | None => None
      | Some (cs, shrunk) =>
        let key := file_key (f_name f) pos n (f_enc f =? 2) in
        if negb shrunk then
          (* stored uncompressed: plain run of sectors, no offset table, no checksums *)
          let body := if f_enc f =? 0 then data
                      else concat (mapi (fun i s => encrypt_data s (add32 key i)) 0 ss) in
          Some (body, lenN body, enc_flags (f_enc f))
        else
          let nsec := lenN ss in
          let table_size := (nsec + 1) * 4 in
          let crc_size := if crc then nsec * 4 else 0 in
          let offs := offsets (table_size + crc_size) cs in
          let flags := (if crc then fl_sector_crc else 0) + fl_compress + enc_flags (f_enc f) in
          let offs_bytes := concat (map bytes_of_u32 offs) in
          let crc_bytes := if crc then concat (map (fun s => bytes_of_u32 (adler32 s)) ss) else [] in
          let table := if f_enc f =? 0 then offs_bytes
                       else bytes_of_words (encrypt_block offs (sub32 key 1)) in
          let body := if f_enc f =? 0 then concat cs
                      else concat (mapi (fun i s => encrypt_data s (add32 key i)) 0 cs) in
          Some (table ++ crc_bytes ++ body, table_size + lenN body, flags)
      end.

  (* ---- hash table: builder.rs add_to_hash_table, tables/hash.rs find_file -------------- *)
  Record hentry := { h_a : N; h_b : N; h_locale : N; h_platform : N; h_block : N }.
  Definition hempty : hentry := {| h_a := 0; h_b := 0; h_locale := 0; h_platform := 0; h_block := he_never_used |}.

  Fixpoint set_nth {A} (l : list A) (i : nat) (x : A) : list A :=
    match l, i with
    | [], _ => []
    | _ :: r, O => x :: r
    | y :: r, S k => y :: set_nth r k x
    end.

  Inductive ins_result := InsOk (t : list hentry) | InsDup | InsFuel.

  (* linear probing from table_offset & (size-1); no wrap guard in the builder *)
  Fixpoint ht_insert_loop (fuel : nat) (t : list hentry) (size idx a b blk : N) : ins_result :=
    match fuel with
    | O => InsFuel
    | S f =>
      let e := nth (N.to_nat idx) t hempty in
      if h_block e =? he_never_used then
        InsOk (set_nth t (N.to_nat idx) {| h_a := a; h_b := b; h_locale := 0; h_platform := 0; h_block := blk |})
      else if (h_a e =? a) && (h_b e =? b) && (h_locale e =? 0) then InsDup
      else ht_insert_loop f t size (N.land (idx + 1) (size - 1)) a b blk
    end.

  Definition ht_insert (t : list hentry) (name : list N) (blk : N) : ins_result :=
    let size := lenN t in
    ht_insert_loop (S (length t)) t size (N.land (hash_string name ht_table_offset) (size - 1))
                   (hash_string name ht_name_a) (hash_string name ht_name_b) blk.

  (* find_file(filename, locale 0): Some (hash index, block index) *)
  Fixpoint ht_find_loop (fuel : nat) (t : list hentry) (size idx a b : N) : option (N * N) :=
    match fuel with
    | O => None
    | S f =>
      let e := nth (N.to_nat idx) t hempty in
      if (h_a e =? a) && (h_b e =? b) && (h_block e <? he_deleted) then Some (idx, h_block e)
      else if h_block e =? he_never_used then None
      else ht_find_loop f t size (N.land (idx + 1) (size - 1)) a b
    end.

  Definition ht_find (t : list hentry) (name : list N) : option (N * N) :=
    let size := lenN t in
    if size =? 0 then None else
    ht_find_loop (length t) t size (N.land (hash_string name ht_table_offset) (size - 1))
                 (hash_string name ht_name_a) (hash_string name ht_name_b).

  Fixpoint next_pow2_loop (fuel : nat) (p n : N) : N :=
    match fuel with
    | O => p
    | S f => if n <=? p then p else next_pow2_loop f (2 * p) n
    end.
  Definition next_pow2 (n : N) : N := next_pow2_loop 40 1 n.

  (* ---- blocks and tables ------------------------------------------------------------------ *)
  Record bentry := { b_pos : N; b_csize : N; b_fsize : N; b_flags : N }.
  Definition bempty : bentry := {| b_pos := 0; b_csize := 0; b_fsize := 0; b_flags := 0 |}.

  Definition hentry_words (e : hentry) : list N :=
    [h_a e; h_b e; h_locale e + 65536 * h_platform e; h_block e].
  Definition bentry_words (e : bentry) : list N := [b_pos e; b_csize e; b_fsize e; b_flags e].

  Definition enc_table (ws : list N) (key : N) : list N := bytes_of_words (encrypt_block ws key).

  (* ---- builder.rs build + write_archive (V1 / V2) ------------------------------------------ *)
  Definition listfile_content (files : list file_spec) (attrs : bool) : list N :=
    concat (map (fun f => f_name f ++ CRLF) files) ++ s_listfile ++ CRLF
    ++ (if attrs then s_attributes ++ CRLF else []).

  (* path.rs normalize_mpq_path, applied by every add_file* call *)
  Definition normalize_name (n : list N) : list N := map (fun ch => if ch =? 47 then 92 else ch) n.
  Definition normalize_file (f : file_spec) : file_spec :=
    {| f_name := normalize_name (f_name f); f_data := f_data f; f_comp := f_comp f; f_enc := f_enc f |}.

  Definition pending (c : cfg) (files0 : list file_spec) : list file_spec :=
    let files := map normalize_file files0 in
    if c_listfile c
    then files ++ [{| f_name := s_listfile; f_data := listfile_content files (negb (c_attrs c =? 0));
                      f_comp := c_defcomp c; f_enc := 0 |}]
    else files.

  Definition hash_table_size (c : cfg) (npending : N) : N :=
    let count := npending + (if c_listfile c then 1 else 0) + (if c_attrs c =? 0 then 0 else 1) in
    next_pow2 (N.max (count * ht_load_factor) ht_min_size).

  Inductive bres := BOk (bytes : list N) | BErrDup | BErrCodec | BErrFuel.

  (* writes the files one after the other; returns body bytes, block entries, hash table *)
  Fixpoint write_files (ssz : N) (crc : bool) (fs : list file_spec) (pos blk : N)
           (ht : list hentry) : option (option (list N * list bentry * list hentry * list file_spec)) :=
    match fs with
    | [] => Some (Some ([], [], ht, []))
    | f :: r =>
      match write_file ssz crc f pos with
      | None => None
      | Some (bytes, csize, flags) =>
        match ht_insert ht (f_name f) blk with
        | InsOk ht' =>
          match write_files ssz crc r (pos + lenN bytes) (blk + 1) ht' with
          | Some (Some (rest, bs, ht'', done)) =>
            Some (Some (bytes ++ rest,
                        {| b_pos := w32 pos; b_csize := csize; b_fsize := lenN (f_data f); b_flags := flags + fl_exists |} :: bs,
                        ht'', f :: done))
          | other => other
          end
        | InsDup => Some None
        | InsFuel => Some None
        end
      end
    end.

  (* special_files/attributes.rs Attributes::to_bytes for CRC32-only attributes *)
  Definition attributes_bytes (files : list file_spec) : list N :=
    le_bytes 4 100 ++ le_bytes 4 1 ++ concat (map (fun f => le_bytes 4 (crc32 (f_data f))) files).

  Definition header_bytes (c : cfg) (archive_size hash_pos block_pos hsize bsize : N) : list N :=
    le_bytes 4 mpq_signature ++ le_bytes 4 (header_size (c_version c))
    ++ le_bytes 4 (N.min archive_size 4294967295)
    ++ le_bytes 2 (c_version c - 1) ++ le_bytes 2 (c_shift c)
    ++ le_bytes 4 (w32 hash_pos) ++ le_bytes 4 (w32 block_pos) ++ le_bytes 4 hsize ++ le_bytes 4 bsize
    ++ (if c_version c =? 1 then []
        else le_bytes 8 0 ++ le_bytes 2 (N.shiftr hash_pos 32) ++ le_bytes 2 (N.shiftr block_pos 32)).

  Definition build (c : cfg) (files : list file_spec) : bres :=
    let pend := pending c files in
    let hsize := hash_table_size c (lenN pend) in
    let ht0 := repeat hempty (N.to_nat hsize) in
    let hdr := header_size (c_version c) in
    match write_files (sector_size (c_shift c)) (c_crc c) pend hdr 0 ht0 with
    | None => BErrCodec
    | Some None => BErrDup
    | Some (Some (body, blocks, ht, done)) =>
      let pos1 := hdr + lenN body in
      (* generated (attributes): CRC32 only is modelled (FULL carries wall-clock times) *)
      let '(abytes, ablocks, ht1) :=
        if c_attrs c =? 1 then
          let ab := attributes_bytes done in
          match ht_insert ht s_attributes (lenN blocks) with
          | InsOk ht' => (ab, [{| b_pos := w32 pos1; b_csize := lenN ab; b_fsize := lenN ab; b_flags := fl_exists |}], ht')
          | _ => ([], [], [])
          end
        else ([], [], ht) in
      if is_nil ht1 then BErrDup else
      let hash_pos := pos1 + lenN abytes in
      let hbytes := enc_table (concat (map hentry_words ht1)) key_hash_table in
      let block_pos := hash_pos + lenN hbytes in
      let allblocks := blocks ++ ablocks in
      let bbytes := enc_table (concat (map bentry_words allblocks)) key_block_table in
      let archive_size := block_pos + lenN bbytes in
      BOk (header_bytes c archive_size hash_pos block_pos hsize (lenN allblocks)
           ++ body ++ abytes ++ hbytes ++ bbytes)
    end.

  (* ---- reader ---------------------------------------------------------------------------- *)
  Record archive := { a_bytes : list N; a_version : N; a_shift : N; a_hash : list hentry; a_blocks : list bentry }.

  (* offsets and lengths beyond the buffer select what is there (no unary blow-up on garbage fields) *)
  Definition slice (bs : list N) (off len : N) : list N :=
    let n := lenN bs in firstn (N.to_nat (N.min len n)) (skipn (N.to_nat (N.min off n)) bs).

  Fixpoint group4 (fuel : nat) (ws : list N) : list (list N) :=
    match fuel with
    | O => []
    | S f => match ws with
             | a :: b :: c :: d :: r => [a; b; c; d] :: group4 f r
             | _ => []
             end
    end.

  Definition dec_table (bs : list N) (count : N) (key : N) : list (list N) :=
    let ws := decrypt_block (words_of_bytes (N.to_nat (count * 4)) bs) key in
    group4 (N.to_nat count) ws.

  (* Archive::open for an archive starting at offset 0 *)
  Definition open (bs : list N) : option archive :=
    if lenN bs <? 32 then None
    else if negb (u32_of_bytes bs =? mpq_signature) then None
    else
      let ver := le_value (slice bs 12 2) + 1 in
      let shift := le_value (slice bs 14 2) in
      let hash_pos := le_value (slice bs 16 4) in
      let block_pos := le_value (slice bs 20 4) in
      let hsize := le_value (slice bs 24 4) in
      let bsize := le_value (slice bs 28 4) in
      if lenN bs <? hash_pos + hsize * 16 then None
      else if lenN bs <? block_pos + bsize * 16 then None
      else
        let ht := map (fun w => match w with
                                | [a; b; lp; blk] => {| h_a := a; h_b := b; h_locale := lp mod 65536; h_platform := lp / 65536; h_block := blk |}
                                | _ => hempty end)
                      (dec_table (skipn (N.to_nat hash_pos) bs) hsize key_hash_table) in
        let bt := map (fun w => match w with
                                | [p; cs; fs; fl] => {| b_pos := p; b_csize := cs; b_fsize := fs; b_flags := fl |}
                                | _ => bempty end)
                      (dec_table (skipn (N.to_nat block_pos) bs) bsize key_block_table) in
        Some {| a_bytes := bs; a_version := ver; a_shift := shift; a_hash := ht; a_blocks := bt |}.

  Inductive rres := ROk (data : list N) | RNotFound | RErr.

  Definition find_block (a : archive) (name : list N) : option bentry :=
    match ht_find (a_hash a) name with
    | None => None
    | Some (_, blk) =>
      match nth_error (a_blocks a) (N.to_nat blk) with
      | Some b => if has_flag (b_flags b) fl_exists then Some b else None
      | None => None
      end
    end.

  (* one sector of read_sectored_file; None where the library falls back to zeros *)
  Definition read_sector_opt (enc : bool) (key : N) (i : N) (raw : list N) (expected : N) (compressed : bool) : option (list N) :=
    let d := if enc then decrypt_file_data raw (add32 key i) else raw in
    if compressed && (lenN d <? expected) then
      match d with
      | [] => None
      | m :: payload => decompress m payload expected
      end
    else Some (firstn (N.to_nat (N.min expected (lenN d))) d).

  Definition read_sector (enc : bool) (key : N) (i : N) (raw : list N) (expected : N) (compressed : bool) : list N :=
    match read_sector_opt enc key i raw expected compressed with
    | Some o => o
    | None => repeat 0 (N.to_nat expected)          (* "Using zeros" recovery *)
    end.

  Fixpoint read_sectors (fuel : nat) (a : list N) (pos : N) (offs : list N) (enc : bool) (key i remaining ssz : N) (compressed : bool) : list N :=
    match fuel, offs with
    | S f, s :: ((e :: _) as rest) =>
      let expected := N.min remaining ssz in
      let out := if e <? s then repeat 0 (N.to_nat expected)
                 else read_sector enc key i (slice a (pos + s) (e - s)) expected compressed in
      out ++ read_sectors f a pos rest enc key (i + 1) (remaining - lenN out) ssz compressed
    | _, _ => []
    end.

  (* read_sectored_file with the checksum table ArchiveBuilder writes: ADLER32 of every uncompressed sector *)
  Fixpoint read_sectors_chk (fuel : nat) (a : list N) (pos : N) (offs crcs : list N) (enc : bool) (key i remaining ssz : N) : option (list N) :=
    match fuel, offs, crcs with
    | S f, s :: ((e :: _) as rest), k :: crest =>
      let expected := N.min remaining ssz in
      let out := if e <? s then repeat 0 (N.to_nat expected)
                 else read_sector enc key i (slice a (pos + s) (e - s)) expected true in
      if adler32 out =? k then
        match read_sectors_chk f a pos rest crest enc key (i + 1) (remaining - lenN out) ssz with
        | Some r => Some (out ++ r)
        | None => None
        end
      else None
    | S _, _, _ => None
    | O, _, _ => Some []
    end.

  (* read_sectored_file for a file that carries checksums which cannot be used: no zero recovery *)
  Fixpoint read_sectors_nr (fuel : nat) (a : list N) (pos : N) (offs : list N) (enc : bool) (key i remaining ssz : N) : option (list N) :=
    match fuel, offs with
    | S f, s :: ((e :: _) as rest) =>
      let expected := N.min remaining ssz in
      if e <? s then None else
      match read_sector_opt enc key i (slice a (pos + s) (e - s)) expected true with
      | None => None
      | Some out =>
        match read_sectors_nr f a pos rest enc key (i + 1) (remaining - lenN out) ssz with
        | Some r => Some (out ++ r)
        | None => None
        end
      end
    | S _, _ => None
    | O, _ => Some []
    end.

  (* Archive::read_file *)
  Definition read_file (a : archive) (name : list N) : rres :=
    match find_block a name with
    | None => RNotFound
    | Some b =>
      let fl := b_flags b in
      if has_flag fl fl_patch_file then RErr else
      let enc := has_flag fl fl_encrypted in
      let key := if enc then file_key name (b_pos b) (b_fsize b) (has_flag fl fl_fix_key) else 0 in
      let single := has_flag fl fl_single_unit in
      let compressed := has_flag fl fl_compress in
      let ssz := sector_size (a_shift a) in
      if lenN (a_bytes a) <? b_pos b + b_csize b then RErr else
      if single || negb compressed then
        let raw := slice (a_bytes a) (b_pos b) (b_csize b) in
        let data := if enc then
                      (if single then decrypt_file_data raw key
                       else concat (mapi (fun i s => decrypt_file_data s (add32 key i)) 0 (sectors ssz raw)))
                    else raw in
        (* single-unit checksum *)
        let crc_ok :=
          if has_flag fl fl_sector_crc && single then
            let stored := le_value (slice (a_bytes a) (b_pos b + b_csize b) 4) in
            if lenN (a_bytes a) <? b_pos b + b_csize b + 4 then None
            else
              let plain := if compressed then
                             match data with
                             | m :: payload => decompress m payload (b_fsize b)
                             | [] => None
                             end
                           else Some data in
              match plain with
              | Some p => if adler32 p =? stored then Some true else Some false
              | None => None
              end
          else Some true in
        match crc_ok with
        | None => RErr
        | Some false => RErr
        | Some true =>
          if compressed then
            if single then
              if lenN data =? b_fsize b then ROk data
              else match data with
                   | m :: payload => match decompress m payload (b_fsize b) with Some o => ROk o | None => RErr end
                   | [] => RErr
                   end
            else ROk data
          else
            ROk (if enc && (b_fsize b <? lenN data) then firstn (N.to_nat (b_fsize b)) data else data)
        end
      else
        (* multi-sector compressed file *)
        let nsec := (b_fsize b + ssz - 1) / ssz in
        let tbl_raw := slice (a_bytes a) (b_pos b) ((nsec + 1) * 4) in
        if lenN tbl_raw <? (nsec + 1) * 4 then RErr else
        let tbl := if enc then decrypt_file_data tbl_raw (sub32 key 1) else tbl_raw in
        let offs := words_of_bytes (N.to_nat (nsec + 1)) tbl in
        let first := nth 0 offs 0 in
        let last := nth (N.to_nat nsec) offs 0 in
        let tblsz := (nsec + 1) * 4 in
        let crcsz := nsec * 4 in
        if has_flag fl fl_sector_crc then
          let lib := (last =? b_csize b + crcsz) || ((first =? tblsz + crcsz) && (b_csize b <? last)) in
          let crc_raw := slice (a_bytes a) (b_pos b + tblsz) crcsz in
          if (lib || (tblsz + crcsz <=? first)) && (lenN crc_raw <? crcsz) then RErr else
          if lib then
            match read_sectors_chk (N.to_nat nsec) (a_bytes a) (b_pos b) offs (words_of_bytes (N.to_nat nsec) crc_raw) enc key 0 (b_fsize b) ssz with
            | Some d => ROk d
            | None => RErr
            end
          else
            match read_sectors_nr (N.to_nat nsec) (a_bytes a) (b_pos b) offs enc key 0 (b_fsize b) ssz with
            | Some d => ROk d
            | None => RErr
            end
        else
        ROk (read_sectors (N.to_nat nsec) (a_bytes a) (b_pos b) offs enc key 0 (b_fsize b) ssz true)
    end.

  (* ---- listfile ---------------------------------------------------------------------------- *)
  Definition is_ws (c : N) : bool := (c =? 32) || (c =? 9) || (c =? 13) || (c =? 10) || (c =? 11) || (c =? 12).
  Fixpoint ltrim (s : list N) : list N := match s with c :: r => if is_ws c then ltrim r else s | [] => [] end.
  Definition trim (s : list N) : list N := rev (ltrim (rev (ltrim s))).

  Fixpoint split_lines (bs : list N) (cur : list N) : list (list N) :=
    match bs with
    | [] => match cur with [] => [] | _ => [rev cur] end
    | c :: r => if c =? 10 then rev cur :: split_lines r [] else split_lines r (c :: cur)
    end.

  Fixpoint take_until_semicolon (s : list N) : list N :=
    match s with [] => [] | c :: r => if c =? 59 then [] else c :: take_until_semicolon r end.

  Definition parse_listfile (bs : list N) : list (list N) :=
    flat_map (fun line =>
                let l := trim line in
                match l with
                | [] => []
                | c :: _ =>
                  if (c =? 59) || (c =? 35) then []
                  else let n := trim (take_until_semicolon l) in
                       match n with [] => [] | _ => [n] end
                end) (split_lines bs []).

  (* Archive::list with a listfile: (name, size) of every listed name that resolves *)
  Definition list_files (a : archive) : option (list (list N * N)) :=
    match read_file a s_listfile with
    | ROk lf =>
      Some (flat_map (fun n => match find_block a n with Some b => [(n, b_fsize b)] | None => [] end) (parse_listfile lf))
    | _ => None
    end.
End Codec.
