(* Model of wow-mpq/src/rebuild.rs on top of the archive model: the file specs handed to
   the builder (extract_files_with_metadata + rebuild_with_files) and the summary. *)
From WR Require Export Mpq.Archive.
Open Scope N_scope.

Record ropts := { o_target : N;            (* 0 = keep the source version *)
                  o_comp : option N; o_shift : option N; o_skip_enc : bool; o_skip_sig : bool }.

Definition s_signature : list N := [40;115;105;103;110;97;116;117;114;101;41].   (* (signature) *)
Definition s_strong_signature : list N := [40;115;116;114;111;110;103;32;115;105;103;110;97;116;117;114;101;41].

Definition is_signature_name (n : list N) : bool := list_eqb n s_signature || list_eqb n s_strong_signature.

Section R.
  Variable decompress : N -> list N -> N -> option (list N).

  (* one listed entry -> the spec given to the builder, or None when it is filtered out or
     (silently!) when it cannot be read *)
  Definition respec (a : archive) (o : ropts) (name : list N) : option file_spec :=
    match find_block a name with
    | None => None
    | Some b =>
      let fl := b_flags b in
      if o_skip_sig o && is_signature_name name then None
      else if o_skip_enc o && has_flag fl fl_encrypted then None
      else
        match read_file decompress a name with
        | ROk d =>
          let comp := match o_comp o with Some c => c | None => if has_flag fl fl_compress then 2 else 0 end in
          let enc := if has_flag fl fl_encrypted then (if has_flag fl fl_fix_key then 2 else 1) else 0 in
          Some {| f_name := name; f_data := d; f_comp := comp; f_enc := enc |}
        | _ => None
        end
    end.

  Fixpoint filter_map {A B} (f : A -> option B) (l : list A) : list B :=
    match l with
    | [] => []
    | x :: r => match f x with Some y => y :: filter_map f r | None => filter_map f r end
    end.

  (* listed names of the source, in listfile order (Archive::list) *)
  Definition listed (a : archive) : list (list N) :=
    match list_files decompress a with Some l => map fst l | None => [] end.

  Definition rebuild_specs (a : archive) (o : ropts) : list file_spec :=
    filter_map (respec a o) (listed a).

  (* target configuration: version, block size; the listfile is carried over as an ordinary
     file when the source lists it, generated otherwise *)
  Definition rebuild_cfg (a : archive) (o : ropts) (specs : list file_spec) : cfg :=
    {| c_version := if o_target o =? 0 then a_version a else o_target o;
       c_shift := match o_shift o with Some s => s | None => a_shift a end;
       c_listfile := negb (existsb (fun f => list_eqb (f_name f) s_listfile) specs);
       c_attrs := 0; c_crc := false; c_defcomp := 2 |}.

  (* what "exactly the source's listed files except the excluded ones" means *)
  Definition excluded (a : archive) (o : ropts) (name : list N) : bool :=
    match find_block a name with
    | None => true
    | Some b => (o_skip_sig o && is_signature_name name) || (o_skip_enc o && has_flag (b_flags b) fl_encrypted)
    end.
End R.
