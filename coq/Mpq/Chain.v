(* Model of wow-mpq/src/patch_chain.rs: the ordered archive list, the first-wins file
   map and the operations add / remove / set_priority / clear / from_archives_parallel.
   An archive is abstracted to its identity (the path) and the set of (folded) names it
   lists with their contents; the tie between that abstraction and real archives is C01. *)
From Coq Require Export ZArith List Bool.
Export ListNotations.
Open Scope Z_scope.

Record entry := { e_id : Z; e_prio : Z }.

Definition chain := list entry.

(* position(|e| e.priority < priority).unwrap_or(len); insert there *)
Fixpoint insert_by_prio (c : chain) (e : entry) : chain :=
  match c with
  | [] => [e]
  | x :: r => if e_prio x <? e_prio e then e :: x :: r else x :: insert_by_prio r e
  end.

(* remove the first entry with that id *)
Fixpoint remove_first (c : chain) (id : Z) : chain * bool :=
  match c with
  | [] => ([], false)
  | x :: r => if e_id x =? id then (r, true) else let '(r', b) := remove_first r id in (x :: r', b)
  end.

Inductive op := Add (id prio : Z) | Remove (id : Z) | SetPrio (id prio : Z) | Clear.

Definition step (c : chain) (o : op) : chain :=
  match o with
  | Add id p => insert_by_prio c {| e_id := id; e_prio := p |}
  | Remove id => fst (remove_first c id)
  | SetPrio id p =>
    let '(c', found) := remove_first c id in
    if found then insert_by_prio c' {| e_id := id; e_prio := p |} else c
  | Clear => []
  end.

Definition run (ops : list op) : chain := fold_left step ops [].

(* from_archives_parallel: stable sort by descending priority (insertion sort that keeps
   the given order among equals is the same function as repeated add) *)
Definition from_parallel (l : list (Z * Z)) : chain :=
  fold_left (fun c '(id, p) => insert_by_prio c {| e_id := id; e_prio := p |}) l [].

(* ---- lookup ------------------------------------------------------------------------ *)
Section Lookup.
  (* which names an archive lists and what it holds for them: name -> content *)
  Variable holds : Z -> Z -> option Z.    (* archive id -> name key -> content id *)

  (* rebuild_file_map + read_file: the first archive in chain order that lists the name *)
  Fixpoint lookup (c : chain) (name : Z) : option (Z * Z) :=   (* (archive id, content) *)
    match c with
    | [] => None
    | x :: r => match holds (e_id x) name with
                | Some v => Some (e_id x, v)
                | None => lookup r name
                end
    end.
End Lookup.

(* sortedness: priorities never increase along the chain *)
Fixpoint sorted (c : chain) : Prop :=
  match c with
  | [] => True
  | x :: r => (match r with [] => True | y :: _ => e_prio y <= e_prio x end) /\ sorted r
  end.

(* ---- specification with explicit insertion stamps ----------------------------------- *)
(* every add / set_priority stamps the archive with a fresh, increasing number; the
   winner for a name is the holder with the greatest priority and, among those, the
   smallest stamp ("earliest added wins ties") *)
Record sentry := { s_id : Z; s_prio : Z; s_stamp : Z }.

Definition better (a b : sentry) : bool :=
  (s_prio b <? s_prio a) || ((s_prio a =? s_prio b) && (s_stamp a <? s_stamp b)).

Fixpoint sinsert (c : list sentry) (e : sentry) : list sentry :=
  match c with
  | [] => [e]
  | x :: r => if s_prio x <? s_prio e then e :: x :: r else x :: sinsert r e
  end.

Fixpoint sremove (c : list sentry) (id : Z) : list sentry * bool :=
  match c with
  | [] => ([], false)
  | x :: r => if s_id x =? id then (r, true) else let '(r', b) := sremove r id in (x :: r', b)
  end.

Definition sstep (st : list sentry * Z) (o : op) : list sentry * Z :=
  let '(c, n) := st in
  match o with
  | Add id p => (sinsert c {| s_id := id; s_prio := p; s_stamp := n |}, n + 1)
  | Remove id => (fst (sremove c id), n)
  | SetPrio id p =>
    let '(c', found) := sremove c id in
    if found then (sinsert c' {| s_id := id; s_prio := p; s_stamp := n |}, n + 1) else (c, n)
  | Clear => ([], n)
  end.

Definition srun (ops : list op) : list sentry * Z := fold_left sstep ops ([], 0).

Definition forget (c : list sentry) : chain := map (fun s => {| e_id := s_id s; e_prio := s_prio s |}) c.

(* strictly ordered by (priority desc, stamp asc) *)
Fixpoint sorder (c : list sentry) : Prop :=
  match c with
  | [] => True
  | x :: r => (match r with [] => True | y :: _ => better x y = true end) /\ sorder r
  end.
