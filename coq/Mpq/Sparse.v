(* Model of wow-mpq/src/compression/algorithms/sparse.rs (StormLib sparse codec),
   transcribed loop by loop; indices became list suffixes, loops became fuelled
   recursion (fuel = input length + 1; running out of fuel is reported). *)
From WR Require Export Lib.Bits.
Open Scope N_scope.

Inductive sres := SOk (out : list N) | SErr | SFuel.

(* ---- decompress ------------------------------------------------------------------ *)
Fixpoint sp_dec_loop (fuel : nat) (rest : list N) (remaining : N) : option (list N) :=
  match fuel with
  | O => None
  | S f =>
    match rest with
    | [] => Some []
    | b :: r =>
      if 128 <=? b then
        (* literal run of (b & 0x7F) + 1 bytes, clipped to what the input still has *)
        let n := (b - 128) + 1 in
        let have := lenN (firstn (N.to_nat n) r) in
        if have =? 0 then Some []                       (* `break` *)
        else
          let n2 := N.min have remaining in
          match sp_dec_loop f (skipn (N.to_nat n2) r) (remaining - n2) with
          | Some o => Some (firstn (N.to_nat n2) r ++ o)
          | None => None
          end
      else
        let n := N.min (b + 3) remaining in
        match sp_dec_loop f r (remaining - n) with
        | Some o => Some (repeat 0 (N.to_nat n) ++ o)
        | None => None
        end
    end
  end.

Definition be32 (bs : list N) : N :=
  match bs with
  | a :: b :: c :: d :: _ => a * 16777216 + b * 65536 + c * 256 + d
  | _ => 0
  end.

Definition sparse_decompress (data : list N) (expected : N) : sres :=
  if Nat.ltb (length (firstn 5 data)) 5 then SErr
  else
    let cb := be32 data in
    if expected <? cb then SErr
    else
      match sp_dec_loop (S (length data)) (skipn 4 data) cb with
      | Some o => SOk o
      | None => SFuel
      end.

(* ---- compress -------------------------------------------------------------------- *)

(* the inner `loop`: returns (bytes up to the last non-zero, zero count at the stop) *)
Fixpoint scan (l : list N) (idx lastnz zeros : nat) : nat * nat :=
  match l with
  | [] => (lastnz, zeros)
  | b :: r =>
    if b =? 0 then scan r (S idx) lastnz (S zeros)
    else if Nat.leb 3 zeros then (lastnz, zeros)
    else scan r (S idx) (S idx) O
  end.

(* while number_of_non_zeros > 0x81 { 0xFF + 0x80 bytes } *)
Fixpoint flush_big (fuel : nat) (l : list N) (nnz : nat) : list N * list N * nat :=
  match fuel with
  | O => ([], l, nnz)
  | S f =>
    if Nat.ltb 129 nnz then
      let '(o, l', n') := flush_big f (skipn 128 l) (nnz - 128) in
      (255 :: firstn 128 l ++ o, l', n')
    else ([], l, nnz)
  end.

Definition flush_nonzeros (l : list N) (nnz : nat) : list N * list N :=
  let '(o1, l1, n1) := flush_big (S nnz) l nnz in
  let '(o2, l2, n2) :=
    if Nat.ltb 128 n1 then ([128; hd 0 l1], tl l1, (n1 - 1)%nat) else ([], l1, n1) in
  if Nat.leb 1 n2
  then (o1 ++ o2 ++ (128 + N.of_nat (n2 - 1)) :: firstn n2 l2, skipn n2 l2)
  else (o1 ++ o2, l2).

(* while number_of_zeros > 0x85 { 0x7F ; -= 0x82 } *)
Fixpoint flush_zero_big (fuel : nat) (l : list N) (nz : nat) : list N * list N * nat :=
  match fuel with
  | O => ([], l, nz)
  | S f =>
    if Nat.ltb 133 nz then
      let '(o, l', n') := flush_zero_big f (skipn 130 l) (nz - 130) in
      (127 :: o, l', n')
    else ([], l, nz)
  end.

Definition flush_zeros (l : list N) (nz : nat) : list N * list N :=
  let '(o1, l1, n1) := flush_zero_big (S nz) l nz in
  let '(o2, l2, n2) :=
    if Nat.ltb 130 n1 then ([0], skipn 3 l1, (n1 - 3)%nat) else ([], l1, n1) in
  if Nat.leb 3 n2
  then (o1 ++ o2 ++ [N.of_nat (n2 - 3)], skipn n2 l2)
  else (o1 ++ o2, l2).

(* "Flush last three bytes" *)
Definition flush_last (l : list N) : list N :=
  match l with
  | [] => []
  | _ =>
    if existsb (fun b => negb (b =? 0)) l then
      (if Nat.leb (length l) 128 then 128 + N.of_nat (length l - 1) else 255) :: l
    else [127]
  end.

Fixpoint sp_main (fuel : nat) (l : list N) : option (list N) :=
  match fuel with
  | O => None
  | S f =>
    (* while pb_in_buffer < pb_in_buffer_end.saturating_sub(3) *)
    if Nat.ltb 3 (length (firstn 4 l)) then
      let '(nnz, nz) := scan l O O O in
      let '(o1, l1) := if Nat.eqb nnz 0 then ([], l) else flush_nonzeros l nnz in
      let '(o2, l2) := flush_zeros l1 nz in
      match sp_main f l2 with
      | Some o => Some (o1 ++ o2 ++ o)
      | None => None
      end
    else Some (flush_last l)
  end.

Definition be32_bytes (n : N) : list N :=
  [(n / 16777216) mod 256; (n / 65536) mod 256; (n / 256) mod 256; n mod 256].

Definition sparse_compress (data : list N) : option (list N) :=
  match sp_main (S (length data)) data with
  | Some o => Some (be32_bytes (lenN data) ++ o)
  | None => None
  end.

(* ---- token level description of the stream format (what the decoder accepts) ------ *)
Inductive token := Lit (bs : list N) | Zeros (n : nat).

Definition token_ok (t : token) : bool :=
  match t with
  | Lit bs => Nat.leb 1 (length bs) && Nat.leb (length bs) 128
  | Zeros n => Nat.leb 3 n && Nat.leb n 130
  end.

Definition token_bytes (t : token) : list N :=
  match t with
  | Lit bs => (128 + N.of_nat (length bs - 1)) :: bs
  | Zeros n => [N.of_nat (n - 3)]
  end.

Definition token_data (t : token) : list N :=
  match t with
  | Lit bs => bs
  | Zeros n => repeat 0 n
  end.

Definition tokens_bytes (ts : list token) : list N := concat (map token_bytes ts).
Definition tokens_data (ts : list token) : list N := concat (map token_data ts).
