(* Model of the extraction target computation in warcraft-rs/src/commands/mpq.rs
   (extraction_target, used by both the plain and the patch-chain branch) together with
   the parts of Rust's std::path semantics on Unix it relies on: components(), join(),
   file_name().  Paths are byte strings; a resolved location is a list of component
   names below the file-system root. *)
From WR Require Export Lib.Bits.
Open Scope N_scope.

Definition SLASH : N := 47.
Definition BACKSLASH : N := 92.
Definition DOT : N := 46.

(* path.rs mpq_path_to_system on unix: '\' -> '/' *)
Definition to_system (name : list N) : list N := map (fun c => if c =? BACKSLASH then SLASH else c) name.

(* split at '/' *)
Fixpoint split_slash (p : list N) (cur : list N) : list (list N) :=
  match p with
  | [] => [rev cur]
  | c :: r => if c =? SLASH then rev cur :: split_slash r [] else split_slash r (c :: cur)
  end.

Inductive comp := RootDir | CurDir | ParentDir | Normal (s : list N).

Definition is_dot (s : list N) : bool := list_eqb s [DOT].
Definition is_dotdot (s : list N) : bool := list_eqb s [DOT; DOT].
Definition is_empty (s : list N) : bool := match s with [] => true | _ => false end.

(* std::path::Path::components() on Unix: a leading '/' yields RootDir; empty pieces
   and "." pieces are dropped, except that a leading "." of a relative path is CurDir *)
Definition piece_comp (s : list N) : list comp :=
  if is_empty s then [] else if is_dot s then [] else if is_dotdot s then [ParentDir] else [Normal s].

Definition components (p : list N) : list comp :=
  match p with
  | [] => []
  | c :: _ =>
    let pieces := split_slash p [] in
    if c =? SLASH then RootDir :: flat_map piece_comp pieces
    else
      match pieces with
      | first :: rest => (if is_dot first then [CurDir] else piece_comp first) ++ flat_map piece_comp rest
      | [] => []
      end
  end.

(* Path::file_name(): the last component if it is Normal *)
Definition file_name (p : list N) : option (list N) :=
  match rev (components p) with
  | Normal s :: _ => Some s
  | _ => None
  end.

(* a location: Some stack of names below "/" ; lexical resolution of a component list
   starting from a base location ("..": pop, at the root it stays at the root) *)
Fixpoint resolve (base : list (list N)) (cs : list comp) : list (list N) :=
  match cs with
  | [] => base
  | RootDir :: r => resolve [] r
  | CurDir :: r => resolve base r
  | ParentDir :: r => resolve (removelast base) r
  | Normal s :: r => resolve (base ++ [s]) r
  end.

(* the repaired CLI: extraction_target(output_dir, file, preserve) -> Option<PathBuf>,
   result given as the component list that is joined onto output_dir *)
Fixpoint only_normal (cs : list comp) : option (list (list N)) :=
  match cs with
  | [] => Some []
  | Normal s :: r => match only_normal r with Some l => Some (s :: l) | None => None end
  | CurDir :: r => only_normal r
  | _ => None
  end.

Definition extraction_target (preserve : bool) (name : list N) : option (list (list N)) :=
  let sys := to_system name in
  if preserve then
    match only_normal (components sys) with
    | Some [] => None
    | Some rel => Some rel
    | None => None
    end
  else
    match file_name sys with
    | Some f => Some [f]
    | None => None
    end.

(* where the file lands: output directory location + relative components *)
Definition target_location (out : list (list N)) (preserve : bool) (name : list N) : option (list (list N)) :=
  match extraction_target preserve name with
  | Some rel => Some (out ++ rel)
  | None => None
  end.

(* the code before the repair: Path::new(output_dir).join(system_path) resp. join(file_name) *)
Definition old_target_location (out : list (list N)) (preserve : bool) (name : list N) : list (list N) :=
  let sys := to_system name in
  if preserve then resolve out (components sys)       (* join: an absolute rhs replaces the lhs; ".." is kept and resolved by the OS *)
  else match file_name sys with Some f => out ++ [f] | None => out end.

Fixpoint is_prefix (a b : list (list N)) : bool :=
  match a, b with
  | [], _ => true
  | x :: a', y :: b' => list_eqb x y && is_prefix a' b'
  | _, [] => false
  end.

(* strictly beneath the output directory *)
Definition within (out loc : list (list N)) : bool :=
  is_prefix out loc && Nat.ltb (length out) (length loc).

(* a component name the OS will not interpret: not empty, not "." or "..", no '/' *)
Definition plain_name (s : list N) : bool :=
  negb (is_empty s) && negb (is_dot s) && negb (is_dotdot s) && forallb (fun c => negb (c =? SLASH)) s.
