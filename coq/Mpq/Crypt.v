(* Model of wow-mpq/src/crypto/{keys,hash,encryption,decryption}.rs,
   tables/common.rs:decrypt_table_data, builder.rs:encrypt_data and
   archive.rs:decrypt_file_data.  All constants come from Gen/Consts.v, which is
   regenerated from the Rust sources on every run. *)
From WR Require Export Lib.Bits Gen.Consts.
Open Scope N_scope.

(* ---- crypt table: keys.rs generate_encryption_table -------------------- *)

Definition ct_next (seed : N) : N := (add32 (mul32 seed ct_mul) ct_inc) mod ct_mod.

(* one table cell: returns (value, new seed) *)
Definition ct_cell (seed : N) : N * N :=
  let s1 := ct_next seed in
  let t1 := shl32 (N.land s1 65535) ct_shift in
  let s2 := ct_next s1 in
  let t2 := N.land s2 65535 in
  (N.lor t1 t2, s2).

(* The Rust loop visits index1 = 0..ct_rows, index2 = 0..ct_cols and stores at
   index1 + index2*ct_stride.  We produce the visiting-order list of
   (position, value) pairs and then read the table by position. *)
Fixpoint ct_inner (cols : nat) (i1 i2 seed : N) : list (N * N) * N :=
  match cols with
  | O => ([], seed)
  | S c =>
    let '(v, s') := ct_cell seed in
    let '(rest, s'') := ct_inner c i1 (i2 + 1) s' in
    ((i1 + i2 * ct_stride, v) :: rest, s'')
  end.

Fixpoint ct_outer (rows : nat) (i1 seed : N) : list (N * N) :=
  match rows with
  | O => []
  | S r =>
    let '(cells, s') := ct_inner (N.to_nat ct_cols) i1 0 seed in
    cells ++ ct_outer r (i1 + 1) s'
  end.

Definition ct_assoc : list (N * N) := ct_outer (N.to_nat ct_rows) 0 ct_seed.

Fixpoint assoc_last (l : list (N * N)) (k : N) (d : N) : N :=
  match l with
  | [] => d
  | (k', v) :: r => if k' =? k then assoc_last r k v else assoc_last r k d
  end.

(* table as a list indexed by position (last write wins, unwritten = 0) *)
Definition crypt_table : list N :=
  map (fun i => assoc_last ct_assoc (N.of_nat i) 0) (seq 0 (N.to_nat ct_len)).

Definition tbl (i : N) : N := nth_N crypt_table i 0.

(* ---- name hash: hash.rs hash_string ------------------------------------ *)

Definition upper (c : N) : N := nth_N ascii_to_upper c c.
Definition lower (c : N) : N := nth_N ascii_to_lower c c.
Definition slash (c : N) : N := if c =? 47 then 92 else c.
Definition norm (c : N) : N := upper (slash c).
Definition norm_lower (c : N) : N := lower (slash c).

Fixpoint hash_core (ht : N) (cs : list N) (seed1 seed2 : N) : N :=
  match cs with
  | [] => seed1
  | ch :: r =>
    let s1 := N.lxor (tbl (w32 (ht + ch))) (add32 seed1 seed2) in
    let s2 := add32 (add32 (add32 (add32 ch s1) seed2) (shl32 seed2 hs_shift)) hs_inc in
    hash_core ht r s1 s2
  end.

Definition hash_string (name : list N) (ht : N) : N :=
  hash_core ht (map norm name) hs_seed1 hs_seed2.

(* ---- block cipher: encryption.rs / decryption.rs ----------------------- *)

Definition enc_next_key (key : N) : N :=
  N.lor (add32 (shl32 (not32 key) enc_key_shl) enc_key_add) (shr32 key enc_key_shr).
Definition dec_next_key (key : N) : N :=
  N.lor (add32 (shl32 (not32 key) dec_key_shl) dec_key_add) (shr32 key dec_key_shr).

Fixpoint enc_loop (ws : list N) (key seed : N) : list N :=
  match ws with
  | [] => []
  | w :: r =>
    let seed1 := add32 seed (tbl (enc_tbl_off + N.land key enc_key_mask)) in
    let c := N.lxor w (add32 key seed1) in
    let seed' := add32 (add32 (add32 w seed1) (shl32 seed1 enc_seed_shl)) enc_seed_inc in
    c :: enc_loop r (enc_next_key key) seed'
  end.

Fixpoint dec_loop (ws : list N) (key seed : N) : list N :=
  match ws with
  | [] => []
  | c :: r =>
    let seed1 := add32 seed (tbl (dec_tbl_off + N.land key dec_key_mask)) in
    let w := N.lxor c (add32 key seed1) in
    let seed' := add32 (add32 (add32 w seed1) (shl32 seed1 dec_seed_shl)) dec_seed_inc in
    w :: dec_loop r (dec_next_key key) seed'
  end.

Definition encrypt_block (ws : list N) (key : N) : list N :=
  if key =? 0 then ws else enc_loop ws key enc_seed.
Definition decrypt_block (ws : list N) (key : N) : list N :=
  if key =? 0 then ws else dec_loop ws key dec_seed.

Definition decrypt_dword (v key : N) : N :=
  if key =? 0 then v
  else N.lxor v (add32 key (add32 dec_seed (tbl (dec_tbl_off + N.land key dec_key_mask)))).

(* ---- byte wrappers ------------------------------------------------------ *)

Definition pad4 (bs : list N) : list N := firstn 4 (bs ++ [0; 0; 0; 0]).

Definition is_nil {A} (l : list A) : bool := match l with [] => true | _ => false end.

(* full dwords: bytes -> u32 (LE) -> cipher -> bytes *)
Definition enc_head (nw : nat) (head : list N) (key : N) : list N :=
  bytes_of_words (encrypt_block (words_of_bytes nw head) key).
Definition dec_head (nw : nat) (head : list N) (key : N) : list N :=
  bytes_of_words (decrypt_block (words_of_bytes nw head) key).

(* 1..3 trailing bytes: zero-padded to a dword, ciphered as a one-word block with
   key + (number of full dwords), truncated again *)
Definition enc_tail (rem : list N) (k2 : N) : list N :=
  match rem with
  | [] => []
  | _ => firstn (length rem) (bytes_of_u32 (hd 0 (encrypt_block [le_value (pad4 rem)] k2)))
  end.
Definition dec_tail (rem : list N) (k2 : N) : list N :=
  match rem with
  | [] => []
  | _ => firstn (length rem) (bytes_of_u32 (decrypt_dword (le_value (pad4 rem)) k2))
  end.

(* builder.rs ArchiveBuilder::encrypt_data *)
Definition encrypt_data (bs : list N) (key : N) : list N :=
  if is_nil bs || (key =? 0) then bs
  else
    let nw := Nat.div (length bs) 4 in
    enc_head nw (firstn (Nat.mul 4 nw) bs) key
      ++ enc_tail (skipn (Nat.mul 4 nw) bs) (add32 key (N.of_nat nw)).

(* archive.rs decrypt_file_data; tables/common.rs decrypt_table_data has the
   same shape (both were transcribed; they differ only in buffer handling) *)
Definition decrypt_file_data (bs : list N) (key : N) : list N :=
  if is_nil bs || (key =? 0) then bs
  else
    let nw := Nat.div (length bs) 4 in
    dec_head nw (firstn (Nat.mul 4 nw) bs) key
      ++ dec_tail (skipn (Nat.mul 4 nw) bs) (add32 key (N.of_nat nw)).

(* ---- independently written reference (published MPQ algorithm) ---------
   Written from the format description (Zezula, "MPQ Archives", and the
   StormLib sources it documents), with literal constants, not Consts.v:
     seed = 0x00100001
     for index1 in 0..0x100: for (index2 = index1, i = 0; i < 5; i++, index2 += 0x100)
        seed = (seed*125 + 3) % 0x2AAAAB; temp1 = (seed & 0xFFFF) << 16
        seed = (seed*125 + 3) % 0x2AAAAB; temp2 = (seed & 0xFFFF)
        table[index2] = temp1 | temp2
*)
Definition ref_next (s : N) : N := (s * 125 + 3) mod 2796203.

Fixpoint ref_gen (n : nat) (s : N) : list N :=
  match n with
  | O => []
  | S k =>
    let s1 := ref_next s in
    let s2 := ref_next s1 in
    ((s1 mod 65536) * 65536 + s2 mod 65536) :: ref_gen k s2
  end.

(* visiting order: cell number j = 5*index1 + i is stored at index1 + 256*i.
   So position p = index1 + 256*i holds generated cell 5*(p mod 256) + p/256. *)
Definition ref_cells : list N := ref_gen 1280 1048577.
Definition ref_table : list N :=
  map (fun p => let p := N.of_nat p in nth_N ref_cells (5 * (p mod 256) + p / 256) 0) (seq 0 1280).
Definition ref_tbl (i : N) : N := nth_N ref_table i 0.

Definition ref_upper (c : N) : N := if (97 <=? c) && (c <=? 122) then c - 32 else c.
Definition ref_norm (c : N) : N := ref_upper (if c =? 47 then 92 else c).

(* HashString(name, type): seed1 = 0x7FED7FED, seed2 = 0xEEEEEEEE;
     ch = toupper(next char of name); seed1 = table[type*0x100 + ch] ^ (seed1 + seed2);
     seed2 = ch + seed1 + seed2 + (seed2 << 5) + 3 ; all mod 2^32 *)
Definition ref_hash (name : list N) (ht : N) : N :=
  fst (fold_left
         (fun '(s1, s2) c =>
            let ch := ref_norm c in
            let s1' := N.lxor (ref_tbl (ht + ch)) ((s1 + s2) mod 4294967296) in
            (s1', (ch + s1' + s2 + s2 * 32 + 3) mod 4294967296))
         name (2146271213, 4008636142)).

(* reference cipher (StormLib EncryptMpqBlock / DecryptMpqBlock): no key-0 shortcut *)
Definition ref_next_key (key : N) : N :=
  N.lor (((4294967295 - key) * 2097152 + 286331153) mod 4294967296) (key / 2048).

Fixpoint ref_enc (ws : list N) (key seed : N) : list N :=
  match ws with
  | [] => []
  | w :: r =>
    let seed1 := (seed + ref_tbl (1024 + key mod 256)) mod 4294967296 in
    N.lxor w ((key + seed1) mod 4294967296)
      :: ref_enc r (ref_next_key key) ((w + seed1 + seed1 * 32 + 3) mod 4294967296)
  end.

Fixpoint ref_dec (ws : list N) (key seed : N) : list N :=
  match ws with
  | [] => []
  | c :: r =>
    let seed1 := (seed + ref_tbl (1024 + key mod 256)) mod 4294967296 in
    let w := N.lxor c ((key + seed1) mod 4294967296) in
    w :: ref_dec r (ref_next_key key) ((w + seed1 + seed1 * 32 + 3) mod 4294967296)
  end.
