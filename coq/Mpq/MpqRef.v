(* REFERENCE reader and writer for MPQ V1/V2 archives, written from the published format
   (Zezula, "The MoPaQ Archive Format"; the StormLib behaviour it documents), deliberately
   NOT from wow-mpq's sources.  It uses the reference hash/cipher of Crypt.v (ref_hash,
   ref_enc, ref_dec: literal constants, no key-0 shortcut).  Published rules encoded here:
     - hash table: open addressing from HashString(name, 0) mod size, keys (HashA, HashB);
       0xFFFFFFFF terminates a probe sequence, 0xFFFFFFFE does not;
     - tables are encrypted whole with the keys of "(hash table)" / "(block table)";
     - sector size 512 << shift; a file is a single unit iff it carries SINGLE_UNIT;
     - a sector offset table (n+1 dwords, encrypted with key-1 when the file is encrypted)
       exists iff the file is COMPRESSed/IMPLODEd and not a single unit;
     - a sector (or single unit) whose stored length equals its plain length is stored raw;
       otherwise its first byte is the compression mask;
     - the cipher works on whole dwords only: trailing len mod 4 bytes stay as they are;
     - sector i is encrypted with key + i, also in uncompressed files;
     - the file key is HashString(plain file name - the part after the last backslash - , 3),
       and (key + block offset) xor file size when FIX_KEY is set. *)
From WR Require Export Lib.Bits Lib.Codec Mpq.Crypt.
Open Scope N_scope.

Definition R_COMPRESS : N := 512.
Definition R_IMPLODE : N := 256.
Definition R_ENCRYPTED : N := 65536.
Definition R_FIX_KEY : N := 131072.
Definition R_SINGLE_UNIT : N := 16777216.
Definition R_EXISTS : N := 2147483648.
Definition R_SIGNATURE : N := 441536589.    (* 'MPQ\x1A' *)

Definition rflag (fl f : N) : bool := negb (N.land fl f =? 0).

Definition r_hash_key : N := ref_hash [40;104;97;115;104;32;116;97;98;108;101;41] 768.
Definition r_block_key : N := ref_hash [40;98;108;111;99;107;32;116;97;98;108;101;41] 768.

(* dword-only cipher on byte strings *)
Definition r_crypt (enc : bool) (bs : list N) (key : N) : list N :=
  let nw := Nat.div (length bs) 4 in
  let head := firstn (Nat.mul 4 nw) bs in
  let tail := skipn (Nat.mul 4 nw) bs in
  let ws := words_of_bytes nw head in
  bytes_of_words (if enc then ref_enc ws key 4008636142 else ref_dec ws key 4008636142) ++ tail.

(* plain file name: after the last backslash *)
Fixpoint plain_name_aux (s acc : list N) : list N :=
  match s with
  | [] => rev acc
  | c :: r => if (c =? 92) || (c =? 47) then plain_name_aux r [] else plain_name_aux r (c :: acc)
  end.
Definition plain_name (s : list N) : list N := plain_name_aux s [].

Definition r_file_key (name : list N) (pos size : N) (fixk : bool) : N :=
  let base := ref_hash (plain_name name) 768 in
  if fixk then N.lxor ((base + pos) mod 4294967296) size else base.

(* offsets and lengths beyond the buffer select what is there (no unary blow-up on garbage fields) *)
Definition rslice (bs : list N) (off len : N) : list N :=
  let n := lenN bs in firstn (N.to_nat (N.min len n)) (skipn (N.to_nat (N.min off n)) bs).

Fixpoint rgroup4 (fuel : nat) (ws : list N) : list (list N) :=
  match fuel with
  | O => []
  | S f => match ws with a :: b :: c :: d :: r => [a; b; c; d] :: rgroup4 f r | _ => [] end
  end.

Record rarchive := { ra_bytes : list N; ra_shift : N; ra_hash : list (list N); ra_block : list (list N) }.

Definition ref_open (bs : list N) : option rarchive :=
  if lenN bs <? 32 then None
  else if negb (le_value (rslice bs 0 4) =? R_SIGNATURE) then None
  else
    let shift := le_value (rslice bs 14 2) in
    let hpos := le_value (rslice bs 16 4) in
    let bpos := le_value (rslice bs 20 4) in
    let hsize := le_value (rslice bs 24 4) in
    let bsize := le_value (rslice bs 28 4) in
    if (lenN bs <? hpos + 16 * hsize) || (lenN bs <? bpos + 16 * bsize) then None
    else
      let hw := ref_dec (words_of_bytes (N.to_nat (4 * hsize)) (skipn (N.to_nat hpos) bs)) r_hash_key 4008636142 in
      let bw := ref_dec (words_of_bytes (N.to_nat (4 * bsize)) (skipn (N.to_nat bpos) bs)) r_block_key 4008636142 in
      Some {| ra_bytes := bs; ra_shift := shift; ra_hash := rgroup4 (N.to_nat hsize) hw; ra_block := rgroup4 (N.to_nat bsize) bw |}.

Fixpoint ref_probe (fuel : nat) (ht : list (list N)) (size idx a b : N) : option N :=
  match fuel with
  | O => None
  | S f =>
    match nth (N.to_nat idx) ht [] with
    | [ea; eb; _; blk] =>
      if blk =? 4294967295 then None
      else if (ea =? a) && (eb =? b) && negb (blk =? 4294967294) then Some blk
      else ref_probe f ht size ((idx + 1) mod size) a b
    | _ => None
    end
  end.

Definition ref_find (a : rarchive) (name : list N) : option (list N) :=
  let size := lenN (ra_hash a) in
  if size =? 0 then None else
  match ref_probe (length (ra_hash a)) (ra_hash a) size (ref_hash name 0 mod size) (ref_hash name 256) (ref_hash name 512) with
  | Some blk =>
    match nth_error (ra_block a) (N.to_nat blk) with
    | Some ([_; _; _; fl] as e) => if rflag fl R_EXISTS then Some e else None
    | _ => None
    end
  | None => None
  end.

(* diagnosis for the correspondence check: is the sector offset table of a packed multi-sector file, decrypted as
   the format prescribes (file key - 1), the table of a well-formed file?  None = not applicable *)
Fixpoint nondecreasing (l : list N) : bool :=
  match l with
  | a :: ((b :: _) as r) => (a <=? b) && nondecreasing r
  | _ => true
  end.

Definition ref_table_sane (a : rarchive) (name : list N) : option bool :=
  match ref_find a name with
  | Some [pos; csize; fsize; fl] =>
    let enc := rflag fl R_ENCRYPTED in
    let key := r_file_key name pos fsize (rflag fl R_FIX_KEY) in
    let ssz := N.shiftl 512 (ra_shift a) in
    let packed := rflag fl R_COMPRESS || rflag fl R_IMPLODE in
    if rflag fl R_SINGLE_UNIT || negb packed || rflag fl 67108864 then None
    else
      let nsec := (fsize + ssz - 1) / ssz in
      let tbl := rslice (ra_bytes a) pos (4 * (nsec + 1)) in
      let tbl' := if enc then r_crypt false tbl ((key + 4294967295) mod 4294967296) else tbl in
      let offs := words_of_bytes (N.to_nat (nsec + 1)) tbl' in
      Some ((nth 0 offs 0 =? 4 * (nsec + 1)) && (nth (N.to_nat nsec) offs 0 =? csize) && nondecreasing offs)
  | _ => None
  end.

Section RefCodec.
  (* decompression of one unit by its mask byte: supplied from outside (zlib / bzip2 of
     an independent implementation) *)
  Variable inflate : N -> list N -> N -> option (list N).
  Variable deflate : N -> list N -> option (list N).     (* mask, plain -> payload without mask byte *)

  Definition ref_unit (stored : list N) (plain_len : N) : option (list N) :=
    if lenN stored =? plain_len then Some stored
    else match stored with
         | m :: payload => inflate m payload plain_len
         | [] => None
         end.

  Fixpoint ref_sectors (fuel : nat) (bs : list N) (pos : N) (offs : list N) (enc : bool) (key i remaining ssz : N) : option (list N) :=
    match fuel, offs with
    | S f, s :: ((e :: _) as rest) =>
      if e <? s then None else
      let raw := rslice bs (pos + s) (e - s) in
      let d := if enc then r_crypt false raw ((key + i) mod 4294967296) else raw in
      match ref_unit d (N.min remaining ssz) with
      | Some o =>
        match ref_sectors f bs pos rest enc key (i + 1) (remaining - lenN o) ssz with
        | Some t => Some (o ++ t)
        | None => None
        end
      | None => None
      end
    | _, _ => Some []
    end.

  Fixpoint ref_plain_sectors (fuel : nat) (raw : list N) (key i ssz : N) : list N :=
    match fuel with
    | O => []
    | S f => match raw with
             | [] => []
             | _ => r_crypt false (firstn (N.to_nat ssz) raw) ((key + i) mod 4294967296)
                    ++ ref_plain_sectors f (skipn (N.to_nat ssz) raw) key (i + 1) ssz
             end
    end.

  Definition ref_read (a : rarchive) (name : list N) : option (list N) :=
    match ref_find a name with
    | Some [pos; csize; fsize; fl] =>
      let enc := rflag fl R_ENCRYPTED in
      let key := r_file_key name pos fsize (rflag fl R_FIX_KEY) in
      let ssz := N.shiftl 512 (ra_shift a) in
      let packed := rflag fl R_COMPRESS || rflag fl R_IMPLODE in
      if lenN (ra_bytes a) <? pos + csize then None
      else if rflag fl R_SINGLE_UNIT then
        let raw := rslice (ra_bytes a) pos csize in
        let d := if enc then r_crypt false raw key else raw in
        if packed then ref_unit d fsize else Some (firstn (N.to_nat fsize) d)
      else if packed then
        let nsec := (fsize + ssz - 1) / ssz in
        let tbl := rslice (ra_bytes a) pos (4 * (nsec + 1)) in
        let tbl' := if enc then r_crypt false tbl ((key + 4294967295) mod 4294967296) else tbl in
        ref_sectors (N.to_nat nsec) (ra_bytes a) pos (words_of_bytes (N.to_nat (nsec + 1)) tbl') enc key 0 fsize ssz
      else
        let raw := rslice (ra_bytes a) pos fsize in
        Some (if enc then ref_plain_sectors (S (length raw)) raw key 0 ssz else raw)
    | _ => None
    end.

  (* ---- reference writer (files in order, then hash table, then block table) ----------- *)
  Record rfile := { rf_name : list N; rf_data : list N; rf_mask : N; rf_enc : N }.

  Definition ref_pack_unit (mask : N) (d : list N) : list N * bool :=
    if (mask =? 0) || (match d with [] => true | _ => false end) then (d, false)
    else match deflate mask d with
         | Some p => if lenN d <=? 1 + lenN p then (d, false) else (mask :: p, true)
         | None => (d, false)
         end.

  Fixpoint rsplit (fuel : nat) (n : nat) (bs : list N) : list (list N) :=
    match fuel with
    | O => []
    | S f => match bs with [] => [] | _ => firstn n bs :: rsplit f n (skipn n bs) end
    end.

  Fixpoint roffsets (start : N) (blobs : list (list N)) : list N :=
    match blobs with [] => [start] | b :: r => start :: roffsets (start + lenN b) r end.

  Fixpoint rmapi {A B} (f : N -> A -> B) (i : N) (l : list A) : list B :=
    match l with [] => [] | x :: r => f i x :: rmapi f (i + 1) r end.

  Definition ref_write_file (ssz : N) (f : rfile) (pos : N) : list N * N * N :=   (* bytes, csize, flags *)
    let d := rf_data f in
    let n := lenN d in
    let encfl := if rf_enc f =? 0 then 0 else if rf_enc f =? 1 then R_ENCRYPTED else R_ENCRYPTED + R_FIX_KEY in
    let key := r_file_key (rf_name f) pos n (rf_enc f =? 2) in
    if n <=? ssz then
      let '(c, packed) := ref_pack_unit (rf_mask f) d in
      let body := if rf_enc f =? 0 then c else r_crypt true c key in
      (body, lenN body, R_SINGLE_UNIT + (if packed then R_COMPRESS else 0) + encfl)
    else
      let ss := rsplit (length d) (N.to_nat ssz) d in
      let packed_units := map (ref_pack_unit (rf_mask f)) ss in
      if existsb snd packed_units then
        let cs := map fst packed_units in
        let tsize := 4 * (lenN ss + 1) in
        let offs := roffsets tsize cs in
        let tbl := concat (map (le_bytes 4) offs) in
        let tbl' := if rf_enc f =? 0 then tbl else r_crypt true tbl ((key + 4294967295) mod 4294967296) in
        let body := if rf_enc f =? 0 then concat cs else concat (rmapi (fun i s => r_crypt true s ((key + i) mod 4294967296)) 0 cs) in
        (tbl' ++ body, tsize + lenN body, R_COMPRESS + encfl)
      else
        let body := if rf_enc f =? 0 then d else concat (rmapi (fun i s => r_crypt true s ((key + i) mod 4294967296)) 0 ss) in
        (body, lenN body, encfl)
      .

  Inductive rins := RInsOk (t : list (list N)) | RInsFail.
  Fixpoint ref_insert (fuel : nat) (ht : list (list N)) (size idx a b blk : N) : rins :=
    match fuel with
    | O => RInsFail
    | S f =>
      match nth (N.to_nat idx) ht [] with
      | [_; _; _; cur] =>
        if 4294967294 <=? cur then
          RInsOk (firstn (N.to_nat idx) ht ++ [[a; b; 0; blk]] ++ skipn (S (N.to_nat idx)) ht)
        else ref_insert f ht size ((idx + 1) mod size) a b blk
      | _ => RInsFail
      end
    end.

  Fixpoint ref_write_files (ssz : N) (fs : list rfile) (pos blk : N) (ht : list (list N)) (size : N)
    : option (list N * list (list N) * list (list N)) :=
    match fs with
    | [] => Some ([], [], ht)
    | f :: r =>
      let '(bytes, csize, fl) := ref_write_file ssz f pos in
      match ref_insert (S (length ht)) ht size (ref_hash (rf_name f) 0 mod size) (ref_hash (rf_name f) 256) (ref_hash (rf_name f) 512) blk with
      | RInsFail => None
      | RInsOk ht' =>
        match ref_write_files ssz r (pos + lenN bytes) (blk + 1) ht' size with
        | Some (rest, bl, ht'') => Some (bytes ++ rest, [pos; csize; lenN (rf_data f); fl + R_EXISTS] :: bl, ht'')
        | None => None
        end
      end
    end.

  (* V1 archive at offset 0 with a (listfile) as last file; hash table of `hsize` slots *)
  Definition ref_write (shift hsize : N) (files : list rfile) : option (list N) :=
    let lf := concat (map (fun f => rf_name f ++ [13; 10]) files) in
    let all := files ++ [{| rf_name := [40;108;105;115;116;102;105;108;101;41]; rf_data := lf; rf_mask := 0; rf_enc := 0 |}] in
    let ht0 := repeat [4294967295; 4294967295; 4294967295; 4294967295] (N.to_nat hsize) in
    match ref_write_files (N.shiftl 512 shift) all 32 0 ht0 hsize with
    | None => None
    | Some (body, blocks, ht) =>
      let hpos := 32 + lenN body in
      let hbytes := bytes_of_words (ref_enc (concat ht) r_hash_key 4008636142) in
      let bpos := hpos + lenN hbytes in
      let bbytes := bytes_of_words (ref_enc (concat blocks) r_block_key 4008636142) in
      Some (le_bytes 4 R_SIGNATURE ++ le_bytes 4 32 ++ le_bytes 4 (bpos + lenN bbytes) ++ le_bytes 2 0 ++ le_bytes 2 shift
            ++ le_bytes 4 hpos ++ le_bytes 4 bpos ++ le_bytes 4 hsize ++ le_bytes 4 (lenN blocks)
            ++ body ++ hbytes ++ bbytes)
    end.
End RefCodec.
