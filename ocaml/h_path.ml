(* C11 handlers: extraction target of the model *)
open Model
open Conv

let () =
  register "target" (fun a -> match a with
    | [p; name] ->
      (match extraction_target (p = "1") (bytes_of_hex name) with
       | Some rel -> "SOME " ^ String.concat "/" (List.map hex_of_bytes rel)
       | None -> "NONE")
    | _ -> "ERR args")
