(* C01/C02/C07 handlers: the archive model (builder + reader, V1/V2) *)
open Model
open Conv

(* codec table: method.rawhex.comphex entries; used forwards (compress) and backwards (decompress) *)
let fwd : (string, string) Hashtbl.t = Hashtbl.create 64
let bwd : (string, string) Hashtbl.t = Hashtbl.create 64
let load_table s =
  Hashtbl.reset fwd; Hashtbl.reset bwd;
  if s <> "-" then
    List.iter (fun e -> match String.split_on_char '.' e with
      | [m; raw; comp] -> Hashtbl.replace fwd (m ^ "." ^ raw) comp; Hashtbl.replace bwd comp raw
      | _ -> ()) (String.split_on_char ',' s)

let compress_f m d =
  match Hashtbl.find_opt fwd (hex_of_n m ^ "." ^ hex_of_bytes d) with
  | Some c -> Some (bytes_of_hex c)
  | None -> None
let decompress_f m payload _size =
  match Hashtbl.find_opt bwd (hex_of_bytes (m :: payload)) with
  | Some r -> Some (bytes_of_hex r)
  | None -> None

let parse_cfg ver shift lf attrs crc defcomp =
  { c_version = n_of_hex ver; c_shift = n_of_hex shift; c_listfile = (lf = "g");
    c_attrs = (if attrs = "c" then n_of_int 1 else if attrs = "f" then n_of_int 2 else N0);
    c_crc = (crc = "1"); c_defcomp = n_of_hex defcomp }

let parse_entries defcomp s =
  if s = "-" then [] else
  List.map (fun e -> match String.split_on_char ':' e with
    | [n; d; c; enc] -> { f_name = bytes_of_hex n; f_data = bytes_of_hex d;
                          f_comp = (if c = "d" then n_of_hex defcomp else n_of_hex c); f_enc = n_of_hex enc }
    | _ -> failwith "entry") (String.split_on_char ',' s)

let () =
  (* mneeds ver shift lf attrs crc defcomp entries -> method.rawhex list the writer will compress *)
  register "mneeds" (fun a -> match a with
    | [ver; shift; lf; attrs; crc; defcomp; entries] ->
      let c = parse_cfg ver shift lf attrs crc defcomp in
      let fs = pending c (parse_entries defcomp entries) in
      let ssz = sector_size c.c_shift in
      let out = ref [] in
      List.iter (fun f ->
        if int_of_n f.f_comp <> 0 then begin
          let n = List.length f.f_data in
          let units = if n <= int_of_n ssz then [f.f_data] else sectors ssz f.f_data in
          List.iter (fun u -> if u <> [] then out := (hex_of_n f.f_comp ^ "." ^ hex_of_bytes u) :: !out) units
        end) fs;
      if !out = [] then "-" else String.concat "," (List.rev !out)
    | _ -> "ERR args");
  register "mbuild" (fun a -> match a with
    | [ver; shift; lf; attrs; crc; defcomp; entries; tab] ->
      load_table tab;
      let c = parse_cfg ver shift lf attrs crc defcomp in
      (match build compress_f c (parse_entries defcomp entries) with
       | BOk b -> hex_of_bytes b
       | BErrDup -> "ERR-DUP" | BErrCodec -> "ERR-CODEC" | BErrFuel -> "ERR-FUEL")
    | _ -> "ERR args");
  (* mreadall archivehex nameshex, tab -> per name OK hex | NOTFOUND | ERR ; then list *)
  register "mreadall" (fun a -> match a with
    | [arch; names; tab] ->
      load_table tab;
      (match open0 (bytes_of_hex arch) with
       | None -> "OPEN-ERR"
       | Some ar ->
         let rd n = match read_file decompress_f ar (bytes_of_hex n) with
           | ROk d -> "OK:" ^ hex_of_bytes d | RNotFound -> "NOTFOUND" | RErr -> "ERR" in
         let reads = String.concat "," (List.map (fun n -> n ^ ">" ^ rd n) (String.split_on_char ',' names)) in
         let lst = match list_files decompress_f ar with
           | None -> "NOLIST"
           | Some l -> let l = List.sort compare (List.map (fun (n, s) -> hex_of_bytes n ^ ":" ^ hex_of_n s) l) in
             if l = [] then "-" else String.concat "," l in
         reads ^ " | " ^ lst)
    | _ -> "ERR args")

(* C07: mrebuild <src archive hex> <target 0..4> <comp hex|-> <shift hex|-> <skipenc 0|1> <tab>
   phase "specs": prints cfg tokens + entries token of what the builder gets;
   the python side then runs mneeds/mbuild on them *)
let () =
  register "mrebuildspecs" (fun a -> match a with
    | [arch; target; comp; shift; skipenc; tab] ->
      load_table tab;
      (match open0 (bytes_of_hex arch) with
       | None -> "OPEN-ERR"
       | Some ar ->
         let o = { o_target = n_of_hex target; o_comp = (if comp = "-" then None else Some (n_of_hex comp));
                   o_shift = (if shift = "-" then None else Some (n_of_hex shift)); o_skip_enc = (skipenc = "1"); o_skip_sig = true } in
         let specs = rebuild_specs decompress_f ar o in
         let c = rebuild_cfg ar o specs in
         let ents = if specs = [] then "-" else String.concat "," (List.map (fun f ->
           hex_of_bytes f.f_name ^ ":" ^ hex_of_bytes f.f_data ^ ":" ^ hex_of_n f.f_comp ^ ":" ^ hex_of_n f.f_enc) specs) in
         Printf.sprintf "%s %s %s n 0 2 %s" (hex_of_n c.c_version) (hex_of_n c.c_shift) (if c.c_listfile then "g" else "n") ents)
    | _ -> "ERR args")
