(* Conversions for the line-oriented driver around the extracted Coq models (ocaml/gen/model.ml).
   Reads one case per line on stdin, prints one result line per case.
   Numbers travel as lowercase hex without prefix; byte strings as hex ("-" = empty). *)
open Model

(* ---- conversions between OCaml values and the extracted Coq datatypes ---- *)
let rec pos_of_int n =
  if n = 1 then XH
  else if n land 1 = 0 then XO (pos_of_int (n lsr 1))
  else XI (pos_of_int (n lsr 1))
let n_of_int n = if n = 0 then N0 else Npos (pos_of_int n)
let rec int_of_pos = function XH -> 1 | XO p -> 2 * int_of_pos p | XI p -> 2 * int_of_pos p + 1
let int_of_n = function N0 -> 0 | Npos p -> int_of_pos p
let rec nat_of_int n = if n <= 0 then O else S (nat_of_int (n - 1))
let rec int_of_nat = function O -> 0 | S n -> 1 + int_of_nat n

(* arbitrary-size N <-> hex (u64 values exceed OCaml's 63-bit int) *)
let hexdig c =
  match c with
  | '0' .. '9' -> Char.code c - 48
  | 'a' .. 'f' -> Char.code c - 87
  | 'A' .. 'F' -> Char.code c - 55
  | _ -> failwith "bad hex digit"

(* bits, least significant first *)
let bits_of_hex s =
  let l = ref [] in
  String.iter (fun c -> let d = hexdig c in
    (* most significant digit first in s: prepend so that final list is LSB first *)
    l := (d land 1 = 1) :: (d land 2 = 2) :: (d land 4 = 4) :: (d land 8 = 8) :: !l) s;
  !l

let n_of_bits bits =
  (* bits LSB first; strip high zeros *)
  let rec strip = function [] -> [] | false :: r -> strip r | l -> l in
  match strip (List.rev bits) with
  | [] -> N0
  | _ :: rest_high_first ->
    (* top bit is 1; fold remaining bits from high to low *)
    Npos (List.fold_left (fun p b -> if b then XI p else XO p) XH rest_high_first)

let n_of_hex s = n_of_bits (bits_of_hex s)

let hex_of_n n =
  match n with
  | N0 -> "0"
  | Npos p ->
    let rec bits p acc = match p with XH -> true :: acc | XO q -> bits q (false :: acc) | XI q -> bits q (true :: acc) in
    (* bits returns MSB first after accumulation?  build LSB-first explicitly *)
    let rec lsb p = match p with XH -> [true] | XO q -> false :: lsb q | XI q -> true :: lsb q in
    ignore bits;
    let l = Array.of_list (lsb p) in
    let nd = (Array.length l + 3) / 4 in
    let b = Buffer.create nd in
    for i = nd - 1 downto 0 do
      let d = ref 0 in
      for j = 3 downto 0 do
        let k = i * 4 + j in
        d := !d * 2 + (if k < Array.length l && l.(k) then 1 else 0)
      done;
      Buffer.add_char b "0123456789abcdef".[!d]
    done;
    Buffer.contents b

let byte_tab = Array.init 256 n_of_int
let bytes_of_hex s =
  if s = "-" then []
  else begin
    let n = String.length s / 2 in
    let rec go i acc = if i < 0 then acc else go (i - 1) (byte_tab.(hexdig s.[2*i] * 16 + hexdig s.[2*i+1]) :: acc) in
    go (n - 1) []
  end
let hex_of_bytes l =
  match l with
  | [] -> "-"
  | _ ->
    let b = Buffer.create 64 in
    List.iter (fun x -> Buffer.add_string b (Printf.sprintf "%02x" (int_of_n x))) l;
    Buffer.contents b

(* list of u32 words <-> hex of LE bytes *)
let rec words_of_hex s i acc =
  if i + 8 > String.length s then List.rev acc
  else
    let byte k = hexdig s.[i + 2*k] * 16 + hexdig s.[i + 2*k + 1] in
    let v = byte 0 lor (byte 1 lsl 8) lor (byte 2 lsl 16) lor (byte 3 lsl 24) in
    words_of_hex s (i + 8) (n_of_int v :: acc)
let hex_of_words ws =
  match ws with
  | [] -> "-"
  | _ ->
    let b = Buffer.create 64 in
    List.iter (fun w -> let v = int_of_n w in
      Buffer.add_string b (Printf.sprintf "%02x%02x%02x%02x" (v land 255) ((v lsr 8) land 255) ((v lsr 16) land 255) ((v lsr 24) land 255))) ws;
    Buffer.contents b

let handlers : (string, string list -> string) Hashtbl.t = Hashtbl.create 64
let register name f = Hashtbl.replace handlers name f

