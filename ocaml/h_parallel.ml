(* C09 handler: the model's extract_with_config over a table of sequential read outcomes *)
open Model
open Conv

let () =
  (* parextract <skip 0|1> <threads> <batch> <names: ints ,|-> <ok: string of 0/1 indexed by name int> *)
  register "parextract" (fun a -> match a with
    | [skip; threads; batch; names; ok] ->
      let names = if names = "-" then [] else List.map int_of_string (String.split_on_char ',' names) in
      let read n = if n < String.length ok && ok.[n] = '1' then Some n else None in
      (match extract read (skip = "1") (nat_of_int (int_of_string threads)) (nat_of_int (int_of_string batch)) names with
       | None -> "WHOLE-ERR"
       | Some l -> if l = [] then "-" else String.concat "," (List.map (fun (n, r) -> string_of_int n ^ (match r with Some _ -> ":ok" | None -> ":err")) l))
    | _ -> "ERR args")
