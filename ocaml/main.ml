(* main loop of modelrun: one case per line in, one result line out *)
open Conv

let () =
  try
    while true do
      let line = input_line stdin in
      let toks = List.filter (fun s -> s <> "") (String.split_on_char ' ' (String.trim line)) in
      match toks with
      | [] -> print_newline ()
      | cmd :: args ->
        let out =
          match Hashtbl.find_opt handlers cmd with
          | Some f -> (try f args with e -> "EXC " ^ Printexc.to_string e)
          | None -> "ERR unknown " ^ cmd in
        print_string out; print_newline ()
    done
  with End_of_file -> ()
