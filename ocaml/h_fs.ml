(* C12 handler: replays a system-call trace on the file-system model *)
open Model
open Conv

let parse_op s =
  let b x = x = "1" in
  match String.split_on_char '.' s with
  | ["o"; fd; p; cr; tr; wr; ap] -> OOpen (n_of_hex fd, n_of_hex p, b cr, b tr, b wr, b ap)
  | ["w"; fd; d] -> OWrite (n_of_hex fd, bytes_of_hex d)
  | ["p"; fd; off; d] -> OPwrite (n_of_hex fd, n_of_hex off, bytes_of_hex d)
  | ["s"; fd; pos] -> OSeek (n_of_hex fd, n_of_hex pos)
  | ["t"; fd; len] -> OTrunc (n_of_hex fd, n_of_hex len)
  | ["c"; fd] -> OClose (n_of_hex fd)
  | ["r"; a; b] -> ORename (n_of_hex a, n_of_hex b)
  | ["u"; p] -> OUnlink (n_of_hex p)
  | _ -> OOther

let () =
  (* fstrace <dst id> <old content hex|none> <ops ,|->  ->  verdict, final content of dst, one letter per prefix *)
  register "fstrace" (fun a -> match a with
    | [dst; old; ops] ->
      let dst = n_of_hex dst in
      let oldc = if old = "none" then None else Some (bytes_of_hex old) in
      let names0 p = if p = dst && oldc <> None then Some N0 else None in
      let inodes0 _ = (match oldc with Some c -> c | None -> []) in
      let s0 = fresh names0 inodes0 (n_of_int 1) in
      let ops = if ops = "-" then [] else List.map parse_op (String.split_on_char ',' ops) in
      let v = discipline dst s0 ops in
      let states = List.rev (List.fold_left (fun acc o -> match acc with s :: _ -> fs_step s o :: acc | [] -> acc) [s0] ops) in
      let final = content (List.nth states (List.length states - 1)) dst in
      let letter s = let c = content s dst in
        if c = oldc then "O" else if c = final then "N" else if c = None then "-" else "X" in
      hex_of_n v ^ " " ^ (match final with Some c -> hex_of_bytes c | None -> "none") ^ " " ^ String.concat "" (List.map letter states)
    | _ -> "ERR args")
