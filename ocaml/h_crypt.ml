open Model
open Conv

let () =
  register "hash" (fun a -> match a with
    | [ht; name] -> hex_of_n (hash_string (bytes_of_hex name) (n_of_hex ht))
    | _ -> "ERR args");
  register "refhash" (fun a -> match a with
    | [ht; name] -> hex_of_n (ref_hash (bytes_of_hex name) (n_of_hex ht))
    | _ -> "ERR args");
  register "table" (fun _ -> String.concat "," (List.map hex_of_n crypt_table));
  register "reftable" (fun _ -> String.concat "," (List.map hex_of_n ref_table));
  register "encw" (fun a -> match a with
    | [key; ws] -> hex_of_words (encrypt_block (if ws = "-" then [] else words_of_hex ws 0 []) (n_of_hex key))
    | _ -> "ERR args");
  register "decw" (fun a -> match a with
    | [key; ws] -> hex_of_words (decrypt_block (if ws = "-" then [] else words_of_hex ws 0 []) (n_of_hex key))
    | _ -> "ERR args");
  register "refencw" (fun a -> match a with
    | [key; ws] -> hex_of_words (ref_enc (if ws = "-" then [] else words_of_hex ws 0 []) (n_of_hex key) (n_of_hex "eeeeeeee"))
    | _ -> "ERR args");
  register "refdecw" (fun a -> match a with
    | [key; ws] -> hex_of_words (ref_dec (if ws = "-" then [] else words_of_hex ws 0 []) (n_of_hex key) (n_of_hex "eeeeeeee"))
    | _ -> "ERR args");
  register "dword" (fun a -> match a with
    | [key; v] -> hex_of_n (decrypt_dword (n_of_hex v) (n_of_hex key))
    | _ -> "ERR args");
  register "encb" (fun a -> match a with
    | [key; bs] -> hex_of_bytes (encrypt_data (bytes_of_hex bs) (n_of_hex key))
    | _ -> "ERR args");
  register "decb" (fun a -> match a with
    | [key; bs] -> hex_of_bytes (decrypt_file_data (bytes_of_hex bs) (n_of_hex key))
    | _ -> "ERR args");
  register "oaat" (fun a -> match a with
    | [name] -> hex_of_n (jenkins_one_at_a_time (bytes_of_hex name))
    | _ -> "ERR args");
  register "het" (fun a -> match a with
    | [bits; name] ->
      (match het_hash (bytes_of_hex name) (n_of_hex bits) with
       | Some (h, h1) -> hex_of_n h ^ " " ^ hex_of_n h1
       | None -> "PANIC")
    | _ -> "ERR args");
  register "refhet" (fun a -> match a with
    | [bits; name] ->
      (match het_hash_ref (bytes_of_hex name) (n_of_hex bits) with
       | Some (h, h1) -> hex_of_n h ^ " " ^ hex_of_n h1
       | None -> "PANIC")
    | _ -> "ERR args");
  register "refoaat" (fun a -> match a with
    | [name] -> hex_of_n (ref_oaat (bytes_of_hex name))
    | _ -> "ERR args");
  register "hl2" (fun a -> match a with
    | [pc; pb; key] ->
      let (c, b) = hashlittle2 (bytes_of_hex key) (n_of_hex pc) (n_of_hex pb) in
      hex_of_n c ^ " " ^ hex_of_n b
    | _ -> "ERR args");
  register "refhl2" (fun a -> match a with
    | [pc; pb; key] ->
      let (c, b) = ref_hashlittle2 (bytes_of_hex key) (n_of_hex pc) (n_of_hex pb) in
      hex_of_n c ^ " " ^ hex_of_n b
    | _ -> "ERR args")

