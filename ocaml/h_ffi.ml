(* C19 handler: a call history on the handle-table model *)
open Model
open Conv

let z_of_string s =
  let neg = String.length s > 0 && s.[0] = '-' in
  let a = int_of_string (if neg then String.sub s 1 (String.length s - 1) else s) in
  if a = 0 then Z0 else if neg then Zneg (pos_of_int a) else Zpos (pos_of_int a)

let parse_call s =
  match String.split_on_char '.' s with
  | ["o"; k] -> Some (COpen (n_of_hex k))
  | ["c"; h] -> Some (CClose (n_of_hex h))
  | ["of"; h; n] -> Some (COpenFile (n_of_hex h, bytes_of_hex n))
  | ["cf"; h] -> Some (CCloseFile (n_of_hex h))
  | ["rd"; h; n] -> Some (CRead (n_of_hex h, n_of_hex n))
  | "sk" :: h :: off :: m :: _ -> Some (CSeek (n_of_hex h, z_of_string off, n_of_hex m))
  | ["sz"; h] -> Some (CSize (n_of_hex h))
  | ["hs"; h; n] -> Some (CHas (n_of_hex h, bytes_of_hex n))
  | ["ff"; h; m] -> Some (CFindFirst (n_of_hex h, bytes_of_hex m))
  | ["fn"; h] -> Some (CFindNext (n_of_hex h))
  | ["fc"; h] -> Some (CFindClose (n_of_hex h))
  | _ -> None

let () =
  (* ffihist <world: archives ';' of name:content ','> <calls ,> *)
  register "ffihist" (fun a -> match a with
    | [world; calls] ->
      let archives = List.map (fun ar -> if ar = "-" then [] else List.map (fun e -> match String.split_on_char ':' e with
          | [n; d] -> (bytes_of_hex n, bytes_of_hex d) | _ -> failwith "world") (String.split_on_char ',' ar)) (String.split_on_char ';' world) in
      let w k = List.nth_opt archives (int_of_n k) in
      let s = ref hinit in
      let outs = List.map (fun c ->
        match parse_call c with
        | None -> "?"
        | Some call ->
          let (s', o) = hstep w !s call in
          let first = (match call with
            | CFindFirst (h, m) -> (match o with OHandle _ -> (match first_name w !s h m with Some n -> ":" ^ hex_of_bytes n | None -> "") | _ -> "")
            | _ -> "") in
          s := s';
          (match o, call with
           | OErr _, CHas _ -> "B0"
           | OHandle h, _ -> "H" ^ hex_of_n h ^ first
           | OOk, _ -> "OK"
           | OErr EInvalidHandle, _ -> "Einvalid_handle"
           | OErr ENotFound, _ -> "Enot_found"
           | OErr ENoMoreFiles, _ -> "Eno_more_files"
           | OErr EInvalidParameter, _ -> "Einvalid_parameter"
           | OData d, _ -> "D" ^ hex_of_bytes d
           | ONum n, _ -> "N" ^ hex_of_n n
           | OName n, _ -> "S" ^ hex_of_bytes n
           | OBool b, _ -> if b then "B1" else "B0")) (String.split_on_char ',' calls) in
      String.concat "," outs
    | _ -> "ERR args")
