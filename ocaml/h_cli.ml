(* C20 handler: the tool's decision logic on the library's answers *)
open Model
open Conv

let () =
  (* clioutcome <preserve 0|1> <skip 0|1> <results: namehex=OK.<datahex>|namehex=FAIL ,|->
     -> exit(0|1) errors written: relpath(components hex joined by /)=datahex ... *)
  register "clioutcome" (fun a -> match a with
    | [pres; skip; res] ->
      let results = if res = "-" then [] else List.map (fun e -> match String.split_on_char '=' e with
        | [n; r] -> (bytes_of_hex n, if r = "FAIL" then RFail else RData (bytes_of_hex (String.sub r 3 (String.length r - 3))))
        | _ -> failwith "result") (String.split_on_char ',' res) in
      let o = extract_loop (extraction_target (pres = "1")) results in
      let (ok, wr) = extract_cmd (extraction_target (pres = "1")) (skip = "1") results in
      let w = List.map (fun (rel, d) -> String.concat "/" (List.map hex_of_bytes rel) ^ "=" ^ hex_of_bytes d) wr in
      (if ok then "0" else "1") ^ " " ^ hex_of_n o.errors ^ " " ^ (if w = [] then "-" else String.concat "," w)
    | _ -> "ERR args");
  register "clivalidate" (fun a -> match a with
    | [res] ->
      let results = if res = "-" then [] else List.map (fun e -> match String.split_on_char '=' e with
        | [n; r] -> (bytes_of_hex n, if r = "FAIL" then RFail else RData [])
        | _ -> failwith "result") (String.split_on_char ',' res) in
      if validate_exit_ok results then "0" else "1"
    | _ -> "ERR args")

let () =
  (* blpvalid <strict> <dxt> <jpeg header empty> <w> <h> *)
  register "blpvalid" (fun a -> match a with
    | [st; dx; je; w; h] -> if blp_validate_ok (st = "1") (dx = "1") (je = "1") (n_of_hex w) (n_of_hex h) then "0" else "1"
    | _ -> "ERR args")
