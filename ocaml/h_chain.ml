(* C08 handlers: patch chain ordering/lookup and patch application of the model *)
open Model
open Conv

(* Z conversions *)
let z_of_int n = if n = 0 then Z0 else if n > 0 then Zpos (pos_of_int n) else Zneg (pos_of_int (-n))
let int_of_z = function Z0 -> 0 | Zpos p -> int_of_pos p | Zneg p -> - (int_of_pos p)

(* ops: a.<id>.<prio> | r.<id> | s.<id>.<prio> | c   (decimal, prio may be negative) *)
let parse_op s =
  match String.split_on_char '.' s with
  | ["a"; id; p] -> Add (z_of_int (int_of_string id), z_of_int (int_of_string p))
  | ["r"; id] -> Remove (z_of_int (int_of_string id))
  | ["s"; id; p] -> SetPrio (z_of_int (int_of_string id), z_of_int (int_of_string p))
  | ["c"] -> Clear
  | _ -> failwith "op"

(* holds: id:name=content;name=content/id:... with integer name and content keys *)
let parse_holds s =
  let tbl = Hashtbl.create 16 in
  if s <> "-" then
    List.iter (fun part ->
      match String.split_on_char ':' part with
      | [id; items] ->
        List.iter (fun it -> match String.split_on_char '=' it with
          | [n; c] -> Hashtbl.replace tbl (int_of_string id, int_of_string n) (int_of_string c)
          | _ -> ()) (String.split_on_char ';' items)
      | _ -> ()) (String.split_on_char '/' s);
  fun id name -> match Hashtbl.find_opt tbl (int_of_z id, int_of_z name) with Some c -> Some (z_of_int c) | None -> None

let () =
  (* chain <par|seq> <ops ,> <holds> <names ,>  ->  order ; per name winner:content *)
  register "chain" (fun a -> match a with
    | [mode; ops; holds; names] ->
      let ops = if ops = "-" then [] else List.map parse_op (String.split_on_char ',' ops) in
      let c = if mode = "par"
        then from_parallel (List.filter_map (function Add (i, p) -> Some (i, p) | _ -> None) ops)
        else run ops in
      let h = parse_holds holds in
      let order = String.concat "," (List.map (fun e -> string_of_int (int_of_z e.e_id)) c) in
      let res = List.map (fun n ->
        match lookup h c (z_of_int (int_of_string n)) with
        | Some (i, v) -> Printf.sprintf "%s>%d:%d" n (int_of_z i) (int_of_z v)
        | None -> Printf.sprintf "%s>none" n) (String.split_on_char ',' names) in
      (if order = "" then "-" else order) ^ " " ^ String.concat "," res
    | _ -> "ERR args");
  register "md5" (fun a -> match a with [d] -> hex_of_bytes (md5 (bytes_of_hex d)) | _ -> "ERR args");
  register "patchapply" (fun a -> match a with
    | [p; base] ->
      (match parse_patch (bytes_of_hex p) with
       | None -> "PARSE-ERR"
       | Some pt -> (match apply_patch pt (bytes_of_hex base) with POk o -> "OK " ^ hex_of_bytes o | PErr -> "ERR" | PPanic -> "PANIC"))
    | _ -> "ERR args");
  register "mkcopy" (fun a -> match a with
    | [base; nw] -> hex_of_bytes (make_copy_patch (bytes_of_hex base) (bytes_of_hex nw))
    | _ -> "ERR args")
