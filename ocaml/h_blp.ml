(* C16 handler: mipmap chain, alpha plane and layout of the model *)
open Model
open Conv

let () =
  (* blpmodel <w> <h> <mips 0|1> <alpha bits> <source alphas hex> -> N=<images> DIMS=.. AL=<alpha plane hex> DEC=<decoded alphas hex> *)
  register "blpmodel" (fun a -> match a with
    | [w; h; mips; bits; alphas] ->
      let w = n_of_hex w and h = n_of_hex h and bits = n_of_hex bits in
      let cnt = if mips = "1" then int_of_n (mip_count w h) else 0 in
      let dims = List.init (cnt + 1) (fun i -> let (a, b) = mip_size w h (n_of_int i) in hex_of_n a ^ "." ^ hex_of_n b) in
      let al = bytes_of_hex alphas in
      let plane = alpha_plane bits al in
      let dec = List.map (fun x -> if bits = N0 then n_of_int 255 else expand bits (quant bits x)) al in
      "N=" ^ string_of_int (cnt + 1) ^ " DIMS=" ^ String.concat "," dims ^ " AL=" ^ hex_of_bytes plane ^ " DEC=" ^ hex_of_bytes dec
    | _ -> "ERR args")
