#!/bin/sh
# builds ocaml/modelrun from the extracted model (ocaml/gen/model.ml) and the hand-written driver
set -e
cd "$(dirname "$0")"
mkdir -p gen _build
(cd gen && coqc -Q ../../coq WR ../../coq/Extract/Extract.v >/dev/null)
cp gen/model.ml gen/model.mli conv.ml h_*.ml main.ml _build/
cd _build
HS=$(ls h_*.ml | sort | tr '\n' ' ')
ocamlfind ocamlopt -O2 -w -a -package unix -linkpkg model.mli model.ml conv.ml $HS main.ml -o ../modelrun 2>&1 | grep -v "options -O2 is only relevant" || true
test -x ../modelrun
