(* C05 handler: header admission of the model *)
open Model
open Conv

let () =
  register "hdrsec" (fun a -> match List.map n_of_hex a with
    | [s; hs; asz; v; sh; hp; bp; hsz; bsz] ->
      let r = validate_header { h_sig = s; h_size = hs; h_asize = asz; h_ver = v; h_shift = sh; h_hpos = hp; h_bpos = bp; h_hsize = hsz; h_bsize = bsz } in
      if r = N0 then "OK" else "ERR:" ^ hex_of_n r
    | _ -> "ERR args")
