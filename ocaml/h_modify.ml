(* C06 handler: the specification map run over an operation history *)
open Model
open Conv

let parse_op s =
  match String.split_on_char '.' s with
  | "a" :: n :: d :: _ :: _ :: rep :: _ -> MAdd (bytes_of_hex n, bytes_of_hex d, rep = "1")
  | ["r"; n] -> MRemove (bytes_of_hex n)
  | ["m"; a; b] -> MRename (bytes_of_hex a, bytes_of_hex b)
  | ["c"] -> MCompact
  | _ -> MFlush

let () =
  (* specrun <initial name:data ,|-> <ops ,|-> <query names ,> *)
  register "specrun" (fun a -> match a with
    | [init; ops; names] ->
      let m0 = if init = "-" then [] else List.map (fun e -> match String.split_on_char ':' e with
        | [n; d] -> (fold_name (bytes_of_hex n), bytes_of_hex d) | _ -> failwith "init") (String.split_on_char ',' init) in
      let ops = if ops = "-" then [] else List.map parse_op (String.split_on_char ',' ops) in
      let (m, oks) = spec_run m0 ops in
      let o = if oks = [] then "-" else String.concat "," (List.map (fun b -> if b then "OK" else "ERR") oks) in
      let r = String.concat "," (List.map (fun n -> n ^ ">" ^ (match sget m (fold_name (bytes_of_hex n)) with Some d -> "OK:" ^ hex_of_bytes d | None -> "NOTFOUND")) (String.split_on_char ',' names)) in
      o ^ " | " ^ r
    | _ -> "ERR args")
