(* C10 handler: the digest a weak signature signs, and the specification view *)
open Model
open Conv

let () =
  (* sigdigest <bytes hex> <begin> <end> <exb> <exe> -> md5 of the chunked stream, and whether the stream equals the specification view *)
  register "sigdigest" (fun a -> match a with
    | [d; b; e; xb; xe] ->
      let bs = bytes_of_hex d in
      let si = { si_begin = n_of_hex b; si_end = n_of_hex e; si_exb = n_of_hex xb; si_exe = n_of_hex xe } in
      let st = hashed_stream bs si in
      hex_of_bytes (Model.md5 st) ^ " " ^ (if st = signed_view bs si then "1" else "0")
    | _ -> "ERR args")
