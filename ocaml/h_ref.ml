(* C02 handlers: the reference MPQ reader / writer.  Codec work is done outside (CPython
   zlib / bz2): a lookup miss is recorded and reported as NEED so that the driver can
   resolve it and ask again. *)
open Model
open Conv

let tab : (string, string) Hashtbl.t = Hashtbl.create 64
let misses : string list ref = ref []
let load s =
  Hashtbl.reset tab; misses := [];
  if s <> "-" then List.iter (fun e -> match String.split_on_char '=' e with
    | [k; v] -> Hashtbl.replace tab k v | _ -> ()) (String.split_on_char ',' s)

let inflate m payload size =
  let k = "i." ^ hex_of_n m ^ "." ^ hex_of_bytes payload ^ "." ^ hex_of_n size in
  match Hashtbl.find_opt tab k with
  | Some "ERR" -> None
  | Some v -> Some (bytes_of_hex v)
  | None -> misses := k :: !misses; None
let deflate m plain =
  let k = "d." ^ hex_of_n m ^ "." ^ hex_of_bytes plain in
  match Hashtbl.find_opt tab k with
  | Some "ERR" -> None
  | Some v -> Some (bytes_of_hex v)
  | None -> misses := k :: !misses; None

let need () = "NEED " ^ String.concat "," (List.sort_uniq compare !misses)

let () =
  (* refreadall <archive hex> <names hex ,> <table> *)
  register "refreadall" (fun a -> match a with
    | [arch; names; t] ->
      load t;
      (match ref_open (bytes_of_hex arch) with
       | None -> "OPEN-ERR"
       | Some ar ->
         let rd n = match ref_read inflate ar (bytes_of_hex n) with
           | Some d -> "OK:" ^ hex_of_bytes d
           | None -> (match ref_table_sane ar (bytes_of_hex n) with Some false -> "FAIL:table" | _ -> "FAIL") in
         let out = String.concat "," (List.map (fun n -> n ^ ">" ^ rd n) (String.split_on_char ',' names)) in
         if !misses <> [] then need () else out)
    | _ -> "ERR args");
  (* refwrite <shift> <hsize> <entries name:data:mask:enc ,> <table> *)
  register "refwrite" (fun a -> match a with
    | [shift; hsize; entries; t] ->
      load t;
      let fs = if entries = "-" then [] else List.map (fun e -> match String.split_on_char ':' e with
        | [n; d; m; enc] -> { rf_name = bytes_of_hex n; rf_data = bytes_of_hex d; rf_mask = n_of_hex m; rf_enc = n_of_hex enc }
        | _ -> failwith "entry") (String.split_on_char ',' entries) in
      let r = ref_write deflate (n_of_hex shift) (n_of_hex hsize) fs in
      if !misses <> [] then need () else (match r with Some b -> hex_of_bytes b | None -> "ERR")
    | _ -> "ERR args")
