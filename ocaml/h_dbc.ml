(* C17 handler: DBC writer / reader / key lookup of the model *)
open Model
open Conv

let parse_schema s =
  List.map (fun f -> match String.split_on_char '*' f with
    | [t; n] -> ((if t = "str" then TStr else TNum (nat_of_int (match t with "u8" | "i8" -> 1 | "u16" | "i16" -> 2 | _ -> 4))), nat_of_int (int_of_string n), true)
    | [t] -> ((if t = "str" then TStr else TNum (nat_of_int (match t with "u8" | "i8" -> 1 | "u16" | "i16" -> 2 | _ -> 4))), nat_of_int 1, false)
    | _ -> failwith "schema") (String.split_on_char ',' s)

let sch_of ps = List.map (fun (t, n, _) -> (t, n)) ps
let has_arrays ps = List.exists (fun (_, _, a) -> a) ps

let parse_cell c = if String.length c > 0 && c.[0] = 's' then CStr (bytes_of_hex (String.sub c 1 (String.length c - 1))) else CNum (n_of_hex c)

let parse_records s =
  if s = "-" then [] else
  List.map (fun r -> List.map parse_cell (String.split_on_char ';' r)) (String.split_on_char '|' s)

let show_cell = function CNum v -> hex_of_n v | CStr s -> "s" ^ hex_of_bytes s

(* same text as the implementation-side dump: fields ',' ; arrays [a;b] ; records '|' *)
let show_record ps r =
  let rec go ps r = match ps with
    | [] -> []
    | (_, n, arr) :: rest ->
      let k = int_of_nat n in
      let rec take k r = if k = 0 then ([], r) else match r with x :: r' -> let (a, b) = take (k - 1) r' in (x :: a, b) | [] -> ([], []) in
      let (cs, r') = take k r in
      (if arr then "[" ^ String.concat ";" (List.map show_cell cs) ^ "]" else String.concat "" (List.map show_cell cs)) :: go rest r' in
  String.concat "," (go ps r)

let () =
  (* dbcwrite <schema> <records: cells ';' records '|'> -> file hex *)
  register "dbcwrite" (fun a -> match a with
    | [s; recs] -> let ps = parse_schema s in hex_of_bytes (dbc_write (sch_of ps) (has_arrays ps) (parse_records recs))
    | _ -> "ERR args");
  (* dbcread <schema> <file hex> -> records as the implementation prints them *)
  register "dbcread" (fun a -> match a with
    | [s; f] -> let ps = parse_schema s in
      (match dbc_read (sch_of ps) (bytes_of_hex f) with
       | Some [] -> "-"
       | Some rs -> String.concat "|" (List.map (show_record ps) rs)
       | None -> "READ-ERR")
    | _ -> "ERR args");
  (* dbckeys <key:index ,|-> <keys ,> -> record index found by binary search over the sorted table, or none *)
  register "dbckeys" (fun a -> match a with
    | [tab; keys] ->
      let t = if tab = "-" then [] else List.map (fun e -> match String.split_on_char ':' e with [k; i] -> (n_of_hex k, n_of_hex i) | _ -> failwith "tab") (String.split_on_char ',' tab) in
      let st = sort_keys t in
      String.concat "," (List.map (fun k -> match lookup_sorted st (n_of_hex k) with Some i -> hex_of_n i | None -> "none") (String.split_on_char ',' keys))
    | _ -> "ERR args")
