(* C03 handlers: sparse codec, wrapper and limit logic of the model *)
open Model
open Conv

let sparse_ic m d = if int_of_n m = 0x20 then sparse_compress d else None
let sparse_id m d sz =
  if int_of_n m = 0x20 then (match sparse_decompress d sz with SOk o -> Some o | _ -> None) else None

let () =
  register "spcomp" (fun a -> match a with
    | [d] -> (match sparse_compress (bytes_of_hex d) with Some o -> hex_of_bytes o | None -> "FUEL")
    | _ -> "ERR args");
  register "spdecomp" (fun a -> match a with
    | [sz; d] -> (match sparse_decompress (bytes_of_hex d) (n_of_hex sz) with SOk o -> hex_of_bytes o | SErr -> "ERR" | SFuel -> "FUEL")
    | _ -> "ERR args");
  (* wrapper with the sparse codec plugged in: comp 20 <data> / decomp 20 <size> <data> *)
  register "comp" (fun a -> match a with
    | [m; d] -> (match compress sparse_ic (bytes_of_hex d) (n_of_hex m) with Some o -> hex_of_bytes o | None -> "ERR")
    | _ -> "ERR args");
  register "decomp" (fun a -> match a with
    | [m; sz; d] -> (match decompress sparse_id (bytes_of_hex d) (n_of_hex m) (n_of_hex sz) with Some o -> "OK " ^ hex_of_bytes o | None -> "ERR")
    | _ -> "ERR args");
  register "valop" (fun a -> match a with
    | [c; n; m] -> if validate_op (n_of_hex c) (n_of_hex n) (n_of_hex m) then "OK" else "ERR"
    | _ -> "ERR args");
  register "adlimit" (fun a -> match a with
    | [c; m] -> hex_of_n (adaptive_limit (n_of_hex c) (n_of_hex m))
    | _ -> "ERR args")
