(* C18 handlers: WDT model writer / reader on the same case lines as impl_wdt *)
open Model
open Conv

let words_hex s = if s = "-" then [] else words_of_hex s 0 []

(* 16-bit little-endian halves *)
let halves_of_hex s i n =
  let byte k = hexdig s.[i + 2*k] * 16 + hexdig s.[i + 2*k + 1] in
  List.init n (fun j -> n_of_int (byte (2*j) lor (byte (2*j+1) lsl 8)))

let modf_of_hex s =
  if s = "-" then []
  else
    let n = String.length s / 128 in
    List.init n (fun e ->
      let o = e * 128 in
      words_of_hex (String.sub s o 112) 0 [] @ halves_of_hex s (o + 112) 4)

let build t =
  match t with
  | [ver; mv; mphd; main; maid; mwmo; modf] ->
    (n_of_hex ver,
     { mver = n_of_hex mv; mphd = words_hex mphd; main = words_hex main;
       maid = (if maid = "x" then None else Some (words_hex maid));
       mwmo = (if mwmo = "x" then None else if mwmo = "e" then Some []
               else Some (List.map bytes_of_hex (String.split_on_char ',' mwmo)));
       modf = (if modf = "x" then None else Some (modf_of_hex modf)) })
  | _ -> failwith "wdt args"

let hex_of_halves l =
  let b = Buffer.create 16 in
  List.iter (fun h -> let v = int_of_n h in Buffer.add_string b (Printf.sprintf "%02x%02x" (v land 255) ((v lsr 8) land 255))) l;
  Buffer.contents b

let rec take n l = if n = 0 then [] else match l with [] -> [] | x :: r -> x :: take (n-1) r
let rec drop n l = if n = 0 then l else match l with [] -> [] | _ :: r -> drop (n-1) r

let dump w =
  let maid = match w.maid with None -> "x" | Some m -> hex_of_words m in
  let mwmo = match w.mwmo with None -> "x" | Some [] -> "e"
    | Some ns -> String.concat "," (List.map hex_of_bytes ns) in
  let modf = match w.modf with None -> "x" | Some [] -> "-"
    | Some es -> String.concat "" (List.map (fun e -> hex_of_words (take 14 e) ^ hex_of_halves (drop 14 e)) es) in
  Printf.sprintf "%s %s %s %s %s %s" (hex_of_n w.mver) (hex_of_words w.mphd) (hex_of_words w.main) maid mwmo modf

let () =
  register "wdtwrite" (fun a -> let (ver, w) = build a in hex_of_bytes (wdt_write ver w));
  register "wdtwf" (fun a -> let (ver, w) = build a in if wdt_wf ver w then "WF" else "NOTWF");
  register "wdtread" (fun a -> match a with
    | [bs] -> (match wdt_read (bytes_of_hex bs) with Ok w -> "OK " ^ dump w | Err -> "ERR")
    | _ -> "ERR args")

let () =
  register "maofcheck" (fun a -> match a with
    | [bs] -> if maof_check (bytes_of_hex bs) then "OK" else "BAD"
    | _ -> "ERR args");
  register "walk" (fun a -> match a with
    | [bs] -> String.concat "," (List.map (fun ((m, sz), d) -> hex_of_n m ^ ":" ^ hex_of_n sz ^ ":" ^ string_of_int (List.length d)) (walk_all (bytes_of_hex bs)))
    | _ -> "ERR args")

(* C13-C15: offset tables over chunked files, decided by the proved checker *)
let () =
  (* tablecheck <file hex> <origin> <magic:rel ,> -> 1|0 *)
  register "tablecheck" (fun a -> match a with
    | [f; origin; tab] ->
      let t = if tab = "-" then [] else List.map (fun e -> match String.split_on_char ':' e with
        | [m; r] -> (n_of_hex m, n_of_hex r) | _ -> failwith "tab") (String.split_on_char ',' tab) in
      if table_ok (bytes_of_hex f) (n_of_hex origin) t then "1" else "0"
    | _ -> "ERR args");
  (* framing <file hex> -> magic:offset:declared ,... TILES=<1|0 every chunk complete and the walk ends at the end of the file> *)
  register "framing" (fun a -> match a with
    | [f] ->
      let bs = bytes_of_hex f in
      let w = walk_all bs in
      let off = ref 0 in
      let items = List.map (fun ((m, sz), d) -> let o = !off in off := o + 8 + List.length d; hex_of_n m ^ ":" ^ Printf.sprintf "%x" o ^ ":" ^ hex_of_n sz) w in
      let complete = List.for_all (fun ((_, sz), d) -> int_of_n sz = List.length d) w in
      String.concat "," items ^ " TILES=" ^ (if complete && !off = List.length bs then "1" else "0")
    | _ -> "ERR args")

let () =
  (* nametable <block hex> <names hex ,> -> 1 when every name is found at the offset the model computes for its position *)
  register "nametable" (fun a -> match a with
    | [blk; names] ->
      let block = bytes_of_hex blk in
      let ns = List.map bytes_of_hex (String.split_on_char ',' names) in
      let offs = name_offsets N0 ns in
      let bad = List.filter (fun (n, o) -> name_at block o <> n) (List.combine ns offs) in
      if bad = [] then "1" else "0:" ^ hex_of_bytes (fst (List.hd bad))
    | _ -> "ERR args")
