//! Shared helpers for the implementation-side runners of the correspondence checks.
use std::io::{self, BufRead, Write};

pub fn unhex(s: &str) -> Vec<u8> {
    if s == "-" {
        return Vec::new();
    }
    let b = s.as_bytes();
    let d = |c: u8| -> u8 {
        match c {
            b'0'..=b'9' => c - b'0',
            b'a'..=b'f' => c - b'a' + 10,
            b'A'..=b'F' => c - b'A' + 10,
            _ => 0,
        }
    };
    (0..b.len() / 2).map(|i| d(b[2 * i]) * 16 + d(b[2 * i + 1])).collect()
}

pub fn hex(b: &[u8]) -> String {
    if b.is_empty() {
        return "-".to_string();
    }
    let mut s = String::with_capacity(b.len() * 2);
    for x in b {
        s.push_str(&format!("{:02x}", x));
    }
    s
}

pub fn num(s: &str) -> u64 {
    u64::from_str_radix(s, 16).unwrap_or(0)
}

/// Runs `f` on every stdin line (split on blanks), printing one result line per
/// case; a panic inside `f` is reported as the result `PANIC`.
pub fn serve<F: Fn(&[&str]) -> String + std::panic::RefUnwindSafe>(f: F) {
    std::panic::set_hook(Box::new(|info| { if std::env::var("VERIF_PANIC_MSG").is_ok() { eprintln!("PANIC-MSG: {info}"); } }));
    // one command given as process arguments: run it and exit (used where the process is traced or killed)
    let args: Vec<String> = std::env::args().skip(1).collect();
    if !args.is_empty() {
        let toks: Vec<&str> = args.iter().map(|s| s.as_str()).collect();
        let s = std::panic::catch_unwind(|| f(&toks)).unwrap_or("PANIC".to_string());
        println!("{}", s);
        return;
    }
    let stdin = io::stdin();
    let stdout = io::stdout();
    let mut out = io::BufWriter::new(stdout.lock());
    for line in stdin.lock().lines() {
        let line = match line {
            Ok(l) => l,
            Err(_) => break,
        };
        let toks: Vec<&str> = line.split_whitespace().collect();
        if toks.is_empty() {
            let _ = writeln!(out);
            continue;
        }
        let r = std::panic::catch_unwind(|| f(&toks));
        let s = match r {
            Ok(s) => s,
            Err(_) => "PANIC".to_string(),
        };
        let _ = writeln!(out, "{}", s);
    }
    let _ = out.flush();
}
