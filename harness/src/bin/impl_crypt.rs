//! C04: runs wow-mpq's hashing / cipher / Jenkins functions on case lines.
use verif_harness::{hex, num, serve, unhex};
use wow_mpq::crypto::{
    ENCRYPTION_TABLE, decrypt_block, decrypt_dword, encrypt_block, het_hash, jenkins_hash,
};
use wow_mpq::{ArchiveBuilder, decrypt_file_data, hash_string};

fn words(b: &[u8]) -> Vec<u32> {
    b.chunks_exact(4).map(|c| u32::from_le_bytes([c[0], c[1], c[2], c[3]])).collect()
}
fn unwords(w: &[u32]) -> Vec<u8> {
    w.iter().flat_map(|x| x.to_le_bytes()).collect()
}
fn as_str(b: &[u8]) -> &str {
    // the functions under test only look at as_bytes(); arbitrary bytes are
    // passed through unchecked so that all 256 byte values can be enumerated
    unsafe { std::str::from_utf8_unchecked(b) }
}

fn main() {
    serve(|t| match t[0] {
        "hash" => format!("{:x}", hash_string(as_str(&unhex(t[2])), num(t[1]) as u32)),
        "table" => ENCRYPTION_TABLE.iter().map(|v| format!("{:x}", v)).collect::<Vec<_>>().join(","),
        "encw" => {
            let mut w = words(&unhex(t[2]));
            encrypt_block(&mut w, num(t[1]) as u32);
            hex(&unwords(&w))
        }
        "decw" => {
            let mut w = words(&unhex(t[2]));
            decrypt_block(&mut w, num(t[1]) as u32);
            hex(&unwords(&w))
        }
        "dword" => format!("{:x}", decrypt_dword(num(t[2]) as u32, num(t[1]) as u32)),
        "encb" => {
            let mut b = unhex(t[2]);
            ArchiveBuilder::new().encrypt_data(&mut b, num(t[1]) as u32);
            hex(&b)
        }
        "decb" => {
            let mut b = unhex(t[2]);
            decrypt_file_data(&mut b, num(t[1]) as u32);
            hex(&b)
        }
        "oaat" => format!("{:x}", jenkins_hash(as_str(&unhex(t[1])))),
        "het" => {
            let (h, h1) = het_hash(as_str(&unhex(t[2])), num(t[1]) as u32);
            format!("{:x} {:x}", h, h1)
        }
        _ => "ERR unknown".to_string(),
    });
}
