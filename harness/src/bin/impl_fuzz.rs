//! Implementation-side runner for C05: every public parse entry point on hostile bytes,
//! each call in a forked child with a CPU alarm and an address-space limit.
#![allow(unused_imports)]
use std::io::Cursor;
use verif_harness::{hex, num, serve, unhex};

fn run_one(fmt: &str, bytes: &[u8], tmp: &str) -> String {
    let r: Result<String, String> = match fmt {
        "mpq" => {
            std::fs::write(tmp, bytes).unwrap();
            match wow_mpq::Archive::open(tmp) {
                Err(_) => Err("open".into()),
                Ok(mut a) => {
                    let mut n = 0;
                    let names: Vec<String> = match a.list() { Ok(l) => l.into_iter().take(40).map(|e| e.name).collect(), Err(_) => vec![] };
                    for nm in &names { if a.read_file(nm).is_ok() { n += 1; } }
                    let _ = a.read_file("(listfile)"); let _ = a.read_file("(attributes)");
                    let _ = a.get_info(); let _ = a.verify_signature();
                    Ok(format!("files={}/{}", n, names.len()))
                }
            }
        }
        "patch" => match wow_mpq::patch::PatchFile::parse(bytes) {
            Ok(p) => { let base = vec![7u8; 64]; match wow_mpq::patch::apply_patch(&p, &base) { Ok(o) => Ok(format!("applied={}", o.len())), Err(_) => Ok("parsed".into()) } }
            Err(_) => Err("parse".into()),
        },
        "m2" => wow_m2::parse_m2(&mut Cursor::new(bytes)).map(|_| "ok".to_string()).map_err(|_| "parse".to_string()),
        "skin" => wow_m2::skin::parse_skin(&mut Cursor::new(bytes)).map(|_| "ok".to_string()).map_err(|_| "parse".to_string()),
        "anim" => wow_m2::anim::AnimFile::parse(&mut Cursor::new(bytes)).map(|_| "ok".to_string()).map_err(|_| "parse".to_string()),
        "adt" => wow_adt::parse_adt(&mut Cursor::new(bytes)).map(|_| "ok".to_string()).map_err(|_| "parse".to_string()),
        "wmo" => wow_wmo::parse_wmo(&mut Cursor::new(bytes)).map(|_| "ok".to_string()).map_err(|_| "parse".to_string()),
        "blp" => match wow_blp::parser::parse_blp(bytes) {
            Ok(b) => { let _ = wow_blp::convert::blp_to_image(&b, 0); Ok("ok".to_string()) }
            Err(_) => Err("parse".into()),
        },
        "dbc" => match wow_cdbc::DbcParser::parse_bytes(bytes) {
            Ok(p) => match p.parse_records() { Ok(r) => Ok(format!("records={}", r.len())), Err(_) => Err("records".into()) },
            Err(_) => Err("parse".into()),
        },
        "wdt" => wow_wdt::WdtReader::new(Cursor::new(bytes.to_vec()), wow_wdt::version::WowVersion::WotLK).read().map(|_| "ok".to_string()).map_err(|_| "parse".to_string()),
        "wdl" => wow_wdl::parser::WdlParser::new().parse(&mut Cursor::new(bytes.to_vec())).map(|_| "ok".to_string()).map_err(|_| "parse".to_string()),
        // codec: byte 0 = compression mask, bytes 1..5 = expected size (LE), rest = payload of wow_mpq::decompress
        "codec" => {
            if bytes.len() < 5 { return "ERR:short".to_string(); }
            let size = u32::from_le_bytes([bytes[1], bytes[2], bytes[3], bytes[4]]) as usize;
            wow_mpq::decompress(&bytes[5..], bytes[0], size).map(|o| format!("out={}", o.len())).map_err(|_| "decode".to_string())
        }
        // attrs: byte 0..4 = block count (LE), rest = content of an (attributes) file
        "attrs" => {
            if bytes.len() < 4 { return "ERR:short".to_string(); }
            let n = u32::from_le_bytes([bytes[0], bytes[1], bytes[2], bytes[3]]) as usize;
            wow_mpq::special_files::Attributes::parse(&bytes[4..].to_vec().into(), n).map(|_| "ok".to_string()).map_err(|_| "parse".to_string())
        }
        _ => Err("unknown-format".into()),
    };
    match r { Ok(s) => format!("OK:{s}"), Err(s) => format!("ERR:{s}") }
}

fn isolated<F: FnOnce() -> String>(f: F, secs: u32, mem: u64) -> String {
    unsafe {
        let mut fds = [0i32; 2];
        if libc::pipe(fds.as_mut_ptr()) != 0 { return "ABORT".to_string(); }
        let pid = libc::fork();
        if pid == 0 {
            libc::close(fds[0]);
            let lim = libc::rlimit { rlim_cur: mem, rlim_max: mem };
            libc::setrlimit(libc::RLIMIT_AS, &lim);
            let cpu = libc::rlimit { rlim_cur: secs as u64, rlim_max: secs as u64 + 1 };
            libc::setrlimit(libc::RLIMIT_CPU, &cpu);
            libc::alarm(secs * 3);
            let s = std::panic::catch_unwind(std::panic::AssertUnwindSafe(f)).unwrap_or("PANIC".to_string());
            let b = s.as_bytes();
            let mut off = 0;
            while off < b.len() { let n = libc::write(fds[1], b[off..].as_ptr() as *const libc::c_void, b.len() - off); if n <= 0 { break; } off += n as usize; }
            libc::_exit(0);
        }
        libc::close(fds[1]);
        let mut out = Vec::new();
        let mut buf = [0u8; 4096];
        loop { let n = libc::read(fds[0], buf.as_mut_ptr() as *mut libc::c_void, buf.len()); if n <= 0 { break; } out.extend_from_slice(&buf[..n as usize]); }
        libc::close(fds[0]);
        let mut st = 0i32;
        libc::waitpid(pid, &mut st, 0);
        if libc::WIFEXITED(st) && libc::WEXITSTATUS(st) == 0 && !out.is_empty() { String::from_utf8_lossy(&out).to_string() }
        else if libc::WIFSIGNALED(st) && (libc::WTERMSIG(st) == libc::SIGALRM || libc::WTERMSIG(st) == libc::SIGXCPU || libc::WTERMSIG(st) == libc::SIGKILL) { "HANG".to_string() }
        else if libc::WIFSIGNALED(st) && libc::WTERMSIG(st) == libc::SIGSEGV { "SEGV".to_string() }
        else if libc::WIFSIGNALED(st) { format!("ABORT-SIG{}", libc::WTERMSIG(st)) } else { "ABORT".to_string() }
    }
}

fn main() {
    let tmp = format!("{}/fuzz_{}.bin", std::env::var("VERIF_TMP").unwrap_or("/verif/.cache".to_string()), std::process::id());
    // an allocation failure aborts; with VERIF_PANIC_MSG the hook prints where
    serve(move |t| match t[0] {
        // parse <format> <hex bytes> [<seconds> <memory MiB>]
        "parse" => {
            let bytes = unhex(t[2]);
            let secs = if t.len() > 3 { num(t[3]) as u32 } else { 5 };
            let mem = if t.len() > 4 { num(t[4]) } else { 2048 } * 1024 * 1024 / 1024;
            let fmt = t[1].to_string();
            let tmp2 = tmp.clone();
            let r = isolated(move || run_one(&fmt, &bytes, &tmp2), secs, mem * 1024);
            let _ = std::fs::remove_file(&tmp);
            r
        }
        // hdrsec <sig> <header size> <archive size> <version> <shift> <hash pos> <block pos> <hash size> <block size> (default limits)
        "hdrsec" => {
            let v: Vec<u64> = t[1..].iter().map(|x| num(x)).collect();
            match wow_mpq::security::validate_header_security(v[0] as u32, v[1] as u32, v[2] as u32, v[3] as u16, v[4] as u16, v[5] as u32, v[6] as u32, v[7] as u32, v[8] as u32,
                                                              &wow_mpq::security::SecurityLimits::default()) {
                Ok(()) => "OK".to_string(),
                Err(_) => "ERR".to_string(),
            }
        }
        _ => "ERR unknown".to_string(),
    });
}
