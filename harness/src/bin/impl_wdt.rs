//! C18: WDT writer/reader, conversion and tile<->world maps of wow-wdt on case lines.
use std::io::Cursor;
use verif_harness::{hex, num, serve, unhex};
use wow_wdt::chunks::maid::MaidSection;
use wow_wdt::chunks::{MaidChunk, MainEntry, ModfChunk, ModfEntry, MphdFlags, MwmoChunk};
use wow_wdt::conversion::convert_wdt;
use wow_wdt::version::WowVersion;
use wow_wdt::{WdtFile, WdtReader, WdtWriter, tile_to_world, world_to_tile};

fn version(i: u64) -> WowVersion {
    match i {
        0 => WowVersion::Classic,
        1 => WowVersion::TBC,
        2 => WowVersion::WotLK,
        3 => WowVersion::Cataclysm,
        4 => WowVersion::MoP,
        5 => WowVersion::WoD,
        6 => WowVersion::Legion,
        7 => WowVersion::BfA,
        8 => WowVersion::Shadowlands,
        _ => WowVersion::Dragonflight,
    }
}
fn u32s(b: &[u8]) -> Vec<u32> {
    b.chunks_exact(4).map(|c| u32::from_le_bytes([c[0], c[1], c[2], c[3]])).collect()
}
fn f(b: &[u8], o: usize) -> f32 {
    f32::from_le_bytes([b[o], b[o + 1], b[o + 2], b[o + 3]])
}
const SECTIONS: [MaidSection; 8] = [
    MaidSection::RootAdt, MaidSection::Obj0Adt, MaidSection::Obj1Adt, MaidSection::Tex0Adt,
    MaidSection::LodAdt, MaidSection::MapTexture, MaidSection::MapTextureN, MaidSection::MinimapTexture,
];

/// tokens: ver mver mphd(32 bytes) main(32768 bytes) maid(bytes|-|x) mwmo(names ','-joined|e|x) modf(bytes|e|x)
/// "x" = absent chunk, "e"/"-" = present but empty
fn build(t: &[&str]) -> WdtFile {
    let mut w = WdtFile::new(version(num(t[0])));
    w.mver.version = num(t[1]) as u32;
    let p = u32s(&unhex(t[2]));
    w.mphd.flags = MphdFlags::from_bits_retain(p[0]);
    w.mphd.something = p[1];
    for i in 0..6 {
        w.mphd.unused[i] = p[2 + i];
    }
    if w.mphd.has_maid() {
        w.mphd.lgt_file_data_id = Some(p[1]);
        w.mphd.occ_file_data_id = Some(p[2]);
        w.mphd.fogs_file_data_id = Some(p[3]);
        w.mphd.mpv_file_data_id = Some(p[4]);
        w.mphd.tex_file_data_id = Some(p[5]);
        w.mphd.wdl_file_data_id = Some(p[6]);
        w.mphd.pd4_file_data_id = Some(p[7]);
    }
    let m = u32s(&unhex(t[3]));
    for y in 0..64 {
        for x in 0..64 {
            let i = (y * 64 + x) * 2;
            w.main.entries[y][x] = MainEntry { flags: m[i], area_id: m[i + 1] };
        }
    }
    if t[4] != "x" {
        let ids = u32s(&unhex(t[4]));
        let k = ids.len() / 4096;
        let mut maid = MaidChunk::with_section_count(k);
        for s in 0..k.min(8) {
            for y in 0..64 {
                for x in 0..64 {
                    maid.set(SECTIONS[s], x, y, ids[s * 4096 + y * 64 + x]).unwrap();
                }
            }
        }
        w.maid = Some(maid);
    }
    if t[5] != "x" {
        let mut c = MwmoChunk::new();
        if t[5] != "e" {
            for n in t[5].split(',') {
                c.add_filename(String::from_utf8(unhex(n)).unwrap());
            }
        }
        w.mwmo = Some(c);
    }
    if t[6] != "x" {
        let mut c = ModfChunk::new();
        let b = unhex(t[6]);
        for e in b.chunks_exact(64) {
            c.add_entry(ModfEntry {
                id: u32::from_le_bytes([e[0], e[1], e[2], e[3]]),
                unique_id: u32::from_le_bytes([e[4], e[5], e[6], e[7]]),
                position: [f(e, 8), f(e, 12), f(e, 16)],
                rotation: [f(e, 20), f(e, 24), f(e, 28)],
                lower_bounds: [f(e, 32), f(e, 36), f(e, 40)],
                upper_bounds: [f(e, 44), f(e, 48), f(e, 52)],
                flags: u16::from_le_bytes([e[56], e[57]]),
                doodad_set: u16::from_le_bytes([e[58], e[59]]),
                name_set: u16::from_le_bytes([e[60], e[61]]),
                scale: u16::from_le_bytes([e[62], e[63]]),
            });
        }
        w.modf = Some(c);
    }
    w
}

fn dump(w: &WdtFile) -> String {
    let mut p: Vec<u8> = Vec::new();
    p.extend(w.mphd.flags.bits().to_le_bytes());
    p.extend(w.mphd.something.to_le_bytes());
    for v in w.mphd.unused {
        p.extend(v.to_le_bytes());
    }
    let mut m: Vec<u8> = Vec::new();
    for row in &w.main.entries {
        for e in row {
            m.extend(e.flags.to_le_bytes());
            m.extend(e.area_id.to_le_bytes());
        }
    }
    let maid = match &w.maid {
        None => "x".to_string(),
        Some(c) => {
            let mut b: Vec<u8> = Vec::new();
            for s in 0..c.section_count().min(8) {
                for y in 0..64 {
                    for x in 0..64 {
                        b.extend(c.get(SECTIONS[s], x, y).unwrap_or(0).to_le_bytes());
                    }
                }
            }
            hex(&b)
        }
    };
    let mwmo = match &w.mwmo {
        None => "x".to_string(),
        Some(c) if c.filenames.is_empty() => "e".to_string(),
        Some(c) => c.filenames.iter().map(|n| hex(n.as_bytes())).collect::<Vec<_>>().join(","),
    };
    let modf = match &w.modf {
        None => "x".to_string(),
        Some(c) => {
            let mut b: Vec<u8> = Vec::new();
            for e in &c.entries {
                b.extend(e.id.to_le_bytes());
                b.extend(e.unique_id.to_le_bytes());
                for a in [e.position, e.rotation, e.lower_bounds, e.upper_bounds] {
                    for v in a {
                        b.extend(v.to_le_bytes());
                    }
                }
                b.extend(e.flags.to_le_bytes());
                b.extend(e.doodad_set.to_le_bytes());
                b.extend(e.name_set.to_le_bytes());
                b.extend(e.scale.to_le_bytes());
            }
            hex(&b)
        }
    };
    format!("{:x} {} {} {} {} {}", w.mver.version, hex(&p), hex(&m), maid, mwmo, modf)
}

fn write(w: &WdtFile) -> Result<Vec<u8>, String> {
    let mut buf = Vec::new();
    WdtWriter::new(&mut buf).write(w).map_err(|e| format!("{e}"))?;
    Ok(buf)
}

// ---------------------------------------------------------------- WDL
use wow_wdl::parser::WdlParser;
use wow_wdl::types::{BoundingBox, HeightMapTile, HolesData, M2Placement, M2VisibilityInfo, ModelPlacement, Vec3d, WdlFile};
use wow_wdl::version::WdlVersion;
use wow_wdl::conversion::convert_wdl_file;

fn wdl_version(i: u64) -> WdlVersion {
    match i {
        0 => WdlVersion::Vanilla,
        1 => WdlVersion::Wotlk,
        2 => WdlVersion::Cataclysm,
        3 => WdlVersion::Mop,
        4 => WdlVersion::Wod,
        5 => WdlVersion::Legion,
        6 => WdlVersion::Bfa,
        7 => WdlVersion::Shadowlands,
        8 => WdlVersion::Dragonflight,
        _ => WdlVersion::Latest,
    }
}
fn fv(seed: u32, i: u32) -> f32 {
    // assorted finite float patterns (never NaN so that == comparisons are meaningful)
    let pats = [0.0f32, -0.0, 1.0, -1.5, 533.3333, 1.0e-30, -3.4e38, 17066.666, 0.1, 255.75];
    pats[((seed.wrapping_mul(2654435761).wrapping_add(i.wrapping_mul(40503))) >> 7) as usize % pats.len()]
}
fn v3(seed: u32, i: u32) -> Vec3d {
    Vec3d::new(fv(seed, i), fv(seed, i + 1), fv(seed, i + 2))
}
/// tokens: ver tiles(x.y.h,..|-) holes(x.y.m,..|-) names(hex,..|-) nwmo nm2
fn wdl_build(t: &[&str]) -> WdlFile {
    let mut f = WdlFile::with_version(wdl_version(num(t[0])));
    if t[1] != "-" {
        for e in t[1].split(',') {
            let p: Vec<u32> = e.split('.').map(|x| u32::from_str_radix(x, 16).unwrap()).collect();
            let mut tile = HeightMapTile::new();
            for i in 0..HeightMapTile::OUTER_COUNT {
                tile.outer_values[i] = (p[2].wrapping_mul(31).wrapping_add(i as u32 * 7)) as i16;
            }
            for i in 0..HeightMapTile::INNER_COUNT {
                tile.inner_values[i] = (p[2].wrapping_mul(17).wrapping_sub(i as u32 * 3)) as i16;
            }
            f.heightmap_tiles.insert((p[0], p[1]), tile);
        }
    }
    if t[2] != "-" {
        for e in t[2].split(',') {
            let p: Vec<u32> = e.split('.').map(|x| u32::from_str_radix(x, 16).unwrap()).collect();
            let mut h = HolesData::new();
            for i in 0..16 {
                h.hole_masks[i] = (p[2].wrapping_mul(i as u32 + 1)) as u16;
            }
            f.holes_data.insert((p[0], p[1]), h);
        }
    }
    if t[3] != "-" {
        for n in t[3].split(',') {
            f.wmo_filenames.push(String::from_utf8(unhex(n)).unwrap());
        }
    }
    let nwmo = num(t[4]) as u32;
    let mut off = 0u32;
    for n in &f.wmo_filenames {
        f.wmo_indices.push(off);
        off += n.len() as u32 + 1;
    }
    for i in 0..nwmo {
        f.wmo_placements.push(ModelPlacement {
            id: i.wrapping_mul(7919), wmo_id: i, position: v3(i, 1), rotation: v3(i, 5),
            bounds: BoundingBox::new(v3(i, 9), v3(i, 13)), flags: (i * 3) as u16, doodad_set: i as u16,
            name_set: (i + 1) as u16, padding: 0,
        });
    }
    let nm2 = num(t[5]) as u32;
    for i in 0..nm2 {
        f.m2_placements.push(M2Placement { id: i + 100, m2_id: i, position: v3(i, 2), rotation: v3(i, 4), scale: fv(i, 8), flags: i * 5 });
        f.m2_visibility.push(M2VisibilityInfo { bounds: BoundingBox::new(v3(i, 3), v3(i, 6)), radius: fv(i, 11) });
        f.wmo_legion_placements.push(M2Placement { id: i + 900, m2_id: i + 1, position: v3(i, 12), rotation: v3(i, 14), scale: fv(i, 18), flags: i });
        f.wmo_legion_visibility.push(M2VisibilityInfo { bounds: BoundingBox::new(v3(i, 23), v3(i, 26)), radius: fv(i, 21) });
    }
    f
}
fn wdl_bytes(f: &WdlFile) -> Result<Vec<u8>, String> {
    let mut c = Cursor::new(Vec::new());
    WdlParser::with_version(f.version).write(&mut c, f).map_err(|e| format!("{e}"))?;
    Ok(c.into_inner())
}
/// canonical content of what the given version can carry
/// which chunks a WDL of each version carries, as the crate documents it (README / lib.rs: MAHO from WotLK on, MWMO/MWID/MODF from
/// WotLK up to Warlords of Draenor, MLDD/MLMD from Legion on); kept here so that the comparison does not take the library's word for it
fn spec_caps(v: WdlVersion) -> (bool, bool, bool) {
    let i = (0..10).find(|&i| wdl_version(i) == v).unwrap_or(9);
    (i >= 1, (1..=4).contains(&i), i >= 5)
}

fn wdl_dump(f: &WdlFile, v: WdlVersion) -> String {
    let (maho, wmo, ml) = spec_caps(v);
    if (v.has_maho_chunk(), v.has_wmo_chunks(), v.has_ml_chunks()) != (maho, wmo, ml) {
        return format!("CAPABILITIES-OF-{v:?}-CHANGED");
    }
    let mut s = String::new();
    let mut keys: Vec<_> = f.heightmap_tiles.keys().cloned().collect();
    keys.sort();
    for k in keys {
        let t = &f.heightmap_tiles[&k];
        s.push_str(&format!("T{}.{}:{:?}{:?};", k.0, k.1, t.outer_values, t.inner_values));
        if v.has_maho_chunk() {
            if let Some(h) = f.holes_data.get(&k) {
                s.push_str(&format!("H{:?};", h.hole_masks));
            }
        }
    }
    if v.has_wmo_chunks() && !f.wmo_filenames.is_empty() {
        s.push_str(&format!("N{:?}I{:?}", f.wmo_filenames, f.wmo_indices));
        for p in &f.wmo_placements {
            let mut b = Vec::new();
            p.write(&mut b).unwrap();
            s.push_str(&hex(&b));
            s.push(';');
        }
    }
    if v.has_ml_chunks() {
        for (tag, l) in [("D", &f.m2_placements), ("M", &f.wmo_legion_placements)] {
            s.push_str(tag);
            for p in l.iter() {
                let mut b = Vec::new();
                p.write(&mut b).unwrap();
                s.push_str(&hex(&b));
                s.push(';');
            }
        }
        for (tag, l) in [("X", &f.m2_visibility), ("Y", &f.wmo_legion_visibility)] {
            s.push_str(tag);
            for p in l.iter() {
                let mut b = Vec::new();
                p.write(&mut b).unwrap();
                s.push_str(&hex(&b));
                s.push(';');
            }
        }
    }
    s
}

fn main() {
    serve(|t| match t[0] {
        "wdlbytes" => match wdl_bytes(&wdl_build(&t[1..])) { Ok(b) => hex(&b), Err(_) => "ERR".to_string() },
        "wdlrt" => {
            let f = wdl_build(&t[1..]);
            let v = f.version;
            let b1 = match wdl_bytes(&f) { Ok(b) => b, Err(e) => return format!("ERR write {e}") };
            let p = match WdlParser::with_version(v).parse(&mut Cursor::new(b1.clone())) {
                Ok(p) => p,
                Err(e) => return format!("FAIL parse-error {e}"),
            };
            let want = wdl_dump(&f, v);
            if want.starts_with("CAPABILITIES") { return format!("FAIL {want}"); }
            if wdl_dump(&p, v) != want {
                return "FAIL content-differs".to_string();
            }
            let mut p2 = p;
            p2.version = v;
            let b2 = match wdl_bytes(&p2) { Ok(b) => b, Err(_) => return "FAIL second-write-error".to_string() };
            if b1 != b2 { "FAIL second-write-differs".to_string() } else { "PASS".to_string() }
        }
        // wdlconv <to> <wdl tokens>: conversion keeps all tile data (heights; holes when both versions carry them)
        "wdlconv" => {
            let f = wdl_build(&t[2..]);
            let to = wdl_version(num(t[1]));
            let g = match convert_wdl_file(&f, to) { Ok(g) => g, Err(_) => return "ERR".to_string() };
            let mut keys: Vec<_> = f.heightmap_tiles.keys().cloned().collect();
            keys.sort();
            let mut gk: Vec<_> = g.heightmap_tiles.keys().cloned().collect();
            gk.sort();
            if keys != gk { return "FAIL tile-set-changed".to_string(); }
            for k in keys {
                let (a, b) = (&f.heightmap_tiles[&k], &g.heightmap_tiles[&k]);
                if a.outer_values != b.outer_values || a.inner_values != b.inner_values { return "FAIL heights-changed".to_string(); }
                if f.version.has_maho_chunk() && to.has_maho_chunk() {
                    let ha = f.holes_data.get(&k).map(|h| h.hole_masks);
                    let hb = g.holes_data.get(&k).map(|h| h.hole_masks);
                    if ha != hb { return "FAIL holes-changed".to_string(); }
                }
            }
            // the converted file must itself survive write -> parse
            let b = match wdl_bytes(&g) { Ok(b) => b, Err(e) => return format!("FAIL converted-write-error {e}") };
            match WdlParser::with_version(g.version).parse(&mut Cursor::new(b)) {
                Ok(p) => if wdl_dump(&p, g.version) == wdl_dump(&g, g.version) { "PASS".to_string() } else { "FAIL converted-content-differs".to_string() },
                Err(e) => format!("FAIL converted-parse-error {e}"),
            }
        }
        "t2w" => {
            let (x, y) = tile_to_world(num(t[1]) as u32, num(t[2]) as u32);
            format!("{:x} {:x}", x.to_bits(), y.to_bits())
        }
        "w2t" => {
            let (x, y) = world_to_tile(f32::from_bits(num(t[1]) as u32), f32::from_bits(num(t[2]) as u32));
            format!("{:x} {:x}", x, y)
        }
        "wdtwrite" => match write(&build(&t[1..])) {
            Ok(b) => hex(&b),
            Err(_) => "ERR".to_string(),
        },
        "wdtread" => match WdtReader::new(Cursor::new(unhex(t[1])), WowVersion::Classic).read() {
            Ok(w) => format!("OK {}", dump(&w)),
            Err(_) => "ERR".to_string(),
        },
        // property oracle on the implementation: write -> parse -> same content; second write identical
        "wdtrt" => {
            let w = build(&t[1..]);
            let b1 = match write(&w) { Ok(b) => b, Err(_) => return "ERR write".to_string() };
            let p = match WdtReader::new(Cursor::new(b1.clone()), version(num(t[1]))).read() {
                Ok(p) => p,
                Err(e) => return format!("FAIL parse-error {e}"),
            };
            if dump(&p) != dump(&w) {
                return "FAIL content-differs".to_string();
            }
            let b2 = match write(&p) { Ok(b) => b, Err(_) => return "FAIL second-write-error".to_string() };
            if b1 != b2 { "FAIL second-write-differs".to_string() } else { "PASS".to_string() }
        }
        // conversion keeps all tile data: wdtconv <to> <wdt tokens...>
        "wdtconv" => {
            let mut w = build(&t[2..]);
            let before = w.main.clone();
            let from = version(num(t[2]));
            if convert_wdt(&mut w, from, version(num(t[1]))).is_err() {
                return "ERR".to_string();
            }
            if w.main == before { "PASS".to_string() } else { "FAIL tiles-changed".to_string() }
        }
        _ => "ERR unknown".to_string(),
    });
}
