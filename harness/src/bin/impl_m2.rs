//! Implementation-side runner for the M2 / skin / anim write -> parse round trips and for version conversion.
//!
//! Commands (all numbers hex, one result line per command, "-" leaves an optional argument at its default):
//!   model <ver> <seed> <namelen> <nseq> <nbones> <nverts> <ntex> <nmat> <nlookups> <natt> <nevents> <nlights> <ncams>
//!         [npart nribbon ntexanim ncoloranim ntransanim nglobalseq nviews nbounding mode flags]
//!         mode  = max keys per track (low byte, default 2) | 0x100 key-less tracks carry the default track header | 0x800 bone tracks share value arrays | 0x1000 bone tracks share timestamp arrays | 0x2000 camera tracks carry no keys
//!                 | 0x200 no texture has a file name | 0x400 every texture has a file name
//!         flags = header flags (default: random bits without 0x8 / 0x8000000, which add optional header arrays)
//!     -> W1=<hex | LEN=<n> SHA=<fnv1a64>> EQ=<1|0|PARSE-..> DIFF=<sections|-> SAME=<1|0|WRITE2-..> LISTS=<section:len,..>
//!        NAME=<hex|none> HDR=<ok | section:headercount/listlen,..> UNBUILT=<sections the API cannot carry>
//!   conv  <from> <to> <seed> <same size arguments as model>
//!     -> CONV=<OK|ERR_..|PANIC_..> W= EQ= DIFF= SAME= (converted model against its own write -> parse)
//!        KEPT= LOST= (converted against original, content both versions can hold) KEPT2= LOST2= (the same for the parsed result)
//!        IDENT=<from == to: whole model unchanged> DIRECT=<M2Model::convert gives the same as M2Converter> LISTS= HDR=
//!   skin  <layout 0=old 1=new> <seed> <nindices> <ntriangle indices> <nbone bytes> <nsubmeshes> <nbatches> [skinversion 0-4, default 1] [center 0|1]
//!     -> W1= EQ= DIFF=<hdr,idx,tri,bones,sub,batch> SAME= LISTS= LAYOUT=<layout the parser detected> HDR=
//!   anim  <format 0=legacy 1=modern> <seed> <nsections> <payload bytes per section> [track mask 0-7 forced on every bone]
//!     -> W1= EQ= DIFF=<fmt,meta,nsec,sec<i>> SAME= LISTS=sec:<n>,bones:<per section>
//! Version index: 0 Vanilla(256) 1 TBC(260) 2 WotLK(264) 3 Cataclysm(272) 4 MoP(272) 5 WoD(275) 6 Legion(276) 7 BfA(280)
//!                8 Shadowlands(290) 9 Dragonflight(300) a TheWarWithin(310)
//! Environment: VERIF_DEBUG=1 prints the first difference of every differing section to stderr, VERIF_NOFORK=1 disables the
//! forked trial run of the parse steps.
use std::io::Cursor;
use std::panic::{catch_unwind, AssertUnwindSafe};
use verif_harness::{hex, num, serve};
use wow_m2::anim::{
    AnimBoneAnimation, AnimEntry, AnimHeader, AnimRotation, AnimScaling, AnimSection, AnimSectionHeader, AnimTranslation,
    LegacyStructureHints, ANIM_MAGIC,
};
use wow_m2::chunks::animation::{M2Animation, M2AnimationBlock, M2AnimationTrack, M2InterpolationType, M2Range};
use wow_m2::chunks::attachment::M2Attachment;
use wow_m2::chunks::bone::{M2Bone, M2BoneFlags};
use wow_m2::chunks::camera::{M2Camera, M2CameraFlags};
use wow_m2::chunks::color_animation::{M2Color, M2ColorAnimation};
use wow_m2::chunks::event::M2Event;
use wow_m2::chunks::light::{M2Light, M2LightFlags, M2LightType};
use wow_m2::chunks::m2_track::{M2Track, M2TrackBase};
use wow_m2::chunks::material::{M2BlendMode, M2Material, M2RenderFlags};
use wow_m2::chunks::particle_emitter::{M2ParticleEmitter, M2ParticleEmitterType, M2ParticleFlags};
use wow_m2::chunks::ribbon_emitter::M2RibbonEmitter;
use wow_m2::chunks::texture::{M2Texture, M2TextureFlags, M2TextureType};
use wow_m2::chunks::texture_animation::{M2TextureAnimation, M2TextureAnimationType};
use wow_m2::chunks::transparency_animation::M2TransparencyAnimation;
use wow_m2::chunks::vertex::M2Vertex;
use wow_m2::common::{C2Vector, C3Vector, FixedString, M2Array, M2ArrayString, M2Parse, M2Vec, Quaternion};
use wow_m2::header::{M2Header, M2ModelFlags};
use wow_m2::model::{
    AttachmentAnimationRaw, AttachmentTrackType, BoneAnimationRaw, CameraAnimationRaw, CameraTrackType, ColorAnimationRaw,
    ColorTrackType, EmbeddedSkinRaw, EventRaw, LightAnimationRaw, LightTrackType, ParticleAnimationRaw, ParticleTrackType,
    RibbonAnimationRaw, RibbonTrackType, TextureAnimationRaw, TextureTrackType, TrackType, TransparencyAnimationRaw,
    TransparencyTrackType,
};
use wow_m2::skin::{OldSkin, OldSkinHeader, Skin, SkinBatch, SkinHeader, SkinSubmesh, SKIN_MAGIC};
use wow_m2::{AnimFile, AnimFormat, AnimMetadata, M2Converter, M2Model, M2Version, SkinFile};

// ---------------------------------------------------------------------------------------------
// deterministic generator
// ---------------------------------------------------------------------------------------------

struct G {
    s: u64,
    off: u32,
    maxkeys: u64,
    /// tracks without keys get the default track header (no interpolation, no global sequence)
    plain: bool,
    /// 0 = file names on hard-coded textures and some others, 1 = no texture has a file name, 2 = every texture has one
    texnames: u8,
    /// bone tracks with key frames of the same size share one value array (same bytes, same original offset)
    share: bool, share_ts: bool, static_cams: bool,
}

impl G {
    fn new(seed: u64, maxkeys: u64) -> G {
        let mut s = seed.wrapping_mul(0x9E37_79B9_7F4A_7C15) ^ 0xD1B5_4A32_D192_ED03;
        if s == 0 {
            s = 0x1234_5678_9ABC_DEF1;
        }
        let mut g = G { s, off: 0x1000_0000, maxkeys: maxkeys & 0xff, plain: maxkeys & 0x100 != 0, texnames: if maxkeys & 0x200 != 0 { 1 } else if maxkeys & 0x400 != 0 { 2 } else { 0 }, share: maxkeys & 0x800 != 0, share_ts: maxkeys & 0x1000 != 0, static_cams: maxkeys & 0x2000 != 0 };
        for _ in 0..4 {
            g.next();
        }
        g
    }
    fn next(&mut self) -> u64 {
        let mut x = self.s;
        x ^= x << 13;
        x ^= x >> 7;
        x ^= x << 17;
        self.s = x;
        x.wrapping_mul(0x2545_F491_4F6C_DD1D)
    }
    fn below(&mut self, n: u64) -> u64 {
        if n == 0 { 0 } else { (self.next() >> 11) % n }
    }
    fn u8(&mut self) -> u8 { (self.next() >> 24) as u8 }
    fn u16(&mut self) -> u16 { (self.next() >> 24) as u16 }
    fn i16(&mut self) -> i16 { self.u16() as i16 }
    fn u32(&mut self) -> u32 { (self.next() >> 16) as u32 }
    /// finite float: small integers, fractions, extremes, denormals, signed zero, arbitrary finite bit patterns
    fn f(&mut self) -> f32 {
        let neg = self.below(2) == 1;
        let v = match self.below(8) {
            0 => self.below(200) as f32,
            1 => (self.below(2_000_000) as f32) / 1024.0,
            2 => f32::MAX,
            3 => f32::from_bits(1 + self.below(0x7f_ffff) as u32),
            4 => f32::from_bits(0x7000_0000 | (self.u32() & 0x0fff_ffff) % 0x0f80_0000),
            5 => 0.0,
            6 => f32::MIN_POSITIVE,
            _ => {
                let mut b = self.u32() & 0x7fff_ffff;
                if b >> 23 == 0xff {
                    b &= 0x7f7f_ffff;
                }
                f32::from_bits(b)
            }
        };
        let v = if neg { -v } else { v };
        if v.is_finite() { v } else { 1.0 }
    }
    fn v3(&mut self) -> C3Vector { C3Vector { x: self.f(), y: self.f(), z: self.f() } }
    fn v2(&mut self) -> C2Vector { C2Vector { x: self.f(), y: self.f() } }
    fn a3(&mut self) -> [f32; 3] { [self.f(), self.f(), self.f()] }
    fn col(&mut self) -> M2Color { M2Color { r: self.f(), g: self.f(), b: self.f() } }
    /// fresh pseudo "original offset": only used as a key that links a track to its preserved key-frame bytes
    fn off(&mut self) -> u32 {
        self.off += 0x40;
        self.off
    }
    /// index of an existing element of a list with n entries (0xffff = none when the list is empty)
    fn idx(&mut self, n: usize) -> u16 {
        if n == 0 { 0xffff } else { self.below(n.min(0xfffe) as u64) as u16 }
    }
    fn interp(&mut self) -> M2InterpolationType {
        [M2InterpolationType::None, M2InterpolationType::Linear, M2InterpolationType::Bezier, M2InterpolationType::Hermite]
            [self.below(4) as usize]
    }
    fn stamps(&mut self, n: usize) -> Vec<u8> {
        let mut acc = self.below(50) as u32;
        let mut v = Vec::new();
        for _ in 0..n {
            v.extend_from_slice(&acc.to_le_bytes());
            acc += 1 + self.below(3000) as u32;
        }
        v
    }
    fn stamps32(&mut self, n: usize) -> Vec<u32> {
        let mut acc = self.below(50) as u32;
        (0..n).map(|_| { let a = acc; acc += 1 + self.below(3000) as u32; a }).collect()
    }
    fn words(&mut self, n: usize) -> Vec<u8> {
        let mut v = Vec::new();
        for _ in 0..n {
            v.extend_from_slice(&(self.below(5000) as u32).to_le_bytes());
        }
        v
    }
}

/// preserved key-frame bytes of one animation block
struct Keys { r: Vec<u8>, t: Vec<u8>, v: Vec<u8>, ro: u32, to: u32, vo: u32 }

fn ser<T: M2Parse>(v: &[T]) -> Vec<u8> {
    let mut b = Vec::new();
    for x in v {
        M2Parse::write(x, &mut b).unwrap();
    }
    b
}

/// an animation block (28-byte track header) plus, when it has keys, the bytes it refers to
fn block<T: M2Parse + Clone>(g: &mut G, mk: &dyn Fn(&mut G) -> T) -> (M2AnimationBlock<T>, Option<Keys>) {
    let interp = g.interp();
    let gs: i16 = if g.below(2) == 0 { -1 } else { g.below(4) as i16 };
    let n = g.below(g.maxkeys + 1) as usize;
    if n == 0 {
        let tr = M2AnimationTrack {
            interpolation_type: if g.plain { M2InterpolationType::None } else { interp },
            global_sequence: if g.plain { -1 } else { gs },
            interpolation_ranges: M2Array::new(0, 0),
            timestamps: M2Array::new(0, 0),
            values: M2Vec::new(),
        };
        return (M2AnimationBlock::new(tr), None);
    }
    let nr = g.below(3) as usize;
    let r = g.words(nr * 2);
    let t = g.stamps(n);
    let data: Vec<T> = (0..n).map(|_| mk(g)).collect();
    let v = ser(&data);
    let ro = if nr > 0 { g.off() } else { 0 };
    let (to, vo) = (g.off(), g.off());
    let tr = M2AnimationTrack {
        interpolation_type: interp,
        global_sequence: gs,
        interpolation_ranges: M2Array::new(nr as u32, ro),
        timestamps: M2Array::new(n as u32, to),
        values: M2Vec { array: M2Array::new(n as u32, vo), data },
    };
    (M2AnimationBlock::new(tr), Some(Keys { r, t, v, ro, to, vo }))
}

macro_rules! blk {
    ($g:expr, $mk:expr, $dst:expr, $ty:ident, $idxf:ident, $i:expr, $tt:expr) => {{
        let (b, k) = block($g, $mk);
        if let Some(k) = k {
            $dst.push($ty {
                $idxf: $i,
                track_type: $tt,
                interpolation_ranges: k.r,
                timestamps: k.t,
                values: k.v,
                original_ranges_offset: k.ro,
                original_timestamps_offset: k.to,
                original_values_offset: k.vo,
            });
        }
        b
    }};
}

/// a bone track (M2Track: 28 bytes before 264, 20 bytes from 264 on) plus its preserved bytes
fn btrack<T>(g: &mut G, vn: u32, quat: bool, dst: &mut Vec<BoneAnimationRaw>, bone: usize, tt: TrackType) -> M2Track<T> {
    let interp = g.interp();
    let gs: u16 = if g.below(2) == 0 { 65535 } else { g.below(4) as u16 };
    let n = g.below(g.maxkeys + 1) as usize;
    let pre = vn < 264;
    let mut base = M2TrackBase { interpolation_type: interp, global_sequence: gs };
    if n == 0 {
        if g.plain {
            base = M2TrackBase { interpolation_type: M2InterpolationType::None, global_sequence: 65535 };
        }
        return M2Track { base, ranges: if pre { Some(M2Array::new(0, 0)) } else { None }, timestamps: M2Array::new(0, 0), values: M2Array::new(0, 0) };
    }
    let nr = if pre { g.below(3) as usize } else { 0 };
    let t = g.stamps(n);
    let mut v = Vec::new();
    if quat {
        for _ in 0..n * 4 {
            v.extend_from_slice(&g.i16().to_le_bytes());
        }
    } else {
        for _ in 0..n * 3 {
            v.extend_from_slice(&g.f().to_le_bytes());
        }
    }
    let r = g.words(nr * 2);
    let ro = if nr > 0 { g.off() } else { 0 };
    let (mut to, mut vo) = (g.off(), g.off());
    let mut t = t;
    if g.share_ts {
        // two tracks referencing one timestamps array (the writer stores it once)
        if let Some(prev) = dst.iter().rev().find(|p| p.timestamps.len() == t.len()) {
            t = prev.timestamps.clone();
            to = prev.original_timestamps_offset;
        }
    }
    if g.share {
        if let Some(prev) = dst.iter().rev().find(|p| p.values.len() == v.len()) {
            v = prev.values.clone();
            vo = prev.original_values_offset;
        }
    }
    dst.push(BoneAnimationRaw {
        bone_index: bone,
        track_type: tt,
        timestamps: t,
        values: v,
        ranges: if nr > 0 { Some(r) } else { None },
        original_timestamps_offset: to,
        original_values_offset: vo,
        original_ranges_offset: if nr > 0 { Some(ro) } else { None },
    });
    M2Track {
        base,
        ranges: if pre { Some(M2Array::new(nr as u32, ro)) } else { None },
        timestamps: M2Array::new(n as u32, to),
        values: M2Array::new(n as u32, vo),
    }
}

// ---------------------------------------------------------------------------------------------
// model construction
// ---------------------------------------------------------------------------------------------

const VERSIONS: [M2Version; 11] = [
    M2Version::Vanilla, M2Version::TBC, M2Version::WotLK, M2Version::Cataclysm, M2Version::MoP, M2Version::WoD,
    M2Version::Legion, M2Version::BfA, M2Version::Shadowlands, M2Version::Dragonflight, M2Version::TheWarWithin,
];

fn ver(i: u64) -> Option<M2Version> { VERSIONS.get(i as usize).copied() }

struct Sz {
    seed: u64, name: usize, nseq: usize, nbones: usize, nverts: usize, ntex: usize, nmat: usize, nlook: usize, natt: usize,
    nevt: usize, nlight: usize, ncam: usize, npart: usize, nrib: usize, ntexanim: usize, ncolor: usize, ntrans: usize,
    ngseq: usize, nviews: usize, nbound: usize, maxkeys: u64, flags: Option<u32>,
}

/// t[0] = seed, t[1..12] = the eleven mandatory lengths, then the optional ones
fn sizes(t: &[&str]) -> Sz {
    let at = |i: usize, d: u64| -> u64 { if i < t.len() && t[i] != "-" { num(t[i]) } else { d } };
    Sz {
        seed: at(0, 0), name: at(1, 0) as usize, nseq: at(2, 0) as usize, nbones: at(3, 0) as usize, nverts: at(4, 0) as usize,
        ntex: at(5, 0) as usize, nmat: at(6, 0) as usize, nlook: at(7, 0) as usize, natt: at(8, 0) as usize, nevt: at(9, 0) as usize,
        nlight: at(10, 0) as usize, ncam: at(11, 0) as usize, npart: at(12, 0) as usize, nrib: at(13, 0) as usize,
        ntexanim: at(14, 0) as usize, ncolor: at(15, 0) as usize, ntrans: at(16, 0) as usize, ngseq: at(17, 0) as usize,
        nviews: at(18, 0) as usize, nbound: at(19, 0) as usize, maxkeys: at(20, 2),
        flags: if t.len() > 21 && t[21] != "-" { Some(num(t[21]) as u32) } else { None },
    }
}

fn u16s(g: &mut G, n: usize, of: usize) -> Vec<u16> { (0..n).map(|_| g.idx(of)).collect() }

fn build(v: M2Version, z: &Sz) -> M2Model {
    let vn = v.to_header_version();
    let mv = M2Version::from_header_version(vn).unwrap_or(v); // what the library derives from the number (272 -> Cataclysm)
    let mut g = G::new(z.seed, z.maxkeys);
    let mut m = M2Model::default();

    // header in the shape the parser produces for this version
    let mut h = M2Header::new(v);
    if vn <= 263 {
        h.playable_animation_lookup = Some(M2Array::new(0, 0));
        h.texture_flipbooks = Some(M2Array::new(0, 0));
        h.num_skin_profiles = None;
    } else {
        h.playable_animation_lookup = None;
        h.texture_flipbooks = None;
        h.num_skin_profiles = Some(z.nviews as u32);
    }
    // 0x8 and 0x8000000 add optional header arrays on the parse side which the writer never emits: only on request
    h.flags = M2ModelFlags::from_bits_retain(z.flags.unwrap_or(g.u32() & 0x0020_7677));
    h.bounding_box_min = g.a3();
    h.bounding_box_max = g.a3();
    h.bounding_sphere_radius = g.f();
    h.collision_box_min = g.a3();
    h.collision_box_max = g.a3();
    h.collision_sphere_radius = g.f();
    m.header = h;

    // name
    if z.name > 0 {
        const CS: &[u8] = b"ABCDEFGHIJKLMNOPQRSTUVWXYZabcdefghijklmnopqrstuvwxyz0123456789_\\.";
        let s: String = (0..z.name).map(|_| CS[g.below(CS.len() as u64) as usize] as char).collect();
        m.name = Some(s);
    }

    m.global_sequences = (0..z.ngseq).map(|_| g.below(100_000) as u32).collect();

    // sequences
    for _ in 0..z.nseq {
        let vanilla = vn <= 256;
        m.animations.push(M2Animation {
            animation_id: g.below(800) as u16,
            sub_animation_id: g.below(4) as u16,
            start_timestamp: g.below(0x4000_0000) as u32,
            end_timestamp: if vanilla { Some(g.u32()) } else { None },
            movement_speed: g.f(),
            flags: g.u32(),
            frequency: g.i16(),
            padding: g.u16(),
            replay: if vanilla { Some(M2Range { minimum: g.f(), maximum: g.f() }) } else { None },
            minimum_extent: if vanilla { None } else { Some(g.a3()) },
            maximum_extent: if vanilla { None } else { Some(g.a3()) },
            extent_radius: if vanilla { None } else { Some(g.f()) },
            next_animation: if vanilla { None } else { Some(if g.below(2) == 0 { -1 } else { g.idx(z.nseq) as i16 }) },
            aliasing: if vanilla { None } else { Some(g.idx(z.nseq) & 0x7fff) },
        });
    }
    m.animation_lookup = u16s(&mut g, z.nlook, z.nseq);

    // bones with their key frames
    for i in 0..z.nbones {
        let bone_id = g.below(40) as i32 - 1;
        let flags = M2BoneFlags::from_bits_retain(g.u32() & 0x0003_7678);
        let parent_bone = if i == 0 { -1 } else { g.below(i as u64) as i16 };
        let submesh_id = g.u16();
        let bone_name_crc = if vn >= 260 { Some(g.u32()) } else { None };
        let translation = btrack(&mut g, vn, false, &mut m.raw_data.bone_animation_data, i, TrackType::Translation);
        let rotation = btrack(&mut g, vn, true, &mut m.raw_data.bone_animation_data, i, TrackType::Rotation);
        let scale = btrack(&mut g, vn, false, &mut m.raw_data.bone_animation_data, i, TrackType::Scale);
        m.bones.push(M2Bone { bone_id, flags, parent_bone, submesh_id, unknown: [0, 0], bone_name_crc, translation, rotation, scale, pivot: g.v3() });
    }
    m.key_bone_lookup = u16s(&mut g, z.nlook, z.nbones);

    // vertices
    for _ in 0..z.nverts {
        let w = g.u8();
        let nb = z.nbones.min(256);
        let bi = |g: &mut G| if nb == 0 { 0u8 } else { g.below(nb as u64) as u8 };
        m.vertices.push(M2Vertex {
            position: g.v3(),
            bone_weights: [255 - w / 2, w / 2, 0, 0],
            bone_indices: [bi(&mut g), bi(&mut g), bi(&mut g), bi(&mut g)],
            normal: g.v3(),
            tex_coords: g.v2(),
            tex_coords2: Some(g.v2()),
        });
    }

    // textures (hard-coded ones carry a file name)
    for i in 0..z.ntex {
        let raw = g.below(16) as u32;
        let ty = M2TextureType::from_u32(raw).unwrap_or(M2TextureType::Unknown);
        let drawn = raw == 0 || g.below(4) == 0;
        let named = match g.texnames { 1 => false, 2 => true, _ => drawn };
        let filename = if named {
            let d = format!("World\\Generic\\Tex{:x}_{:x}.blp", i, g.below(0xffff)).into_bytes();
            M2ArrayString { array: M2Array::new(d.len() as u32 + 1, g.off()), string: FixedString { data: d } }
        } else {
            M2ArrayString::default()
        };
        m.textures.push(M2Texture { texture_type: ty, flags: M2TextureFlags::from_bits_retain(g.below(8) as u32), filename });
    }

    for _ in 0..z.nmat {
        m.materials.push(M2Material {
            flags: M2RenderFlags::from_bits_retain(g.u16() & 0x0fff),
            blend_mode: M2BlendMode::from_bits_retain(g.below(8) as u16),
        });
    }

    // lookups
    m.raw_data.bone_lookup_table = u16s(&mut g, z.nlook, z.nbones);
    m.raw_data.texture_lookup_table = u16s(&mut g, z.nlook, z.ntex);
    m.raw_data.texture_units = (0..z.nlook).map(|_| [0u16, 1, 0xffff][g.below(3) as usize]).collect();
    m.raw_data.transparency_lookup_table = u16s(&mut g, z.nlook, z.ntrans);
    m.raw_data.texture_animation_lookup = u16s(&mut g, z.nlook, z.ntexanim);
    m.raw_data.attachment_lookup_table = u16s(&mut g, z.nlook, z.natt);
    m.raw_data.camera_lookup_table = u16s(&mut g, z.nlook, z.ncam);

    // collision geometry
    for _ in 0..z.nbound * 3 {
        let i = g.idx(z.nbound);
        m.raw_data.bounding_triangles.extend_from_slice(&i.to_le_bytes());
    }
    for _ in 0..z.nbound * 3 {
        let f = g.f();
        m.raw_data.bounding_vertices.extend_from_slice(&f.to_le_bytes());
    }
    for _ in 0..z.nbound * 3 {
        let f = g.f();
        m.raw_data.bounding_normals.extend_from_slice(&f.to_le_bytes());
    }

    // attachments
    for i in 0..z.natt {
        let id = g.below(60) as u32;
        let bone_index = if z.nbones == 0 { -1 } else { g.idx(z.nbones) as i32 };
        let position = g.v3();
        let scale_animation = blk!(&mut g, &|g: &mut G| g.f(), m.raw_data.attachment_animation_data, AttachmentAnimationRaw, attachment_index, i, AttachmentTrackType::Scale);
        m.attachments.push(M2Attachment { id, bone_index, position, scale_animation });
    }

    // events
    for i in 0..z.nevt {
        let identifier = [b'$', b'A' + g.below(26) as u8, b'A' + g.below(26) as u8, b'0' + g.below(10) as u8];
        let n = g.below(g.maxkeys + 1) as usize;
        let nr = if n > 0 { g.below(3) as usize } else { 0 };
        let (ro, to) = (if nr > 0 { g.off() } else { 0 }, if n > 0 { g.off() } else { 0 });
        if n > 0 {
            let ranges = g.words(nr * 2);
            let timestamps = g.stamps(n);
            m.raw_data.event_data.push(EventRaw { event_index: i, ranges, original_ranges_offset: ro, timestamps, original_timestamps_offset: to });
        }
        m.events.push(M2Event {
            identifier,
            data: g.u32(),
            bone_index: if z.nbones == 0 { -1 } else { g.idx(z.nbones) as i16 },
            unknown: g.u16(),
            position: g.a3(),
            interp_type: g.below(4) as u16,
            global_sequence: if g.below(2) == 0 { -1 } else { g.below(4) as i16 },
            ranges: M2Array::new(nr as u32, ro),
            times: M2Array::new(n as u32, to),
        });
    }

    // lights
    for i in 0..z.nlight {
        let light_type = [M2LightType::Directional, M2LightType::Point, M2LightType::Spot, M2LightType::Ambient][g.below(4) as usize];
        let bone_index = g.idx(z.nbones);
        let position = g.v3();
        let d = &mut m.raw_data.light_animation_data;
        let ambient_color_animation = blk!(&mut g, &|g: &mut G| g.col(), d, LightAnimationRaw, light_index, i, LightTrackType::AmbientColor);
        let diffuse_color_animation = blk!(&mut g, &|g: &mut G| g.col(), d, LightAnimationRaw, light_index, i, LightTrackType::DiffuseColor);
        let attenuation_start_animation = blk!(&mut g, &|g: &mut G| g.f(), d, LightAnimationRaw, light_index, i, LightTrackType::AttenuationStart);
        let attenuation_end_animation = blk!(&mut g, &|g: &mut G| g.f(), d, LightAnimationRaw, light_index, i, LightTrackType::AttenuationEnd);
        let visibility_animation = blk!(&mut g, &|g: &mut G| g.f(), d, LightAnimationRaw, light_index, i, LightTrackType::Visibility);
        m.lights.push(M2Light {
            light_type, bone_index, position, ambient_color_animation, diffuse_color_animation, attenuation_start_animation,
            attenuation_end_animation, visibility_animation, id: g.u32(), flags: M2LightFlags::from_bits_retain(g.below(4) as u16),
        });
    }

    // cameras (mode 0x2000: every camera track without keys, whatever the other sections carry)
    let saved_keys = g.maxkeys;
    if g.static_cams { g.maxkeys = 0; }
    for i in 0..z.ncam {
        let d = &mut m.raw_data.camera_animation_data;
        let camera_type = g.below(3) as u32;
        let (fov, far_clip, near_clip) = (g.f(), g.f(), g.f());
        let position_animation = blk!(&mut g, &|g: &mut G| g.v3(), d, CameraAnimationRaw, camera_index, i, CameraTrackType::Position);
        let position_base = g.v3();
        let target_position_animation = blk!(&mut g, &|g: &mut G| g.v3(), d, CameraAnimationRaw, camera_index, i, CameraTrackType::TargetPosition);
        let target_position_base = g.v3();
        let roll_animation = blk!(&mut g, &|g: &mut G| g.f(), d, CameraAnimationRaw, camera_index, i, CameraTrackType::Roll);
        let (id, flags) = if vn >= 264 { (g.u32(), M2CameraFlags::from_bits_retain(g.below(8) as u16)) } else { (0, M2CameraFlags::empty()) };
        m.cameras.push(M2Camera {
            camera_type, fov, far_clip, near_clip, position_animation, position_base, target_position_animation,
            target_position_base, roll_animation, id, flags,
        });
    }

    g.maxkeys = saved_keys;

    // particle emitters
    for i in 0..z.npart {
        let d = &mut m.raw_data.particle_animation_data;
        let flags = M2ParticleFlags::from_bits_retain(g.u32() & 0x007f_fff8);
        let legion = mv >= M2Version::Legion;
        let f = |g: &mut G| g.f();
        let emission_speed_animation = blk!(&mut g, &f, d, ParticleAnimationRaw, emitter_index, i, ParticleTrackType::EmissionSpeed);
        let emission_rate_animation = blk!(&mut g, &f, d, ParticleAnimationRaw, emitter_index, i, ParticleTrackType::EmissionRate);
        let emission_area_animation = blk!(&mut g, &f, d, ParticleAnimationRaw, emitter_index, i, ParticleTrackType::EmissionArea);
        let xy_scale_animation = blk!(&mut g, &|g: &mut G| g.v2(), d, ParticleAnimationRaw, emitter_index, i, ParticleTrackType::XYScale);
        let z_scale_animation = blk!(&mut g, &f, d, ParticleAnimationRaw, emitter_index, i, ParticleTrackType::ZScale);
        let color_animation = blk!(&mut g, &|g: &mut G| g.col(), d, ParticleAnimationRaw, emitter_index, i, ParticleTrackType::Color);
        let transparency_animation = blk!(&mut g, &f, d, ParticleAnimationRaw, emitter_index, i, ParticleTrackType::Transparency);
        let size_animation = blk!(&mut g, &f, d, ParticleAnimationRaw, emitter_index, i, ParticleTrackType::Size);
        let intensity_animation = blk!(&mut g, &f, d, ParticleAnimationRaw, emitter_index, i, ParticleTrackType::Intensity);
        let z_source_animation = blk!(&mut g, &f, d, ParticleAnimationRaw, emitter_index, i, ParticleTrackType::ZSource);
        m.particle_emitters.push(M2ParticleEmitter {
            id: g.u32(),
            flags,
            position: g.v3(),
            bone_index: g.idx(z.nbones),
            texture_index: g.idx(z.ntex),
            model_filename: M2Array::new(0, 0),
            parent_emitter: g.idx(i),
            geometry_model_unknown: g.u16(),
            fallback_model_filename: if legion { Some(M2Array::new(0, 0)) } else { None },
            blending_type: g.below(8) as u8,
            emitter_type: [M2ParticleEmitterType::Point, M2ParticleEmitterType::Plane, M2ParticleEmitterType::Sphere, M2ParticleEmitterType::Spline, M2ParticleEmitterType::Bone][g.below(5) as usize],
            particle_type: g.below(4) as u8,
            head_or_tail: g.below(3) as u8,
            texture_file_data_ids: if legion { Some(M2Array::new(0, 0)) } else { None },
            texture_tile_coordinates: M2Array::new(0, 0),
            enable_encryption: if mv >= M2Version::WoD { Some(g.u8()) } else { None },
            multi_texture_param0: if mv >= M2Version::BfA { Some([g.u8(), g.u8(), g.u8(), g.u8()]) } else { None },
            multi_texture_param1: if mv >= M2Version::BfA { Some([g.u8(), g.u8(), g.u8(), g.u8()]) } else { None },
            lifetime: g.f(), emission_rate: g.f(), emission_area_length: g.f(), emission_area_width: g.f(), emission_velocity: g.f(),
            min_lifetime: g.f(), max_lifetime: g.f(), min_emission_rate: g.f(), max_emission_rate: g.f(),
            min_emission_area_length: g.f(), max_emission_area_length: g.f(), min_emission_area_width: g.f(),
            max_emission_area_width: g.f(), min_emission_velocity: g.f(), max_emission_velocity: g.f(),
            position_variation: g.f(), min_position_variation: g.f(), max_position_variation: g.f(), initial_size: g.f(),
            min_initial_size: g.f(), max_initial_size: g.f(), size_variation: g.f(), min_size_variation: g.f(), max_size_variation: g.f(),
            horizontal_range: g.f(), min_horizontal_range: g.f(), max_horizontal_range: g.f(), vertical_range: g.f(),
            min_vertical_range: g.f(), max_vertical_range: g.f(), gravity: g.f(), min_gravity: g.f(), max_gravity: g.f(),
            initial_velocity: g.f(), min_initial_velocity: g.f(), max_initial_velocity: g.f(), speed_variation: g.f(),
            min_speed_variation: g.f(), max_speed_variation: g.f(), rotation_speed: g.f(), min_rotation_speed: g.f(),
            max_rotation_speed: g.f(), initial_rotation: g.f(), min_initial_rotation: g.f(), max_initial_rotation: g.f(),
            mid_point_color: g.col(), color_animation_speed: g.f(), color_median_time: g.f(), lifespan_unused: g.f(),
            emission_rate_unused: g.f(), unknown_1: g.u32(), unknown_2: g.f(),
            emission_speed_animation, emission_rate_animation, emission_area_animation, xy_scale_animation, z_scale_animation,
            color_animation, transparency_animation, size_animation, intensity_animation, z_source_animation,
            particle_initial_state: if legion { Some(g.u32()) } else { None },
            particle_initial_state_variation: if legion { Some(g.f()) } else { None },
            particle_convergence_time: if legion { Some(g.f()) } else { None },
            physics_parameters: if mv >= M2Version::MoP && flags.contains(M2ParticleFlags::PHYSICS) { Some([g.f(), g.f(), g.f(), g.f(), g.f()]) } else { None },
        });
    }

    // ribbon emitters
    for i in 0..z.nrib {
        let d = &mut m.raw_data.ribbon_animation_data;
        let f = |g: &mut G| g.f();
        let bone_index = g.idx(z.nbones) as u32;
        let position = g.v3();
        let color_animation = blk!(&mut g, &|g: &mut G| g.col(), d, RibbonAnimationRaw, emitter_index, i, RibbonTrackType::Color);
        let alpha_animation = blk!(&mut g, &f, d, RibbonAnimationRaw, emitter_index, i, RibbonTrackType::Alpha);
        let height_above_animation = blk!(&mut g, &f, d, RibbonAnimationRaw, emitter_index, i, RibbonTrackType::HeightAbove);
        let height_below_animation = blk!(&mut g, &f, d, RibbonAnimationRaw, emitter_index, i, RibbonTrackType::HeightBelow);
        m.ribbon_emitters.push(M2RibbonEmitter {
            bone_index, position, texture_indices: M2Array::new(0, 0), material_indices: M2Array::new(0, 0), color_animation,
            alpha_animation, height_above_animation, height_below_animation, edges_per_second: g.f(), edge_lifetime: g.f(),
            gravity: g.f(), texture_rows: g.below(8) as u16, texture_cols: g.below(8) as u16,
            texture_slice: if vn >= 272 { Some(g.u16()) } else { None },
            variation: if vn >= 272 { Some(g.u16()) } else { None },
            id: g.u32(), flags: g.u32(),
        });
    }

    // texture / colour / transparency animations
    for i in 0..z.ntexanim {
        let d = &mut m.raw_data.texture_animation_data;
        let f = |g: &mut G| g.f();
        let animation_type = [M2TextureAnimationType::None, M2TextureAnimationType::Scroll, M2TextureAnimationType::Rotate, M2TextureAnimationType::Scale, M2TextureAnimationType::KeyFrame][g.below(5) as usize];
        let translation_u = blk!(&mut g, &f, d, TextureAnimationRaw, animation_index, i, TextureTrackType::TranslationU);
        let translation_v = blk!(&mut g, &f, d, TextureAnimationRaw, animation_index, i, TextureTrackType::TranslationV);
        let rotation = blk!(&mut g, &f, d, TextureAnimationRaw, animation_index, i, TextureTrackType::Rotation);
        let scale_u = blk!(&mut g, &f, d, TextureAnimationRaw, animation_index, i, TextureTrackType::ScaleU);
        let scale_v = blk!(&mut g, &f, d, TextureAnimationRaw, animation_index, i, TextureTrackType::ScaleV);
        m.texture_animations.push(M2TextureAnimation { animation_type, translation_u, translation_v, rotation, scale_u, scale_v });
    }
    for i in 0..z.ncolor {
        let d = &mut m.raw_data.color_animation_data;
        let color = blk!(&mut g, &|g: &mut G| g.col(), d, ColorAnimationRaw, animation_index, i, ColorTrackType::Color);
        let alpha = blk!(&mut g, &|g: &mut G| g.u16() & 0x7fff, d, ColorAnimationRaw, animation_index, i, ColorTrackType::Alpha);
        m.color_animations.push(M2ColorAnimation { color, alpha });
    }
    for i in 0..z.ntrans {
        let d = &mut m.raw_data.transparency_animation_data;
        let alpha = blk!(&mut g, &|g: &mut G| g.f(), d, TransparencyAnimationRaw, animation_index, i, TransparencyTrackType::Alpha);
        m.transparency_animations.push(M2TransparencyAnimation { alpha });
    }

    // embedded skin profiles (only representable up to 263)
    if vn <= 263 {
        let submesh_size = if vn < 260 { 32 } else { 48 };
        for _ in 0..z.nviews {
            let (ni, nt, np, ns, nb) = (1 + g.below(6) as usize, 3 * g.below(4) as usize, g.below(4) as usize, g.below(3) as usize, g.below(5) as usize);
            let bytes = |g: &mut G, n: usize| -> Vec<u8> { (0..n).map(|_| g.u8()).collect() };
            let indices = bytes(&mut g, ni * 2);
            let triangles = bytes(&mut g, nt * 2);
            let properties = bytes(&mut g, np * 4);
            let submeshes = bytes(&mut g, ns * submesh_size);
            let batches = bytes(&mut g, nb * 24);
            let mut mvw = Vec::new();
            let mut offs = [0u32; 5];
            for (k, n) in [ni, nt, np, ns, nb].iter().enumerate() {
                offs[k] = if *n > 0 { g.off() } else { 0 };
                mvw.extend_from_slice(&(*n as u32).to_le_bytes());
                mvw.extend_from_slice(&offs[k].to_le_bytes());
            }
            mvw.extend_from_slice(&(g.below(256) as u32).to_le_bytes());
            m.raw_data.embedded_skins.push(EmbeddedSkinRaw {
                model_view: mvw, indices, triangles, properties, submeshes, batches, original_model_view_offset: g.off(),
                original_indices_offset: offs[0], original_triangles_offset: offs[1], original_properties_offset: offs[2],
                original_submeshes_offset: offs[3], original_batches_offset: offs[4],
            });
        }
    }
    m
}

// ---------------------------------------------------------------------------------------------
// canonical forms (file offsets removed) and comparison
// ---------------------------------------------------------------------------------------------

fn za<T>(a: &mut M2Array<T>) { a.offset = 0; }
fn zh<T>(a: &mut M2Array<T>) { *a = M2Array::new(0, 0); }
fn zb<T: M2Parse>(b: &mut M2AnimationBlock<T>) {
    za(&mut b.track.interpolation_ranges);
    za(&mut b.track.timestamps);
    za(&mut b.track.values.array);
}
fn zt<T>(t: &mut M2Track<T>) {
    za(&mut t.timestamps);
    za(&mut t.values);
    if let Some(r) = t.ranges.as_mut() { za(r) }
}

macro_rules! zraw {
    ($v:expr) => {
        for e in $v.iter_mut() {
            e.original_ranges_offset = 0;
            e.original_timestamps_offset = 0;
            e.original_values_offset = 0;
        }
    };
}

/// clone without file offsets; with `common = Some((from, to))` also without everything that only one of the two versions can hold
fn norm(m: &M2Model, common: Option<(u32, u32)>) -> M2Model {
    let mut n = m.clone();
    let h = &mut n.header;
    zh(&mut h.name); zh(&mut h.global_sequences); zh(&mut h.animations); zh(&mut h.animation_lookup);
    zh(&mut h.bones); zh(&mut h.key_bone_lookup); zh(&mut h.vertices); zh(&mut h.views); zh(&mut h.color_animations); zh(&mut h.textures);
    zh(&mut h.transparency_lookup); zh(&mut h.texture_animations);
    zh(&mut h.render_flags); zh(&mut h.bone_lookup_table); zh(&mut h.texture_lookup_table); zh(&mut h.texture_units);
    zh(&mut h.transparency_lookup_table); zh(&mut h.texture_animation_lookup); zh(&mut h.bounding_triangles); zh(&mut h.bounding_vertices);
    zh(&mut h.bounding_normals); zh(&mut h.attachments); zh(&mut h.attachment_lookup_table); zh(&mut h.events); zh(&mut h.lights);
    zh(&mut h.cameras); zh(&mut h.camera_lookup_table); zh(&mut h.ribbon_emitters); zh(&mut h.particle_emitters);
    // the arrays without a list in the model (playable lookup, flipbooks, colour replacements, blend overrides, combiner combos,
    // texture transforms) keep count and offset: the writer always emits them empty, anything else after parsing is garbage
    for b in n.bones.iter_mut() { zt(&mut b.translation); zt(&mut b.rotation); zt(&mut b.scale); }
    for t in n.textures.iter_mut() { za(&mut t.filename.array); }
    for a in n.attachments.iter_mut() { zb(&mut a.scale_animation); }
    for e in n.events.iter_mut() { za(&mut e.ranges); za(&mut e.times); }
    for l in n.lights.iter_mut() {
        zb(&mut l.ambient_color_animation); zb(&mut l.diffuse_color_animation); zb(&mut l.attenuation_start_animation);
        zb(&mut l.attenuation_end_animation); zb(&mut l.visibility_animation);
    }
    for c in n.cameras.iter_mut() { zb(&mut c.position_animation); zb(&mut c.target_position_animation); zb(&mut c.roll_animation); }
    for p in n.particle_emitters.iter_mut() {
        za(&mut p.model_filename); za(&mut p.texture_tile_coordinates);
        if let Some(a) = p.fallback_model_filename.as_mut() { za(a) }
        if let Some(a) = p.texture_file_data_ids.as_mut() { za(a) }
        zb(&mut p.emission_speed_animation); zb(&mut p.emission_rate_animation); zb(&mut p.emission_area_animation);
        zb(&mut p.xy_scale_animation); zb(&mut p.z_scale_animation); zb(&mut p.color_animation); zb(&mut p.transparency_animation);
        zb(&mut p.size_animation); zb(&mut p.intensity_animation); zb(&mut p.z_source_animation);
    }
    for r in n.ribbon_emitters.iter_mut() {
        za(&mut r.texture_indices); za(&mut r.material_indices);
        zb(&mut r.color_animation); zb(&mut r.alpha_animation); zb(&mut r.height_above_animation); zb(&mut r.height_below_animation);
    }
    for t in n.texture_animations.iter_mut() {
        zb(&mut t.translation_u); zb(&mut t.translation_v); zb(&mut t.rotation); zb(&mut t.scale_u); zb(&mut t.scale_v);
    }
    for c in n.color_animations.iter_mut() { zb(&mut c.color); zb(&mut c.alpha); }
    for t in n.transparency_animations.iter_mut() { zb(&mut t.alpha); }
    let r = &mut n.raw_data;
    for e in r.bone_animation_data.iter_mut() {
        e.original_timestamps_offset = 0;
        e.original_values_offset = 0;
        if e.original_ranges_offset.is_some() { e.original_ranges_offset = Some(0); }
    }
    zraw!(r.particle_animation_data); zraw!(r.ribbon_animation_data); zraw!(r.texture_animation_data); zraw!(r.color_animation_data);
    zraw!(r.transparency_animation_data); zraw!(r.attachment_animation_data); zraw!(r.camera_animation_data); zraw!(r.light_animation_data);
    for e in r.event_data.iter_mut() { e.original_ranges_offset = 0; e.original_timestamps_offset = 0; }
    for s in r.embedded_skins.iter_mut() {
        if s.model_view.len() >= 44 {
            for k in 0..5 { for b in 0..4 { s.model_view[8 * k + 4 + b] = 0; } }
        }
        s.original_model_view_offset = 0; s.original_indices_offset = 0; s.original_triangles_offset = 0;
        s.original_properties_offset = 0; s.original_submeshes_offset = 0; s.original_batches_offset = 0;
    }

    if let Some((a, b)) = common {
        let (lo, hi) = (a.min(b), a.max(b));
        let mlo = M2Version::from_header_version(lo).unwrap_or(M2Version::Vanilla);
        n.header.version = 0;
        if lo <= 263 { n.header.num_skin_profiles = None; }      // a field of both layouts from WotLK on
        n.header.playable_animation_lookup = None;
        n.header.texture_flipbooks = None;
        n.header.blend_map_overrides = None;
        n.header.texture_combiner_combos = None;
        n.header.texture_transforms = None;
        if (a <= 256) != (b <= 256) {
            for s in n.animations.iter_mut() {
                s.end_timestamp = None; s.replay = None; s.minimum_extent = None; s.maximum_extent = None; s.extent_radius = None;
                s.next_animation = None; s.aliasing = None;
            }
        }
        if lo < 260 { for b in n.bones.iter_mut() { b.bone_name_crc = None; } }
        if hi >= 264 {
            for b in n.bones.iter_mut() { b.translation.ranges = None; b.rotation.ranges = None; b.scale.ranges = None; }
            for e in n.raw_data.bone_animation_data.iter_mut() { e.ranges = None; e.original_ranges_offset = None; }
        }
        if lo < 264 { for c in n.cameras.iter_mut() { c.id = 0; c.flags = M2CameraFlags::empty(); } }
        if lo < 272 { for r in n.ribbon_emitters.iter_mut() { r.texture_slice = None; r.variation = None; } }
        for p in n.particle_emitters.iter_mut() {
            if mlo < M2Version::Legion {
                p.fallback_model_filename = None; p.texture_file_data_ids = None; p.particle_initial_state = None;
                p.particle_initial_state_variation = None; p.particle_convergence_time = None;
            }
            if mlo < M2Version::WoD { p.enable_encryption = None; }
            if mlo < M2Version::BfA { p.multi_texture_param0 = None; p.multi_texture_param1 = None; }
            if mlo < M2Version::MoP { p.physics_parameters = None; }
        }
        if hi > 263 { n.raw_data.embedded_skins.clear(); }
    }
    n
}

fn d<T: std::fmt::Debug>(x: &T) -> String { format!("{:?}", x) }

type Sections = Vec<(&'static str, String)>;

fn sections(m: &M2Model, common: Option<(u32, u32)>) -> Sections {
    let n = norm(m, common);
    let r = &n.raw_data;
    vec![
        ("hdr", d(&n.header)), ("name", d(&n.name)), ("gseq", d(&n.global_sequences)), ("seq", d(&n.animations)),
        ("seqlk", d(&n.animation_lookup)), ("bones", d(&n.bones)), ("keybone", d(&n.key_bone_lookup)), ("verts", d(&n.vertices)),
        ("tex", d(&n.textures)), ("mat", d(&n.materials)), ("bonelk", d(&r.bone_lookup_table)), ("texlk", d(&r.texture_lookup_table)),
        ("texunit", d(&r.texture_units)), ("translk", d(&r.transparency_lookup_table)), ("texanimlk", d(&r.texture_animation_lookup)),
        ("attlk", d(&r.attachment_lookup_table)), ("camlk", d(&r.camera_lookup_table)),
        ("bound", d(&(&r.bounding_triangles, &r.bounding_vertices, &r.bounding_normals))),
        ("att", d(&n.attachments)), ("evt", d(&n.events)), ("light", d(&n.lights)), ("cam", d(&n.cameras)),
        ("part", d(&n.particle_emitters)), ("ribbon", d(&n.ribbon_emitters)), ("texanim", d(&n.texture_animations)),
        ("coloranim", d(&n.color_animations)), ("transanim", d(&n.transparency_animations)), ("skins", d(&r.embedded_skins)),
        ("k_bone", d(&r.bone_animation_data)), ("k_att", d(&r.attachment_animation_data)), ("k_evt", d(&r.event_data)),
        ("k_light", d(&r.light_animation_data)), ("k_cam", d(&r.camera_animation_data)), ("k_part", d(&r.particle_animation_data)),
        ("k_ribbon", d(&r.ribbon_animation_data)), ("k_texanim", d(&r.texture_animation_data)), ("k_color", d(&r.color_animation_data)),
        ("k_trans", d(&r.transparency_animation_data)),
        ("other", d(&(
            (&r.transparency, &r.texture_animations, &r.color_animations, &r.color_replacements, &r.render_flags, &r.attachments, &r.events, &r.lights),
            (&r.cameras, &r.ribbon_emitters, &r.particle_emitters, &r.views_data, &r.texture_flipbooks, &r.blend_map_overrides, &r.texture_combiner_combos, &r.texture_transforms),
            (&n.skin_file_ids, &n.animation_file_ids, &n.texture_file_ids, &n.physics_file_id, &n.skeleton_file_id, &n.bone_file_ids, &n.lod_data),
            (&n.extended_particle_data, &n.parent_animation_blacklist, &n.parent_animation_data, &n.waterfall_effect, &n.edge_fade_data, &n.model_alpha_data, &n.lighting_details),
            (&n.recursive_particle_ids, &n.geometry_particle_ids, &n.texture_animation_chunk, &n.particle_geoset_data, &n.dboc_chunk, &n.afra_chunk, &n.dpiv_chunk),
            (&n.parent_sequence_bounds, &n.parent_event_data, &n.collision_mesh_data, &n.physics_file_data),
        ))),
    ]
}

fn diff(a: &Sections, b: &Sections) -> String {
    let v: Vec<&str> = a.iter().zip(b.iter()).filter(|(x, y)| x.1 != y.1).map(|(x, _)| x.0).collect();
    if std::env::var("VERIF_DEBUG").is_ok() {
        for (x, y) in a.iter().zip(b.iter()).filter(|(x, y)| x.1 != y.1) {
            let (p, q) = (x.1.as_bytes(), y.1.as_bytes());
            let k = p.iter().zip(q.iter()).position(|(c, e)| c != e).unwrap_or(p.len().min(q.len()));
            let from = k.saturating_sub(160);
            eprintln!("DIFF {} at {}:\n  A: {}\n  B: {}", x.0, k, String::from_utf8_lossy(&p[from..(k + 120).min(p.len())]), String::from_utf8_lossy(&q[from..(k + 120).min(q.len())]));
        }
    }
    if v.is_empty() { "-".to_string() } else { v.join(",") }
}

fn lists(m: &M2Model) -> String {
    let r = &m.raw_data;
    let v: Vec<(&str, usize)> = vec![
        ("gseq", m.global_sequences.len()), ("seq", m.animations.len()), ("seqlk", m.animation_lookup.len()), ("bones", m.bones.len()),
        ("keybone", m.key_bone_lookup.len()), ("verts", m.vertices.len()), ("tex", m.textures.len()), ("mat", m.materials.len()),
        ("bonelk", r.bone_lookup_table.len()), ("texlk", r.texture_lookup_table.len()), ("texunit", r.texture_units.len()),
        ("translk", r.transparency_lookup_table.len()), ("texanimlk", r.texture_animation_lookup.len()),
        ("attlk", r.attachment_lookup_table.len()), ("camlk", r.camera_lookup_table.len()), ("boundtri", r.bounding_triangles.len() / 2),
        ("boundvert", r.bounding_vertices.len() / 12), ("boundnorm", r.bounding_normals.len() / 12), ("att", m.attachments.len()),
        ("evt", m.events.len()), ("light", m.lights.len()), ("cam", m.cameras.len()), ("part", m.particle_emitters.len()),
        ("ribbon", m.ribbon_emitters.len()), ("texanim", m.texture_animations.len()), ("coloranim", m.color_animations.len()),
        ("transanim", m.transparency_animations.len()), ("skins", r.embedded_skins.len()), ("k_bone", r.bone_animation_data.len()),
        ("k_att", r.attachment_animation_data.len()), ("k_evt", r.event_data.len()), ("k_light", r.light_animation_data.len()),
        ("k_cam", r.camera_animation_data.len()), ("k_part", r.particle_animation_data.len()), ("k_ribbon", r.ribbon_animation_data.len()),
        ("k_texanim", r.texture_animation_data.len()), ("k_color", r.color_animation_data.len()), ("k_trans", r.transparency_animation_data.len()),
    ];
    v.iter().map(|(n, l)| format!("{n}:{l:x}")).collect::<Vec<_>>().join(",")
}

/// header counts of a parsed model against the lengths of the lists it produced
fn hdr_check(m: &M2Model) -> String {
    let h = &m.header;
    let r = &m.raw_data;
    let mut v: Vec<(&str, u32, usize)> = vec![
        ("name", h.name.count, m.name.as_ref().map(|s| s.len() + 1).unwrap_or(0)),
        ("gseq", h.global_sequences.count, m.global_sequences.len()), ("seq", h.animations.count, m.animations.len()),
        ("seqlk", h.animation_lookup.count, m.animation_lookup.len()), ("bones", h.bones.count, m.bones.len()),
        ("keybone", h.key_bone_lookup.count, m.key_bone_lookup.len()), ("verts", h.vertices.count, m.vertices.len()),
        ("tex", h.textures.count, m.textures.len()), ("mat", h.render_flags.count, m.materials.len()),
        ("bonelk", h.bone_lookup_table.count, r.bone_lookup_table.len()), ("texlk", h.texture_lookup_table.count, r.texture_lookup_table.len()),
        ("texunit", h.texture_units.count, r.texture_units.len()), ("translk", h.transparency_lookup_table.count, r.transparency_lookup_table.len()),
        ("texanimlk", h.texture_animation_lookup.count, r.texture_animation_lookup.len()),
        ("attlk", h.attachment_lookup_table.count, r.attachment_lookup_table.len()), ("camlk", h.camera_lookup_table.count, r.camera_lookup_table.len()),
        ("boundtri", h.bounding_triangles.count, r.bounding_triangles.len() / 2), ("boundvert", h.bounding_vertices.count, r.bounding_vertices.len() / 12),
        ("boundnorm", h.bounding_normals.count, r.bounding_normals.len() / 12), ("att", h.attachments.count, m.attachments.len()),
        ("evt", h.events.count, m.events.len()), ("light", h.lights.count, m.lights.len()), ("cam", h.cameras.count, m.cameras.len()),
        ("part", h.particle_emitters.count, m.particle_emitters.len()), ("ribbon", h.ribbon_emitters.count, m.ribbon_emitters.len()),
        ("texanim", h.texture_animations.count, m.texture_animations.len()), ("coloranim", h.color_animations.count, m.color_animations.len()),
        ("transanim", h.transparency_lookup.count, m.transparency_animations.len()),
    ];
    if h.version <= 263 {
        v.push(("skins", h.views.count, r.embedded_skins.len()));
    }
    let bad: Vec<String> = v.iter().filter(|(_, c, l)| *c as usize != *l).map(|(n, c, l)| format!("{n}:{c:x}/{l:x}")).collect();
    if bad.is_empty() { "ok".to_string() } else { bad.join(",") }
}

// ---------------------------------------------------------------------------------------------
// step isolation
// ---------------------------------------------------------------------------------------------

fn clean(s: &str) -> String {
    let c: String = s.chars().map(|c| if c.is_whitespace() { '_' } else { c }).collect();
    c.chars().take(160).collect()
}

/// Err or panic of one step -> short token, so that the other steps still report
fn step<T>(f: impl FnOnce() -> Result<T, String>) -> Result<T, String> {
    match catch_unwind(AssertUnwindSafe(f)) {
        Ok(Ok(v)) => Ok(v),
        Ok(Err(e)) => Err(format!("ERR_{}", clean(&e))),
        Err(p) => {
            let msg = p.downcast_ref::<&str>().map(|s| s.to_string()).or_else(|| p.downcast_ref::<String>().cloned()).unwrap_or_default();
            Err(format!("PANIC_{}", clean(&msg)))
        }
    }
}

/// like `step`, but first tries the step in a forked child: an abort (allocation failure on garbage counts) or a hang
/// of the library then costs only this field instead of the whole batch
fn guarded<T>(f: impl Fn() -> Result<T, String>) -> Result<T, String> {
    if std::env::var("VERIF_NOFORK").is_err() {
        unsafe {
            let pid = libc::fork();
            if pid == 0 {
                libc::alarm(60);
                let _ = catch_unwind(AssertUnwindSafe(|| { let _ = f(); }));
                libc::_exit(0);
            }
            if pid > 0 {
                let mut st: libc::c_int = 0;
                libc::waitpid(pid, &mut st, 0);
                if libc::WIFSIGNALED(st) {
                    return Err(format!("ABORT_signal_{:x}", libc::WTERMSIG(st)));
                }
            }
        }
    }
    step(f)
}

fn fnv(b: &[u8]) -> u64 {
    let mut h: u64 = 0xcbf2_9ce4_8422_2325;
    for x in b {
        h ^= *x as u64;
        h = h.wrapping_mul(0x0000_0100_0000_01b3);
    }
    h
}

fn show(b: &[u8]) -> String {
    if b.len() > 20000 { format!("LEN={:x} SHA={:016x}", b.len(), fnv(b)) } else { hex(b) }
}

fn wr_model(m: &M2Model) -> Result<Vec<u8>, String> {
    let mut c = Cursor::new(Vec::new());
    m.write(&mut c).map_err(|e| e.to_string())?;
    Ok(c.into_inner())
}
fn rd_model(b: &[u8]) -> Result<M2Model, String> { M2Model::parse(&mut Cursor::new(b)).map_err(|e| e.to_string()) }

const UNBUILT: &str = "playable_lookup,flipbooks,color_replacements,blend_overrides,combiner_combos,texture_transforms,emitter_subarrays,md21_chunks";

struct Rt { w1: String, eq: String, diff: String, same: String, lists: String, name: String, hdr: String, parsed: Option<M2Model> }

/// write -> parse -> write of `m`, compared section by section against `m`
fn roundtrip(m: &M2Model) -> Rt {
    let na = || "-".to_string();
    let w1 = step(|| wr_model(m));
    let bytes = match &w1 {
        Ok(b) => b.clone(),
        Err(e) => return Rt { w1: format!("WRITE-{e}"), eq: na(), diff: na(), same: na(), lists: na(), name: na(), hdr: na(), parsed: None },
    };
    let p = match guarded(|| rd_model(&bytes)) {
        Ok(p) => p,
        Err(e) => return Rt { w1: show(&bytes), eq: format!("PARSE-{e}"), diff: na(), same: na(), lists: na(), name: na(), hdr: na(), parsed: None },
    };
    let (eq, df) = match step(|| Ok(diff(&sections(m, None), &sections(&p, None)))) {
        Ok(s) => ((if s == "-" { "1" } else { "0" }).to_string(), s),
        Err(e) => (format!("COMPARE-{e}"), na()),
    };
    let same = match step(|| wr_model(&p)) { Ok(w2) => ((w2 == bytes) as u8).to_string(), Err(e) => format!("WRITE2-{e}") };
    let name = match &p.name { Some(s) => hex(s.as_bytes()), None => "none".to_string() };
    Rt { w1: show(&bytes), eq, diff: df, same, lists: lists(&p), name, hdr: hdr_check(&p), parsed: Some(p) }
}

fn cmd_model(t: &[&str]) -> String {
    if t.len() < 14 { return "ERR usage:_model_ver_seed_namelen_nseq_nbones_nverts_ntex_nmat_nlookups_natt_nevents_nlights_ncams".to_string(); }
    let Some(v) = ver(num(t[1])) else { return "ERR bad_version".to_string() };
    let z = sizes(&t[2..]);
    let m = match step(|| Ok(build(v, &z))) { Ok(m) => m, Err(e) => return format!("W1=BUILD-{e} EQ=- DIFF=- SAME=- LISTS=- NAME=- HDR=- UNBUILT={UNBUILT}") };
    let r = roundtrip(&m);
    format!("W1={} EQ={} DIFF={} SAME={} LISTS={} NAME={} HDR={} UNBUILT={}", r.w1, r.eq, r.diff, r.same, r.lists, r.name, r.hdr, UNBUILT)
}

fn cmd_conv(t: &[&str]) -> String {
    if t.len() < 15 { return "ERR usage:_conv_from_to_seed_namelen_nseq_nbones_nverts_ntex_nmat_nlookups_natt_nevents_nlights_ncams".to_string(); }
    let (Some(vf), Some(vt)) = (ver(num(t[1])), ver(num(t[2]))) else { return "ERR bad_version".to_string() };
    let z = sizes(&t[3..]);
    let tail = "W=- EQ=- DIFF=- SAME=- KEPT=- LOST=- KEPT2=- LOST2=- IDENT=- DIRECT=- LISTS=- HDR=-";
    let m = match step(|| Ok(build(vf, &z))) { Ok(m) => m, Err(e) => return format!("CONV=BUILD-{e} {tail}") };
    let c = match step(|| M2Converter::new().convert(&m, vt).map_err(|e| e.to_string())) { Ok(c) => c, Err(e) => return format!("CONV={e} {tail}") };
    let (a, b) = (vf.to_header_version(), vt.to_header_version());
    let direct = match step(|| m.convert(vt).map_err(|e| e.to_string())) { Ok(x) => ((d(&x) == d(&c)) as u8).to_string(), Err(e) => e };
    let lost = diff(&sections(&m, Some((a, b))), &sections(&c, Some((a, b))));
    let ident = if vf == vt { ((d(&m) == d(&c)) as u8).to_string() } else { "-".to_string() };
    let r = roundtrip(&c);
    let (kept2, lost2) = match &r.parsed {
        Some(p) => { let l = diff(&sections(&m, Some((a, b))), &sections(p, Some((a, b)))); (((l == "-") as u8).to_string(), l) }
        None => ("-".to_string(), "-".to_string()),
    };
    format!(
        "CONV=OK W={} EQ={} DIFF={} SAME={} KEPT={} LOST={} KEPT2={} LOST2={} IDENT={} DIRECT={} LISTS={} HDR={}",
        r.w1, r.eq, r.diff, r.same, (lost == "-") as u8, lost, kept2, lost2, ident, direct, r.lists, r.hdr
    )
}

// ---------------------------------------------------------------------------------------------
// skin files
// ---------------------------------------------------------------------------------------------

fn build_skin(t: &[&str]) -> SkinFile {
    let at = |i: usize, dflt: u64| -> u64 { if i < t.len() && t[i] != "-" { num(t[i]) } else { dflt } };
    let new = at(1, 0) == 1;
    let mut g = G::new(at(2, 0), 0);
    let (ni, nt, nb, ns, nba) = (at(3, 0) as usize, at(4, 0) as usize, at(5, 0) as usize, at(6, 0) as usize, at(7, 0) as usize);
    let nverts = ni as u64 + 1 + g.below(500);
    let indices: Vec<u16> = (0..ni).map(|_| g.below(nverts.min(0xffff)) as u16).collect();
    let triangles: Vec<u16> = (0..nt).map(|_| if ni == 0 { 0 } else { g.idx(ni) }).collect();
    let bone_indices: Vec<u8> = (0..nb).map(|_| g.below(64) as u8).collect();
    let submeshes: Vec<SkinSubmesh> = (0..ns).map(|_| SkinSubmesh {
        id: g.below(2000) as u16, level: g.below(2) as u16, vertex_start: g.below(ni as u64 + 1) as u16, vertex_count: g.below(ni as u64 + 1) as u16,
        triangle_start: g.below(nt as u64 + 1) as u16, triangle_count: g.below(nt as u64 + 1) as u16, bone_count: g.below(64) as u16,
        bone_start: g.below(64) as u16, bone_influence: g.below(5) as u16, center: g.a3(), sort_center: g.a3(), bounding_radius: g.f(),
    }).collect();
    let batches: Vec<SkinBatch> = (0..nba).map(|_| SkinBatch {
        flags: g.u8(), priority_plane: g.u8() as i8, shader_id: g.u16(), skin_section_index: g.idx(ns), geoset_index: g.idx(ns),
        color_index: if g.below(2) == 0 { 0xffff } else { g.below(8) as u16 }, material_index: g.below(16) as u16, material_layer: g.below(4) as u16,
        texture_count: 1 + g.below(4) as u16, texture_combo_index: g.below(32) as u16, texture_coord_combo_index: g.below(32) as u16,
        texture_weight_combo_index: g.below(32) as u16, texture_transform_combo_index: g.below(32) as u16,
    }).collect();
    let (ai, atr, ab) = (M2Array::new(ni as u32, g.off()), M2Array::new(nt as u32, g.off()), M2Array::new((nb / 4) as u32, g.off()));
    let (asub, abat) = (M2Array::new(ns as u32, g.off()), M2Array::new(nba as u32, g.off()));
    if new {
        let center = at(9, 0) == 1;
        let header = SkinHeader {
            magic: SKIN_MAGIC, version: at(8, 1) as u32, name: M2Array::new(0, 0), vertex_count: nverts as u32, indices: ai, triangles: atr,
            bone_indices: ab, submeshes: asub, batches: abat, center_position: if center { Some(g.a3()) } else { None },
            center_bounds: if center { Some(g.f()) } else { None },
        };
        SkinFile::New(Skin { header, indices, triangles, bone_indices, submeshes, batches })
    } else {
        let header = OldSkinHeader { magic: SKIN_MAGIC, indices: ai, triangles: atr, bone_indices: ab, submeshes: asub, batches: abat, bone_count_max: g.below(256) as u32 };
        SkinFile::Old(OldSkin { header, indices, triangles, bone_indices, submeshes, batches })
    }
}

fn skin_sections(s: &SkinFile) -> Sections {
    let hdr = match s {
        SkinFile::New(k) => format!("new {:?} {} {} {} {:?} {:?}", k.header.magic, k.header.version, k.header.name.count, k.header.vertex_count, k.header.center_position, k.header.center_bounds),
        SkinFile::Old(k) => format!("old {:?} {}", k.header.magic, k.header.bone_count_max),
    };
    vec![("hdr", hdr), ("idx", d(s.indices())), ("tri", d(s.triangles())), ("bones", d(s.bone_indices())), ("sub", d(s.submeshes())), ("batch", d(s.batches()))]
}

fn skin_hdr_check(s: &SkinFile) -> String {
    let (a, b, c, dd, e) = match s {
        SkinFile::New(k) => (k.header.indices.count, k.header.triangles.count, k.header.bone_indices.count, k.header.submeshes.count, k.header.batches.count),
        SkinFile::Old(k) => (k.header.indices.count, k.header.triangles.count, k.header.bone_indices.count, k.header.submeshes.count, k.header.batches.count),
    };
    let v = [("idx", a as usize, s.indices().len()), ("tri", b as usize, s.triangles().len()), ("bones", c as usize * 4, s.bone_indices().len()),
             ("sub", dd as usize, s.submeshes().len()), ("batch", e as usize, s.batches().len())];
    let bad: Vec<String> = v.iter().filter(|(_, c, l)| c != l).map(|(n, c, l)| format!("{n}:{c:x}/{l:x}")).collect();
    if bad.is_empty() { "ok".to_string() } else { bad.join(",") }
}

fn wr_skin(s: &SkinFile) -> Result<Vec<u8>, String> {
    let mut c = Cursor::new(Vec::new());
    s.write(&mut c).map_err(|e| e.to_string())?;
    Ok(c.into_inner())
}

fn cmd_skin(t: &[&str]) -> String {
    if t.len() < 8 { return "ERR usage:_skin_layout_seed_nindices_ntriangleindices_nbonebytes_nsubmeshes_nbatches_[version]_[center]".to_string(); }
    let s = match step(|| Ok(build_skin(t))) { Ok(s) => s, Err(e) => return format!("W1=BUILD-{e} EQ=- DIFF=- SAME=- LISTS=- LAYOUT=- HDR=-") };
    let bytes = match step(|| wr_skin(&s)) { Ok(b) => b, Err(e) => return format!("W1=WRITE-{e} EQ=- DIFF=- SAME=- LISTS=- LAYOUT=- HDR=-") };
    let p = match guarded(|| SkinFile::parse(&mut Cursor::new(&bytes)).map_err(|e| e.to_string())) {
        Ok(p) => p,
        Err(e) => return format!("W1={} EQ=PARSE-{e} DIFF=- SAME=- LISTS=- LAYOUT=- HDR=-", show(&bytes)),
    };
    let df = diff(&skin_sections(&s), &skin_sections(&p));
    let same = match step(|| wr_skin(&p)) { Ok(w2) => ((w2 == bytes) as u8).to_string(), Err(e) => format!("WRITE2-{e}") };
    let lists = format!("idx:{:x},tri:{:x},bones:{:x},sub:{:x},batch:{:x}", p.indices().len(), p.triangles().len(), p.bone_indices().len(), p.submeshes().len(), p.batches().len());
    format!("W1={} EQ={} DIFF={} SAME={} LISTS={} LAYOUT={} HDR={}", show(&bytes), (df == "-") as u8, df, same, lists, p.is_new_format() as u8, skin_hdr_check(&p))
}

// ---------------------------------------------------------------------------------------------
// anim files
// ---------------------------------------------------------------------------------------------

fn build_anim(t: &[&str]) -> AnimFile {
    let modern = num(t[1]) == 1;
    let mut g = G::new(num(t[2]), 0);
    let (ns, pb) = (num(t[3]) as usize, num(t[4]) as i64);
    let mut sections = Vec::new();
    for _ in 0..ns {
        let header = AnimSectionHeader { magic: *b"AFID", id: g.below(0x10000) as u32, start: g.below(100_000) as u32, end: g.below(200_000) as u32 };
        let mut rem = pb;
        let mut bone_animations = Vec::new();
        while rem >= 12 && bone_animations.len() < 4096 {
            let drawn = if g.below(8) == 0 { 0 } else { 1 + g.below(7) };
            let mask = if t.len() > 5 && t[5] != "-" { num(t[5]) & 7 } else { drawn };
            rem -= 8;
            let mut keys = |g: &mut G, per: i64| -> usize {
                rem -= 4;
                let n = (g.below(4) as i64).min(rem.max(0) / per).max(0);
                rem -= n * per;
                n as usize
            };
            let translation = if mask & 1 != 0 { let n = keys(&mut g, 16); Some(AnimTranslation { timestamps: g.stamps32(n), translations: (0..n).map(|_| g.v3()).collect() }) } else { None };
            let rotation = if mask & 2 != 0 {
                let n = keys(&mut g, 20);
                Some(AnimRotation { timestamps: g.stamps32(n), rotations: (0..n).map(|_| Quaternion { x: g.f(), y: g.f(), z: g.f(), w: g.f() }).collect() })
            } else { None };
            let scaling = if mask & 4 != 0 { let n = keys(&mut g, 16); Some(AnimScaling { timestamps: g.stamps32(n), scalings: (0..n).map(|_| g.v3()).collect() }) } else { None };
            let bone_id = if mask == 0 { 0 } else { g.below(300) as u32 };
            bone_animations.push(AnimBoneAnimation { bone_id, translation, rotation, scaling });
        }
        sections.push(AnimSection { header, bone_animations });
    }
    if modern {
        let entries: Vec<AnimEntry> = sections.iter().map(|s| AnimEntry { id: s.header.id, offset: 0, size: 0 }).collect();
        let header = AnimHeader { magic: ANIM_MAGIC, version: 1 + g.below(3) as u32, id_count: ns as u32, unknown: g.u32(), anim_entry_offset: 20 };
        AnimFile { format: AnimFormat::Modern, sections, metadata: AnimMetadata::Modern { header, entries } }
    } else {
        let metadata = AnimMetadata::Legacy {
            file_size: 0,
            animation_count: ns as u32,
            structure_hints: LegacyStructureHints { appears_valid: true, estimated_blocks: ns as u32, has_timestamps: false },
        };
        AnimFile { format: AnimFormat::Legacy, sections, metadata }
    }
}

fn anim_sections(a: &AnimFile) -> Vec<(String, String)> {
    let meta = match &a.metadata {
        AnimMetadata::Modern { header, entries } => format!("modern {:?} ids={:?}", header, entries.iter().map(|e| e.id).collect::<Vec<_>>()),
        AnimMetadata::Legacy { animation_count, .. } => format!("legacy count={animation_count}"),
    };
    let mut v = vec![("fmt".to_string(), d(&a.format)), ("meta".to_string(), meta), ("nsec".to_string(), a.sections.len().to_string())];
    for (i, s) in a.sections.iter().enumerate() {
        v.push((format!("sec{i:x}"), d(s)));
    }
    v
}

fn wr_anim(a: &AnimFile) -> Result<Vec<u8>, String> {
    let mut c = Cursor::new(Vec::new());
    a.write(&mut c).map_err(|e| e.to_string())?;
    Ok(c.into_inner())
}

fn cmd_anim(t: &[&str]) -> String {
    if t.len() < 5 { return "ERR usage:_anim_format_seed_nsections_payloadbytes".to_string(); }
    let a = match step(|| Ok(build_anim(t))) { Ok(a) => a, Err(e) => return format!("W1=BUILD-{e} EQ=- DIFF=- SAME=- LISTS=-") };
    let bytes = match step(|| wr_anim(&a)) { Ok(b) => b, Err(e) => return format!("W1=WRITE-{e} EQ=- DIFF=- SAME=- LISTS=-") };
    let p = match guarded(|| AnimFile::parse(&mut Cursor::new(&bytes)).map_err(|e| e.to_string())) {
        Ok(p) => p,
        Err(e) => return format!("W1={} EQ=PARSE-{e} DIFF=- SAME=- LISTS=-", show(&bytes)),
    };
    let (sa, sp) = (anim_sections(&a), anim_sections(&p));
    let mut names: Vec<String> = sa.iter().zip(sp.iter()).filter(|(x, y)| x.1 != y.1).map(|(x, _)| x.0.clone()).collect();
    if names.len() > 12 {
        names.truncate(12);
        names.push("...".to_string());
    }
    let df = if names.is_empty() && sa.len() == sp.len() { "-".to_string() } else { names.join(",") };
    let same = match step(|| wr_anim(&p)) { Ok(w2) => ((w2 == bytes) as u8).to_string(), Err(e) => format!("WRITE2-{e}") };
    let bones: Vec<String> = p.sections.iter().take(64).map(|s| format!("{:x}", s.bone_animations.len())).collect();
    let lists = format!("sec:{:x},bones:{}", p.sections.len(), if bones.is_empty() { "-".to_string() } else { bones.join("/") });
    format!("W1={} EQ={} DIFF={} SAME={} LISTS={}", show(&bytes), (df == "-") as u8, df, same, lists)
}

fn main() {
    serve(|t| match t[0] {
        "model" => cmd_model(t),
        "conv" => cmd_conv(t),
        "skin" => cmd_skin(t),
        "anim" => cmd_anim(t),
        // mvalidate <hex>: the library's own verdict on a model file: OK | INVALID | PARSE-ERR
        "mvalidate" => match rd_model(&verif_harness::unhex(t[1])) {
            Err(_) => "PARSE-ERR".to_string(),
            Ok(m) => if m.validate().is_ok() { "OK".to_string() } else { "INVALID".to_string() },
        },
        _ => "ERR unknown".to_string(),
    });
}
