//! Implementation-side runner for C17 (DBC tables): parse -> write, and every access path.
use std::sync::Arc;
use verif_harness::{hex, num, serve, unhex};
use wow_cdbc::{DbcHeader, DbcParser, DbcWriter, FieldType, LazyDbcParser, MmapDbcFile, Record, RecordSet, Schema, SchemaField, StringBlock, Value};

fn ftype(t: &str) -> FieldType {
    match t { "i32" => FieldType::Int32, "u32" => FieldType::UInt32, "f32" => FieldType::Float32, "str" => FieldType::String, "bool" => FieldType::Bool,
              "u8" => FieldType::UInt8, "i8" => FieldType::Int8, "u16" => FieldType::UInt16, _ => FieldType::Int16 }
}

/// schema token: field,field,... with field = type[*n] ; key = index or -
fn schema(tok: &str, key: &str) -> Schema {
    let mut s = Schema::new("T");
    for (i, f) in tok.split(',').enumerate() {
        let p: Vec<&str> = f.split('*').collect();
        if p.len() == 2 { s.add_field(SchemaField::new_array(format!("f{i}"), ftype(p[0]), p[1].parse().unwrap())); }
        else { s.add_field(SchemaField::new(format!("f{i}"), ftype(p[0]))); }
    }
    if key != "-" { s.set_key_field_index(key.parse().unwrap()); }
    s
}

fn val(v: &Value, get: &dyn Fn(u32) -> String) -> String {
    match v {
        Value::Int32(x) => format!("{:x}", *x as u32), Value::UInt32(x) => format!("{:x}", x), Value::Float32(x) => format!("{:x}", x.to_bits()),
        Value::StringRef(r) => format!("s{}", get(r.offset())), Value::Bool(b) => format!("{}", *b as u8),
        Value::UInt8(x) => format!("{:x}", x), Value::Int8(x) => format!("{:x}", *x as u8), Value::UInt16(x) => format!("{:x}", x), Value::Int16(x) => format!("{:x}", *x as u16),
        Value::Array(a) => format!("[{}]", a.iter().map(|x| val(x, get)).collect::<Vec<_>>().join(";")),
    }
}

fn rec(r: &Record, get: &dyn Fn(u32) -> String) -> String { r.values().iter().map(|v| val(v, get)).collect::<Vec<_>>().join(",") }

fn dump(rs: &RecordSet) -> String {
    let get = |o: u32| match rs.get_string(wow_cdbc::StringRef::new(o)) { Ok(s) => hex(s.as_bytes()), Err(_) => "ERR".to_string() };
    if rs.is_empty() { return "-".to_string(); }
    rs.records().iter().map(|r| rec(r, &get)).collect::<Vec<_>>().join("|")
}

fn main() {
    let tmp = format!("{}/dbc_{}.dbc", std::env::var("VERIF_TMP").unwrap_or("/verif/.cache".to_string()), std::process::id());
    serve(move |t| match t[0] {
        // dbc <schema> <key|-> <file hex> <keys to look up ,|->
        // -> E=<eager> W=<rewritten file hex> R=<eager parse of the rewritten file> L=<lazy iterator> G=<lazy random access> M=<mmap> P=<parallel> K=<hash lookups> B=<binary-search lookups>
        "dbc" => {
            let bytes = unhex(t[3]);
            let sch = schema(t[1], t[2]);
            let p = match DbcParser::parse_bytes(&bytes) { Ok(p) => p, Err(e) => return format!("PARSE-ERR {e}").replace(' ', "_") };
            let p = match p.with_schema(sch.clone()) { Ok(p) => p, Err(e) => return format!("SCHEMA-ERR {e}").replace(' ', "_") };
            let mut rs = match p.parse_records() { Ok(r) => r, Err(e) => return format!("RECORDS-ERR {e}").replace(' ', "_") };
            let eager = dump(&rs);
            // write
            let mut out = std::io::Cursor::new(Vec::new());
            let w = match DbcWriter::new(&mut out).with_schema(sch.clone()).write_records(&rs) { Ok(()) => hex(out.get_ref()), Err(e) => format!("WRITE-ERR_{e}").replace(' ', "_") };
            let reparsed = if w.starts_with("WRITE") { "-".to_string() } else {
                match DbcParser::parse_bytes(out.get_ref()).and_then(|p| p.with_schema(sch.clone())).and_then(|p| p.parse_records()) { Ok(r) => dump(&r), Err(e) => format!("REPARSE-ERR_{e}").replace(' ', "_") }
            };
            // lazy
            let header = p.header().clone();
            let sb = Arc::new(rs.string_block().clone());
            let gets = |o: u32| match sb.get_string(wow_cdbc::StringRef::new(o)) { Ok(s) => hex(s.as_bytes()), Err(_) => "ERR".to_string() };
            let lz = LazyDbcParser::new(&bytes, &header, Some(&sch), Arc::clone(&sb));
            let lazy: Vec<String> = lz.record_iterator().map(|r| match r { Ok(r) => rec(&r, &gets), Err(_) => "ERR".to_string() }).collect();
            let random: Vec<String> = (0..header.record_count).rev().map(|i| match lz.get_record(i) { Ok(r) => rec(&r, &gets), Err(_) => "ERR".to_string() }).collect::<Vec<_>>().into_iter().rev().collect();
            // mmap
            std::fs::write(&tmp, &bytes).unwrap();
            let mm = match MmapDbcFile::open(&tmp).and_then(|m| m.parser_with_schema(sch.clone())).and_then(|p| p.parse_records()) { Ok(r) => dump(&r), Err(e) => format!("MMAP-ERR_{e}").replace(' ', "_") };
            let _ = std::fs::remove_file(&tmp);
            // parallel
            let par = match wow_cdbc::parse_records_parallel(&bytes, &header, Some(&sch), Arc::clone(&sb)) { Ok(r) => dump(&r), Err(e) => format!("PAR-ERR_{e}").replace(' ', "_") };
            // keys
            let (mut kh, mut kb) = (Vec::new(), Vec::new());
            if t[2] != "-" && t[4] != "-" {
                let get = |o: u32| match rs.get_string(wow_cdbc::StringRef::new(o)) { Ok(s) => hex(s.as_bytes()), Err(_) => "ERR".to_string() };
                for k in t[4].split(',') {
                    let key = num(k) as u32;
                    kh.push(match rs.get_record_by_key(key) { Some(r) => rec(r, &get), None => "none".to_string() });
                }
                let _ = rs.create_sorted_key_map();
                let get = |o: u32| match rs.get_string(wow_cdbc::StringRef::new(o)) { Ok(s) => hex(s.as_bytes()), Err(_) => "ERR".to_string() };
                for k in t[4].split(',') {
                    let key = num(k) as u32;
                    kb.push(match rs.get_record_by_key_binary_search(key) { Some(r) => rec(r, &get), None => "none".to_string() });
                }
            }
            // cached strings: the same records after enable_string_caching; get_value / get_value_by_name against values()
            rs.enable_string_caching();
            let mut cached = dump(&rs);
            for r in rs.records() {
                for (i, v) in r.values().iter().enumerate() {
                    if r.get_value(i).map(|x| format!("{x:?}")) != Some(format!("{v:?}")) { cached = "GET-VALUE-DIFF".to_string(); }
                }
                if r.get_value(r.values().len()).is_some() { cached = "GET-VALUE-PAST-END".to_string(); }
            }
            let j = |v: &Vec<String>| if v.is_empty() { "-".to_string() } else { v.join("|") };
            format!("E={eager} W={w} R={reparsed} L={} G={} M={mm} P={par} C={cached} K={} B={}", j(&lazy), j(&random), j(&kh), j(&kb))
        }
        _ => "ERR unknown".to_string(),
    });
}
