//! Implementation-side runner for C16 (BLP textures).
use image::{DynamicImage, RgbaImage, imageops::FilterType};
use verif_harness::{hex, num, serve};
use wow_blp::convert::{image_to_blp, blp_to_image, AlphaBits, Blp2Format, BlpOldFormat, BlpTarget, DxtAlgorithm};
use wow_blp::encode::{encode_blp, encode_blp0};
use wow_blp::parser::{parse_blp, parse_blp_with_externals};
use wow_blp::{BlpContent, BlpImage};

/// deterministic source images: kind 0 gradient, 1 noise (> 256 colours), 2 all transparent, 3 sixteen colours, 4 alpha ramp
fn make(w: u32, h: u32, kind: u64, seed: u64) -> RgbaImage {
    let mut x = seed.wrapping_mul(6364136223846793005).wrapping_add(1442695040888963407);
    let mut rnd = move || { x ^= x << 13; x ^= x >> 7; x ^= x << 17; x };
    RgbaImage::from_fn(w, h, |i, j| {
        let n = j * w + i;
        match kind {
            0 => image::Rgba([(i * 255 / w.max(1)) as u8, (j * 255 / h.max(1)) as u8, ((i + j) % 256) as u8, 255]),
            1 => { let v = rnd(); image::Rgba([v as u8, (v >> 8) as u8, (v >> 16) as u8, (v >> 24) as u8]) }
            2 => image::Rgba([(n % 7) as u8 * 30, (n % 5) as u8 * 50, 9, 0]),
            3 => { let c = (n % 16) as u8; image::Rgba([c * 16, 255 - c * 16, c * 3, if c % 3 == 0 { 0 } else { 255 }]) }
            _ => image::Rgba([200, (n % 256) as u8, 40, (n % 256) as u8]),
        }
    })
}

fn abits(s: &str) -> AlphaBits { match s { "0" => AlphaBits::NoAlpha, "1" => AlphaBits::Bit1, "4" => AlphaBits::Bit4, _ => AlphaBits::Bit8 } }

fn target(t: &str) -> BlpTarget {
    let v = &t[0..1];
    let f = &t[1..2];
    let a = &t[2..];
    let old = |f: &str, a: &str| if f == "r" { BlpOldFormat::Raw1 { alpha_bits: abits(a) } } else { BlpOldFormat::Jpeg { has_alpha: a == "1" } };
    match v {
        "0" => BlpTarget::Blp0(old(f, a)),
        "1" => BlpTarget::Blp1(old(f, a)),
        _ => BlpTarget::Blp2(match f {
            "r" => Blp2Format::Raw1 { alpha_bits: abits(a) },
            "x" => Blp2Format::Raw3,
            "j" => Blp2Format::Jpeg { has_alpha: a == "1" },
            "a" => Blp2Format::Dxt1 { has_alpha: a == "1", compress_algorithm: DxtAlgorithm::RangeFit },
            "b" => Blp2Format::Dxt3 { has_alpha: a == "1", compress_algorithm: DxtAlgorithm::RangeFit },
            _ => Blp2Format::Dxt5 { has_alpha: a == "1", compress_algorithm: DxtAlgorithm::RangeFit },
        }),
    }
}

fn filter(f: &str) -> FilterType { match f { "n" => FilterType::Nearest, "t" => FilterType::Triangle, "c" => FilterType::CatmullRom, "g" => FilterType::Gaussian, _ => FilterType::Lanczos3 } }

fn main() {
    serve(|t| match t[0] {
        // blp <w> <h> <kind> <seed> <target> <mips 0|1> <filter>
        // -> EQ=<parse(encode(x)) == x> N=<images> DIMS=<w.h,..> FILE=<len> LOC=<off.size,..|ext> PIX=<pixel verdict> AL=<alpha plane of level 0 hex|->
        "blp" => {
            let (w, h) = (num(t[1]) as u32, num(t[2]) as u32);
            let src = make(w, h, num(t[3]), num(t[4]));
            let blp = match image_to_blp(DynamicImage::ImageRgba8(src.clone()), t[6] == "1", target(t[5]), filter(t[7])) { Ok(b) => b, Err(e) => return format!("CONVERT-ERR {e}").replace(' ', "_") };
            let is0 = t[5].starts_with('0');
            let (bytes, ext) = if is0 {
                match encode_blp0(&blp) { Ok(r) => (r.blp_bytes, r.blp_mipmaps), Err(e) => return format!("ENCODE-ERR {e}").replace(' ', "_") }
            } else {
                match encode_blp(&blp) { Ok(b) => (b, vec![]), Err(e) => return format!("ENCODE-ERR {e}").replace(' ', "_") }
            };
            let parsed: BlpImage = if is0 {
                let ext2 = ext.clone();
                match parse_blp_with_externals(&bytes, |i| Ok(ext2.get(i).map(|v| { let s: &[u8] = v; unsafe { std::mem::transmute::<&[u8], &[u8]>(s) } }))) { Ok(p) => p, Err(e) => return format!("PARSE-ERR {e:?}").replace(' ', "_").chars().take(200).collect() }
            } else {
                match parse_blp(&bytes) { Ok(p) => p, Err(e) => return format!("PARSE-ERR {e:?}").replace(' ', "_").chars().take(200).collect() }
            };
            let eq = parsed == blp;
            if !eq && std::env::var("VERIF_DEBUG").is_ok() {
                eprintln!("header eq {}", parsed.header == blp.header);
                if let (BlpContent::Dxt1(a), BlpContent::Dxt1(b)) | (BlpContent::Dxt3(a), BlpContent::Dxt3(b)) | (BlpContent::Dxt5(a), BlpContent::Dxt5(b)) = (&parsed.content, &blp.content) {
                    eprintln!("format {:?} {:?} cmap {} {} images {} {}", a.format, b.format, a.cmap.len(), b.cmap.len(), a.images.len(), b.images.len());
                    for (x, y) in a.images.iter().zip(b.images.iter()) { eprintln!("  len {} {} eq {}", x.content.len(), y.content.len(), x.content == y.content); }
                } else { eprintln!("content kinds differ: {:?}", std::mem::discriminant(&parsed.content) == std::mem::discriminant(&blp.content)); }
            }
            let n = parsed.image_count();
            let dims: Vec<String> = (0..n).map(|i| { let (a, b) = parsed.header.mipmap_size(i); format!("{a:x}.{b:x}") }).collect();
            let loc = match parsed.header.internal_mipmaps() {
                Some((o, s)) => o.iter().zip(s.iter()).map(|(a, b)| format!("{a:x}.{b:x}")).collect::<Vec<_>>().join(","),
                None => "ext".to_string(),
            };
            // pixels
            let pix = match (&parsed.content, blp_to_image(&parsed, 0)) {
                (BlpContent::Raw3(_), Ok(img)) => { if img.to_rgba8() == src { "exact".to_string() } else { "differs".to_string() } }
                (BlpContent::Raw1(r), Ok(img)) => {
                    let out = img.to_rgba8();
                    let pal: std::collections::HashSet<u32> = r.cmap.iter().map(|c| c & 0xffffff).collect();
                    let mut bad_col = 0; let mut alphas = Vec::new();
                    for p in out.pixels() {
                        let c = p[0] as u32 | (p[1] as u32) << 8 | (p[2] as u32) << 16;
                        if !pal.contains(&c) { bad_col += 1; }
                        alphas.push(p[3]);
                    }
                    format!("pal:{}:{}", bad_col, hex(&alphas))
                }
                (_, Ok(img)) => format!("decoded:{:x}.{:x}", img.width(), img.height()),
                (_, Err(e)) => format!("DECODE-ERR_{e}").replace(' ', "_"),
            };
            let al = match &parsed.content { BlpContent::Raw1(r) => hex(&r.images[0].indexed_alpha), _ => "-".to_string() };
            let srca: Vec<u8> = src.pixels().map(|p| p[3]).collect();
            format!("EQ={} N={:x} DIMS={} FILE={:x} LOC={} PIX={} AL={} SRCA={}", eq as u8, n, dims.join(","), bytes.len(), loc, pix, al, hex(&srca))
        }
        // blpbytes <w> <h> <kind> <seed> <target> <mips> <filter> -> encoded file
        "blpbytes" => {
            let (w, h) = (num(t[1]) as u32, num(t[2]) as u32);
            let src = make(w, h, num(t[3]), num(t[4]));
            match image_to_blp(DynamicImage::ImageRgba8(src), t[6] == "1", target(t[5]), filter(t[7])).map_err(|e| format!("{e}")).and_then(|b| encode_blp(&b).map_err(|e| format!("{e}"))) {
                Ok(b) => hex(&b), Err(e) => format!("ERR_{e}").replace(' ', "_"),
            }
        }
        _ => "ERR unknown".to_string(),
    });
}
