//! Implementation-side runner for C10 (integrity metadata) and the StormLib-compatible
//! C API (storm-ffi, which only builds as cdylib/staticlib and is therefore compiled in
//! from its source file).
#![allow(dead_code, unused_imports, non_snake_case, clippy::all)]
use std::ffi::CString;
use std::io::Cursor;
use std::panic::{catch_unwind, AssertUnwindSafe};
use verif_harness::{hex, num, serve, unhex};
use wow_mpq::crypto::{generate_weak_signature, parse_weak_signature, verify_weak_signature_stormlib, calculate_mpq_hash_md5, SignatureInfo, WEAK_SIGNATURE_FILE_SIZE};
use wow_mpq::Archive;

#[path = "/repo/ffi/storm-ffi/src/lib.rs"]
mod storm;

fn errclass(e: &wow_mpq::Error) -> String {
    let s = format!("{e:?}");
    s.split(|c: char| !c.is_alphanumeric()).next().unwrap_or("Other").to_string()
}

/// alterations: off:hexbytes joined by '+', applied to a copy of base
fn apply(base: &[u8], alt: &str) -> Vec<u8> {
    let mut v = base.to_vec();
    if alt == "-" { return v; }
    for a in alt.split('+') {
        let p: Vec<&str> = a.split(':').collect();
        let off = num(p[0]) as usize;
        for (i, b) in unhex(p[1]).iter().enumerate() {
            if off + i < v.len() { v[off + i] = *b; }
        }
    }
    v
}

fn probe_one(path: &str, names: &[String]) -> String {
    let mut out = Vec::new();
    let mut a = match Archive::open(path) { Ok(a) => a, Err(e) => return format!("OPEN-{}", errclass(&e)) };
    // C API handle
    let cpath = CString::new(path).unwrap();
    let mut h: storm::HANDLE = std::ptr::null_mut();
    let opened = unsafe { storm::SFileOpenArchive(cpath.as_ptr(), 0, 0, &mut h) };
    // a panic inside an extern "C" function aborts the process: the Rust-level calls the C API
    // makes are tried first, and the C call is skipped (reported as P) when one of them panics
    let attrs_panic = catch_unwind(AssertUnwindSafe(|| { let _ = a.load_attributes(); })).is_err();
    let list_panic = catch_unwind(AssertUnwindSafe(|| { let _ = a.list(); })).is_err();
    for n in names {
        let r = match catch_unwind(AssertUnwindSafe(|| a.read_file(n))) {
            Ok(Ok(d)) => format!("OK:{}", hex(&d)),
            Ok(Err(e)) => format!("ERR:{}", errclass(&e)),
            Err(_) => "PANIC".to_string(),
        };
        let v = if r == "PANIC" || attrs_panic { "P" } else if opened {
            let cn = CString::new(n.as_str()).unwrap();
            match catch_unwind(AssertUnwindSafe(|| unsafe { storm::SFileVerifyFile(h, cn.as_ptr(), 0) })) {
                Ok(true) => "1", Ok(false) => { if std::env::var("VERIF_DEBUG").is_ok() { eprintln!("verify false: err={} n={}", storm::SFileGetLastError(), n); } "0" }, Err(_) => "P",
            }
        } else { "X" };
        out.push(format!("{r}/{v}"));
    }
    let md5 = match catch_unwind(AssertUnwindSafe(|| a.get_info())) {
        Ok(Ok(i)) => match i.md5_status {
            Some(s) => format!("{}{}{}{}{}{}", s.hash_table_valid as u8, s.block_table_valid as u8, s.hi_block_table_valid as u8, s.het_table_valid as u8, s.bet_table_valid as u8, s.header_valid as u8),
            None => "none".to_string(),
        },
        Ok(Err(e)) => format!("ERR:{}", errclass(&e)),
        Err(_) => "PANIC".to_string(),
    };
    let sig = match catch_unwind(AssertUnwindSafe(|| a.verify_signature())) {
        Ok(Ok(s)) => format!("{s:?}"),
        Ok(Err(e)) => format!("ERR:{}", errclass(&e)),
        Err(_) => "PANIC".to_string(),
    };
    let any_panic = attrs_panic || list_panic || out.iter().any(|x| x.starts_with("PANIC"));
    let va = if any_panic { "P" } else if opened {
        match catch_unwind(AssertUnwindSafe(|| unsafe { storm::SFileVerifyArchive(h, 0x10 | 0x20) })) {
            Ok(true) => "1", Ok(false) => "0", Err(_) => "P",
        }
    } else { "X" };
    if opened { storm::SFileCloseArchive(h); }
    format!("{} {} {} {}", out.join(","), md5, sig, va)
}

/// runs `f` in a forked child so that an abort (allocation failure, panic inside an
/// extern "C" function, stack overflow) or a hang costs one probe, not the runner
fn isolated<F: FnOnce() -> String>(f: F) -> String {
    unsafe {
        let mut fds = [0i32; 2];
        if libc::pipe(fds.as_mut_ptr()) != 0 { return "ABORT".to_string(); }
        let pid = libc::fork();
        if pid == 0 {
            libc::close(fds[0]);
            libc::alarm(20);
            let s = f();
            let b = s.as_bytes();
            let mut off = 0;
            while off < b.len() {
                let n = libc::write(fds[1], b[off..].as_ptr() as *const libc::c_void, b.len() - off);
                if n <= 0 { break; }
                off += n as usize;
            }
            libc::_exit(0);
        }
        libc::close(fds[1]);
        let mut out = Vec::new();
        let mut buf = [0u8; 65536];
        loop {
            let n = libc::read(fds[0], buf.as_mut_ptr() as *mut libc::c_void, buf.len());
            if n <= 0 { break; }
            out.extend_from_slice(&buf[..n as usize]);
        }
        libc::close(fds[0]);
        let mut st = 0i32;
        libc::waitpid(pid, &mut st, 0);
        if libc::WIFEXITED(st) && libc::WEXITSTATUS(st) == 0 && !out.is_empty() {
            String::from_utf8_lossy(&out).to_string()
        } else if libc::WIFSIGNALED(st) && libc::WTERMSIG(st) == libc::SIGALRM {
            "HANG".to_string()
        } else {
            "ABORT".to_string()
        }
    }
}

fn main() {
    let tmp = format!("{}/probe_{}.mpq", std::env::var("VERIF_TMP").unwrap_or("/verif/.cache".to_string()), std::process::id());
    serve(move |t| match t[0] {
        // probe <base> <nameshex ,> <alt> <alt> ...   -> one result per alteration, ';' separated
        "probe" => {
            let base = std::fs::read(t[1]).unwrap();
            let names: Vec<String> = t[2].split(',').map(|n| String::from_utf8(unhex(n)).unwrap()).collect();
            let mut res = Vec::new();
            for alt in &t[3..] {
                let v = apply(&base, alt);
                std::fs::write(&tmp, &v).unwrap();
                res.push(isolated(|| catch_unwind(AssertUnwindSafe(|| probe_one(&tmp, &names))).unwrap_or("PANIC".to_string())));
            }
            let _ = std::fs::remove_file(&tmp);
            res.join(";")
        }
        // sign <in> <out> <prefix hex>: embeds the archive behind <prefix> bytes and signs it with the library
        "sign" => {
            let mpq = std::fs::read(t[1]).unwrap();
            let prefix = num(t[3]) as usize;
            let mut bytes: Vec<u8> = (0..prefix).map(|i| (i * 7 + 3) as u8).collect();
            bytes.extend_from_slice(&mpq);
            std::fs::write(t[2], &bytes).unwrap();
            let (pos, len, asize) = {
                let a = match Archive::open(t[2]) { Ok(a) => a, Err(e) => return format!("OPEN-{}", errclass(&e)) };
                if a.archive_offset() != prefix as u64 { return format!("ERR offset {}", a.archive_offset()); }
                let fi = match a.find_file("(signature)") { Ok(Some(f)) => f, _ => return "ERR nosig".to_string() };
                (fi.file_pos, fi.compressed_size, a.header().archive_size as u64)
            };
            if len as usize != WEAK_SIGNATURE_FILE_SIZE { return "ERR siglen".to_string(); }
            let info = SignatureInfo::new_weak(prefix as u64, asize, pos, len, vec![]);
            let sf = match generate_weak_signature(Cursor::new(&bytes), &info) { Ok(s) => s, Err(e) => return format!("ERR {}", errclass(&e)) };
            bytes[pos as usize..pos as usize + WEAK_SIGNATURE_FILE_SIZE].copy_from_slice(&sf);
            std::fs::write(t[2], &bytes).unwrap();
            format!("OK {:x} {:x} {:x}", pos, len, asize)
        }
        // sigsweep <file> <begin> <size> <sigpos>: signs the byte string, then alters every byte position (three kinds)
        // and every signature byte; prints  intact(0|1) undetected-count first-undetected  undetected-sig-count
        "sigsweep" => {
            let mut buf = std::fs::read(t[1]).unwrap();
            let (begin, size, sp) = (num(t[2]), num(t[3]), num(t[4]) as usize);
            for b in &mut buf[sp..sp + WEAK_SIGNATURE_FILE_SIZE] { *b = 0; }
            let info = SignatureInfo::new_weak(begin, size, sp as u64, WEAK_SIGNATURE_FILE_SIZE as u64, vec![]);
            let sf = match generate_weak_signature(Cursor::new(&buf), &info) { Ok(s) => s, Err(e) => return format!("ERR {}", errclass(&e)) };
            buf[sp..sp + WEAK_SIGNATURE_FILE_SIZE].copy_from_slice(&sf);
            let sig = match parse_weak_signature(&sf) { Ok(s) => s, Err(e) => return format!("ERR {}", errclass(&e)) };
            let intact = verify_weak_signature_stormlib(Cursor::new(&buf), &sig, &info).unwrap_or(false);
            let step = num(t[5]).max(1) as usize;
            let mut und = Vec::new();
            let mut tried = 0u64;
            let mut pos = begin as usize;
            while pos < (begin + size) as usize {
                if !(sp..sp + WEAK_SIGNATURE_FILE_SIZE).contains(&pos) {
                    for k in 0..3 {
                        let old = buf[pos];
                        buf[pos] = match k { 0 => old ^ (1 << (pos % 8)), 1 => old.wrapping_add(1), _ => !old };
                        tried += 1;
                        if verify_weak_signature_stormlib(Cursor::new(&buf), &sig, &info).unwrap_or(false) { und.push(pos); }
                        buf[pos] = old;
                    }
                }
                pos += if pos < begin as usize + 600 || pos + 600 >= (begin + size) as usize || (pos % 0x10000) < 3 || (pos % 0x10000) > 0xfffc { 1 } else { step };
            }
            let mut unds = 0;
            for i in 0..64 {
                for bit in 0..8 {
                    let mut s2 = sig.clone();
                    s2[i] ^= 1 << bit;
                    tried += 1;
                    if verify_weak_signature_stormlib(Cursor::new(&buf), &s2, &info).unwrap_or(false) { unds += 1; }
                }
            }
            format!("{} {} {} {} {}", intact as u8, tried, und.len(), und.first().map(|x| format!("{x:x}")).unwrap_or("-".into()), unds)
        }
        // hashview <file> <begin> <end> <exb> <exe> -> MD5 the library signs
        "twice" => {
            let base = std::fs::read(t[1]).unwrap();
            let v = apply(&base, t[3]);
            std::fs::write(&tmp, &v).unwrap();
            let n = String::from_utf8(unhex(t[2])).unwrap();
            let mut a = Archive::open(&tmp).unwrap();
            let r1 = a.read_file(&n).map(|d| d.len()).map_err(|e| errclass(&e));
            let r2 = a.read_file(&n).map(|d| d.len()).map_err(|e| errclass(&e));
            let mut b = Archive::open(&tmp).unwrap();
            let _ = b.list();
            let r3 = b.read_file(&n).map(|d| d.len()).map_err(|e| errclass(&e));
            let cpath = CString::new(tmp.as_str()).unwrap();
            let mut h: storm::HANDLE = std::ptr::null_mut();
            unsafe { storm::SFileOpenArchive(cpath.as_ptr(), 0, 0, &mut h) };
            let cn = CString::new(n.as_str()).unwrap();
            let v: Vec<bool> = [1u32, 2, 4, 0].iter().map(|f| unsafe { storm::SFileVerifyFile(h, cn.as_ptr(), *f) }).collect();
            format!("{r1:?} {r2:?} {r3:?} {v:?}")
        }
        "hashview" => {
            let buf = std::fs::read(t[1]).unwrap();
            let info = SignatureInfo { begin_mpq_data: num(t[2]), end_mpq_data: num(t[3]), begin_exclude: num(t[4]), end_exclude: num(t[5]), end_of_file: buf.len() as u64,
                                       signature: vec![], signature_size: 0, signature_types: 1 };
            match calculate_mpq_hash_md5(Cursor::new(&buf), &info) { Ok(h) => hex(&h), Err(e) => format!("ERR {}", errclass(&e)) }
        }
        // layout <archive> <nameshex ,> -> regions of the archive
        "layout" => {
            let a = match Archive::open(t[1]) { Ok(a) => a, Err(e) => return format!("OPEN-{}", errclass(&e)) };
            let h = a.header();
            let mut out = format!("off={:x} hdr={:x} asize={:x} ht={:x}:{:x} bt={:x}:{:x}", a.archive_offset(), h.header_size, h.archive_size,
                h.get_hash_table_pos(), h.hash_table_size as u64 * 16, h.get_block_table_pos(), h.block_table_size as u64 * 16);
            if let Some(v4) = &h.v4_data {
                out += &format!(" het={:x}:{:x} bet={:x}:{:x} hi={:x}:{:x}", h.het_table_pos.unwrap_or(0), v4.het_table_size_64, h.bet_table_pos.unwrap_or(0), v4.bet_table_size_64,
                                h.hi_block_table_pos.unwrap_or(0), v4.hi_block_table_size_64);
            }
            let mut fs = Vec::new();
            for n in t[2].split(',') {
                let name = String::from_utf8(unhex(n)).unwrap();
                match a.find_file(&name) {
                    Ok(Some(f)) => fs.push(format!("{n}:{:x}:{:x}:{:x}:{:x}", f.file_pos, f.compressed_size, f.file_size, f.flags)),
                    _ => fs.push(format!("{n}:none")),
                }
            }
            format!("{out} files={}", fs.join(","))
        }
        // sigplusn <file> <begin> <size> <sigpos>: is the signature + modulus (a different byte string) accepted too?
        // signmany <signed archive> <begin> <size> <signature pos> <count>: sign <count> variants of the content (one byte outside the signature
        //   region varied) and verify each signature the library made: all must verify (also those whose value has leading zero bytes)
        "signmany" => {
            let mut buf = std::fs::read(t[1]).unwrap();
            let (begin, size, sp, count) = (num(t[2]), num(t[3]), num(t[4]) as usize, num(t[5]));
            let info = SignatureInfo::new_weak(begin, size, sp as u64, WEAK_SIGNATURE_FILE_SIZE as u64, vec![]);
            let mut spots: Vec<usize> = ((begin as usize + 32)..((begin + size) as usize)).filter(|p| !(sp..sp + WEAK_SIGNATURE_FILE_SIZE).contains(p)).take(3).collect();
            if spots.len() < 3 { spots = vec![begin as usize + 32; 3]; }
            let (mut bad, mut short) = (Vec::new(), 0u64);
            for i in 0..count {
                buf[spots[0]] = i as u8; buf[spots[1]] = (i >> 8) as u8; buf[spots[2]] = (i >> 16) as u8;
                for b in &mut buf[sp..sp + WEAK_SIGNATURE_FILE_SIZE] { *b = 0; }
                let sf = match generate_weak_signature(Cursor::new(&buf), &info) { Ok(s) => s, Err(e) => return format!("ERR {}", errclass(&e)) };
                let sig = match parse_weak_signature(&sf) { Ok(s) => s, Err(e) => return format!("ERR {}", errclass(&e)) };
                if sig[63] == 0 { short += 1; }
                buf[sp..sp + WEAK_SIGNATURE_FILE_SIZE].copy_from_slice(&sf);
                if !verify_weak_signature_stormlib(Cursor::new(&buf), &sig, &info).unwrap_or(false) { bad.push(i); }
            }
            format!("SIGNED {count} ZERO-TOP-BYTE {short} REJECTED {}", if bad.is_empty() { "-".to_string() } else { bad.iter().take(5).map(|x| x.to_string()).collect::<Vec<_>>().join(",") })
        }
        "sigplusn" => {
            let mut buf = std::fs::read(t[1]).unwrap();
            let (begin, size, sp) = (num(t[2]), num(t[3]), num(t[4]) as usize);
            for b in &mut buf[sp..sp + WEAK_SIGNATURE_FILE_SIZE] { *b = 0; }
            let info = SignatureInfo::new_weak(begin, size, sp as u64, WEAK_SIGNATURE_FILE_SIZE as u64, vec![]);
            let sf = match generate_weak_signature(Cursor::new(&buf), &info) { Ok(s) => s, Err(e) => return format!("ERR {}", errclass(&e)) };
            let sig = parse_weak_signature(&sf).unwrap();
            // little-endian add of the modulus
            let nhex = "92627704BFB882CC0523B90CB1AC0459272175968D025EDA47DD7C49371BF8FAEB0E0A92167557AD51B78CCB68C5426290EE9FB14BC118E430349EA4ED6AD837";
            let mut nle = unhex(nhex); nle.reverse();
            let mut s2 = sig.clone();
            let mut carry = 0u16;
            for i in 0..64 { let v = s2[i] as u16 + nle[i] as u16 + carry; s2[i] = v as u8; carry = v >> 8; }
            if carry != 0 { return "OVERFLOW".to_string(); }
            let ok1 = verify_weak_signature_stormlib(Cursor::new(&buf), &sig, &info).unwrap_or(false);
            let ok2 = verify_weak_signature_stormlib(Cursor::new(&buf), &s2, &info).unwrap_or(false);
            format!("{} {}", ok1 as u8, ok2 as u8)
        }
        _ => "ERR unknown".to_string(),
    });
}
