//! Implementation-side runner for the WMO property: root and group files survive write -> parse.
//!
//! Commands (all numbers hex; <version> is a raw MVER number 11..17 (= 17..23) or an expansion name):
//!   root <version> <seed> <ntex> <nmat> <ngroups> <nportals> <nprefs> <nvis> <nlights> <ndoodaddefs> <ndoodadsets> <skybox 0|1>
//!   group <version> <seed> <nverts> <nindices> <nbatches> <nbsp> <colors 0|1> <liquid 0|1> <ndoodadrefs>
//!   convroot <from> <to> <seed> <sizes as root>
//!   convgroup <from> <to> <seed> <sizes as group>
//!   chunks <hex file> [<MOGP header size, hex>]
//!
//! Seed bits: bit 0 set -> fields that have no slot in the written format get random instead of
//! canonical values (material framebuffer_blend, light properties, doodad set_index, group materials,
//! liquid vertex positions before WoD, arbitrary BSP normals, version-specific flag bits);
//! bit 1 set -> convex volume planes are present when the version is Cataclysm or later;
//! bit 2 set -> the root bounding box is independent of the group boxes (otherwise it is their union, zero without groups).
use std::io::Cursor;
use std::panic::{catch_unwind, AssertUnwindSafe};
use verif_harness::{hex, num, serve, unhex};
use wow_wmo::api::{parse_wmo, ParsedWmo};
use wow_wmo::group_parser::WmoGroup as ApiGroup;
use wow_wmo::{
    BoundingBox, Color, TexCoord, Vec3, WmoBatch, WmoBspNode, WmoConverter, WmoConvexVolumePlane, WmoConvexVolumePlanes, WmoDoodadDef,
    WmoDoodadSet, WmoFlags, WmoGroup, WmoGroupFlags, WmoGroupHeader, WmoGroupInfo, WmoGroupParser, WmoHeader, WmoLight, WmoLightProperties,
    WmoLightType, WmoLiquid, WmoLiquidVertex, WmoMaterial, WmoMaterialFlags, WmoParser, WmoPlane, WmoPortal, WmoPortalReference, WmoRoot,
    WmoVersion, WmoWriter,
};

// ---------------------------------------------------------------- generator

struct Rng(u64);
impl Rng {
    fn new(seed: u64, stream: u64) -> Self {
        let mut s = seed.wrapping_mul(0x9E37_79B9_7F4A_7C15) ^ stream.wrapping_mul(0xD1B5_4A32_D192_ED03) ^ 0x2545_F491_4F6C_DD1D;
        if s == 0 { s = 1; }
        let mut r = Rng(s);
        for _ in 0..8 { r.next(); }
        r
    }
    fn next(&mut self) -> u64 {
        let mut x = self.0;
        x ^= x << 13;
        x ^= x >> 7;
        x ^= x << 17;
        self.0 = x;
        x
    }
    fn below(&mut self, n: u64) -> u64 { if n == 0 { 0 } else { (self.next() >> 11) % n } }
    fn bit(&mut self) -> bool { self.below(2) == 1 }
    /// finite, exactly representable, negative values included
    fn f(&mut self) -> f32 { ((self.below(20001) as i64 - 10000) as f32) / 16.0 }
    fn pos(&mut self) -> f32 { (self.below(4000) as f32) / 8.0 + 0.125 }
    fn unit(&mut self) -> f32 { [-1.0f32, -0.5, -0.25, 0.0, 0.25, 0.5, 0.75, 1.0][self.below(8) as usize] }
    fn vec(&mut self) -> Vec3 { Vec3 { x: self.f(), y: self.f(), z: self.f() } }
    fn uvec(&mut self) -> Vec3 { Vec3 { x: self.unit(), y: self.unit(), z: self.unit() } }
    fn color(&mut self) -> Color { let v = self.next(); Color { r: v as u8, g: (v >> 8) as u8, b: (v >> 16) as u8, a: (v >> 24) as u8 } }
    fn bbox(&mut self) -> BoundingBox {
        let a = self.vec();
        BoundingBox { min: a, max: Vec3 { x: a.x + self.pos(), y: a.y + self.pos(), z: a.z + self.pos() } }
    }
}

/// name i of a family: "tex", "tex_a", "tex_a_b", "tex_a_b_c", "tex1", "tex1_a", ...
fn family(stem: &str, n: usize) -> Vec<String> {
    (0..n).map(|i| {
        let mut s = stem.to_string();
        if i / 4 > 0 { s.push_str(&format!("{}", i / 4)); }
        for k in 0..(i % 4) { s.push('_'); s.push((b'a' + k as u8) as char); }
        s
    }).collect()
}

fn offsets(names: &[String]) -> Vec<u32> {
    let mut o = 0u32;
    names.iter().map(|n| { let r = o; o += n.len() as u32 + 1; r }).collect()
}

#[derive(Clone, Copy)]
struct RootArgs { ntex: usize, nmat: usize, ngroups: usize, nportals: usize, nprefs: usize, nvis: usize, nlights: usize, ndefs: usize, nsets: usize, skybox: bool }

fn root_args(t: &[&str]) -> Option<RootArgs> {
    if t.len() < 10 { return None; }
    let n = |i: usize| num(t[i]) as usize;
    Some(RootArgs { ntex: n(0), nmat: n(1), ngroups: n(2), nportals: n(3), nprefs: n(4), nvis: n(5), nlights: n(6), ndefs: n(7), nsets: n(8), skybox: num(t[9]) != 0 })
}

const SAFE_GROUP_FLAGS: u32 = 0x40 | 0x80 | 0x100 | 0x400 | 0x1000;
const VERSIONED_GROUP_FLAGS: u32 = 0x4000 | 0x8000 | 0x10000 | 0x20000;

/// Returns the object and the doodad name table its name offsets refer to (the type has no slot for it).
fn build_root(v: WmoVersion, seed: u64, a: &RootArgs) -> (WmoRoot, Vec<String>) {
    let extras = seed & 1 == 1;
    let mut r = Rng::new(seed, 1);
    let textures = family("tex", a.ntex);
    let toffs = offsets(&textures);
    let mut map = std::collections::HashMap::new();
    for (i, o) in toffs.iter().enumerate() { map.insert(*o, i as u32); }
    let materials: Vec<WmoMaterial> = (0..a.nmat).map(|_| {
        let mut fl = (r.next() as u32) & 0x7f;
        if extras { fl |= (r.next() as u32) & 0x300; }
        let t1 = if a.ntex > 0 { toffs[r.below(a.ntex as u64) as usize] } else { 0 };
        let t2 = if a.ntex > 0 { toffs[r.below(a.ntex as u64) as usize] } else { 0 };
        WmoMaterial {
            flags: WmoMaterialFlags::from_bits_truncate(fl), shader: r.below(7) as u32, blend_mode: r.below(4) as u32, texture1: t1,
            emissive_color: r.color(), sidn_color: r.color(), framebuffer_blend: if extras { r.color() } else { Color::default() },
            texture2: t2, diffuse_color: r.color(), ground_type: r.below(12) as u32,
        }
    }).collect();
    let mut gnames = family("grp", a.ngroups);
    // seed bit 5: group names with multi-byte characters (byte length and character count differ)
    if seed & 32 == 32 { for (i, n) in gnames.iter_mut().enumerate() { if i % 2 == 0 { n.push('\u{e9}') } else if i % 3 == 0 { n.insert(0, '\u{dc}') } } }
    let groups: Vec<WmoGroupInfo> = gnames.iter().map(|n| WmoGroupInfo {
        flags: WmoGroupFlags::from_bits_truncate((r.next() as u32) & SAFE_GROUP_FLAGS), bounding_box: r.bbox(), name: n.clone(),
    }).collect();
    let portals: Vec<WmoPortal> = (0..a.nportals).map(|_| {
        let nv = 3 + r.below(3) as usize;
        WmoPortal { vertices: (0..nv).map(|_| r.vec()).collect(), normal: r.uvec() }
    }).collect();
    let portal_references: Vec<WmoPortalReference> = (0..a.nprefs).map(|_| WmoPortalReference {
        portal_index: r.below(a.nportals.max(1) as u64) as u16, group_index: r.below(a.ngroups.max(1) as u64) as u16,
        side: [0u16, 1, 0xffff][r.below(3) as usize],
    }).collect();
    let visible_block_lists: Vec<Vec<u16>> = (0..a.nvis).map(|_| {
        let n = r.below(4) as usize;
        (0..n).map(|_| r.below(a.ngroups.max(1) as u64) as u16).collect()
    }).collect();
    let lights: Vec<WmoLight> = (0..a.nlights).map(|_| {
        let ty = [WmoLightType::Omni, WmoLightType::Spot, WmoLightType::Directional, WmoLightType::Ambient][r.below(4) as usize];
        let canon = Vec3 { x: 0.0, y: 0.0, z: -1.0 };
        let properties = match ty {
            WmoLightType::Omni => WmoLightProperties::Omni,
            WmoLightType::Ambient => WmoLightProperties::Ambient,
            WmoLightType::Spot => if extras { WmoLightProperties::Spot { direction: r.uvec(), hotspot: r.pos(), falloff: r.pos() } }
                                  else { WmoLightProperties::Spot { direction: canon, hotspot: 0.0, falloff: 0.0 } },
            WmoLightType::Directional => if extras { WmoLightProperties::Directional { direction: r.uvec() } }
                                         else { WmoLightProperties::Directional { direction: canon } },
        };
        let s = r.pos();
        WmoLight { light_type: ty, position: r.vec(), color: r.color(), intensity: r.pos(), rotation: [r.unit(), r.unit(), r.unit(), r.unit()],
                   attenuation_start: s, attenuation_end: s + r.pos(), use_attenuation: r.bit(), properties }
    }).collect();
    let dnames = family("dd", a.ndefs);
    let doffs = offsets(&dnames);
    let doodad_defs: Vec<WmoDoodadDef> = (0..a.ndefs).map(|_| WmoDoodadDef {
        name_offset: doffs[r.below(a.ndefs as u64) as usize], position: r.vec(), orientation: [r.unit(), r.unit(), r.unit(), r.unit()],
        scale: r.pos(), color: r.color(), set_index: if extras { r.below(a.nsets.max(1) as u64) as u16 } else { 0 },
    }).collect();
    let mut snames = family("set", a.nsets);
    // seed bit 4: set names that fill the fixed 20-byte field up to its last usable bytes (19 = longest with a terminator)
    if seed & 16 == 16 { for (i, n) in snames.iter_mut().enumerate() { let target = [19usize, 18, 17, 19][i % 4]; while n.len() < target { n.push('x') } } }
    let mut start = 0u32;
    let doodad_sets: Vec<WmoDoodadSet> = snames.iter().enumerate().map(|(i, n)| {
        let cnt = if i + 1 == a.nsets { a.ndefs as u32 - start } else { (a.ndefs / a.nsets) as u32 };
        let s = WmoDoodadSet { name: n.clone(), start_doodad: start, n_doodads: cnt };
        start += cnt;
        s
    }).collect();
    let bounding_box = if seed & 4 == 4 { r.bbox() } else if groups.is_empty() { BoundingBox { min: Vec3::default(), max: Vec3::default() } } else {
        let mut b = groups[0].bounding_box;
        for g in &groups {
            b.min.x = b.min.x.min(g.bounding_box.min.x); b.min.y = b.min.y.min(g.bounding_box.min.y); b.min.z = b.min.z.min(g.bounding_box.min.z);
            b.max.x = b.max.x.max(g.bounding_box.max.x); b.max.y = b.max.y.max(g.bounding_box.max.y); b.max.z = b.max.z.max(g.bounding_box.max.z);
        }
        b
    };
    let mut hf = (r.next() as u32) & 0x3df;
    if a.skybox { hf |= 0x20; }
    let header = WmoHeader {
        n_materials: a.nmat as u32, n_groups: a.ngroups as u32, n_portals: a.nportals as u32, n_lights: a.nlights as u32,
        n_doodad_names: a.ndefs as u32, n_doodad_defs: a.ndefs as u32, n_doodad_sets: a.nsets as u32,
        flags: WmoFlags::from_bits_truncate(hf), ambient_color: r.color(),
    };
    let convex_volume_planes = if seed & 2 == 2 && v >= WmoVersion::Cataclysm {
        Some(WmoConvexVolumePlanes { planes: (0..2).map(|_| WmoConvexVolumePlane { normal: r.uvec(), distance: r.f(), flags: r.below(4) as u32 }).collect() })
    } else { None };
    (WmoRoot {
        version: v, materials, groups, portals, portal_references, visible_block_lists, lights, doodad_defs, doodad_sets, bounding_box, textures,
        texture_offset_index_map: map, header, skybox: if a.skybox { Some("sky_box_a.mdx".to_string()) } else { None }, convex_volume_planes,
    }, dnames)
}

#[derive(Clone, Copy)]
struct GroupArgs { nverts: usize, nindices: usize, nbatches: usize, nbsp: usize, colors: bool, liquid: bool, nrefs: usize }

fn group_args(t: &[&str]) -> Option<GroupArgs> {
    if t.len() < 7 { return None; }
    let n = |i: usize| num(t[i]) as usize;
    Some(GroupArgs { nverts: n(0), nindices: n(1), nbatches: n(2), nbsp: n(3), colors: num(t[4]) != 0, liquid: num(t[5]) != 0, nrefs: n(6) })
}

fn build_group(v: WmoVersion, seed: u64, a: &GroupArgs) -> WmoGroup {
    let extras = seed & 1 == 1;
    let mut r = Rng::new(seed, 2);
    let vertices: Vec<Vec3> = (0..a.nverts).map(|_| r.vec()).collect();
    let normals: Vec<Vec3> = (0..a.nverts).map(|_| r.uvec()).collect();
    let tex_coords: Vec<TexCoord> = (0..a.nverts).map(|_| TexCoord { u: r.unit() * 2.0, v: r.f() / 64.0 }).collect();
    let indices: Vec<u16> = (0..a.nindices).map(|_| r.below(a.nverts.max(1) as u64) as u16).collect();
    let batches: Vec<WmoBatch> = (0..a.nbatches).map(|_| {
        let mut flags = [0u8; 10];
        for f in flags.iter_mut() { *f = r.next() as u8; }
        let sv = r.below(a.nverts.max(1) as u64) as u16;
        WmoBatch { flags, material_id: r.below(200) as u16, start_index: r.below(a.nindices.max(1) as u64) as u32, count: r.below(a.nindices as u64 + 1) as u16,
                   start_vertex: sv, end_vertex: sv + r.below((a.nverts.max(1) as u64) - sv as u64) as u16, use_large_material_id: r.bit() }
    }).collect();
    let vertex_colors = if a.colors { Some((0..a.nverts).map(|_| r.color()).collect::<Vec<_>>()) } else { None };
    let bsp_nodes = if a.nbsp > 0 { Some((0..a.nbsp).map(|_| {
        let normal = if extras && r.bit() { r.uvec() } else { [Vec3 { x: 1.0, y: 0.0, z: 0.0 }, Vec3 { x: 0.0, y: 1.0, z: 0.0 }, Vec3 { x: 0.0, y: 0.0, z: 1.0 }][r.below(3) as usize] };
        let leaf = r.bit();
        WmoBspNode { plane: WmoPlane { normal, distance: r.f() },
                     children: if leaf { [-1, -1] } else { [r.below(a.nbsp as u64) as i16, r.below(a.nbsp as u64) as i16] },
                     first_face: r.below(1000) as u16, num_faces: if leaf { 1 + r.below(20) as u16 } else { 0 } }
    }).collect::<Vec<_>>()) } else { None };
    let liquid = if a.liquid {
        let (w, h) = (2 + r.below(3) as u32, 2 + r.below(3) as u32);
        let with_pos = extras || v >= WmoVersion::Wod;
        Some(WmoLiquid {
            liquid_type: 1 + r.below(20) as u32, flags: (r.below(4) as u32) << 2 | if v >= WmoVersion::Wod { 2 } else { 0 }, width: w, height: h,
            vertices: (0..w * h).map(|_| WmoLiquidVertex { position: if with_pos { r.vec() } else { Vec3::default() }, height: r.f() }).collect(),
            tile_flags: Some((0..(w - 1) * (h - 1)).map(|_| r.next() as u8).collect()),
        })
    } else { None };
    let doodad_refs = if a.nrefs > 0 { Some((0..a.nrefs).map(|_| r.below(500) as u16).collect::<Vec<_>>()) } else { None };
    let mut fl = (r.next() as u32) & SAFE_GROUP_FLAGS;
    if a.nverts > 0 { fl |= 0x01 | 0x04; }
    if a.colors { fl |= 0x2000; }
    if a.liquid { fl |= 0x20; }
    if a.nrefs > 0 { fl |= 0x10; }
    if extras { fl |= (r.next() as u32) & VERSIONED_GROUP_FLAGS; }
    let bounding_box = if vertices.is_empty() { r.bbox() } else {
        let mut b = BoundingBox { min: vertices[0], max: vertices[0] };
        for p in &vertices {
            b.min.x = b.min.x.min(p.x); b.min.y = b.min.y.min(p.y); b.min.z = b.min.z.min(p.z);
            b.max.x = b.max.x.max(p.x); b.max.y = b.max.y.max(p.y); b.max.z = b.max.z.max(p.z);
        }
        b
    };
    WmoGroup {
        header: WmoGroupHeader { flags: WmoGroupFlags::from_bits_truncate(fl), bounding_box, name_offset: r.below(64) as u32, group_index: r.below(32) as u32 },
        materials: if extras { (0..a.nindices / 3).map(|_| r.below(200) as u16).collect() } else { Vec::new() },
        vertices, normals, tex_coords, batches, indices, vertex_colors, bsp_nodes, liquid, doodad_refs,
    }
}

// ---------------------------------------------------------------- field-by-field dumps

struct Sect { name: &'static str, list: bool, elems: Vec<Vec<(&'static str, String)>> }

fn d<T: std::fmt::Debug>(x: &T) -> String { format!("{:?}", x).replace(' ', "") }
fn sc(name: &'static str, v: String) -> Sect { Sect { name, list: false, elems: vec![vec![("", v)]] } }
fn li(name: &'static str, elems: Vec<Vec<(&'static str, String)>>) -> Sect { Sect { name, list: true, elems } }
fn plain<T: std::fmt::Debug>(name: &'static str, xs: &[T]) -> Sect { li(name, xs.iter().map(|x| vec![("", d(x))]).collect()) }

/// `norm`: target version of a conversion; fields that the target cannot represent are blanked.
fn dump_root(r: &WmoRoot, norm: Option<WmoVersion>) -> Vec<Sect> {
    let no_sky = matches!(norm, Some(t) if t < WmoVersion::Wotlk);
    let mut hf = r.header.flags.bits();
    if no_sky { hf &= !0x20; }
    let mut map: Vec<(u32, u32)> = r.texture_offset_index_map.iter().map(|(k, v)| (*k, *v)).collect();
    map.sort();
    let planes: &[WmoConvexVolumePlane] = match &r.convex_volume_planes { Some(p) => &p.planes, None => &[] };
    vec![
        sc("version", if norm.is_some() { "-".into() } else { d(&r.version) }),
        sc("header.n_materials", d(&r.header.n_materials)), sc("header.n_groups", d(&r.header.n_groups)), sc("header.n_portals", d(&r.header.n_portals)),
        sc("header.n_lights", d(&r.header.n_lights)), sc("header.n_doodad_names", d(&r.header.n_doodad_names)),
        sc("header.n_doodad_defs", d(&r.header.n_doodad_defs)), sc("header.n_doodad_sets", d(&r.header.n_doodad_sets)),
        sc("header.flags", format!("{:x}", hf)), sc("header.ambient_color", d(&r.header.ambient_color)),
        sc("bounding_box", d(&r.bounding_box)), sc("skybox", if no_sky { "-".into() } else { d(&r.skybox) }),
        plain("textures", &r.textures), plain("texture_offset_index_map", &map),
        li("materials", r.materials.iter().map(|m| vec![
            ("flags", d(&m.flags.bits())), ("shader", d(&m.shader)), ("blend_mode", d(&m.blend_mode)), ("texture1", d(&m.texture1)),
            ("emissive_color", d(&m.emissive_color)), ("sidn_color", d(&m.sidn_color)), ("framebuffer_blend", d(&m.framebuffer_blend)),
            ("texture2", d(&m.texture2)), ("diffuse_color", d(&m.diffuse_color)), ("ground_type", d(&m.ground_type))]).collect()),
        li("groups", r.groups.iter().map(|g| vec![("flags", d(&g.flags.bits())), ("bounding_box", d(&g.bounding_box)), ("name", d(&g.name))]).collect()),
        li("portals", r.portals.iter().map(|p| vec![("vertices", d(&p.vertices)), ("normal", d(&p.normal))]).collect()),
        li("portal_references", r.portal_references.iter().map(|p| vec![("portal_index", d(&p.portal_index)), ("group_index", d(&p.group_index)), ("side", d(&p.side))]).collect()),
        plain("visible_block_lists", &r.visible_block_lists),
        li("lights", r.lights.iter().map(|l| vec![
            ("light_type", d(&l.light_type)), ("position", d(&l.position)), ("color", d(&l.color)), ("intensity", d(&l.intensity)), ("rotation", d(&l.rotation)),
            ("attenuation_start", d(&l.attenuation_start)), ("attenuation_end", d(&l.attenuation_end)), ("use_attenuation", d(&l.use_attenuation)),
            ("properties", d(&l.properties))]).collect()),
        li("doodad_defs", r.doodad_defs.iter().map(|x| vec![
            ("name_offset", d(&x.name_offset)), ("position", d(&x.position)), ("orientation", d(&x.orientation)), ("scale", d(&x.scale)),
            ("color", d(&x.color)), ("set_index", d(&x.set_index))]).collect()),
        li("doodad_sets", r.doodad_sets.iter().map(|s| vec![("name", d(&s.name)), ("start_doodad", d(&s.start_doodad)), ("n_doodads", d(&s.n_doodads))]).collect()),
        sc("convex_volume_planes.some", d(&r.convex_volume_planes.is_some())),
        li("convex_volume_planes", planes.iter().map(|p| vec![("normal", d(&p.normal)), ("distance", d(&p.distance)), ("flags", d(&p.flags))]).collect()),
    ]
}

fn dump_group(g: &WmoGroup, norm: Option<WmoVersion>) -> Vec<Sect> {
    let e16: &[u16] = &[];
    let lq = g.liquid.as_ref();
    let lqs = |f: &dyn Fn(&WmoLiquid) -> String| lq.map(f).unwrap_or("-".to_string());
    let lflags = |l: &WmoLiquid| format!("{:x}", if norm.is_some() { l.flags & !2 } else { l.flags });
    vec![
        sc("header.flags", format!("{:x}", g.header.flags.bits())), sc("header.bounding_box", d(&g.header.bounding_box)),
        sc("header.name_offset", d(&g.header.name_offset)), sc("header.group_index", d(&g.header.group_index)),
        plain("materials", &g.materials), plain("vertices", &g.vertices), plain("normals", &g.normals), plain("tex_coords", &g.tex_coords),
        plain("indices", &g.indices),
        li("batches", g.batches.iter().map(|b| vec![
            ("flags", d(&b.flags)), ("material_id", d(&b.material_id)), ("start_index", d(&b.start_index)), ("count", d(&b.count)),
            ("start_vertex", d(&b.start_vertex)), ("end_vertex", d(&b.end_vertex)), ("use_large_material_id", d(&b.use_large_material_id))]).collect()),
        sc("vertex_colors.some", d(&g.vertex_colors.is_some())), plain("vertex_colors", g.vertex_colors.as_deref().unwrap_or(&[])),
        sc("bsp_nodes.some", d(&g.bsp_nodes.is_some())),
        li("bsp_nodes", g.bsp_nodes.as_deref().unwrap_or(&[]).iter().map(|n| vec![
            ("plane.normal", d(&n.plane.normal)), ("plane.distance", d(&n.plane.distance)), ("children", d(&n.children)),
            ("first_face", d(&n.first_face)), ("num_faces", d(&n.num_faces))]).collect()),
        sc("liquid.some", d(&lq.is_some())), sc("liquid.liquid_type", lqs(&|l| d(&l.liquid_type))), sc("liquid.flags", lqs(&lflags)),
        sc("liquid.width", lqs(&|l| d(&l.width))), sc("liquid.height", lqs(&|l| d(&l.height))),
        li("liquid.vertices", lq.map(|l| l.vertices.iter().map(|v| vec![("position", d(&v.position)), ("height", d(&v.height))]).collect()).unwrap_or_default()),
        sc("liquid.tile_flags.some", d(&lq.map(|l| l.tile_flags.is_some()).unwrap_or(false))),
        plain("liquid.tile_flags", lq.and_then(|l| l.tile_flags.as_deref()).unwrap_or(&[])),
        sc("doodad_refs.some", d(&g.doodad_refs.is_some())), plain("doodad_refs", g.doodad_refs.as_deref().unwrap_or(e16)),
    ]
}

fn diff(a: &[Sect], b: &[Sect]) -> Vec<String> {
    let mut out = Vec::new();
    for (x, y) in a.iter().zip(b.iter()) {
        if !x.list {
            if x.elems != y.elems { out.push(x.name.to_string()); }
            continue;
        }
        if x.elems.len() != y.elems.len() { out.push(format!("{}.len({:x}!={:x})", x.name, x.elems.len(), y.elems.len())); }
        let n = x.elems.len().min(y.elems.len());
        if n == 0 { continue; }
        for f in 0..x.elems[0].len() {
            if let Some(i) = (0..n).find(|&i| x.elems[i][f].1 != y.elems[i][f].1) {
                let fname = x.elems[0][f].0;
                out.push(if fname.is_empty() { format!("{}[{:x}]", x.name, i) } else { format!("{}[{:x}].{}", x.name, i, fname) });
            }
        }
    }
    out
}

fn show(dv: &[String]) -> String {
    if dv.is_empty() { return "-".to_string(); }
    let mut s = dv.iter().take(24).cloned().collect::<Vec<_>>().join(",");
    if dv.len() > 24 { s.push_str(&format!(",+{:x}", dv.len() - 24)); }
    s
}

fn lists(s: &[Sect]) -> String { s.iter().filter(|x| x.list).map(|x| format!("{}:{:x}", x.name, x.elems.len())).collect::<Vec<_>>().join(",") }

// ---------------------------------------------------------------- guarded steps

fn clean(s: &str) -> String {
    // first line only (binrw errors carry a multi-line coloured backtrace), printable ASCII only
    let mut t = String::new();
    let mut esc = false;
    for c in s.chars() {
        if esc { if c.is_ascii_alphabetic() { esc = false; } continue; }
        if c == '\u{1b}' { esc = true; continue; }
        if c.is_ascii_graphic() { t.push(c); } else if c.is_ascii_whitespace() && !t.ends_with('_') { t.push('_'); }
    }
    let mut t = t.trim_end_matches('_').to_string();
    if t.len() > 160 { t.truncate(160); }
    t
}

fn guard<T>(tag: &str, f: impl FnOnce() -> Result<T, String>) -> Result<T, String> {
    match catch_unwind(AssertUnwindSafe(f)) {
        Ok(Ok(x)) => Ok(x),
        Ok(Err(e)) => Err(clean(&format!("{tag}-ERR_{e}"))),
        Err(_) => Err(format!("{tag}-PANIC")),
    }
}

fn write_root(tag: &str, o: &WmoRoot, v: WmoVersion) -> Result<Vec<u8>, String> {
    guard(tag, || { let mut c = Cursor::new(Vec::new()); WmoWriter::new().write_root(&mut c, o, v).map_err(|e| e.to_string())?; Ok(c.into_inner()) })
}
fn write_group(tag: &str, o: &WmoGroup, v: WmoVersion) -> Result<Vec<u8>, String> {
    guard(tag, || { let mut c = Cursor::new(Vec::new()); WmoWriter::new().write_group(&mut c, o, v).map_err(|e| e.to_string())?; Ok(c.into_inner()) })
}
fn parse_root(b: &[u8]) -> Result<WmoRoot, String> {
    guard("PARSE", || WmoParser::new().parse_root(&mut Cursor::new(b)).map_err(|e| e.to_string()))
}
fn parse_group_legacy(b: &[u8], idx: u32) -> Result<WmoGroup, String> {
    guard("PARSE", || WmoGroupParser::new().parse_group(&mut Cursor::new(b), idx).map_err(|e| e.to_string()))
}
fn parse_api(b: &[u8]) -> Result<ParsedWmo, String> {
    guard("API", || parse_wmo(&mut Cursor::new(b)).map_err(|e| e.to_string()))
}

/// The group type of the new parser expressed in the type the writer accepts (meaning of the fields, not bytes;
/// the ten flag bytes + u16 material id of a batch are the twelve bytes the new parser calls the batch bounding box).
fn api_to_legacy(g: &ApiGroup) -> WmoGroup {
    let bb = |i: usize| g.bounding_box.get(i).copied().unwrap_or(0.0);
    WmoGroup {
        header: WmoGroupHeader {
            flags: WmoGroupFlags::from_bits_truncate(g.flags),
            bounding_box: BoundingBox { min: Vec3 { x: bb(0), y: bb(1), z: bb(2) }, max: Vec3 { x: bb(3), y: bb(4), z: bb(5) } },
            name_offset: g.group_name_index, group_index: g.group_index,
        },
        materials: g.material_info.iter().map(|m| m.material_id as u16).collect(),
        vertices: g.vertex_positions.iter().map(|v| Vec3 { x: v.x, y: v.y, z: v.z }).collect(),
        normals: g.vertex_normals.iter().map(|v| Vec3 { x: v.x, y: v.y, z: v.z }).collect(),
        tex_coords: g.texture_coords.iter().map(|t| TexCoord { u: t.u, v: t.v }).collect(),
        batches: g.render_batches.iter().map(|b| {
            let w = [b.bounding_box_min[0], b.bounding_box_min[1], b.bounding_box_min[2], b.bounding_box_max[0], b.bounding_box_max[1]];
            let mut flags = [0u8; 10];
            for (i, x) in w.iter().enumerate() { let le = x.to_le_bytes(); flags[2 * i] = le[0]; flags[2 * i + 1] = le[1]; }
            WmoBatch { flags, material_id: b.bounding_box_max[2] as u16, start_index: b.start_index, count: b.count, start_vertex: b.min_index,
                       end_vertex: b.max_index, use_large_material_id: b.flags != 0 }
        }).collect(),
        indices: g.vertex_indices.clone(),
        vertex_colors: if g.vertex_colors.is_empty() { None } else { Some(g.vertex_colors.iter().map(|c| Color { r: c.r, g: c.g, b: c.b, a: c.a }).collect()) },
        bsp_nodes: if g.bsp_nodes.is_empty() { None } else { Some(g.bsp_nodes.iter().map(|n| {
            let normal = match n.flags & 3 { 0 => Vec3 { x: 1.0, y: 0.0, z: 0.0 }, 1 => Vec3 { x: 0.0, y: 1.0, z: 0.0 }, 2 => Vec3 { x: 0.0, y: 0.0, z: 1.0 }, _ => Vec3::default() };
            WmoBspNode { plane: WmoPlane { normal, distance: n.plane_distance }, children: [n.neg_child, n.pos_child], first_face: n.face_start as u16, num_faces: n.n_faces }
        }).collect()) },
        // the new parser keeps only a six-word liquid header: no vertices, no tile flags, no flags word
        liquid: g.liquid_header.as_ref().map(|h| WmoLiquid { liquid_type: h.liquid_type, flags: 0, width: h.x_tiles.wrapping_add(1), height: h.y_tiles.wrapping_add(1), vertices: Vec::new(), tile_flags: None }),
        doodad_refs: if g.doodad_refs.is_empty() { None } else { Some(g.doodad_refs.clone()) },
    }
}

fn api_group_summary(g: &ApiGroup) -> String {
    format!("version:{:x},flags:{:x},name:{:x},n_vertices:{:x},n_triangles:{:x},material_info:{:x},vertex_indices:{:x},vertex_positions:{:x},vertex_normals:{:x},texture_coords:{:x},render_batches:{:x},vertex_colors:{:x},doodad_refs:{:x},bsp_nodes:{:x},bsp_face_indices:{:x},liquid_header:{:x}",
        g.version, g.flags, g.group_name_index, g.n_vertices, g.n_triangles, g.material_info.len(), g.vertex_indices.len(), g.vertex_positions.len(), g.vertex_normals.len(),
        g.texture_coords.len(), g.render_batches.len(), g.vertex_colors.len(), g.doodad_refs.len(), g.bsp_nodes.len(), g.bsp_face_indices.len(), g.liquid_header.is_some() as u8)
}

fn api_root_summary(b: &[u8], o: &WmoRoot, v: WmoVersion) -> String {
    match parse_api(b) {
        Err(e) => e,
        Ok(ParsedWmo::Group(_)) => "API-DETECTED-AS-GROUP".to_string(),
        Ok(ParsedWmo::Root(r)) => {
            let bb = o.bounding_box;
            let bbox_ok = r.bounding_box_min == [bb.min.x, bb.min.y, bb.min.z] && r.bounding_box_max == [bb.max.x, bb.max.y, bb.max.z];
            let mut fl = o.header.flags.bits() & !0x20;
            if o.skybox.is_some() && v >= WmoVersion::Wotlk { fl |= 0x20; }
            let c = o.header.ambient_color;
            let gn: Vec<String> = o.groups.iter().map(|g| g.name.clone()).collect();
            format!(
            "flags_ok:{:x},bbox_ok:{:x},ambient_ok:{:x},names_ok:{:x},skybox_ok:{:x},version:{:x},h.n_materials:{:x},h.n_groups:{:x},h.n_portals:{:x},h.n_lights:{:x},h.n_doodad_names:{:x},h.n_doodad_defs:{:x},h.n_doodad_sets:{:x},textures:{:x},materials:{:x},group_names:{:x},group_info:{:x},skybox:{:x},portal_vertices:{:x},portals:{:x},portal_refs:{:x},visible_vertices:{:x},visible_blocks:{:x},lights:{:x},doodad_sets:{:x},doodad_names:{:x},doodad_defs:{:x},convex_volume_planes:{:x}",
            (r.flags as u32 == fl) as u8, bbox_ok as u8, (r.ambient_color == [c.b, c.g, c.r, c.a]) as u8, (r.textures == o.textures && r.group_names == gn) as u8,
            (r.skybox == o.skybox) as u8, r.version, r.n_materials, r.n_groups, r.n_portals, r.n_lights, r.n_doodad_names, r.n_doodad_defs, r.n_doodad_sets, r.textures.len(), r.materials.len(),
            r.group_names.len(), r.group_info.len(), r.skybox.is_some() as u8, r.portal_vertices.len(), r.portals.len(), r.portal_refs.len(), r.visible_vertices.len(),
            r.visible_blocks.len(), r.lights.len(), r.doodad_sets.len(), r.doodad_names.len(), r.doodad_defs.len(), r.convex_volume_planes.len())
        }
    }
}

// ---------------------------------------------------------------- independent chunk walk

fn idstr(b: &[u8]) -> String { b.iter().map(|&c| if c.is_ascii_alphanumeric() { c as char } else { '.' }).collect() }

/// (entries (id, size, payload offset), end offset, truncated chunk if any)
fn walk(b: &[u8], from: usize, to: usize) -> (Vec<(String, usize, usize)>, usize, Option<(String, usize)>) {
    let mut v = Vec::new();
    let mut o = from;
    loop {
        if o + 8 > to { return (v, o, None); }
        let id = idstr(&b[o..o + 4]);
        let size = u32::from_le_bytes([b[o + 4], b[o + 5], b[o + 6], b[o + 7]]) as usize;
        if o + 8 + size > to { return (v, o, Some((id, size))); }
        v.push((id, size, o + 8));
        o += 8 + size;
    }
}

fn strings_of(b: &[u8], id_on_disk: &str) -> Vec<Vec<u8>> {
    let (v, _, _) = walk(b, 0, b.len());
    match v.iter().find(|(i, _, _)| i == id_on_disk) {
        None => Vec::new(),
        Some((_, size, off)) => b[*off..*off + *size].split(|&c| c == 0).filter(|s| !s.is_empty()).map(|s| s.to_vec()).collect(),
    }
}

/// 1 when the chunk framing is exact: every id is made of capitals/digits, the top-level walk ends at the file end and, for a group file, the walk of the
/// sub-chunks after the header the writer emits (0x24 bytes) ends exactly at the end of MOGP
fn frame_ok(b: &[u8]) -> u8 {
    let (v, end, trunc) = walk(b, 0, b.len());
    let good = |id: &str| id.bytes().all(|c| c.is_ascii_uppercase() || c.is_ascii_digit());
    let mut ok = end == b.len() && trunc.is_none() && v.iter().all(|(id, _, _)| good(id));
    for (id, size, off) in &v {
        if id == "PGOM" {
            if *size < 0x24 { ok = false; continue; }
            let (nv, nend, nt) = walk(b, off + 0x24, off + size);
            ok = ok && nend == off + size && nt.is_none() && nv.iter().all(|(id, _, _)| good(id));
        }
    }
    ok as u8
}

fn names_hex<T: AsRef<[u8]>>(v: &[T]) -> String { if v.is_empty() { "-".to_string() } else { v.iter().map(|s| hex(s.as_ref())).collect::<Vec<_>>().join(",") } }

fn chunks_cmd(b: &[u8], mogp_header: Option<usize>) -> String {
    let (v, end, trunc) = walk(b, 0, b.len());
    let mut parts = Vec::new();
    for (id, size, off) in &v {
        let mut s = format!("{}:{:x}", id, size);
        if let (Some(h), "PGOM") = (mogp_header, id.as_str()) {
            if h <= *size {
                let (nv, nend, nt) = walk(b, off + h, off + size);
                let inner = if nv.is_empty() { "-".to_string() } else { nv.iter().map(|(i, s, _)| format!("{}:{:x}", i, s)).collect::<Vec<_>>().join(";") };
                s.push_str(&format!("({})~{:x}", inner, nend));
                if let Some((i, z)) = nt { s.push_str(&format!("!{}:{:x}", i, z)); }
            } else { s.push_str("(SHORT)"); }
        }
        parts.push(s);
    }
    let l = if parts.is_empty() { "-".to_string() } else { parts.join(",") };
    let t = match trunc { Some((i, z)) => format!("{}:{:x}", i, z), None => "-".to_string() };
    format!("{} END={:x} LEN={:x} TRUNC={}", l, end, b.len(), t)
}

// ---------------------------------------------------------------- commands

fn version(tok: &str) -> Option<WmoVersion> {
    if let Some(v) = WmoVersion::from_expansion_name(tok) { return Some(v); }
    if !tok.chars().all(|c| c.is_ascii_hexdigit()) { return None; }
    WmoVersion::from_raw(num(tok) as u32)
}

fn counts(h: &WmoHeader) -> String {
    format!("n_materials:{:x},n_groups:{:x},n_portals:{:x},n_lights:{:x},n_doodad_names:{:x},n_doodad_defs:{:x},n_doodad_sets:{:x}",
        h.n_materials, h.n_groups, h.n_portals, h.n_lights, h.n_doodad_names, h.n_doodad_defs, h.n_doodad_sets)
}

fn root_cmd(v: WmoVersion, seed: u64, a: &RootArgs, stale: bool) -> String {
    let (mut obj, dnames) = match guard("BUILD", || Ok(build_root(v, seed, a))) { Ok(x) => x, Err(e) => return format!("W1={e}") };
    if stale {
        // the cached header counts no longer describe the lists (as after an edit): the writer must derive them
        obj.header.n_materials += 2; obj.header.n_groups += 2; obj.header.n_portals += 2; obj.header.n_lights += 2;
        obj.header.n_doodad_names += 2; obj.header.n_doodad_defs += 2; obj.header.n_doodad_sets += 2;
    }
    let onames = format!("{}|{}|{}", names_hex(&obj.textures), names_hex(&obj.groups.iter().map(|g| g.name.clone()).collect::<Vec<_>>()), names_hex(&dnames));
    let w1 = match write_root("WRITE", &obj, v) {
        Ok(b) => b,
        Err(e) => return format!("W1={e} EQ=- DIFF=- SAME=- COUNTS=- LISTS=- NAMES=- ONAMES={onames} FRAME=- API=-"),
    };
    let modn = names_hex(&strings_of(&w1, "NDOM"));
    let api = api_root_summary(&w1, &obj, v);
    match parse_root(&w1) {
        Err(e) => format!("W1={} EQ=0 DIFF={e} SAME=- COUNTS=- LISTS=- NAMES=-|-|{modn} ONAMES={onames} FRAME={} API={api}", hex(&w1), frame_ok(&w1)),
        Ok(p) => {
            let (da, db) = (dump_root(&obj, None), dump_root(&p, None));
            let dv = diff(&da, &db);
            let same = match write_root("WRITE2", &p, v) { Ok(w2) => ((w2 == w1) as u8).to_string(), Err(e) => e };
            let names = format!("{}|{}|{modn}", names_hex(&p.textures), names_hex(&p.groups.iter().map(|g| g.name.clone()).collect::<Vec<_>>()));
            format!("W1={} EQ={} DIFF={} SAME={same} COUNTS={} LISTS={} NAMES={names} ONAMES={onames} FRAME={} API={api}",
                hex(&w1), dv.is_empty() as u8, show(&dv), counts(&p.header), lists(&db), frame_ok(&w1))
        }
    }
}

/// parse a written group: the legacy parser first, the new parser (mapped back) when that fails
fn parse_group_any(w: &[u8], idx: u32) -> (String, Result<(WmoGroup, &'static str), String>, String) {
    let legacy = parse_group_legacy(w, idx);
    let ltok = match &legacy { Ok(_) => "OK".to_string(), Err(e) => e.clone() };
    let api = parse_api(w);
    let atok = match &api { Ok(ParsedWmo::Group(g)) => api_group_summary(g), Ok(ParsedWmo::Root(_)) => "API-DETECTED-AS-ROOT".to_string(), Err(e) => e.clone() };
    let p = match legacy {
        Ok(g) => Ok((g, "legacy")),
        Err(le) => match api {
            Ok(ParsedWmo::Group(g)) => guard("MAP", || Ok(api_to_legacy(&g))).map(|x| (x, "api")),
            Ok(ParsedWmo::Root(_)) => Err(format!("{le}+API-DETECTED-AS-ROOT")),
            Err(ae) => Err(format!("{le}+{ae}")),
        },
    };
    (ltok, p, atok)
}

fn group_cmd(v: WmoVersion, seed: u64, a: &GroupArgs) -> String {
    let obj = match guard("BUILD", || Ok(build_group(v, seed, a))) { Ok(x) => x, Err(e) => return format!("W1={e}") };
    let w1 = match write_group("WRITE", &obj, v) {
        Ok(b) => b,
        Err(e) => return format!("W1={e} EQ=- DIFF=- SAME=- LISTS=- VIA=- FRAME=- LEGACY=- API=-"),
    };
    let (ltok, p, atok) = parse_group_any(&w1, obj.header.group_index);
    match p {
        Err(e) => format!("W1={} EQ=0 DIFF={e} SAME=- LISTS=- VIA=- FRAME={} LEGACY={ltok} API={atok}", hex(&w1), frame_ok(&w1)),
        Ok((p, via)) => {
            let (da, db) = (dump_group(&obj, None), dump_group(&p, None));
            let dv = diff(&da, &db);
            let same = match write_group("WRITE2", &p, v) { Ok(w2) => ((w2 == w1) as u8).to_string(), Err(e) => e };
            format!("W1={} EQ={} DIFF={} SAME={same} LISTS={} VIA={via} FRAME={} LEGACY={ltok} API={atok}", hex(&w1), dv.is_empty() as u8, show(&dv), lists(&db), frame_ok(&w1))
        }
    }
}

fn convroot_cmd(from: WmoVersion, to: WmoVersion, seed: u64, a: &RootArgs) -> String {
    let orig = build_root(from, seed, a).0;
    let mut c = build_root(from, seed, a).0;
    let conv = match guard("CONV", || WmoConverter::new().convert_root(&mut c, to).map_err(|e| e.to_string())) { Ok(()) => "OK".to_string(), Err(e) => e.replacen("CONV-", "", 1) };
    let lost = diff(&dump_root(&orig, Some(to)), &dump_root(&c, Some(to)));
    let ident = if from == to { (diff(&dump_root(&orig, None), &dump_root(&c, None)).is_empty() as u8).to_string() } else { "-".to_string() };
    let verset = (c.version == to) as u8;
    let tail = format!("KEPT={} LOST={} IDENT={ident} VERSION-SET={verset}", lost.is_empty() as u8, show(&lost));
    let w = match write_root("WRITE", &c, to) { Ok(b) => b, Err(e) => return format!("CONV={conv} EQ=- DIFF={e} {tail} W=-") };
    match parse_root(&w) {
        Err(e) => format!("CONV={conv} EQ=0 DIFF={e} {tail} W={}", hex(&w)),
        Ok(p) => {
            let dv = diff(&dump_root(&c, None), &dump_root(&p, None));
            format!("CONV={conv} EQ={} DIFF={} {tail} W={}", dv.is_empty() as u8, show(&dv), hex(&w))
        }
    }
}

fn convgroup_cmd(from: WmoVersion, to: WmoVersion, seed: u64, a: &GroupArgs) -> String {
    let orig = build_group(from, seed, a);
    let mut c = build_group(from, seed, a);
    let conv = match guard("CONV", || WmoConverter::new().convert_group(&mut c, to, from).map_err(|e| e.to_string())) { Ok(()) => "OK".to_string(), Err(e) => e.replacen("CONV-", "", 1) };
    let lost = diff(&dump_group(&orig, Some(to)), &dump_group(&c, Some(to)));
    let ident = if from == to { (diff(&dump_group(&orig, None), &dump_group(&c, None)).is_empty() as u8).to_string() } else { "-".to_string() };
    let tail = format!("KEPT={} LOST={} IDENT={ident} OFLAGS={:x} CFLAGS={:x}", lost.is_empty() as u8, show(&lost), orig.header.flags.bits(), c.header.flags.bits());
    let w = match write_group("WRITE", &c, to) { Ok(b) => b, Err(e) => return format!("CONV={conv} EQ=- DIFF={e} {tail} VIA=- W=-") };
    let (_, p, _) = parse_group_any(&w, c.header.group_index);
    match p {
        Err(e) => format!("CONV={conv} EQ=0 DIFF={e} {tail} VIA=- W={}", hex(&w)),
        Ok((p, via)) => {
            let dv = diff(&dump_group(&c, None), &dump_group(&p, None));
            format!("CONV={conv} EQ={} DIFF={} {tail} VIA={via} W={}", dv.is_empty() as u8, show(&dv), hex(&w))
        }
    }
}

fn main() {
    serve(|t: &[&str]| -> String {
        match t[0] {
            "root" => {
                if t.len() < 13 { return "ERR args".to_string(); }
                let (Some(v), Some(a)) = (version(t[1]), root_args(&t[3..])) else { return "ERR bad_version".to_string() };
                root_cmd(v, num(t[2]), &a, false)
            }
            // rootstale: like root, but the cached header counts of the object are stale
            "rootstale" => {
                if t.len() < 13 { return "ERR args".to_string(); }
                let (Some(v), Some(a)) = (version(t[1]), root_args(&t[3..])) else { return "ERR bad_version".to_string() };
                root_cmd(v, num(t[2]), &a, true)
            }
            "group" => {
                if t.len() < 10 { return "ERR args".to_string(); }
                let (Some(v), Some(a)) = (version(t[1]), group_args(&t[3..])) else { return "ERR bad_version".to_string() };
                group_cmd(v, num(t[2]), &a)
            }
            "convroot" => {
                if t.len() < 14 { return "ERR args".to_string(); }
                let (Some(f), Some(to), Some(a)) = (version(t[1]), version(t[2]), root_args(&t[4..])) else { return "ERR bad_version".to_string() };
                convroot_cmd(f, to, num(t[3]), &a)
            }
            "convgroup" => {
                if t.len() < 11 { return "ERR args".to_string(); }
                let (Some(f), Some(to), Some(a)) = (version(t[1]), version(t[2]), group_args(&t[4..])) else { return "ERR bad_version".to_string() };
                convgroup_cmd(f, to, num(t[3]), &a)
            }
            "chunks" => {
                if t.len() < 2 { return "ERR args".to_string(); }
                chunks_cmd(&unhex(t[1]), t.get(2).map(|s| num(s) as usize))
            }
            _ => "ERR unknown".to_string(),
        }
    });
}
