//! C03: wow-mpq compress / decompress / limit checks on case lines.
use verif_harness::{hex, num, serve, unhex};
use wow_mpq::security::{AdaptiveCompressionLimits, SecurityLimits, SessionTracker, validate_decompression_operation};
use wow_mpq::{compress, decompress};

fn main() {
    serve(|t| match t[0] {
        "comp" => match compress(&unhex(t[2]), num(t[1]) as u8) {
            Ok(b) => hex(&b),
            Err(_) => "ERR".to_string(),
        },
        "decomp" => match decompress(&unhex(t[3]), num(t[1]) as u8, num(t[2]) as usize) {
            Ok(b) => format!("OK {}", hex(&b)),
            Err(_) => "ERR".to_string(),
        },
        "valop" => {
            let r = validate_decompression_operation(num(t[1]), num(t[2]), num(t[3]) as u8, None, &SessionTracker::new(), &SecurityLimits::default());
            if r.is_ok() { "OK".to_string() } else { "ERR".to_string() }
        }
        "adlimit" => {
            let l = SecurityLimits::default();
            format!("{:x}", AdaptiveCompressionLimits::new(l.max_compression_ratio, l.enable_adaptive_limits).calculate_limit(num(t[1]), num(t[2]) as u8))
        }
        // property oracle: rt <method> <data>
        "rt" => {
            let d = unhex(t[2]);
            let m = num(t[1]) as u8;
            let r = match compress(&d, m) { Ok(r) => r, Err(e) => return format!("COMPRESS-ERR {e}") };
            if r.len() > d.len() { return format!("FAIL expanded {} > {}", r.len(), d.len()); }
            if r == d { return "STORED".to_string(); }
            if r.len() == d.len() { return "FAIL same-length-but-not-raw".to_string(); }
            if r[0] != m { return format!("FAIL method-byte {:x}", r[0]); }
            match decompress(&r[1..], r[0], d.len()) {
                Ok(o) => if o == d { format!("PASS {}", r.len()) } else { format!("FAIL roundtrip-differs clen={}", r.len()) },
                Err(e) => format!("FAIL rejected-own-output clen={} {e}", r.len()),
            }
        }
        // lossy selectors: length and channel interleaving. adpcm <method> <data>
        "adpcm" => {
            let d = unhex(t[2]);
            let m = num(t[1]) as u8;
            let r = match compress(&d, m) { Ok(r) => r, Err(e) => return format!("COMPRESS-ERR {e}") };
            if r == d { return "STORED".to_string(); }
            let o = match decompress(&r[1..], r[0], d.len()) { Ok(o) => o, Err(e) => return format!("FAIL decompress {e}") };
            if o.len() != d.len() { return format!("FAIL length {} != {}", o.len(), d.len()); }
            let s = |b: &[u8], i: usize| i16::from_le_bytes([b[2 * i], b[2 * i + 1]]) as i32;
            let n = d.len() / 2;
            let (mut e0, mut e1) = (0i32, 0i32);
            for i in 0..n {
                let e = (s(&d, i) - s(&o, i)).abs();
                if i % 2 == 0 { e0 = e0.max(e) } else { e1 = e1.max(e) }
            }
            format!("LEN-OK {} {}", e0, e1)
        }
        _ => "ERR unknown".to_string(),
    });
}
