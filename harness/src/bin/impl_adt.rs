//! Implementation-side runner for the ADT terrain property: build -> serialise -> parse,
//! re-serialisation stability, and an independent walk of the chunk framing / offset tables.
//!
//! Commands (all numbers hex):
//!   build <version> <seed> <ntex> <nmodels> <nwmos> <ndoodad> <nwmoplace> <nchunks> <optmask>
//!   chunks <hex file>
use std::io::Cursor;
use std::panic::{catch_unwind, AssertUnwindSafe};

use verif_harness::{hex, num, serve, unhex};
use wow_adt::api::{parse_adt, ParsedAdt, RootAdt};
use wow_adt::builder::{AdtBuilder, BuiltAdt};
use wow_adt::chunks::mcnk::{
    BlendBatch, LiquidType, LiquidVertex, McalChunk, McbbChunk, MccvChunk, McddChunk, MclqChunk,
    MclvChunk, MclyChunk, MclyFlags, MclyLayer, McmtChunk, McnkChunk, McnkFlags, McnkHeader,
    McnrChunk, McrdChunk, McrfChunk, McrwChunk, McseChunk, McshChunk, McvtChunk, SoundEmitter,
    VertexColor, VertexNormal,
};
use wow_adt::chunks::mh2o::{
    DepthOnlyVertex, HeightDepthVertex, HeightUvDepthVertex, HeightUvVertex, Mh2oAttributes,
    Mh2oChunk, Mh2oEntry, Mh2oHeader, Mh2oInstance, UvMapEntry, VertexDataArray,
};
use wow_adt::chunks::{
    DoodadPlacement, MampChunk, MbbbChunk, MbbbEntry, MbmhChunk, MbmhEntry, MbmiChunk, MbnvChunk,
    MbnvVertex, MfboChunk, MtxfChunk, MtxpChunk, TextureHeightParams, WmoPlacement,
};
use wow_adt::AdtVersion;

const VERSIONS: [AdtVersion; 6] = [
    AdtVersion::VanillaEarly,
    AdtVersion::VanillaLate,
    AdtVersion::TBC,
    AdtVersion::WotLK,
    AdtVersion::Cataclysm,
    AdtVersion::MoP,
];

fn vidx(v: AdtVersion) -> usize {
    VERSIONS.iter().position(|x| *x == v).unwrap_or(99)
}

// ---------------------------------------------------------------- optmask bits
const B_LAYERS: u64 = 1 << 0;
const B_ALPHA: u64 = 1 << 1;
const B_SHADOW: u64 = 1 << 2;
const B_MCCV: u64 = 1 << 3;
const B_LIQUID: u64 = 1 << 4;
const B_FLIGHT: u64 = 1 << 5;
const B_FURTHER: u64 = 1 << 6; // = bits 8..15 together
// individual selection of the "further" parts
const B_MCRF: u64 = 1 << 8;
const B_MCSE: u64 = 1 << 9;
const B_MTXF: u64 = 1 << 10;
const B_MAMP: u64 = 1 << 11;
const B_MTXP: u64 = 1 << 12;
const B_BLEND: u64 = 1 << 13;
const B_MCLV: u64 = 1 << 14;
const B_MCBB: u64 = 1 << 15;
// only when asked for explicitly (not part of bit 6)
const B_MCMT: u64 = 1 << 16;
const B_MCDD: u64 = 1 << 17;
const B_MCRDW: u64 = 1 << 18;
// behaviour switches
const B_RAWFLAGS: u64 = 1 << 19; // do not set the MCNK header flags / ref counts that announce the optional parts
const B_HIRES: u64 = 1 << 20; // MoP: high-res holes flag + bitmap in the multipurpose field
const B_FROMPARSED: u64 = 1 << 21; // re-serialise through AdtBuilder::from_parsed(..).build() instead of BuiltAdt::from_root_adt(.., None)
const B_NOHEX: u64 = 1 << 23; // print B1=~ instead of the hex of B1
const B_FORCE: u64 = 1 << 24; // do not drop parts the target version does not support

// ---------------------------------------------------------------- rng
struct Rng(u64);
impl Rng {
    fn new(seed: u64) -> Self {
        let mut r = Rng(seed ^ 0x9E37_79B9_7F4A_7C15);
        if r.0 == 0 {
            r.0 = 0x1234_5678_9ABC_DEF1;
        }
        for _ in 0..4 {
            r.next();
        }
        r
    }
    fn next(&mut self) -> u64 {
        let mut x = self.0;
        x ^= x << 13;
        x ^= x >> 7;
        x ^= x << 17;
        self.0 = x;
        x.wrapping_mul(0x2545_F491_4F6C_DD1D) >> 8
    }
    fn below(&mut self, n: u64) -> u64 {
        if n == 0 {
            0
        } else {
            self.next() % n
        }
    }
    fn byte(&mut self) -> u8 {
        self.next() as u8
    }
    fn bytes(&mut self, n: usize) -> Vec<u8> {
        (0..n).map(|_| self.byte()).collect()
    }
    /// finite float with an exact short decimal expansion, in [-250, 250]
    fn f(&mut self) -> f32 {
        (self.below(4001) as i32 - 2000) as f32 / 8.0
    }
    fn f3(&mut self) -> [f32; 3] {
        [self.f(), self.f(), self.f()]
    }
    fn coin(&mut self) -> bool {
        self.next() & 1 == 1
    }
}

// ---------------------------------------------------------------- tile (content of a terrain tile)
#[derive(Clone)]
struct Tile {
    version: AdtVersion,
    textures: Vec<String>,
    models: Vec<String>,
    wmos: Vec<String>,
    doodads: Vec<DoodadPlacement>,
    wmops: Vec<WmoPlacement>,
    mcnk: Vec<McnkChunk>,
    flight: Option<MfboChunk>,
    water: Option<Mh2oChunk>,
    tflags: Option<MtxfChunk>,
    amp: Option<MampChunk>,
    params: Option<MtxpChunk>,
    bmh: Option<MbmhChunk>,
    bbb: Option<MbbbChunk>,
    bnv: Option<MbnvChunk>,
    bmi: Option<MbmiChunk>,
}

impl Tile {
    fn from_root(r: &RootAdt) -> Tile {
        Tile {
            version: r.version,
            textures: r.textures.clone(),
            models: r.models.clone(),
            wmos: r.wmos.clone(),
            doodads: r.doodad_placements.clone(),
            wmops: r.wmo_placements.clone(),
            mcnk: r.mcnk_chunks.clone(),
            flight: r.flight_bounds,
            water: r.water_data.clone(),
            tflags: r.texture_flags.clone(),
            amp: r.texture_amplifier,
            params: r.texture_params.clone(),
            bmh: r.blend_mesh_headers.clone(),
            bbb: r.blend_mesh_bounds.clone(),
            bnv: r.blend_mesh_vertices.clone(),
            bmi: r.blend_mesh_indices.clone(),
        }
    }

    fn into_builder(self) -> AdtBuilder {
        let mut b = AdtBuilder::new().with_version(self.version);
        for t in self.textures {
            b = b.add_texture(t);
        }
        for m in self.models {
            b = b.add_model(m);
        }
        for w in self.wmos {
            b = b.add_wmo(w);
        }
        for d in self.doodads {
            b = b.add_doodad_placement(d);
        }
        for w in self.wmops {
            b = b.add_wmo_placement(w);
        }
        for c in self.mcnk {
            b = b.add_mcnk_chunk(c);
        }
        if let Some(x) = self.flight {
            b = b.add_flight_bounds(x);
        }
        if let Some(x) = self.water {
            b = b.add_water_data(x);
        }
        if let Some(x) = self.tflags {
            b = b.add_texture_flags(x);
        }
        if let Some(x) = self.amp {
            b = b.add_texture_amplifier(x);
        }
        if let Some(x) = self.params {
            b = b.add_texture_params(x);
        }
        if let Some(x) = self.bmh {
            b = b.add_blend_mesh_headers(x);
        }
        if let Some(x) = self.bbb {
            b = b.add_blend_mesh_bounds(x);
        }
        if let Some(x) = self.bnv {
            b = b.add_blend_mesh_vertices(x);
        }
        if let Some(x) = self.bmi {
            b = b.add_blend_mesh_indices(x);
        }
        b
    }
}

fn empty_mcnk(i: usize) -> McnkChunk {
    let (x, y) = ((i % 16) as u32, (i / 16) as u32);
    McnkChunk {
        header: McnkHeader {
            flags: McnkFlags { value: 0 },
            index_x: x,
            index_y: y,
            n_layers: 0,
            n_doodad_refs: 0,
            multipurpose_field: [0; 8],
            ofs_layer: 0,
            ofs_refs: 0,
            ofs_alpha: 0,
            size_alpha: 0,
            ofs_shadow: 0,
            size_shadow: 0,
            area_id: 0,
            n_map_obj_refs: 0,
            holes_low_res: 0,
            unknown_but_used: 1,
            pred_tex: [0; 8],
            no_effect_doodad: [0; 8],
            unknown_8bytes: [0; 8],
            ofs_snd_emitters: 0,
            n_snd_emitters: 0,
            ofs_liquid: 0,
            size_liquid: 0,
            position: [0.0, 0.0, 0.0],
            ofs_mccv: 0,
            ofs_mclv: 0,
            unused: 0,
            _padding: [0; 8],
        },
        heights: None,
        normals: None,
        layers: None,
        materials: None,
        refs: None,
        doodad_refs: None,
        wmo_refs: None,
        alpha: None,
        shadow: None,
        vertex_colors: None,
        vertex_lighting: None,
        sound_emitters: None,
        liquid: None,
        doodad_disable: None,
        blend_batches: None,
    }
}

fn names(r: &mut Rng, n: usize, dir: &str, ext: &str) -> Vec<String> {
    const PFX: [&str; 6] = ["g", "gr", "gra", "gras", "d", "di"];
    (0..n)
        .map(|i| {
            let p = PFX[r.below(6) as usize];
            let e = if r.below(5) == 0 { ext.to_uppercase() } else { ext.to_string() };
            format!("{dir}/{p}_{i:x}.{e}")
        })
        .collect()
}

fn gen_water(r: &mut Rng, nchunks: usize) -> Mh2oChunk {
    let mut w = Mh2oChunk::new();
    let n = if nchunks == 0 { 256 } else { nchunks.min(256) };
    let mut any = false;
    for i in 0..n {
        // roughly two thirds of the populated chunks carry liquid; the first always does
        if i != 0 && r.below(3) == 0 {
            continue;
        }
        any = true;
        let ninst = 1 + r.below(2) as usize;
        let mut instances = Vec::new();
        let mut vertex_data = Vec::new();
        let mut exists = Vec::new();
        for _ in 0..ninst {
            let width = 1 + r.below(8) as u8;
            let height = 1 + r.below(8) as u8;
            let x_offset = r.below(9 - width as u64) as u8;
            let y_offset = r.below(9 - height as u64) as u8;
            let lvf = r.below(4) as u16;
            let lo = r.f();
            let inst = Mh2oInstance {
                liquid_type: 1 + r.below(20) as u16,
                liquid_object_or_lvf: lvf,
                min_height_level: lo,
                max_height_level: lo + r.below(64) as f32 / 4.0,
                x_offset,
                y_offset,
                width,
                height,
                offset_exists_bitmap: 0,
                offset_vertex_data: 0,
            };
            // exists bitmap: only the bits of the instance's tiles
            let tiles = width as u32 * height as u32;
            let bm = if r.coin() {
                let m = if tiles >= 64 { u64::MAX } else { (1u64 << tiles) - 1 };
                Some((r.next() ^ (r.next() << 32)) & m)
            } else {
                None
            };
            let vd = if r.below(4) != 0 {
                let cells: Vec<usize> = (y_offset as usize..=(y_offset + height) as usize)
                    .flat_map(|z| (x_offset as usize..=(x_offset + width) as usize).map(move |x| z * 9 + x))
                    .collect();
                Some(match lvf {
                    0 => {
                        let mut g: [Option<HeightDepthVertex>; 81] = [None; 81];
                        for c in cells {
                            g[c] = Some(HeightDepthVertex { height: r.f(), depth: r.byte() });
                        }
                        VertexDataArray::HeightDepth(Box::new(g))
                    }
                    1 => {
                        let mut g: [Option<HeightUvVertex>; 81] = [None; 81];
                        for c in cells {
                            g[c] = Some(HeightUvVertex { height: r.f(), uv: UvMapEntry { u: r.next() as u16, v: r.next() as u16 } });
                        }
                        VertexDataArray::HeightUv(Box::new(g))
                    }
                    2 => {
                        let mut g: [Option<DepthOnlyVertex>; 81] = [None; 81];
                        for c in cells {
                            g[c] = Some(DepthOnlyVertex { depth: r.byte() });
                        }
                        VertexDataArray::DepthOnly(Box::new(g))
                    }
                    _ => {
                        let mut g: [Option<HeightUvDepthVertex>; 81] = [None; 81];
                        for c in cells {
                            g[c] = Some(HeightUvDepthVertex {
                                height: r.f(),
                                uv: UvMapEntry { u: r.next() as u16, v: r.next() as u16 },
                                depth: r.byte(),
                            });
                        }
                        VertexDataArray::HeightUvDepth(Box::new(g))
                    }
                })
            } else {
                None
            };
            instances.push(inst);
            vertex_data.push(vd);
            exists.push(bm);
        }
        let attributes = if r.coin() {
            Some(Mh2oAttributes { fishable: r.next() ^ (r.next() << 32), deep: r.next() ^ (r.next() << 32) })
        } else {
            None
        };
        w.entries[i] = Mh2oEntry {
            header: Mh2oHeader { offset_instances: 0, layer_count: instances.len() as u32, offset_attributes: 0 },
            instances,
            vertex_data,
            exists_bitmaps: exists,
            attributes,
        };
    }
    let _ = any;
    w
}

/// Generates the tile deterministically; returns it together with the list of ignored parts.
#[allow(clippy::too_many_arguments)]
fn generate(
    version: AdtVersion,
    seed: u64,
    ntex: usize,
    nmod: usize,
    nwmo: usize,
    ndoo: usize,
    nwp: usize,
    nchunks: usize,
    mask0: u64,
) -> (Tile, Vec<&'static str>) {
    let mut r = Rng::new(seed);
    let mut mask = mask0;
    if mask & B_FURTHER != 0 {
        mask |= B_MCRF | B_MCSE | B_MTXF | B_MAMP | B_MTXP | B_BLEND | B_MCLV | B_MCBB;
    }
    let force = mask & B_FORCE != 0;
    let mut ign: Vec<&'static str> = Vec::new();
    let mut gate = |bit: u64, min: AdtVersion, name: &'static str, mask: &mut u64| {
        if *mask & bit != 0 && version < min && !force {
            *mask &= !bit;
            ign.push(name);
        }
    };
    gate(B_MCCV, AdtVersion::VanillaLate, "mccv", &mut mask);
    gate(B_FLIGHT, AdtVersion::TBC, "mfbo", &mut mask);
    gate(B_MTXF, AdtVersion::WotLK, "mtxf", &mut mask);
    gate(B_MAMP, AdtVersion::Cataclysm, "mamp", &mut mask);
    gate(B_MCLV, AdtVersion::Cataclysm, "mclv", &mut mask);
    gate(B_MCMT, AdtVersion::Cataclysm, "mcmt", &mut mask);
    gate(B_MCRDW, AdtVersion::Cataclysm, "mcrd_mcrw", &mut mask);
    gate(B_MTXP, AdtVersion::MoP, "mtxp", &mut mask);
    gate(B_BLEND, AdtVersion::MoP, "blend_mesh", &mut mask);
    gate(B_MCBB, AdtVersion::MoP, "mcbb", &mut mask);
    gate(B_HIRES, AdtVersion::MoP, "hires_holes", &mut mask);
    let raw = mask & B_RAWFLAGS != 0;

    let textures = names(&mut r, ntex, "t", "blp");
    let models = names(&mut r, nmod, "m", "m2");
    let wmos = names(&mut r, nwmo, "w", "wmo");

    let doodads: Vec<DoodadPlacement> = (0..ndoo)
        .map(|i| DoodadPlacement {
            name_id: r.below(nmod as u64) as u32,
            unique_id: 0x1000 + i as u32,
            position: r.f3(),
            rotation: r.f3(),
            scale: 1 + r.below(4096) as u16,
            flags: r.below(4) as u16,
        })
        .collect();
    let wmops: Vec<WmoPlacement> = (0..nwp)
        .map(|i| {
            let lo = r.f3();
            WmoPlacement {
                name_id: r.below(nwmo as u64) as u32,
                unique_id: 0x2000 + i as u32,
                position: r.f3(),
                rotation: r.f3(),
                extents_min: lo,
                extents_max: [lo[0] + 8.0, lo[1] + 16.0, lo[2] + 4.5],
                flags: r.below(4) as u16,
                doodad_set: r.below(8) as u16,
                name_set: r.below(8) as u16,
                scale: 1 + r.below(4096) as u16,
            }
        })
        .collect();

    let pre_wotlk = version < AdtVersion::WotLK;
    let mut mcnk = Vec::new();
    for i in 0..nchunks.min(0x101) {
        let mut c = empty_mcnk(i);
        let h = &mut c.header;
        h.area_id = r.below(5000) as u32;
        h.holes_low_res = if r.below(4) == 0 { r.next() as u16 } else { 0 };
        h.position = [r.f(), (i % 16) as f32 * 33.25, (i / 16) as f32 * 33.25];
        h.pred_tex = [r.byte(), r.byte(), r.byte(), r.byte(), r.byte(), r.byte(), r.byte(), r.byte()];
        h.no_effect_doodad = [r.byte(), r.byte(), r.byte(), r.byte(), r.byte(), r.byte(), r.byte(), r.byte()];
        let mut flags: u32 = 0;
        if r.below(4) == 0 {
            flags |= 0x02; // impassable
        }
        if r.coin() {
            flags |= 0x8000; // do_not_fix_alpha_map
        }
        c.heights = Some(McvtChunk { heights: (0..145).map(|_| r.f()).collect() });
        c.normals = Some(McnrChunk {
            normals: (0..145).map(|_| VertexNormal { x: r.byte() as i8, z: r.byte() as i8, y: r.byte() as i8 }).collect(),
            padding: vec![0; 13],
        });
        let mut alpha_total = 0usize;
        if mask & B_LAYERS != 0 {
            let nl = 1 + r.below(4) as usize;
            let mut layers = Vec::new();
            for k in 0..nl {
                let mut lf: u32 = r.below(0x80) as u32; // animation bits
                let mut ofs = 0u32;
                if k > 0 && mask & B_ALPHA != 0 {
                    lf |= 0x100; // use_alpha_map
                    ofs = alpha_total as u32;
                    let sz = match r.below(4) {
                        0 => 4096,
                        1 => {
                            lf |= 0x200; // compressed
                            1 + r.below(300) as usize
                        }
                        _ => 2048,
                    };
                    alpha_total += sz;
                }
                layers.push(MclyLayer {
                    texture_id: r.below(ntex.max(1) as u64) as u32,
                    flags: MclyFlags { value: lf },
                    offset_in_mcal: ofs,
                    effect_id: if r.coin() { 0xFFFF_FFFF } else { r.below(100) as u32 },
                });
            }
            c.layers = Some(MclyChunk { layers });
        }
        if mask & B_ALPHA != 0 {
            if alpha_total == 0 {
                alpha_total = if mask & B_LAYERS != 0 { 0 } else { 2048 };
            }
            if alpha_total > 0 {
                c.alpha = Some(McalChunk { data: r.bytes(alpha_total) });
            }
        }
        if mask & B_SHADOW != 0 {
            c.shadow = Some(McshChunk { shadow_map: r.bytes(512) });
            if !raw {
                flags |= 0x01;
            }
        }
        if mask & B_MCCV != 0 {
            c.vertex_colors = Some(MccvChunk {
                colors: (0..145).map(|_| VertexColor { b: r.byte(), g: r.byte(), r: r.byte(), a: r.byte() }).collect(),
            });
            if !raw {
                flags |= 0x40;
            }
        }
        if mask & B_LIQUID != 0 && pre_wotlk && (i == 0 || r.below(3) != 0) {
            let lt = r.below(4);
            let (ty, fl) = match lt {
                0 => (LiquidType::Water, 0x04),
                1 => (LiquidType::Ocean, 0x08),
                2 => (LiquidType::Magma, 0x10),
                _ => (LiquidType::Slime, 0x20),
            };
            let lo = r.f();
            let mut tf = [0u8; 64];
            for t in tf.iter_mut() {
                *t = r.byte();
            }
            c.liquid = Some(MclqChunk {
                min_height: lo,
                max_height: lo + r.below(80) as f32 / 4.0,
                vertices: (0..81)
                    .map(|_| LiquidVertex { union_data: [r.byte(), r.byte(), r.byte(), r.byte()], height: r.f() })
                    .collect(),
                tile_flags: tf,
                liquid_type: if raw { LiquidType::Water } else { ty },
            });
            if !raw {
                flags |= fl;
            }
        }
        if mask & B_MCRF != 0 {
            let nd = r.below(4) as u32;
            let nw = r.below(3) as u32 + if nd == 0 { 1 } else { 0 };
            c.refs = Some(McrfChunk { references: (0..nd + nw).map(|_| r.below(64) as u32).collect() });
            if !raw {
                c.header.n_doodad_refs = nd;
                c.header.n_map_obj_refs = nw;
            }
        }
        if mask & B_MCRDW != 0 {
            c.doodad_refs = Some(McrdChunk { doodad_refs: (0..1 + r.below(3)).map(|_| r.below(64) as u32).collect() });
            c.wmo_refs = Some(McrwChunk { wmo_refs: (0..1 + r.below(3)).map(|_| r.below(64) as u32).collect() });
        }
        if mask & B_MCSE != 0 {
            c.sound_emitters = Some(McseChunk {
                emitters: (0..1 + r.below(3))
                    .map(|_| SoundEmitter { sound_entry_id: r.below(9000) as u32, position: r.f3(), size_min: r.f3(), _padding: [] })
                    .collect(),
            });
        }
        if mask & B_MCLV != 0 {
            c.vertex_lighting = Some(MclvChunk { colors: (0..145).map(|_| r.next() as u32).collect() });
        }
        if mask & B_MCMT != 0 {
            c.materials = Some(McmtChunk { material_ids: [r.byte(), r.byte(), r.byte(), r.byte()] });
        }
        if mask & B_MCDD != 0 {
            let mut d = [0u8; 64];
            for t in d.iter_mut() {
                *t = r.byte();
            }
            c.doodad_disable = Some(McddChunk { disable: d });
        }
        if mask & B_MCBB != 0 {
            c.blend_batches = Some(McbbChunk {
                batches: (0..1 + r.below(2))
                    .map(|_| BlendBatch {
                        mbmh_index: r.below(2) as u32,
                        index_count: r.below(30) as u32,
                        index_first: r.below(30) as u32,
                        vertex_count: r.below(30) as u32,
                        vertex_first: r.below(30) as u32,
                    })
                    .collect(),
            });
        }
        if mask & B_HIRES != 0 {
            flags |= 0x200;
            c.header.multipurpose_field = McnkHeader::multipurpose_from_holes(r.next() ^ (r.next() << 32));
        }
        c.header.flags = McnkFlags { value: flags };
        mcnk.push(c);
    }

    let flight = if mask & B_FLIGHT != 0 {
        let mut mx = [0i16; 9];
        let mut mn = [0i16; 9];
        for k in 0..9 {
            mn[k] = r.below(400) as i16 - 200;
            mx[k] = mn[k] + r.below(600) as i16;
        }
        Some(MfboChunk { max_plane: mx, min_plane: mn })
    } else {
        None
    };
    let water = if mask & B_LIQUID != 0 && (!pre_wotlk) { Some(gen_water(&mut r, nchunks)) } else { None };
    let tflags = if mask & B_MTXF != 0 { Some(MtxfChunk { flags: (0..ntex).map(|_| r.below(4) as u32).collect() }) } else { None };
    let amp = if mask & B_MAMP != 0 { Some(MampChunk { amplifier: r.below(16) as u32 }) } else { None };
    let params = if mask & B_MTXP != 0 {
        Some(MtxpChunk {
            entries: (0..ntex)
                .map(|_| TextureHeightParams { flags: r.below(16) as u32, height_scale: r.f(), height_offset: r.f(), padding: 0 })
                .collect(),
        })
    } else {
        None
    };
    let (mut bmh, mut bbb, mut bnv, mut bmi) = (None, None, None, None);
    if mask & B_BLEND != 0 {
        let n = 1 + r.below(2) as usize;
        let mut hs = Vec::new();
        let mut bs = Vec::new();
        let (mut ti, mut tv) = (0u32, 0u32);
        for k in 0..n {
            let ni = 3 * (1 + r.below(3) as u32);
            let nv = 3 + r.below(3) as u32;
            hs.push(MbmhEntry {
                map_object_id: 0x3000 + k as u32,
                texture_id: r.below(ntex.max(1) as u64) as u32,
                unknown: 0,
                mbmi_count: ni,
                mbnv_count: nv,
                mbmi_start: ti,
                mbnv_start: tv,
            });
            let lo = r.f3();
            bs.push(MbbbEntry { map_object_id: 0x3000 + k as u32, min: lo, max: [lo[0] + 1.5, lo[1] + 2.5, lo[2] + 3.5] });
            ti += ni;
            tv += nv;
        }
        bmh = Some(MbmhChunk { entries: hs });
        bbb = Some(MbbbChunk { entries: bs });
        bnv = Some(MbnvChunk {
            vertices: (0..tv)
                .map(|_| MbnvVertex {
                    position: r.f3(),
                    normal: r.f3(),
                    uv: [r.f(), r.f()],
                    color: [
                        [r.byte(), r.byte(), r.byte(), r.byte()],
                        [r.byte(), r.byte(), r.byte(), r.byte()],
                        [r.byte(), r.byte(), r.byte(), r.byte()],
                    ],
                })
                .collect(),
        });
        bmi = Some(MbmiChunk { indices: (0..ti).map(|_| r.below(tv as u64) as u16).collect() });
    }

    (
        Tile { version, textures, models, wmos, doodads, wmops, mcnk, flight, water, tflags, amp, params, bmh, bbb, bnv, bmi },
        ign,
    )
}

// ---------------------------------------------------------------- comparison, part by part
fn header_content(h: &McnkHeader) -> String {
    format!(
        "{:x}/{}/{}/{}/{}/{}/{:x}/{}/{:?}/{:?}/{:?}/{:?}/{:?}",
        h.flags.value,
        h.index_x,
        h.index_y,
        h.n_doodad_refs,
        h.n_map_obj_refs,
        h.area_id,
        h.holes_low_res,
        h.unknown_but_used,
        h.pred_tex,
        h.no_effect_doodad,
        h.unknown_8bytes,
        h.position,
        if h.flags.high_res_holes() { Some(h.multipurpose_field) } else { None },
    )
}

fn water_content(w: &Option<Mh2oChunk>) -> String {
    match w {
        None => "None".to_string(),
        Some(w) => {
            let mut s = format!("n={};", w.entries.len());
            for (i, e) in w.entries.iter().enumerate() {
                if e.instances.is_empty() && e.attributes.is_none() && e.header.layer_count == 0 {
                    continue;
                }
                let inst: Vec<String> = e
                    .instances
                    .iter()
                    .map(|x| {
                        format!(
                            "{}/{}/{:?}/{:?}/{}/{}/{}/{}",
                            x.liquid_type, x.liquid_object_or_lvf, x.min_height_level, x.max_height_level, x.x_offset, x.y_offset, x.width, x.height
                        )
                    })
                    .collect();
                s.push_str(&format!(
                    "[{i}:lc={} I={:?} V={:?} B={:?} A={:?}]",
                    e.header.layer_count, inst, e.vertex_data, e.exists_bitmaps, e.attributes
                ));
            }
            s
        }
    }
}

fn parts(t: &Tile, with_chunks: bool) -> Vec<(&'static str, String)> {
    let mut v: Vec<(&'static str, String)> = vec![
        ("version", format!("{:?}", t.version)),
        ("textures", format!("{:?}", t.textures)),
        ("models", format!("{:?}", t.models)),
        ("wmos", format!("{:?}", t.wmos)),
        ("doodad_placements", format!("{:?}", t.doodads)),
        ("wmo_placements", format!("{:?}", t.wmops)),
        ("flight_bounds", format!("{:?}", t.flight)),
        ("water", water_content(&t.water)),
        ("texture_flags", format!("{:?}", t.tflags)),
        ("texture_amplifier", format!("{:?}", t.amp)),
        ("texture_params", format!("{:?}", t.params)),
        ("blend_mesh_headers", format!("{:?}", t.bmh)),
        ("blend_mesh_bounds", format!("{:?}", t.bbb)),
        ("blend_mesh_vertices", format!("{:?}", t.bnv)),
        ("blend_mesh_indices", format!("{:?}", t.bmi)),
    ];
    if with_chunks {
        let c = &t.mcnk;
        let col = |f: &dyn Fn(&McnkChunk) -> String| -> String { c.iter().map(f).collect::<Vec<_>>().join(";") };
        v.push(("mcnk_count", format!("{}", c.len())));
        v.push(("mcnk_header", col(&|k| header_content(&k.header))));
        v.push(("heights", col(&|k| format!("{:?}", k.heights.as_ref().map(|x| &x.heights)))));
        v.push(("normals", col(&|k| format!("{:?}", k.normals.as_ref().map(|x| &x.normals)))));
        v.push(("layers", col(&|k| format!("{:?}", k.layers))));
        v.push(("alpha", col(&|k| format!("{:?}", k.alpha.as_ref().map(|x| hex(&x.data))))));
        v.push(("shadow", col(&|k| format!("{:?}", k.shadow.as_ref().map(|x| hex(&x.shadow_map))))));
        v.push(("vertex_colors", col(&|k| format!("{:?}", k.vertex_colors.as_ref().map(|x| &x.colors)))));
        v.push(("liquid", col(&|k| format!("{:?}", k.liquid))));
        v.push(("refs", col(&|k| format!("{:?}", k.refs.as_ref().map(|x| &x.references)))));
        v.push(("doodad_refs", col(&|k| format!("{:?}", k.doodad_refs.as_ref().map(|x| &x.doodad_refs)))));
        v.push(("wmo_refs", col(&|k| format!("{:?}", k.wmo_refs.as_ref().map(|x| &x.wmo_refs)))));
        v.push(("sound_emitters", col(&|k| format!("{:?}", k.sound_emitters.as_ref().map(|x| &x.emitters)))));
        v.push(("vertex_lighting", col(&|k| format!("{:?}", k.vertex_lighting.as_ref().map(|x| &x.colors)))));
        v.push(("materials", col(&|k| format!("{:?}", k.materials))));
        v.push(("doodad_disable", col(&|k| format!("{:?}", k.doodad_disable.as_ref().map(|x| hex(&x.disable))))));
        v.push(("blend_batches", col(&|k| format!("{:?}", k.blend_batches))));
    } else {
        v.push(("mcnk_count", format!("{}", t.mcnk.len())));
    }
    v
}

/// names of the parts that differ ('-' if none)
fn diff(a: &Tile, b: &Tile, with_chunks: bool, expect_count: Option<usize>) -> (bool, String) {
    let pa = parts(a, with_chunks);
    let pb = parts(b, with_chunks);
    let mut d: Vec<&str> = Vec::new();
    for ((n, x), (_, y)) in pa.iter().zip(pb.iter()) {
        if *n == "mcnk_count" {
            if let Some(k) = expect_count {
                if *y != format!("{k}") {
                    d.push(n);
                }
                continue;
            }
        }
        if x != y {
            d.push(n);
        }
    }
    if d.is_empty() {
        (true, "-".to_string())
    } else {
        (false, d.join(","))
    }
}

fn counts(r: &RootAdt) -> String {
    let c = &r.mcnk_chunks;
    let n = |f: &dyn Fn(&McnkChunk) -> bool| c.iter().filter(|k| f(k)).count();
    let ol = |o: Option<usize>| o.map_or("-".to_string(), |x| format!("{x:x}"));
    let mut v: Vec<String> = Vec::new();
    let mut p = |k: &str, x: usize| v.push(format!("{k}:{x:x}"));
    p("textures", r.textures.len());
    p("models", r.models.len());
    p("mmid", r.model_indices.len());
    p("wmos", r.wmos.len());
    p("mwid", r.wmo_indices.len());
    p("doodad_placements", r.doodad_placements.len());
    p("wmo_placements", r.wmo_placements.len());
    p("mcnk", c.len());
    p("mcin_nonzero", r.mcin.entries.iter().filter(|e| e.offset != 0).count());
    p("heights", n(&|k| k.heights.is_some()));
    p("normals", n(&|k| k.normals.is_some()));
    p("layers", n(&|k| k.layers.is_some()));
    p("nlayers_bad", n(&|k| k.header.n_layers as usize != k.layers.as_ref().map_or(0, |l| l.layers.len())));
    p("alpha", n(&|k| k.alpha.is_some()));
    p("shadow", n(&|k| k.shadow.is_some()));
    p("mccv", n(&|k| k.vertex_colors.is_some()));
    p("mclq", n(&|k| k.liquid.is_some()));
    p("mcrf", n(&|k| k.refs.is_some()));
    p("mcrd", n(&|k| k.doodad_refs.is_some()));
    p("mcrw", n(&|k| k.wmo_refs.is_some()));
    p("mcse", n(&|k| k.sound_emitters.is_some()));
    p("mclv", n(&|k| k.vertex_lighting.is_some()));
    p("mcmt", n(&|k| k.materials.is_some()));
    p("mcdd", n(&|k| k.doodad_disable.is_some()));
    p("mcbb", n(&|k| k.blend_batches.is_some()));
    p("mfbo", r.flight_bounds.is_some() as usize);
    p("mh2o", r.water_data.as_ref().map_or(0, |w| w.entries.iter().filter(|e| !e.instances.is_empty()).count()));
    p("mamp", r.texture_amplifier.is_some() as usize);
    v.push(format!("mtxf:{}", ol(r.texture_flags.as_ref().map(|x| x.flags.len()))));
    v.push(format!("mtxp:{}", ol(r.texture_params.as_ref().map(|x| x.entries.len()))));
    v.push(format!("mbmh:{}", ol(r.blend_mesh_headers.as_ref().map(|x| x.entries.len()))));
    v.push(format!("mbbb:{}", ol(r.blend_mesh_bounds.as_ref().map(|x| x.entries.len()))));
    v.push(format!("mbnv:{}", ol(r.blend_mesh_vertices.as_ref().map(|x| x.vertices.len()))));
    v.push(format!("mbmi:{}", ol(r.blend_mesh_indices.as_ref().map(|x| x.indices.len()))));
    v.join(",")
}

// ---------------------------------------------------------------- steps
fn clean(s: &str) -> String {
    let t: String = s.chars().map(|c| if c.is_whitespace() || c.is_control() { '_' } else { c }).collect();
    t.chars().take(120).collect()
}

fn step<T>(name: &str, f: impl FnOnce() -> Result<T, String>) -> Result<T, String> {
    match catch_unwind(AssertUnwindSafe(f)) {
        Ok(Ok(v)) => Ok(v),
        Ok(Err(e)) => Err(format!("{name}-ERR_{}", clean(&e))),
        Err(p) => {
            let m = p.downcast_ref::<String>().cloned().or_else(|| p.downcast_ref::<&str>().map(|s| s.to_string())).unwrap_or_default();
            Err(format!("{name}-PANIC_{}", clean(&m)))
        }
    }
}

fn parse_root(bytes: &[u8]) -> Result<RootAdt, String> {
    let mut c = Cursor::new(bytes);
    match parse_adt(&mut c) {
        Ok(ParsedAdt::Root(r)) => Ok(*r),
        Ok(other) => Err(format!("not a root file: {:?}", other.file_type())),
        Err(e) => Err(e.to_string()),
    }
}

fn reserialise(p: &RootAdt, from_parsed: bool) -> Result<Vec<u8>, String> {
    let built: BuiltAdt = if from_parsed {
        AdtBuilder::from_parsed(p.clone()).build().map_err(|e| format!("build: {e}"))?
    } else {
        BuiltAdt::from_root_adt(p.clone(), None)
    };
    built.to_bytes().map_err(|e| e.to_string())
}

fn layout(r: &RootAdt) -> String {
    format!("{:?}|{:?}|{:?}", r.mhdr, r.mcin.entries, r.mcnk_chunks.iter().map(|c| format!("{:?}", c.header)).collect::<Vec<_>>())
}

// ---------------------------------------------------------------- independent chunk walk
fn four(b: &[u8], at: usize) -> String {
    if at + 4 > b.len() {
        return "----".to_string();
    }
    (0..4)
        .map(|i| {
            let c = b[at + 3 - i];
            if (0x21..0x7f).contains(&c) {
                c as char
            } else {
                '?'
            }
        })
        .collect()
}

fn u32at(b: &[u8], at: usize) -> Option<u32> {
    if at + 4 > b.len() {
        None
    } else {
        Some(u32::from_le_bytes([b[at], b[at + 1], b[at + 2], b[at + 3]]))
    }
}

/// (chunks as (id, offset, size), offset where the walk stopped)
fn walk(b: &[u8]) -> (Vec<(String, usize, usize)>, usize) {
    let mut v = Vec::new();
    let mut off = 0usize;
    loop {
        if off + 8 > b.len() {
            break;
        }
        let size = u32at(b, off + 4).unwrap() as usize;
        if off + 8 + size > b.len() {
            break;
        }
        v.push((four(b, off), off, size));
        off += 8 + size;
    }
    (v, off)
}

const MHDR_FIELDS: [&str; 11] = ["mcin", "mtex", "mmdx", "mmid", "mwmo", "mwid", "mddf", "modf", "mfbo", "mh2o", "mtxf"];

/// (name, offset, four chars found) for every non-zero MHDR offset field; plus MHDR flags
fn mhdr_entries(b: &[u8], chunks: &[(String, usize, usize)]) -> Option<(u32, Vec<(&'static str, u32, String)>)> {
    let (_, off, size) = chunks.iter().find(|c| c.0 == "MHDR")?;
    let base = off + 8;
    let flags = if *size >= 4 { u32at(b, base).unwrap_or(0) } else { 0 };
    let mut v = Vec::new();
    for (i, name) in MHDR_FIELDS.iter().enumerate() {
        let fo = 4 + 4 * i;
        if fo + 4 > *size {
            break;
        }
        let o = u32at(b, base + fo).unwrap_or(0);
        if o != 0 {
            v.push((*name, o, four(b, base + o as usize)));
        }
    }
    Some((flags, v))
}

/// (entries pointing at an MCNK chunk, non-zero entries)
fn mcin_check(b: &[u8], chunks: &[(String, usize, usize)]) -> Option<(usize, usize)> {
    let (_, off, size) = chunks.iter().find(|c| c.0 == "MCIN")?;
    let base = off + 8;
    let (mut good, mut nz) = (0, 0);
    for i in 0..size / 16 {
        let o = u32at(b, base + 16 * i).unwrap_or(0) as usize;
        if o != 0 {
            nz += 1;
            if four(b, o) == "MCNK" {
                good += 1;
            }
        }
    }
    Some((good, nz))
}

/// Inside every top-level MCNK: does the payload after the 0x80-byte header tile exactly into
/// sub-chunks, and does every non-zero offset of the MCNK header hit a sub-chunk of the named type?
/// Returns (mcnk that tile, offsets that are right, non-zero offsets, first few wrong ones).
fn mcnk_check(b: &[u8], chunks: &[(String, usize, usize)]) -> (usize, usize, usize, Vec<String>) {
    // (header field offset, name, accepted ids)
    const OFS: [(usize, &str, &[&str]); 10] = [
        (0x14, "height", &["MCVT"]),
        (0x18, "normal", &["MCNR"]),
        (0x1c, "layer", &["MCLY"]),
        (0x20, "refs", &["MCRF", "MCRD", "MCRW"]),
        (0x24, "alpha", &["MCAL"]),
        (0x2c, "shadow", &["MCSH"]),
        (0x58, "snd", &["MCSE"]),
        (0x60, "liquid", &["MCLQ"]),
        (0x74, "mccv", &["MCCV"]),
        (0x78, "mclv", &["MCLV"]),
    ];
    let (mut tiles, mut good, mut nz) = (0, 0, 0);
    let mut bad = Vec::new();
    for (k, (_, off, size)) in chunks.iter().filter(|c| c.0 == "MCNK").enumerate() {
        let (start, end) = (*off, off + 8 + size);
        // sub-chunk walk (the 8 bytes of zero padding the library puts after the 0x80 header read as an empty chunk)
        let mut p = start + 8 + 0x80;
        let mut starts = Vec::new();
        while p + 8 <= end {
            let s = u32at(b, p + 4).unwrap() as usize;
            if p + 8 + s > end {
                break;
            }
            starts.push(p);
            p += 8 + s;
        }
        if p == end && *size >= 0x80 {
            tiles += 1;
        }
        if *size < 0x80 {
            continue;
        }
        let flags = u32at(b, start + 8).unwrap_or(0);
        for (fo, name, ids) in OFS.iter() {
            if flags & 0x200 != 0 && (*fo == 0x14 || *fo == 0x18) {
                continue; // field holds the high-res hole bitmap
            }
            let o = u32at(b, start + 8 + fo).unwrap_or(0) as usize;
            if o == 0 {
                continue;
            }
            nz += 1;
            let f = four(b, start + o);
            if ids.contains(&f.as_str()) && starts.contains(&(start + o)) {
                good += 1;
            } else if bad.len() < 8 {
                bad.push(format!("{k:x}.{name}:{o:x}:{f}"));
            }
        }
    }
    (tiles, good, nz, bad)
}

fn cmd_chunks(bytes: &[u8]) -> String {
    let (ch, end) = walk(bytes);
    let list = if ch.is_empty() { "-".to_string() } else { ch.iter().map(|(id, o, s)| format!("{id}:{o:x}:{s:x}")).collect::<Vec<_>>().join(",") };
    let mut s = format!("{list} END={end:x} LEN={:x}", bytes.len());
    if let Some((flags, v)) = mhdr_entries(bytes, &ch) {
        let l = if v.is_empty() { "-".to_string() } else { v.iter().map(|(n, o, f)| format!("{n}:{o:x}:{f}")).collect::<Vec<_>>().join(",") };
        s.push_str(&format!(" MHDR={l} MHDRFLAGS={flags:x}"));
    }
    if let Some((g, nz)) = mcin_check(bytes, &ch) {
        s.push_str(&format!(" MCIN={g:x}/{nz:x}"));
    }
    let nk = ch.iter().filter(|c| c.0 == "MCNK").count();
    let (tiles, good, nz, bad) = mcnk_check(bytes, &ch);
    s.push_str(&format!(" MCNK={nk:x} SUB={tiles:x}/{nk:x} MCNKOFS={good:x}/{nz:x}"));
    if !bad.is_empty() {
        s.push_str(&format!(" BAD={}", bad.join(",")));
    }
    s
}

/// "1" when the framing tiles the file, every MHDR offset hits a chunk of the named type, every
/// non-zero MCIN entry hits an MCNK and their number equals the number of MCNK chunks; else "0(reasons)"
fn frame_ok(bytes: &[u8]) -> String {
    let (ch, end) = walk(bytes);
    let mut bad: Vec<String> = Vec::new();
    if end != bytes.len() {
        bad.push("end".to_string());
    }
    match mhdr_entries(bytes, &ch) {
        None => bad.push("nomhdr".to_string()),
        Some((_, v)) => {
            for (n, o, f) in v {
                let at = ch.iter().find(|c| c.0 == "MHDR").map(|c| c.1 + 8).unwrap_or(0) + o as usize;
                let is_chunk_start = ch.iter().any(|c| c.1 == at);
                if f.to_lowercase() != n || !is_chunk_start {
                    bad.push(format!("mhdr.{n}"));
                }
            }
        }
    }
    match mcin_check(bytes, &ch) {
        None => bad.push("nomcin".to_string()),
        Some((g, nz)) => {
            let k = ch.iter().filter(|c| c.0 == "MCNK").count();
            if g != nz {
                bad.push("mcin.target".to_string());
            }
            if nz != k {
                bad.push("mcin.count".to_string());
            }
        }
    }
    let nk = ch.iter().filter(|c| c.0 == "MCNK").count();
    let (tiles, good, nz, _) = mcnk_check(bytes, &ch);
    if tiles != nk {
        bad.push("mcnk.sub".to_string());
    }
    if good != nz {
        bad.push("mcnk.ofs".to_string());
    }
    if bad.is_empty() {
        "1".to_string()
    } else {
        format!("0({})", bad.join("+"))
    }
}

// ---------------------------------------------------------------- build command
fn cmd_build(t: &[&str]) -> String {
    if t.len() < 10 {
        return "ERR usage:_build_<version>_<seed>_<ntex>_<nmodels>_<nwmos>_<ndoodad>_<nwmoplace>_<nchunks>_<optmask>".to_string();
    }
    let vi = num(t[1]) as usize;
    let Some(&version) = VERSIONS.get(vi) else { return "ERR unknown_version_index".to_string() };
    let seed = num(t[2]);
    let (ntex, nmod, nwmo) = (num(t[3]) as usize, num(t[4]) as usize, num(t[5]) as usize);
    let (ndoo, nwp) = (num(t[6]) as usize, num(t[7]) as usize);
    let nchunks = num(t[8]) as usize;
    let mask = num(t[9]);
    if ntex > 0x1000 || nmod > 0x1000 || nwmo > 0x1000 || ndoo > 0x4000 || nwp > 0x4000 || nchunks > 0x101 {
        return "ERR counts_too_large".to_string();
    }

    let (exp, ign) = match step("GEN", || Ok(generate(version, seed, ntex, nmod, nwmo, ndoo, nwp, nchunks, mask))) {
        Ok(x) => x,
        Err(e) => return format!("B1={e}"),
    };
    let ign_s = if ign.is_empty() { "-".to_string() } else { ign.join(",") };
    let dash = || "-".to_string();

    // builder -> B1
    let b1 = step("BUILD", || exp.clone().into_builder().build().map_err(|e| e.to_string()))
        .and_then(|built| step("WRITE", || built.to_bytes().map_err(|e| e.to_string())));
    // P1
    let p1 = match &b1 {
        Ok(b) => step("PARSE", || parse_root(b)),
        Err(_) => Err(dash()),
    };
    // compare with what went in (with no chunk given the serialiser invents 256 flat ones: only the count is compared)
    // (documented default of the serialiser: WotLK+ files always carry an MTXF, all zero when none was given)
    let mut exp1 = exp.clone();
    if exp1.tflags.is_none() && version >= AdtVersion::WotLK {
        exp1.tflags = Some(MtxfChunk { flags: vec![0; ntex] });
    }
    let (eq1, diff1) = match &p1 {
        Ok(p) => match step("CMP", || Ok(diff(&exp1, &Tile::from_root(p), nchunks > 0, if nchunks == 0 { Some(256) } else { None }))) {
            Ok((e, d)) => ((e as u8).to_string(), d),
            Err(e) => (e, dash()),
        },
        Err(e) => (e.clone(), dash()),
    };
    // second generation
    let from_parsed = mask & B_FROMPARSED != 0;
    let b2 = match &p1 {
        Ok(p) => step("WRITE", || reserialise(p, from_parsed)),
        Err(_) => Err(dash()),
    };
    let p2 = match &b2 {
        Ok(b) => step("PARSE", || parse_root(b)),
        Err(_) => Err(dash()),
    };
    let (eq2, diff2, hdr2) = match (&p1, &p2) {
        (Ok(a), Ok(b)) => match step("CMP", || Ok((diff(&Tile::from_root(a), &Tile::from_root(b), true, None), layout(a) == layout(b)))) {
            Ok(((e, d), l)) => ((e as u8).to_string(), d, (l as u8).to_string()),
            Err(e) => (e, dash(), dash()),
        },
        (_, Err(e)) => (e.clone(), dash(), dash()),
        _ => (dash(), dash(), dash()),
    };
    let b3 = match &p2 {
        Ok(p) => step("WRITE", || reserialise(p, from_parsed)),
        Err(_) => Err(dash()),
    };
    let stable = match (&b2, &b3) {
        (Ok(a), Ok(b)) => ((a == b) as u8).to_string(),
        (_, Err(e)) => e.clone(),
        _ => dash(),
    };

    let b1s = match &b1 {
        Ok(b) => {
            if mask & B_NOHEX != 0 {
                "~".to_string()
            } else {
                hex(b)
            }
        }
        Err(e) => e.clone(),
    };
    let l = |b: &Result<Vec<u8>, String>| match b {
        Ok(b) => format!("{:x}", b.len()),
        Err(e) => e.clone(),
    };
    let fr = |b: &Result<Vec<u8>, String>| match b {
        Ok(b) => step("FRAME", || Ok(frame_ok(b))).unwrap_or_else(|e| e),
        Err(_) => dash(),
    };
    let nm = |v: &Vec<String>| if v.is_empty() { "-".to_string() } else { v.iter().map(|s| hex(s.as_bytes())).collect::<Vec<_>>().join(",") };
    let (names_s, counts_s) = match &p1 {
        Ok(p) => (format!("{}|{}|{}", nm(&p.textures), nm(&p.models), nm(&p.wmos)), step("COUNTS", || Ok(counts(p))).unwrap_or_else(|e| e)),
        Err(_) => (dash(), dash()),
    };
    let ver = format!(
        "{:x},{},{}",
        vi,
        p1.as_ref().map_or(dash(), |p| format!("{:x}", vidx(p.version))),
        p2.as_ref().map_or(dash(), |p| format!("{:x}", vidx(p.version)))
    );
    format!(
        "B1={b1s} LEN={},{},{} EQ1={eq1} DIFF1={diff1} EQ2={eq2} DIFF2={diff2} STABLE={stable} NAMES={names_s} COUNTS={counts_s} IGN={ign_s} VER={ver} HDR2={hdr2} FRAME={},{},{}",
        if b1.is_ok() { l(&b1) } else { dash() },
        l(&b2),
        l(&b3),
        fr(&b1),
        fr(&b2),
        fr(&b3)
    )
}

fn main() {
    serve(|t| match t[0] {
        "build" => cmd_build(t),
        "chunks" => {
            if t.len() < 2 {
                return "ERR usage:_chunks_<hex>".to_string();
            }
            cmd_chunks(&unhex(t[1]))
        }
        _ => "ERR unknown".to_string(),
    });
}
