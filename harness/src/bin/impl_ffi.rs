//! Implementation-side runner for C19: call histories on the StormLib-style C API
//! (storm-ffi compiled in from its source file), with guard bytes around every buffer.
#![allow(dead_code, unused_imports, non_snake_case, clippy::all)]
use std::ffi::{CStr, CString};
use std::os::raw::{c_char, c_void};
use verif_harness::{hex, num, serve, unhex};
use wow_mpq::Archive;

#[path = "/repo/ffi/storm-ffi/src/lib.rs"]
mod storm;
use storm::*;

const GUARD: usize = 64;

fn h(v: u64) -> HANDLE { v as usize as HANDLE }

/// buffer of n bytes between two guard zones
struct Guarded { v: Vec<u8>, n: usize }
impl Guarded {
    fn new(n: usize) -> Self { Guarded { v: vec![0xA5u8; n + 2 * GUARD], n } }
    fn ptr(&mut self) -> *mut u8 { unsafe { self.v.as_mut_ptr().add(GUARD) } }
    fn data(&self) -> &[u8] { &self.v[GUARD..GUARD + self.n] }
    fn intact(&self) -> bool { self.v[..GUARD].iter().all(|b| *b == 0xA5) && self.v[GUARD + self.n..].iter().all(|b| *b == 0xA5) }
}

fn err() -> String { format!("E{}", SFileGetLastError()) }

fn run_history(paths: &[&str], calls: &[&str]) -> String {
    let mut out = Vec::new();
    for c in calls {
        let p: Vec<&str> = c.split('.').collect();
        let r = unsafe {
            match p[0] {
                "o" => {
                    let k = num(p[1]) as usize;
                    if k >= paths.len() { "E2".to_string() } else {
                        let cp = CString::new(paths[k]).unwrap();
                        let mut hd: HANDLE = std::ptr::null_mut();
                        if SFileOpenArchive(cp.as_ptr(), 0, 0, &mut hd) { format!("H{:x}", hd as usize) } else { "E2".to_string() }
                    }
                }
                "c" => if SFileCloseArchive(h(num(p[1]))) { "OK".to_string() } else { err() },
                "of" => {
                    let cn = CString::new(unhex(p[2])).unwrap();
                    let mut fh: HANDLE = std::ptr::null_mut();
                    if SFileOpenFileEx(h(num(p[1])), cn.as_ptr(), 0, &mut fh) { format!("H{:x}", fh as usize) } else { err() }
                }
                "cf" => if SFileCloseFile(h(num(p[1]))) { "OK".to_string() } else { err() },
                "rd" => {
                    let n = num(p[2]) as usize;
                    let mut g = Guarded::new(n);
                    let mut got: u32 = 0xdeadbeef;
                    let ok = SFileReadFile(h(num(p[1])), g.ptr() as *mut c_void, n as u32, &mut got, std::ptr::null_mut());
                    if !g.intact() { "GUARD-VIOLATION".to_string() }
                    else if ok { if got as usize > n { "GUARD-VIOLATION-COUNT".to_string() } else { format!("D{}", hex(&g.data()[..got as usize])) } } else { err() }
                }
                "sk" => {
                    let off: i64 = p[2].parse().unwrap();
                    let method = num(p[3]) as u32;
                    let mut hi_out: u32 = 0;
                    let r = if off >= i32::MIN as i64 && off <= i32::MAX as i64 && p.len() < 5 {
                        SFileSetFilePointer(h(num(p[1])), off as i32, std::ptr::null_mut(), method)
                    } else {
                        let mut hi: i32 = (off >> 32) as i32;
                        let r = SFileSetFilePointer(h(num(p[1])), off as i32, &mut hi, method);
                        hi_out = hi as u32;
                        r
                    };
                    // the position reported to the caller is the pair (high out-parameter, return value)
                    if r == 0xFFFFFFFF && SFileGetLastError() != 0 { err() } else { format!("N{:x}", ((hi_out as u64) << 32) | r as u64) }
                }
                "sz" => {
                    let mut hi: u32 = 0;
                    let r = SFileGetFileSize(h(num(p[1])), &mut hi);
                    if r == 0xFFFFFFFF && SFileGetLastError() != 0 { err() } else { format!("N{:x}", ((hi as u64) << 32) | r as u64) }
                }
                "hs" => {
                    let cn = CString::new(unhex(p[2])).unwrap();
                    let r = SFileHasFile(h(num(p[1])), cn.as_ptr());
                    // SFileHasFile does not set an error code: an invalid handle answers false
                    format!("B{}", r as u8)
                }
                "ff" | "fn" => {
                    let mut fd: SFILE_FIND_DATA = std::mem::zeroed();
                    let (okh, okb) = if p[0] == "ff" {
                        let cm = CString::new(unhex(p[2])).unwrap();
                        let r = SFileFindFirstFile(h(num(p[1])), cm.as_ptr(), &mut fd, std::ptr::null());
                        (r as usize, !r.is_null())
                    } else {
                        (0, SFileFindNextFile(h(num(p[1])), &mut fd))
                    };
                    if okb {
                        let name = CStr::from_ptr(fd.c_file_name.as_ptr()).to_bytes().to_vec();
                        let base = fd.c_file_name.as_ptr() as usize;
                        let pn = fd.sz_plain_name as usize;
                        if pn < base || pn >= base + 260 { "PLAIN-NAME-OUTSIDE".to_string() }
                        else if p[0] == "ff" { format!("H{:x}:{}", okh, hex(&name)) } else { format!("S{}", hex(&name)) }
                    } else { err() }
                }
                "fc" => if SFileFindClose(h(num(p[1]))) { "OK".to_string() } else { err() },
                // archive name into a buffer of the given size
                "an" => {
                    let n = num(p[2]) as usize;
                    let mut g = Guarded::new(n);
                    let ok = SFileGetArchiveName(h(num(p[1])), g.ptr() as *mut c_char, n as u32);
                    if !g.intact() { "GUARD-VIOLATION".to_string() }
                    else if ok { let d = g.data(); let e = d.iter().position(|b| *b == 0).unwrap_or(d.len()); format!("S{}", hex(&d[..e])) } else { err() }
                }
                // file name into a MAX_PATH buffer (the StormLib contract)
                "gn" => {
                    let mut g = Guarded::new(260);
                    let ok = SFileGetFileName(h(num(p[1])), g.ptr() as *mut c_char);
                    if !g.intact() { "GUARD-VIOLATION".to_string() }
                    else if ok { let d = g.data(); let e = d.iter().position(|b| *b == 0).unwrap_or(d.len()); format!("S{}", hex(&d[..e])) } else { err() }
                }
                // file info (class, buffer size)
                "gi" => {
                    let n = num(p[3]) as usize;
                    let mut g = Guarded::new(n);
                    let mut need: u32 = 0;
                    let ok = SFileGetFileInfo(h(num(p[1])), num(p[2]) as u32, g.ptr() as *mut c_void, n as u32, &mut need);
                    if !g.intact() { "GUARD-VIOLATION".to_string() } else if ok { format!("D{}", hex(&g.data()[..(need as usize).min(n)])) } else { err() }
                }
                "va" => if SFileVerifyArchive(h(num(p[1])), num(p[2]) as u32) { "OK".to_string() } else { err() },
                "vf" => { let cn = CString::new(unhex(p[2])).unwrap(); if SFileVerifyFile(h(num(p[1])), cn.as_ptr(), 0) { "OK".to_string() } else { err() } }
                _ => "?".to_string(),
            }
        };
        out.push(r);
    }
    out.join(",")
}

fn isolated<F: FnOnce() -> String>(f: F, secs: u32) -> String {
    unsafe {
        let mut fds = [0i32; 2];
        if libc::pipe(fds.as_mut_ptr()) != 0 { return "ABORT".to_string(); }
        let pid = libc::fork();
        if pid == 0 {
            libc::close(fds[0]);
            libc::alarm(secs);
            let s = std::panic::catch_unwind(std::panic::AssertUnwindSafe(f)).unwrap_or("PANIC".to_string());
            let b = s.as_bytes();
            let mut off = 0;
            while off < b.len() {
                let n = libc::write(fds[1], b[off..].as_ptr() as *const libc::c_void, b.len() - off);
                if n <= 0 { break; }
                off += n as usize;
            }
            libc::_exit(0);
        }
        libc::close(fds[1]);
        let mut out = Vec::new();
        let mut buf = [0u8; 65536];
        loop {
            let n = libc::read(fds[0], buf.as_mut_ptr() as *mut libc::c_void, buf.len());
            if n <= 0 { break; }
            out.extend_from_slice(&buf[..n as usize]);
        }
        libc::close(fds[0]);
        let mut st = 0i32;
        libc::waitpid(pid, &mut st, 0);
        if libc::WIFEXITED(st) && libc::WEXITSTATUS(st) == 0 && !out.is_empty() { String::from_utf8_lossy(&out).to_string() }
        else if libc::WIFSIGNALED(st) && libc::WTERMSIG(st) == libc::SIGALRM { "HANG".to_string() }
        else if libc::WIFSIGNALED(st) { format!("ABORT-SIG{}", libc::WTERMSIG(st)) } else { "ABORT".to_string() }
    }
}

/// threads share one archive handle and a few file handles; each also works on handles of its own
fn stress(path: &str, other: Option<&str>, names: &[String], contents: &[Vec<u8>], threads: usize, iters: usize, seed: u64) -> String {
    let cp = CString::new(path).unwrap();
    let mut hd: HANDLE = std::ptr::null_mut();
    if !unsafe { SFileOpenArchive(cp.as_ptr(), 0, 0, &mut hd) } { return "OPEN-FAIL".to_string(); }
    let ah = hd as usize;
    let mut shared = Vec::new();
    for n in names.iter().take(2) {
        let cn = CString::new(n.as_str()).unwrap();
        let mut fh: HANDLE = std::ptr::null_mut();
        if unsafe { SFileOpenFileEx(ah as HANDLE, cn.as_ptr(), 0, &mut fh) } { shared.push(fh as usize); }
    }
    let bad = std::sync::Arc::new(std::sync::Mutex::new(Vec::<String>::new()));
    let mut hs = Vec::new();
    for t in 0..threads {
        let names = names.to_vec();
        let contents = contents.to_vec();
        let shared = shared.clone();
        let bad = bad.clone();
        let other = other.map(|o| CString::new(o).unwrap());
        hs.push(std::thread::spawn(move || {
            let mut x = seed.wrapping_mul(6364136223846793005).wrapping_add((t as u64).wrapping_mul(1442695040888963407).wrapping_add(1));
            let mut rnd = move |m: u64| { x ^= x << 13; x ^= x >> 7; x ^= x << 17; x % m.max(1) };
            let mut ops = 0u64;
            for _ in 0..iters {
                let k = rnd(names.len() as u64) as usize;
                let cn = CString::new(names[k].as_str()).unwrap();
                unsafe {
                    match rnd(if other.is_some() { 11 } else { 8 }) {
                        0 | 1 => {
                            // own handle: open, read in random chunks, compare, close
                            let mut fh: HANDLE = std::ptr::null_mut();
                            if SFileOpenFileEx(ah as HANDLE, cn.as_ptr(), 0, &mut fh) {
                                let mut got = Vec::new();
                                loop {
                                    let n = 1 + rnd(300) as usize;
                                    let mut g = Guarded::new(n);
                                    let mut r: u32 = 0;
                                    if !SFileReadFile(fh, g.ptr() as *mut c_void, n as u32, &mut r, std::ptr::null_mut()) { break; }
                                    if !g.intact() { bad.lock().unwrap().push("guard".into()); }
                                    if r == 0 { break; }
                                    got.extend_from_slice(&g.data()[..r as usize]);
                                }
                                if got != contents[k] { bad.lock().unwrap().push(format!("content of {} differs on a private handle", names[k])); }
                                SFileCloseFile(fh);
                            } else { bad.lock().unwrap().push(format!("open of {} failed", names[k])); }
                        }
                        2 => { if !SFileHasFile(ah as HANDLE, cn.as_ptr()) { bad.lock().unwrap().push("has-file false".into()); } }
                        3 => {
                            let mut fd: SFILE_FIND_DATA = std::mem::zeroed();
                            let q = SFileFindFirstFile(ah as HANDLE, std::ptr::null(), &mut fd, std::ptr::null());
                            if !q.is_null() { while SFileFindNextFile(q, &mut fd) {} SFileFindClose(q); }
                        }
                        4 => {
                            let mut b = [0u8; 16]; let mut need = 0u32;
                            SFileGetFileInfo(ah as HANDLE, 1 + rnd(4) as u32, b.as_mut_ptr() as *mut c_void, 16, &mut need);
                            if !shared.is_empty() { SFileGetFileInfo(shared[0] as HANDLE, 7, b.as_mut_ptr() as *mut c_void, 16, &mut need); }
                        }
                        5 => {
                            if !shared.is_empty() {
                                let s = shared[rnd(shared.len() as u64) as usize];
                                let mut g = Guarded::new(40); let mut r = 0u32;
                                SFileReadFile(s as HANDLE, g.ptr() as *mut c_void, 40, &mut r, std::ptr::null_mut());
                                if !g.intact() || r > 40 { bad.lock().unwrap().push("guard on shared".into()); }
                                SFileSetFilePointer(s as HANDLE, rnd(50) as i32 - 25, std::ptr::null_mut(), rnd(3) as u32);
                            }
                        }
                        6 => { let mut g = Guarded::new(400); SFileGetArchiveName(ah as HANDLE, g.ptr() as *mut c_char, 400); if !g.intact() { bad.lock().unwrap().push("guard name".into()); } }
                        7 => { SFileVerifyFile(ah as HANDLE, cn.as_ptr(), 0); }
                        _ => {
                            // a second archive opened, searched and closed while the other threads enumerate the first one
                            let o = other.as_ref().unwrap();
                            let mut h2: HANDLE = std::ptr::null_mut();
                            if SFileOpenArchive(o.as_ptr(), 0, 0, &mut h2) {
                                let mut fd: SFILE_FIND_DATA = std::mem::zeroed();
                                let q = SFileFindFirstFile(h2, std::ptr::null(), &mut fd, std::ptr::null());
                                if !q.is_null() && rnd(2) == 0 { SFileFindClose(q); }
                                if !SFileCloseArchive(h2) { bad.lock().unwrap().push("close of the second archive failed".into()); }
                            } else { bad.lock().unwrap().push("open of the second archive failed".into()); }
                        }
                    }
                }
                ops += 1;
            }
            ops
        }));
    }
    let mut total = 0;
    for hnd in hs { match hnd.join() { Ok(n) => total += n, Err(_) => return "THREAD-PANIC".to_string() } }
    SFileCloseArchive(ah as HANDLE);
    let b = bad.lock().unwrap();
    if b.is_empty() { format!("OK {}", total) } else { format!("BAD {}", b[0]) }
}

fn main() {
    serve(|t| match t[0] {
        // world <archive>: the Rust API's view: names in list() order with contents
        "world" => {
            let mut a = match Archive::open(t[1]) { Ok(a) => a, Err(_) => return "OPEN-ERR".to_string() };
            let l = match a.list() { Ok(l) => l, Err(_) => return "NOLIST".to_string() };
            let v: Vec<String> = l.iter().map(|e| format!("{}:{}", hex(e.name.as_bytes()), match a.read_file(&e.name) { Ok(d) => hex(&d), Err(_) => "ERR".to_string() })).collect();
            v.join(",")
        }
        // hist <paths ,> <calls ,>: runs in a forked child so that the handle counter starts at 1
        "hist" => {
            let paths: Vec<&str> = t[1].split(',').collect();
            let calls: Vec<&str> = t[2].split(',').collect();
            isolated(|| run_history(&paths, &calls), 30)
        }
        // stress <path> <threads> <iters> <seed> [<second archive>]
        "stress" => {
            let path = t[1].to_string();
            let (th, it, sd) = (num(t[2]) as usize, num(t[3]) as usize, num(t[4]));
            let mut a = Archive::open(&path).unwrap();
            let names: Vec<String> = a.list().unwrap().iter().map(|e| e.name.clone()).filter(|n| !n.starts_with('(')).collect();
            let contents: Vec<Vec<u8>> = names.iter().map(|n| a.read_file(n).unwrap()).collect();
            drop(a);
            let other = t.get(5).map(|s| s.to_string());
            isolated(move || stress(&path, other.as_deref(), &names, &contents, th, it, sd), 60)
        }
        // modhist <dir> <ops ,>: the same modification history through the C API (SFileCreateArchive, SFileAddFileEx, SFileRemoveFile,
        //   SFileRenameFile, SFileFlushArchive, SFileCompactArchive, SFileCloseArchive) and through the Rust API (ArchiveBuilder +
        //   MutableArchive); per-operation outcomes and the contents of the two resulting archives must agree.
        //   ops: a.<name>.<data>.<flags>.<compression> | r.<name> | m.<old>.<new> | f | c | e (SFileEnumFiles against Archive::list)
        "modhist" => {
            let dir = t[1].to_string();
            let ops: Vec<String> = t[2].split(',').map(|x| x.to_string()).collect();
            isolated(move || {
                use wow_mpq::{AddFileOptions, ArchiveBuilder, FormatVersion, ListfileOption, MutableArchive};
                use wow_mpq::compression::CompressionMethod;
                let (pa, pb) = (format!("{dir}/ffi.mpq"), format!("{dir}/rust.mpq"));
                let _ = std::fs::remove_file(&pa); let _ = std::fs::remove_file(&pb);
                let ca = CString::new(pa.as_str()).unwrap();
                let mut hd: HANDLE = std::ptr::null_mut();
                // SFileCreateArchive2 hands out a writable handle (SFileCreateArchive reopens the new archive read-only)
                let mut ci: SFILE_CREATE_MPQ = unsafe { std::mem::zeroed() };
                ci.cb_size = std::mem::size_of::<SFILE_CREATE_MPQ>() as u32;
                ci.mpq_version = 2; ci.file_flags_1 = 1; ci.sector_size = 3; ci.max_file_count = 16;
                if !unsafe { SFileCreateArchive2(ca.as_ptr(), &ci, &mut hd) } { return format!("CREATE-FAIL {}", SFileGetLastError()); }
                if ArchiveBuilder::new().version(FormatVersion::V2).block_size(3).listfile_option(ListfileOption::Generate).build(&pb).is_err() { return "RUST-CREATE-FAIL".to_string(); }
                let mut mb = match MutableArchive::open(&pb) { Ok(m) => m, Err(_) => return "RUST-OPEN-FAIL".to_string() };
                let mut names: Vec<String> = Vec::new();
                for (k, op) in ops.iter().enumerate() {
                    let p: Vec<&str> = op.split('.').collect();
                    let s = |i: usize| String::from_utf8_lossy(&unhex(p[i])).to_string();
                    let (fo, ro) = match p[0] {
                        "a" => {
                            let (name, data, flags, comp) = (s(1), if p[2] == "-" { Vec::new() } else { unhex(p[2]) }, num(p[3]) as u32, num(p[4]) as u32);
                            if !names.contains(&name) { names.push(name.clone()); }
                            let tmp = format!("{dir}/in{k}.bin");
                            std::fs::write(&tmp, &data).unwrap();
                            let (ct, cn) = (CString::new(tmp.as_str()).unwrap(), CString::new(name.as_str()).unwrap());
                            let fo = unsafe { SFileAddFileEx(hd, ct.as_ptr(), cn.as_ptr(), flags, comp, 0) };
                            let method = match comp { 0 => CompressionMethod::None, 0x02 => CompressionMethod::Zlib, 0x10 => CompressionMethod::BZip2, 0x12 => CompressionMethod::Lzma, 0x20 => CompressionMethod::Sparse, _ => CompressionMethod::Zlib };
                            let mut o = AddFileOptions::new().compression(method);
                            if flags & 0x0001_0000 != 0 { o = o.encrypt(); }
                            if flags & 0x0002_0000 != 0 { o = o.fix_key(); }
                            if flags & 0x8000_0000 != 0 { o = o.replace_existing(true); }
                            (fo, mb.add_file_data(&data, &name, o).is_ok())
                        }
                        "r" => { let n = s(1); let cn = CString::new(n.as_str()).unwrap(); (unsafe { SFileRemoveFile(hd, cn.as_ptr(), 0) }, mb.remove_file(&n).is_ok()) }
                        "m" => {
                            let (a, b) = (s(1), s(2));
                            if !names.contains(&b) { names.push(b.clone()); }
                            let (c1, c2) = (CString::new(a.as_str()).unwrap(), CString::new(b.as_str()).unwrap());
                            (unsafe { SFileRenameFile(hd, c1.as_ptr(), c2.as_ptr()) }, mb.rename_file(&a, &b).is_ok())
                        }
                        "f" => (unsafe { SFileFlushArchive(hd) }, mb.flush().is_ok()),
                        "c" => (unsafe { SFileCompactArchive(hd, std::ptr::null(), false) }, mb.compact().is_ok()),
                        _ => (true, true),
                    };
                    if fo != ro { return format!("OUTCOME op{k} {} ffi={} rust={}", p[0], fo as u8, ro as u8); }
                }
                if !SFileCloseArchive(hd) { return "CLOSE-FAIL".to_string(); }
                drop(mb);
                let (mut a, mut b) = match (Archive::open(&pa), Archive::open(&pb)) { (Ok(a), Ok(b)) => (a, b), (ra, rb) => return format!("REOPEN ffi={} rust={}", ra.is_ok() as u8, rb.is_ok() as u8) };
                for n in &names {
                    let (x, y) = (a.read_file(n).ok(), b.read_file(n).ok());
                    if x != y { return format!("CONTENT {} ffi={:?} rust={:?}", hex(n.as_bytes()), x.map(|v| v.len()), y.map(|v| v.len())); }
                }
                let la: Vec<String> = { let mut v: Vec<String> = a.list().map(|l| l.iter().map(|e| e.name.to_uppercase()).collect()).unwrap_or_default(); v.sort(); v };
                let lb: Vec<String> = { let mut v: Vec<String> = b.list().map(|l| l.iter().map(|e| e.name.to_uppercase()).collect()).unwrap_or_default(); v.sort(); v };
                if la != lb { return format!("LISTING ffi={} rust={}", la.len(), lb.len()); }
                format!("OK {}", names.len())
            }, 60)
        }
        // enum <archive>: SFileEnumFiles with mask "*" must call back exactly once per name of Archive::list, in that order; a callback
        //   returning false after k names stops the enumeration after k+1 calls; locale calls keep their value
        "enum" => {
            let path = t[1].to_string();
            isolated(move || {
                extern "C" fn cb(name: *const c_char, ud: *mut c_void) -> bool {
                    let st = unsafe { &mut *(ud as *mut (Vec<String>, usize)) };
                    st.0.push(unsafe { CStr::from_ptr(name) }.to_string_lossy().to_string());
                    st.0.len() < st.1
                }
                let mut a = match Archive::open(&path) { Ok(a) => a, Err(_) => return "OPEN-ERR".to_string() };
                let want: Vec<String> = a.list().map(|l| l.iter().map(|e| e.name.clone()).collect()).unwrap_or_default();
                let cp = CString::new(path.as_str()).unwrap();
                let mut hd: HANDLE = std::ptr::null_mut();
                if !unsafe { SFileOpenArchive(cp.as_ptr(), 0, 0, &mut hd) } { return "OPEN-FAIL".to_string(); }
                let star = CString::new("*").unwrap();
                let mut st: (Vec<String>, usize) = (Vec::new(), usize::MAX);
                if !unsafe { SFileEnumFiles(hd, star.as_ptr(), std::ptr::null(), Some(cb), &mut st as *mut _ as *mut c_void) } { return "ENUM-FAIL".to_string(); }
                if st.0 != want { return format!("ENUM-DIFF {} {}", st.0.len(), want.len()); }
                let mut st2: (Vec<String>, usize) = (Vec::new(), 2);
                unsafe { SFileEnumFiles(hd, star.as_ptr(), std::ptr::null(), Some(cb), &mut st2 as *mut _ as *mut c_void) };
                if st2.0.len() != want.len().min(2) { return format!("ENUM-STOP {}", st2.0.len()); }
                if unsafe { SFileEnumFiles(hd, star.as_ptr(), std::ptr::null(), None, std::ptr::null_mut()) } { return "ENUM-NULL-CALLBACK-ACCEPTED".to_string(); }
                let old = SFileSetLocale(0x409);
                if SFileGetLocale() != 0x409 { return "LOCALE".to_string(); }
                SFileSetLocale(old);
                SFileSetLastError(1234);
                if SFileGetLastError() != 1234 { return "LASTERROR".to_string(); }
                unsafe { SFileCloseArchive(hd); }
                format!("OK {}", want.len())
            }, 30)
        }
        // xtract <archive> <target file> <names hex ,>: SFileExtractFile of every name in turn to the SAME local path;
        // after each call the file on disk must equal Archive::read_file (missing names must fail and leave the file alone)
        "xtract" => {
            let path = t[1].to_string();
            let target = t[2].to_string();
            let names: Vec<String> = t[3].split(',').map(|n| String::from_utf8_lossy(&unhex(n)).to_string()).collect();
            isolated(move || {
                let mut a = match Archive::open(&path) { Ok(a) => a, Err(_) => return "OPEN-ERR".to_string() };
                let cp = CString::new(path.as_str()).unwrap();
                let ct = CString::new(target.as_str()).unwrap();
                let mut hd: HANDLE = std::ptr::null_mut();
                if !unsafe { SFileOpenArchive(cp.as_ptr(), 0, 0, &mut hd) } { return "OPEN-FAIL".to_string(); }
                let mut out = Vec::new();
                for n in &names {
                    let before = std::fs::read(&target).ok();
                    let cn = CString::new(n.as_str()).unwrap();
                    let ok = unsafe { SFileExtractFile(hd, cn.as_ptr(), ct.as_ptr(), 0) };
                    let after = std::fs::read(&target).ok();
                    let want = a.read_file(n).ok();
                    out.push(match (ok, want) {
                        (true, Some(w)) => if after.as_deref() == Some(&w[..]) { "ok".to_string() } else { format!("DIFF:{}:{}", after.map(|x| x.len()).unwrap_or(0), w.len()) },
                        (true, None) => "UNEXPECTED-SUCCESS".to_string(),
                        (false, Some(_)) => "UNEXPECTED-FAILURE".to_string(),
                        (false, None) => if after == before { "refused".to_string() } else { "REFUSED-BUT-WROTE".to_string() },
                    });
                }
                unsafe { SFileCloseArchive(hd); }
                out.join(",")
            }, 30)
        }
        _ => "ERR unknown".to_string(),
    });
}
