//! General MPQ runner: builds archives with ArchiveBuilder and reads them back through
//! the public API (used by C01, C02, C07, C09, C10, C11, C20).
use std::path::PathBuf;
use verif_harness::{hex, num, serve, unhex};
use wow_mpq::{Archive, ArchiveBuilder, AttributesOption, FormatVersion, ListfileOption};

pub fn version(i: u64) -> FormatVersion {
    match i {
        1 => FormatVersion::V1,
        2 => FormatVersion::V2,
        3 => FormatVersion::V3,
        _ => FormatVersion::V4,
    }
}

fn errclass(e: &wow_mpq::Error) -> String {
    let s = format!("{e:?}");
    let k = s.split(|c: char| !c.is_alphanumeric()).next().unwrap_or("Other").to_string();
    format!("ERR {k}")
}

/// build <out> <ver> <shift> <listfile g|n> <attrs n|c|f> <crc 0|1> <tcomp 0|1> <defcomp> <entries|->
/// entry = namehex:datahex:comp(hex|d):enc(0|1|2)
fn build(t: &[&str]) -> String {
    let mut b = ArchiveBuilder::new()
        .version(version(num(t[1])))
        .block_size(num(t[2]) as u16)
        .listfile_option(if t[3] == "g" { ListfileOption::Generate } else { ListfileOption::None })
        .attributes_option(match t[4] { "c" => AttributesOption::GenerateCrc32, "f" => AttributesOption::GenerateFull, _ => AttributesOption::None })
        .generate_crcs(t[5] == "1")
        .compress_tables(t[6] == "1")
        .default_compression(num(t[7]) as u8);
    if t[4] == "N" {
        // sector checksums without an (attributes) file
        b = b.attributes_option(AttributesOption::None);
    }
    if t[8] != "-" {
        for e in t[8].split(',') {
            let p: Vec<&str> = e.split(':').collect();
            let name = String::from_utf8(unhex(p[0])).unwrap();
            let data = unhex(p[1]);
            let comp = if p[2] == "d" { num(t[7]) as u8 } else { num(p[2]) as u8 };
            b = match p[3] {
                "0" => b.add_file_data_with_options(data, &name, comp, false, 0),
                "1" => b.add_file_data_with_encryption(data, &name, comp, false, 0),
                _ => b.add_file_data_with_encryption(data, &name, comp, true, 0),
            };
        }
    }
    match b.build(PathBuf::from(t[0])) {
        Ok(()) => "OK".to_string(),
        Err(e) => errclass(&e),
    }
}

/// chain <par|seq> <dir> <ops> <names hex ,>
/// ops: a.<id>.<prio> | r.<id> | s.<id>.<prio> | c ; archives are <dir>/arch<id>.mpq
/// output: per name  <namehex>><winner id|none>:<content hex|ERR..>  then list() names, contains flags
fn chain(t: &[&str]) -> String {
    use wow_mpq::PatchChain;
    let dir = t[1];
    let path = |id: &str| format!("{dir}/arch{id}.mpq");
    let id_of = |p: &std::path::Path| -> String {
        let n = p.file_name().unwrap().to_string_lossy().to_string();
        n.trim_start_matches("arch").trim_end_matches(".mpq").to_string()
    };
    let ops: Vec<&str> = if t[2] == "-" { vec![] } else { t[2].split(',').collect() };
    let mut chain = if t[0] == "par" {
        let l: Vec<(String, i32)> = ops.iter().filter(|o| o.starts_with("a.")).map(|o| {
            let p: Vec<&str> = o.split('.').collect();
            (path(p[1]), p[2].parse::<i32>().unwrap())
        }).collect();
        match PatchChain::from_archives_parallel(l) { Ok(c) => c, Err(e) => return errclass(&e) }
    } else {
        let mut c = PatchChain::new();
        for o in &ops {
            let p: Vec<&str> = o.split('.').collect();
            let r = match p[0] {
                "a" => c.add_archive(path(p[1]), p[2].parse::<i32>().unwrap()),
                "r" => c.remove_archive(path(p[1])).map(|_| ()),
                "s" => match c.set_priority(path(p[1]), p[2].parse::<i32>().unwrap()) { Ok(()) => Ok(()), Err(_) => Ok(()) },
                _ => { c.clear(); Ok(()) }
            };
            if let Err(e) = r { return format!("OP-{}", errclass(&e)); }
        }
        c
    };
    let mut out = Vec::new();
    for n in t[3].split(',') {
        let name = String::from_utf8(unhex(n)).unwrap();
        let w = chain.find_file_archive(&name).map(|p| id_of(p)).unwrap_or("none".to_string());
        let c = match chain.read_file(&name) { Ok(d) => hex(&d), Err(e) => errclass(&e).replace(' ', "-") };
        let has = chain.contains_file(&name);
        out.push(format!("{n}>{w}:{c}:{}", if has { 1 } else { 0 }));
    }
    let mut listed: Vec<String> = match chain.list() { Ok(l) => l.iter().map(|e| hex(e.name.as_bytes())).collect(), Err(_) => vec!["LIST-ERR".to_string()] };
    listed.sort();
    // the chain as it describes itself: archives in its own order with their priorities; the batch reader; the second parallel constructor
    let info: Vec<(String, i32)> = chain.get_chain_info().iter().map(|i| (id_of(&i.path), i.priority)).collect();
    let mut flags = Vec::new();
    if chain.archive_count() != info.len() { flags.push("COUNT".to_string()); }
    // get_priority answers for the first entry with that path: only meaningful where a path occurs once
    for (id, pr) in &info { if info.iter().filter(|(i, _)| i == id).count() == 1 && chain.get_priority(path(id)) != Some(*pr) { flags.push(format!("PRIO{id}")); } }
    let qn: Vec<String> = t[3].split(',').map(|n| String::from_utf8(unhex(n)).unwrap()).collect();
    let qr: Vec<&str> = qn.iter().map(|x| x.as_str()).collect();
    let batch: Vec<Option<Vec<u8>>> = chain.extract_files(&qr).into_iter().map(|(_, r)| r.ok()).collect();
    let single: Vec<Option<Vec<u8>>> = qr.iter().map(|n| chain.read_file(n).ok()).collect();
    if batch != single { flags.push("EXTRACT-FILES".to_string()); }
    if t[0] == "par" {
        let l: Vec<(String, i32)> = ops.iter().filter(|o| o.starts_with("a.")).map(|o| { let p: Vec<&str> = o.split('.').collect(); (path(p[1]), p[2].parse::<i32>().unwrap()) }).collect();
        let mut c2 = PatchChain::new();
        match c2.add_archives_parallel(l) {
            Err(_) => flags.push("ADD-PARALLEL-ERR".to_string()),
            Ok(()) => {
                let i2: Vec<(String, i32)> = c2.get_chain_info().iter().map(|i| (id_of(&i.path), i.priority)).collect();
                let r2: Vec<Option<Vec<u8>>> = qr.iter().map(|n| c2.read_file(n).ok()).collect();
                if i2 != info || r2 != single { flags.push("ADD-PARALLEL-DIFF".to_string()); }
            }
        }
    }
    format!("{} | {} | {};{}", out.join(","), listed.join(","), info.iter().map(|(i, p)| format!("{i}:{p}")).collect::<Vec<_>>().join(","), flags.join("+"))
}

fn short(d: &[u8]) -> String {
    // content fingerprint: length + first bytes (contents are generated to be name-specific)
    format!("{}.{}", d.len(), hex(&d[..d.len().min(12)]))
}

/// par <mode> <archive> <threads> <batch> <skip> <stress> <names hex ,|->
/// modes: cfg (extract_with_config) | files (extract_files_parallel) | batched (extract_files_batched)
///        | process (process_files_parallel) | seq (sequential read_file, the reference)
fn par(t: &[&str]) -> String {
    use wow_mpq::single_archive_parallel::{ParallelArchive, ParallelConfig, extract_with_config};
    let names: Vec<String> = if t[6] == "-" { vec![] } else { t[6].split(',').map(|n| String::from_utf8(unhex(n)).unwrap()).collect() };
    let refs: Vec<&str> = names.iter().map(|s| s.as_str()).collect();
    let threads = num(t[2]) as usize;
    let batch = num(t[3]) as usize;
    let skip = t[4] == "1";
    // CPU contention: busy threads for the duration of the call
    let stop = std::sync::Arc::new(std::sync::atomic::AtomicBool::new(false));
    let mut busy = Vec::new();
    for _ in 0..num(t[5]) {
        let s = stop.clone();
        busy.push(std::thread::spawn(move || { let mut x = 0u64; while !s.load(std::sync::atomic::Ordering::Relaxed) { x = x.wrapping_mul(6364136223846793005).wrapping_add(1); std::hint::black_box(x); } }));
    }
    let fmt_slot = |n: &str, r: &Result<Vec<u8>, wow_mpq::Error>| match r { Ok(d) => format!("{}>{}", hex(n.as_bytes()), short(d)), Err(_) => format!("{}>ERR", hex(n.as_bytes())) };
    let out = match t[0] {
        "seq" => {
            match Archive::open(t[1]) {
                Err(e) => format!("OPEN-{}", errclass(&e)),
                Ok(mut a) => refs.iter().map(|n| fmt_slot(n, &a.read_file(n))).collect::<Vec<_>>().join(","),
            }
        }
        "cfg" => {
            let mut c = ParallelConfig::new().batch_size(batch).skip_errors(skip);
            if threads > 0 { c = c.threads(threads); }
            match extract_with_config(t[1], &refs, c) {
                Err(_) => "WHOLE-ERR".to_string(),
                Ok(v) => v.iter().map(|(n, r)| fmt_slot(n, r)).collect::<Vec<_>>().join(","),
            }
        }
        m => {
            let pool = rayon::ThreadPoolBuilder::new().num_threads(threads.max(1)).build().unwrap();
            pool.install(|| match ParallelArchive::open(t[1]) {
                Err(e) => format!("OPEN-{}", errclass(&e)),
                Ok(a) => {
                    let r = match m {
                        "files" => a.extract_files_parallel(&refs),
                        "batched" => a.extract_files_batched(&refs, batch),
                        _ => a.process_files_parallel(&refs, |n, d| Ok((n.to_string(), d))),
                    };
                    match r {
                        Err(_) => "WHOLE-ERR".to_string(),
                        Ok(v) => v.iter().map(|(n, d)| format!("{}>{}", hex(n.as_bytes()), short(d))).collect::<Vec<_>>().join(","),
                    }
                }
            })
        }
    };
    stop.store(true, std::sync::atomic::Ordering::Relaxed);
    for b in busy { let _ = b.join(); }
    if out.is_empty() { "-".to_string() } else { out }
}

/// multi <name hex> <archive paths ,>  : parallel::extract_from_multiple_archives vs sequential
fn multi(t: &[&str]) -> String {
    let name = String::from_utf8(unhex(t[0])).unwrap();
    let paths: Vec<&str> = t[1].split(',').collect();
    let par = wow_mpq::parallel::extract_from_multiple_archives(&paths, &name);
    let seq: Result<Vec<(PathBuf, Vec<u8>)>, wow_mpq::Error> = paths.iter().map(|p| Archive::open(p).and_then(|mut a| a.read_file(&name)).map(|d| (PathBuf::from(p), d))).collect();
    let first = match (par, seq) {
        (Ok(a), Ok(b)) => if a == b { "SAME".to_string() } else { "DIFF".to_string() },
        (Err(_), Err(_)) => "SAME-ERR".to_string(),
        (Ok(_), Err(_)) => "DIFF par-ok seq-err".to_string(),
        (Err(_), Ok(_)) => "DIFF par-err seq-ok".to_string(),
    };
    if first.starts_with("DIFF") { return first; }
    // the other multi-archive helpers against their sequential meaning
    let names = [name.as_str(), "(listfile)"];
    let pm = wow_mpq::parallel::extract_multiple_from_multiple_archives(&paths, &names);
    let sm: Result<Vec<(PathBuf, Vec<(String, Vec<u8>)>)>, wow_mpq::Error> = paths.iter().map(|p| {
        let mut a = Archive::open(p)?;
        let f: Result<Vec<(String, Vec<u8>)>, wow_mpq::Error> = names.iter().map(|n| a.read_file(n).map(|d| (n.to_string(), d))).collect();
        Ok((PathBuf::from(p), f?))
    }).collect();
    match (pm, sm) {
        (Ok(a), Ok(b)) => if a != b { return "DIFF extract_multiple_from_multiple_archives".to_string(); },
        (Err(_), Err(_)) => {}
        _ => return "DIFF extract_multiple_from_multiple_archives outcome".to_string(),
    }
    let pat: String = name.chars().take(3).collect();
    let ps = wow_mpq::parallel::search_in_multiple_archives(&paths, &pat);
    let ss: Result<Vec<(PathBuf, Vec<String>)>, wow_mpq::Error> = paths.iter().map(|p| {
        let mut a = Archive::open(p)?;
        Ok((PathBuf::from(p), a.list()?.into_iter().filter(|e| e.name.contains(&pat)).map(|e| e.name).collect()))
    }).collect();
    match (ps, ss) {
        (Ok(a), Ok(b)) => if a != b { return "DIFF search_in_multiple_archives".to_string(); },
        (Err(_), Err(_)) => {}
        _ => return "DIFF search_in_multiple_archives outcome".to_string(),
    }
    // ParallelArchive::extract_matching_parallel / read_file_with_new_handle against list + read
    for p in &paths {
        let pa = match wow_mpq::single_archive_parallel::ParallelArchive::open(p) { Ok(a) => a, Err(_) => continue };
        let got = pa.extract_matching_parallel(|n| n.contains(&pat));
        let want: Result<Vec<(String, Vec<u8>)>, wow_mpq::Error> = (|| {
            let mut a = Archive::open(p)?;
            let l = a.list()?;
            l.into_iter().filter(|e| e.name.contains(&pat)).map(|e| a.read_file(&e.name).map(|d| (e.name.clone(), d))).collect()
        })();
        match (got, want) {
            (Ok(mut a), Ok(mut b)) => { a.sort(); b.sort(); if a != b { return "DIFF extract_matching_parallel".to_string(); } }
            (Err(_), Err(_)) => {}
            _ => return "DIFF extract_matching_parallel outcome".to_string(),
        }
        if pa.read_file_with_new_handle(&name).ok() != Archive::open(p).ok().and_then(|mut a| a.read_file(&name).ok()) { return "DIFF read_file_with_new_handle".to_string(); }
    }
    let pp = wow_mpq::parallel::process_archives_parallel(&paths, |mut a| Ok(a.list()?.len()));
    let sp: Result<Vec<usize>, wow_mpq::Error> = paths.iter().map(|p| Ok(Archive::open(p)?.list()?.len())).collect();
    match (pp, sp) {
        (Ok(a), Ok(b)) => if a != b { return "DIFF process_archives_parallel".to_string(); },
        (Err(_), Err(_)) => {}
        _ => return "DIFF process_archives_parallel outcome".to_string(),
    }
    first
}

/// modify <work archive path> <ops ,> <names hex ,>
/// ops: a.<namehex>.<datahex>.<comp 0|2|10|20>.<enc 0|1|2>.<replace 0|1> | r.<namehex> | m.<fromhex>.<tohex> | c | f
/// output: per-op outcomes (OK | ERR-<kind>) ; after drop + reopen: reads and listing like readall
fn modify(t: &[&str]) -> String {
    use wow_mpq::compression::CompressionMethod;
    use wow_mpq::{AddFileOptions, MutableArchive};
    let mut outcomes = Vec::new();
    {
        let mut m = match MutableArchive::open(t[0]) { Ok(m) => m, Err(e) => return format!("MOPEN-{}", errclass(&e)) };
        if t[1] != "-" {
            for op in t[1].split(',') {
                let p: Vec<&str> = op.split('.').collect();
                let name = |h: &str| String::from_utf8(unhex(h)).unwrap();
                let r = match p[0] {
                    "a" => {
                        let mut o = AddFileOptions::new().compression(match num(p[3]) { 0 => CompressionMethod::None, 2 => CompressionMethod::Zlib, 0x10 => CompressionMethod::BZip2, _ => CompressionMethod::Sparse })
                            .replace_existing(p[5] == "1");
                        if p[4] == "1" { o = o.encrypt(); }
                        if p[4] == "2" { o = o.fix_key(); }
                        m.add_file_data(&unhex(p[2]), &name(p[1]), o)
                    }
                    "r" => m.remove_file(&name(p[1])),
                    "m" => m.rename_file(&name(p[1]), &name(p[2])),
                    "c" => m.compact(),
                    _ => m.flush(),
                };
                outcomes.push(match r { Ok(()) => "OK".to_string(), Err(e) => errclass(&e).replace(' ', "-") });
            }
        }
    } // drop: implicit flush, file closed
    let mut a = match Archive::open(t[0]) { Ok(a) => a, Err(e) => return format!("{} | REOPEN-{}", outcomes.join(","), errclass(&e).replace(' ', "-")) };
    let reads: Vec<String> = t[2].split(',').map(|n| {
        let nm = String::from_utf8(unhex(n)).unwrap();
        let r = match a.read_file(&nm) { Ok(d) => format!("OK:{}", hex(&d)), Err(wow_mpq::Error::FileNotFound(_)) => "NOTFOUND".to_string(), Err(_) => "ERR".to_string() };
        format!("{n}>{r}")
    }).collect();
    let lst = match a.list() { Ok(l) => { let mut v: Vec<String> = l.iter().map(|e| hex(e.name.as_bytes())).collect(); v.sort(); v.join(",") } Err(_) => "NOLIST".to_string() };
    format!("{} | {} | {}", if outcomes.is_empty() { "-".to_string() } else { outcomes.join(",") }, reads.join(","), lst)
}

fn main() {
    serve(|t| match t[0] {
        "modify" => modify(&t[1..]),
        // compactat <archive> <ops ,|->: applies the operations, saves a copy of the file as <archive>.pre, issues the marker
        // call access("/verif-marker-compact"), then runs compact()
        "compactat" => {
            use wow_mpq::compression::CompressionMethod;
            use wow_mpq::{AddFileOptions, MutableArchive};
            let mut m = match MutableArchive::open(t[1]) { Ok(m) => m, Err(e) => return format!("MOPEN-{}", errclass(&e)) };
            if t[2] != "-" {
                for op in t[2].split(',') {
                    let p: Vec<&str> = op.split('.').collect();
                    let name = |h: &str| String::from_utf8(unhex(h)).unwrap();
                    let r = match p[0] {
                        "a" => m.add_file_data(&unhex(p[2]), &name(p[1]), AddFileOptions::new().compression(if num(p[3]) == 2 { CompressionMethod::Zlib } else { CompressionMethod::None }).replace_existing(true)),
                        "r" => m.remove_file(&name(p[1])),
                        "m" => m.rename_file(&name(p[1]), &name(p[2])),
                        _ => m.flush(),
                    };
                    if let Err(e) = r { return format!("OP-{}", errclass(&e)); }
                }
            }
            let _ = std::fs::copy(t[1], format!("{}.pre", t[1]));
            let _ = std::fs::metadata("/verif-marker-compact");
            match m.compact() { Ok(()) => "OK".to_string(), Err(e) => errclass(&e) }
        }
        // readall <archive> <names hex ,> -> name>OK:hex|NOTFOUND|ERR,... | sorted list name:size
        "readall" => {
            let mut a = match Archive::open(t[1]) { Ok(a) => a, Err(_) => return "OPEN-ERR".to_string() };
            let reads: Vec<String> = t[2].split(',').map(|n| {
                let name = String::from_utf8(unhex(n)).unwrap();
                // a decoder that panics on one file (a C05 matter) must not hide the answers for the others
                let r = match std::panic::catch_unwind(std::panic::AssertUnwindSafe(|| a.read_file(&name))) {
                    Ok(Ok(d)) => format!("OK:{}", hex(&d)),
                    Ok(Err(wow_mpq::Error::FileNotFound(_))) => "NOTFOUND".to_string(),
                    Ok(Err(_)) => "ERR".to_string(),
                    Err(_) => "PANIC".to_string(),
                };
                format!("{n}>{r}")
            }).collect();
            let lst = match a.find_file("(listfile)") {
                Ok(Some(_)) => match a.list() {
                    Ok(l) => { let mut v: Vec<String> = l.iter().map(|e| format!("{}:{:x}", hex(e.name.as_bytes()), e.size)).collect(); v.sort(); if v.is_empty() { "-".to_string() } else { v.join(",") } }
                    Err(_) => "NOLIST".to_string(),
                },
                _ => "NOLIST".to_string(),
            };
            format!("{} | {}", reads.join(","), lst)
        }
        // rebuild <src> <dst> <target 0..4> <comp hex|-> <shift hex|-> <skipenc> <verify>
        "rebuild" => {
            use wow_mpq::{RebuildOptions, rebuild_archive};
            let o = RebuildOptions {
                preserve_format: num(t[3]) == 0,
                target_format: if num(t[3]) == 0 { None } else { Some(version(num(t[3]))) },
                preserve_order: true,
                skip_encrypted: t[6] == "1",
                skip_signatures: true,
                verify: t[7] == "1",
                override_compression: if t[4] == "-" { None } else { Some(num(t[4]) as u8) },
                override_block_size: if t[5] == "-" { None } else { Some(num(t[5]) as u16) },
                list_only: false,
            };
            match rebuild_archive(t[1], t[2], o, None) {
                Ok(s) => format!("OK {} {} {} {}", s.source_files, s.extracted_files, s.skipped_files, if s.verified { 1 } else { 0 }),
                Err(e) => errclass(&e),
            }
        }
        // compare <a> <b>  (content check)
        "compare" => {
            match wow_mpq::compare_archives(t[1], t[2], true, true, false, false, None) {
                Ok(r) => {
                    let f = r.files.as_ref();
                    format!("OK identical={} content_diffs={} size_diffs={} source_only={} target_only={}", r.identical,
                        f.map(|f| f.content_differences.len()).unwrap_or(0), f.map(|f| f.size_differences.len()).unwrap_or(0),
                        f.map(|f| f.source_only.len()).unwrap_or(0), f.map(|f| f.target_only.len()).unwrap_or(0))
                }
                Err(e) => errclass(&e),
            }
        }
        // sizes <archive> <names hex ,> -> per name "csize.flags" (hex) or "-"
        "sizes" => {
            let mut a = match Archive::open(t[1]) { Ok(a) => a, Err(_) => return "OPEN-ERR".to_string() };
            t[2].split(',').map(|n| {
                let name = String::from_utf8(unhex(n)).unwrap();
                match a.find_file(&name) { Ok(Some(i)) => format!("{:x}.{:x}", i.compressed_size, i.flags), _ => "-".to_string() }
            }).collect::<Vec<_>>().join(",")
        }
        "par" => par(&t[1..]),
        "multi" => multi(&t[1..]),
        "chain" => chain(&t[1..]),
        "patchapply" => {
            use wow_mpq::patch::{PatchFile, apply_patch};
            match PatchFile::parse(&unhex(t[1])) {
                Err(_) => "PARSE-ERR".to_string(),
                Ok(p) => match apply_patch(&p, &unhex(t[2])) { Ok(o) => format!("OK {}", hex(&o)), Err(_) => "ERR".to_string() },
            }
        }
        "build" => build(&t[1..]),
        // read <archive> <namehex>
        "read" => {
            let mut a = match Archive::open(t[1]) { Ok(a) => a, Err(e) => return format!("OPEN-{}", errclass(&e)) };
            match a.read_file(&String::from_utf8(unhex(t[2])).unwrap()) {
                Ok(d) => format!("OK {}", hex(&d)),
                Err(e) => errclass(&e),
            }
        }
        // list <archive>  -> sorted "namehex:size" entries
        "list" => {
            let mut a = match Archive::open(t[1]) { Ok(a) => a, Err(e) => return format!("OPEN-{}", errclass(&e)) };
            match a.list() {
                Ok(l) => {
                    let mut v: Vec<String> = l.iter().map(|e| format!("{}:{:x}", hex(e.name.as_bytes()), e.size)).collect();
                    v.sort();
                    format!("OK {}", if v.is_empty() { "-".to_string() } else { v.join(",") })
                }
                Err(e) => errclass(&e),
            }
        }
        _ => "ERR unknown".to_string(),
    });
}
