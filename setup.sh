#!/bin/sh
# MANIFEST.setup_cmd: builds the whole framework offline from files on disk.
set -e
cd "$(dirname "$0")"
export CARGO_NET_OFFLINE=true
mkdir -p .cache evidence replays
python3 tools/gen_consts.py
(cd coq && coq_makefile -f _CoqProject -o Makefile >/dev/null && timeout 3000 make -j16 >/dev/null 2>.make.err || { tail -30 .make.err; echo "coq build failed (checks will report it)"; })
(cd ocaml && ./build.sh) || echo "modelrun build failed (checks will report it)"
[ -f harness/Cargo.lock ] || cp /repo/Cargo.lock harness/Cargo.lock
(cd harness && timeout 3000 cargo build --offline --bins 2>&1 | tail -3) || echo "harness build failed (checks will report it)"
echo setup done
