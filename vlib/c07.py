"""C07 - rebuilding an archive preserves its file set and contents."""
import os, shutil
from . import common as C
from . import c01


def run(tier, seed, replay=None):
    res = C.Result("C07", tier, seed)
    res.rule = ("source archives from the C01 generator (V1..V4, per-file methods, encrypted and fix-key files, files larger than a sector, with/without listfile) x "
                "target version {keep, V1..V4} x compression override x sector-size override x skip-encrypted x verify: rebuild_archive, then every listed source file "
                "is read from the target and compared, the summary counts are checked against the truth, compare_archives must report no content difference; for V1/V2 "
                "sources and targets the model (reader -> rebuild specs -> builder) must reproduce the target archive byte for byte; non-trivial = source has an "
                "encrypted or multi-sector file or an override is set; distinct = distinct (source, options)")
    res.assumptions = ["inherits C01's assumptions (codec contract, NoCollide); archives without a listfile are rebuilt from anonymous enumeration and are outside the model"]
    mok, iok = C.standard_builds(res, "C07", ["impl_mpq", "impl_compress"])
    if not (mok and iok):
        return res.finish()
    r = C.rng(seed, "C07")
    big = tier == "thorough"
    base = os.path.join(C.CACHE, "c07")
    shutil.rmtree(base, ignore_errors=True)
    os.makedirs(base)
    ib = [C.bin_path("impl_mpq")]
    ncase = 600 if big else 90
    cases = []
    for i in range(ncase):
        if i < 6:
            # break-even families of the store-raw rule, re-compressed by the rebuild
            c, files = c01.sweep_case(r, i)
            c = dict(c, defcomp=0)
            files = [(n, d, "0", e) for n, d, _, e in files]
            cases.append((c, files, {"target": i % 3, "comp": "%x" % [0x20, 0x02, 0x10, 0x12, 0x08, 0x02][i], "shift": "-", "skipenc": 0, "verify": 0}))
            continue
        c, files = c01.gen_case(r, 12 + i, big)
        c["lf"] = "g" if i % 9 else c["lf"]
        c["attrs"] = "n"
        c["crc"] = 0
        if i % 3 == 0:
            c["ver"] = r.choice([1, 2])
        opts = {"target": r.choice([0, 0, 1, 2, 3, 4]) if i % 2 else r.choice([0, 1, 2]), "comp": r.choice(["-", "-", "0", "2", "10", "20", "8"]),
                "shift": r.choice(["-", "-", "0", "3", "5"]), "skipenc": r.choice([0, 0, 1]), "verify": r.choice([0, 1])}
        cases.append((c, files, opts))
    bl = ["build %s/s%d.mpq %d %x %s %s %d %d %x %s" % (base, i, c["ver"], c["shift"], c["lf"], c["attrs"], c["crc"], c["tcomp"], c["defcomp"], c01.entries_token(files)) for i, (c, files, o) in enumerate(cases)]
    bo = C.run_lines(ib, bl, timeout=3000)
    rl = ["rebuild %s/s%d.mpq %s/t%d.mpq %d %s %s %d %d" % (base, i, base, i, o["target"], o["comp"], o["shift"], o["skipenc"], o["verify"]) for i, (c, files, o) in enumerate(cases)]
    ro = C.run_lines(ib, rl, timeout=3000)
    # read back source (for flags truth we only need contents) and target
    q = []
    for i, (c, files, o) in enumerate(cases):
        names = ",".join(C.hexs(n.encode()) for n, _, _, _ in files) or C.hexs(b"none")
        q.append("readall %s/s%d.mpq %s" % (base, i, names))
        q.append("readall %s/t%d.mpq %s" % (base, i, names))
        q.append("compare %s/s%d.mpq %s/t%d.mpq" % (base, i, base, i))
    qo = C.run_lines(ib, q, timeout=3000)
    stats = {"rebuild_ok": 0, "rebuild_err": 0}
    for i, (c, files, o) in enumerate(cases):
        nontriv = any(len(d) > (512 << c["shift"]) or enc for _, d, _, enc in files) or o["comp"] != "-" or o["shift"] != "-"
        key = "%s|%s|%s" % (c01.cfg_tokens(c), sorted(o.items()), C.hashlib.sha1(c01.entries_token(files).encode()).hexdigest())
        res.case(key, nontrivial=nontriv)
        case = {"source": bl[i][:400], "rebuild": rl[i].replace(base, "<dir>"), "source_files": [(n, len(d), comp, enc) for n, d, comp, enc in files], "source_cfg": c, "options": o}
        if bo[i] != "OK":
            continue
        src, tgt, cmp_ = qo[3 * i], qo[3 * i + 1], qo[3 * i + 2]
        if not ro[i].startswith("OK "):
            stats["rebuild_err"] += 1
            if ro[i] in ("PANIC", "ABORT", "TIMEOUT"):
                res.failing.append(("rebuild-crash", "rebuild_archive crashed: " + ro[i], case))
            elif c["lf"] == "g" and " | " in src and "ERR" not in src.split(" | ")[0] and o["verify"] == 0:
                res.failing.append(("rebuild-error", "rebuild of a fully readable source reported an error: " + ro[i], case))
            continue
        stats["rebuild_ok"] += 1
        if c["lf"] != "g":
            continue     # anonymous enumeration: names are synthetic, outside the property's 'listed files'
        _, nsrc, next, nskip, _ = ro[i].split()
        expect = [(n, d, enc) for n, d, comp, enc in files if not (o["skipenc"] and enc)]
        if " | " not in tgt:
            res.failing.append(("target-unreadable", "rebuilt archive cannot be opened: " + tgt[:60], case))
            continue
        treads = dict(x.split(">", 1) for x in tgt.split(" | ")[0].split(","))
        bad = None
        for n, d, comp, enc in files:
            got = treads.get(C.hexs(n.encode()))
            if o["skipenc"] and enc:
                if got != "NOTFOUND":
                    bad = "file %r was excluded by skip_encrypted but is present in the target" % n
            elif got != "OK:" + C.hexs(d):
                bad = "file %r (%d bytes, enc %d) differs in the rebuilt archive: %s" % (n, len(d), enc, (got or "")[:50])
            if bad:
                break
        if bad:
            res.failing.append(("content-lost", bad, case))
            continue
        # summary truth: source = listed files incl. the listfile; extracted = files in the target; skipped = the rest
        listed_src = len(files) + 1
        want_extracted = len(expect) + 1
        if int(next) != want_extracted or int(nsrc) != int(next) + int(nskip):
            res.failing.append(("summary-untruthful", "summary (source=%s extracted=%s skipped=%s) disagrees with the archives (listed=%d, in target=%d)" % (nsrc, next, nskip, listed_src, want_extracted), case))
        if o["skipenc"] == 0 and not (cmp_.startswith("OK") and "content_diffs=0" in cmp_ and "source_only=0" in cmp_):
            res.failing.append(("compare-reports-difference", "compare_archives reports a difference between source and its rebuild: " + cmp_[:120], case))
    res.extra["outcomes"] = stats
    # ---- model: V1/V2 source with listfile, V1/V2 target
    mi = [i for i, (c, files, o) in enumerate(cases) if bo[i] == "OK" and ro[i].startswith("OK") and c["ver"] <= 2 and c["lf"] == "g"
          and (o["target"] in (1, 2) or (o["target"] == 0))]
    # codec table of the source (for reading it in the model)
    needs = C.run_lines([C.MODELRUN], ["mneeds %s %s" % (c01.cfg_tokens(cases[i][0]), c01.entries_token(cases[i][1])) for i in mi])
    creq = sorted({x for n in needs if n != "-" for x in n.split(",")})
    table = dict(zip(creq, C.run_lines([C.bin_path("impl_compress")], ["comp %s %s" % tuple(x.split(".")) for x in creq])))
    sl = []
    for i, n in zip(mi, needs):
        tab = ",".join("%s.%s" % (x, table[x]) for x in (n.split(",") if n != "-" else []) if table[x] not in ("ERR", "PANIC")) or "-"
        o = cases[i][2]
        src = open("%s/s%d.mpq" % (base, i), "rb").read()
        sl.append("mrebuildspecs %s %x %s %s %d %s" % (C.hexs(src), o["target"], o["comp"], o["shift"], o["skipenc"], tab))
    specs = C.run_lines([C.MODELRUN], sl, timeout=3000)
    good = [(i, s) for i, s in zip(mi, specs) if len(s.split(" ")) == 7]
    needs2 = C.run_lines([C.MODELRUN], ["mneeds " + s for _, s in good])
    creq2 = sorted({x for n in needs2 if n != "-" for x in n.split(",")})
    table2 = dict(zip(creq2, C.run_lines([C.bin_path("impl_compress")], ["comp %s %s" % tuple(x.split(".")) for x in creq2])))
    ml = []
    for (i, s), n in zip(good, needs2):
        tab = ",".join("%s.%s" % (x, table2[x]) for x in (n.split(",") if n != "-" else []) if table2[x] not in ("ERR", "PANIC")) or "-"
        ml.append("mbuild %s %s" % (s, tab))
    mo = C.run_lines([C.MODELRUN], ml, timeout=3000)
    mism = 0
    for (i, s), m in zip(good, mo):
        res.case("model%d" % i)
        real = open("%s/t%d.mpq" % (base, i), "rb").read()
        if m != C.hexs(real):
            mism += 1
            if mism <= 3:
                res.broken.append(("correspondence", {"what": "model rebuild (reader -> specs -> builder) differs from the real rebuilt archive", "rebuild": rl[i].replace(base, "<dir>"),
                                                       "source": bl[i][:300], "model_len": len(m) // 2, "impl_len": len(real), "model_head": m[:60]}))
    res.extra["model_cases"] = len(good)
    res.extra["correspondence_mismatches"] = mism
    res.sample({"rebuild": rl[2].replace(base, "<dir>"), "summary": ro[2], "compare": qo[8][:100]})
    res.traces = len(good)
    shutil.rmtree(base, ignore_errors=True)
    return res.finish()
