"""C18 - WDT/WDL write->parse round trips; tile<->world coordinates invert."""
import struct
from . import common as C

COQ_IMPORTS = "From Coq Require Import ZArith List.\nImport ListNotations.\nFrom WR Require Import Fmt.Coords.\nOpen Scope Z_scope."


def f32bits(x):
    return struct.unpack("<I", struct.pack("<f", x))[0]


def gen_wdt(r, i):
    ver = r.randrange(10)
    flags = 0
    for b in (0x2, 0x4, 0x8, 0x10, 0x20, 0x40, 0x80, 0x100, 0x400, 0x800, 0x1000, 0x2000, 0x4000, 0x8000):
        if r.random() < 0.2:
            flags |= b
    wmo_only = r.random() < 0.3
    if wmo_only:
        flags |= 1
    has_maid = ver >= 7 and r.random() < 0.5
    if has_maid:
        flags |= 0x200
    words = [flags] + [r.choice([0, 1, r.getrandbits(32), 0xFFFFFFFF]) for _ in range(7)]
    mphd = b"".join(struct.pack("<I", w) for w in words)
    mode = i % 5
    main = bytearray(32768)
    def put(x, y, fl, area):
        o = (y * 64 + x) * 8
        main[o:o + 8] = struct.pack("<II", fl, area)
    if mode == 0:
        pass
    elif mode == 1:
        for (x, y) in [(0, 0), (63, 0), (0, 63), (63, 63)]:
            put(x, y, 1, r.getrandbits(32))
    elif mode == 2:
        for _ in range(r.randrange(1, 40)):
            put(r.randrange(64), r.randrange(64), r.choice([1, 3, 0xFFFFFFFF, 2]), r.getrandbits(16))
    elif mode == 3:
        for y in range(64):
            for x in range(64):
                put(x, y, 1, (x * 64 + y) & 0xFFFF)
    else:
        x0, y0 = r.randrange(64), r.randrange(64)
        put(x0, y0, 1, 77)
    maid = "x"
    if has_maid or (ver >= 7 and r.random() < 0.1):
        k = r.choice([1, 2, 8, 8, 5])
        b = bytearray(k * 16384)
        for _ in range(r.randrange(0, 30)):
            o = r.randrange(k * 4096) * 4
            b[o:o + 4] = struct.pack("<I", r.getrandbits(32))
        maid = C.hexs(bytes(b))
    mwmo = "x"
    p = r.random()
    if wmo_only or ver < 3 or p < 0.15:
        if r.random() < 0.3:
            mwmo = "e"
        else:
            names = []
            for _ in range(r.randrange(1, 4)):
                base = r.choice(["World\\wmo\\Azeroth\\Buildings\\Stormwind.wmo", "a.wmo", "world/wmo/x.wmo", "déjà vu.wmo", "世界.wmo", "W" * 200 + ".wmo"])
                names.append(base.encode("utf-8"))
            mwmo = ",".join(C.hexs(n) for n in names)
    modf = "x"
    if wmo_only or r.random() < 0.1:
        n = r.choice([0, 1, 1, 2, 5])
        b = b""
        for _ in range(n):
            b += struct.pack("<II", r.getrandbits(32), r.choice([0xFFFFFFFF, 0, r.getrandbits(32)]))
            b += b"".join(struct.pack("<I", r.choice([0, 0x80000000, f32bits(1.5), f32bits(-17066.666), 0x7F800000, 0x7FC00001, r.getrandbits(32)])) for _ in range(12))
            b += struct.pack("<HHHH", r.getrandbits(16), r.getrandbits(16), r.getrandbits(16), r.choice([0, 1024, r.getrandbits(16)]))
        modf = C.hexs(b) if n else "-"
    return "%x 12 %s %s %s %s %s" % (ver, C.hexs(mphd), C.hexs(bytes(main)), maid, mwmo, modf)


def mutate_bytes(r, b):
    b = bytearray(b)
    k = r.randrange(6)
    if k == 0 and len(b) > 8:
        return bytes(b[: r.randrange(len(b))])
    if k == 1 and len(b) > 12:
        o = r.choice([4, 16, 56])  # size fields of MVER / MPHD / MAIN
        if o + 4 <= len(b):
            b[o:o + 4] = struct.pack("<I", r.choice([0, 1, 3, 5, 31, 33, 32767, 32769, 64, 100]))
        return bytes(b)
    if k == 2:
        o = r.randrange(len(b))
        b[o] ^= 1 << r.randrange(8)
        return bytes(b)
    if k == 3 and len(b) > 12:
        b[8:12] = struct.pack("<I", r.choice([17, 18, 19, 0]))
        return bytes(b)
    if k == 4:
        return bytes(b) + b"XTRA" + struct.pack("<I", r.choice([0, 4, 100])) + b"abcd"
    return bytes(b) + bytes(r.randrange(1, 8))


def gen_wdl(r, i):
    ver = r.randrange(10)
    mode = i % 6
    tiles = set()
    if mode == 1:
        tiles = {(0, 0), (63, 0), (0, 63), (63, 63)}
    elif mode == 2:
        tiles = {(r.randrange(64), r.randrange(64)) for _ in range(r.randrange(1, 12))}
    elif mode == 3:
        tiles = {(x, y) for x in range(0, 64, 7) for y in range(0, 64, 9)}
    elif mode == 4:
        tiles = {(r.randrange(64), r.randrange(64))}
    elif mode == 5:
        tiles = {(x, 5) for x in range(10)}
    tl = sorted(tiles)
    r.shuffle(tl)
    holes = [t for t in tl if r.random() < 0.5]
    if tl and r.random() < 0.3:
        holes = []           # heights but no holes at all
    if tl and r.random() < 0.2:
        holes = tl[1:]       # first tile without holes, later ones with
    ts = ",".join("%x.%x.%x" % (x, y, r.getrandbits(12)) for x, y in tl) or "-"
    hs = ",".join("%x.%x.%x" % (x, y, r.getrandbits(12)) for x, y in holes) or "-"
    names = "-"
    nwmo = 0
    if r.random() < 0.5:
        ns = [r.choice(["world\\wmo\\a.wmo", "b.wmo", "préfixe\\c.wmo", "x" * 120 + ".wmo"]).encode("utf-8") for _ in range(r.randrange(1, 4))]
        names = ",".join(C.hexs(n) for n in ns)
        nwmo = r.randrange(0, 4)
    nm2 = r.choice([0, 0, 1, 3])
    return "%x %s %s %s %x %x" % (ver, ts, hs, names, nwmo, nm2)


def run(tier, seed, replay=None):
    res = C.Result("C18", tier, seed)
    res.rule = ("coordinates: all 4096 tiles both directions bit-exact (exhaustive) + seeded float bit patterns for world_to_tile; "
                "WDT: seeded map definitions (10 versions x {empty, corners, sparse, dense, single} grids x flags x optional MAID/MWMO/MODF, valid UTF-8 incl. multi-byte names) "
                "model writer vs real writer byte-exact, model reader vs real reader on written and on mutated bytes, write->parse->write oracle, conversion over version pairs; "
                "WDL: seeded low-resolution maps (tiles with/without holes, names, placements) write->parse->write oracle + MAOF offset table checked with the extracted chunk walk; "
                "non-trivial = not the empty grid / not an absent input; distinct = distinct case line")
    res.assumptions = ["f32 arithmetic of the target = IEEE-754 binary32 round-to-nearest-even (Flocq); `as u32` saturating truncation",
                       "UTF-8 validation of names is outside the WDT model (generator emits valid UTF-8 only)",
                       "WDL: only the offset-table/framing discipline is modelled in Coq; content round trip is checked on the implementation"]
    mok, iok = C.standard_builds(res, "C18", ["impl_wdt"])
    if not (mok and iok):
        return res.finish()
    r = C.rng(seed, "C18")
    big = tier == "thorough"
    impl_bin = [C.bin_path("impl_wdt")]

    # ---- coordinates: exhaustive, bit exact
    tiles = [(x, y) for x in range(64) for y in range(64)]
    t2w_lines = ["t2w %x %x" % t for t in tiles]
    impl_t2w = C.run_lines(impl_bin, t2w_lines, shards=1)
    ints, err = C.coq_eval_ints(COQ_IMPORTS, "map (fun t => let '(a, b) := tile_to_world (fst t) (snd t) in (bits_of_f32 a, bits_of_f32 b)) all_tiles", "c18a")
    if ints is None or len(ints) != 8192:
        res.broken.append(("coq-eval-coords", {"log": err}))
        ints = None
    w2t_lines = []
    for i, t in enumerate(tiles):
        res.case(t2w_lines[i])
        if ints is not None:
            exp = "%x %x" % (ints[2 * i], ints[2 * i + 1])
            if impl_t2w[i] != exp:
                res.broken.append(("correspondence", {"case": t2w_lines[i], "impl": impl_t2w[i], "model": exp})) if len(res.broken) < 5 else None
        w2t_lines.append("w2t " + impl_t2w[i])
    impl_back = C.run_lines(impl_bin, w2t_lines, shards=1)
    bad_tiles = []
    for i, t in enumerate(tiles):
        res.case(w2t_lines[i])
        if impl_back[i] != "%x %x" % t:
            bad_tiles.append({"tile": list(t), "world_bits": impl_t2w[i], "back": impl_back[i]})
    if bad_tiles:
        res.failing.append(("tile-world-roundtrip", "tile -> world -> tile is not the identity for %d of 4096 tiles (first: %s)" % (len(bad_tiles), bad_tiles[0]),
                            {"bad_tiles": bad_tiles[:40], "count": len(bad_tiles)}))
    # world_to_tile on assorted bit patterns vs the Flocq model
    pats = [0, 0x80000000, 0x7F800000, 0xFF800000, 0x7FC00000, 0x00000001, 0x7F7FFFFF, 0xFF7FFFFF, f32bits(17066.666), f32bits(-17066.666), f32bits(17066.0), f32bits(0.0001)]
    pats += [f32bits((32 - k) * 533.3333 + d) for k in range(0, 65, 3) for d in (-0.01, 0.0, 0.01)]
    pats += [r.getrandbits(32) for _ in range(2000 if big else 300)]
    pats += [f32bits(r.uniform(-17100, 17100)) for _ in range(3000 if big else 500)]
    wl = ["w2t %x %x" % (p, pats[(i * 7 + 3) % len(pats)]) for i, p in enumerate(pats)]
    impl_w = C.run_lines(impl_bin, wl, shards=1)
    expr = "map (fun p => world_to_tile (f32_of_bits (fst p)) (f32_of_bits (snd p))) [%s]" % "; ".join("(%d, %d)" % (p, pats[(i * 7 + 3) % len(pats)]) for i, p in enumerate(pats))
    ints2, err2 = C.coq_eval_ints(COQ_IMPORTS, expr, "c18b")
    if ints2 is None or len(ints2) != 2 * len(pats):
        res.broken.append(("coq-eval-w2t", {"log": err2}))
    else:
        for i, l in enumerate(wl):
            res.case(l)
            exp = "%x %x" % (ints2[2 * i], ints2[2 * i + 1])
            if impl_w[i] != exp and sum(1 for w, _ in res.broken if w == "correspondence") < 5:
                res.broken.append(("correspondence", {"case": l, "impl": impl_w[i], "model": exp}))
    res.sample({"case": t2w_lines[4 * 64], "impl": impl_t2w[4 * 64], "back": impl_back[4 * 64]})

    # ---- WDT
    n = 400 if big else 60
    objs = [gen_wdt(r, i) for i in range(n)]
    wl = ["wdtwrite " + o for o in objs]
    iw = C.run_lines(impl_bin, wl)
    mw = C.run_lines([C.MODELRUN], wl)
    wf = C.run_lines([C.MODELRUN], ["wdtwf " + o for o in objs])
    rt = C.run_lines(impl_bin, ["wdtrt " + o for o in objs])
    nwf = 0
    for i, o in enumerate(objs):
        key = "wdt " + o[:40] + C.hashlib.sha1(o.encode()).hexdigest()
        res.case(key, nontrivial=(i % 5 != 0))
        if iw[i] != mw[i]:
            res.broken.append(("correspondence", {"case": "wdtwrite " + o[:200] + "...", "impl_len": len(iw[i]), "model_len": len(mw[i]),
                                                   "first_diff": next((k for k in range(min(len(iw[i]), len(mw[i]))) if iw[i][k] != mw[i][k]), -1)}))
        if wf[i] == "WF":
            nwf += 1
            if rt[i] != "PASS":
                res.failing.append(("wdt-roundtrip", "WDT write->parse->write oracle failed on the implementation: " + rt[i], {"case": "wdtrt " + o, "result": rt[i]}))
    res.extra["wdt_objects"] = n
    res.extra["wdt_wellformed"] = nwf
    # reader correspondence on written and mutated bytes
    rl = []
    for i, o in enumerate(objs):
        if iw[i] in ("ERR", "PANIC", "ABORT"):
            continue
        rl.append("wdtread " + iw[i])
        if i % 2 == 0 or big:
            b = bytes.fromhex(iw[i]) if iw[i] != "-" else b""
            for _ in range(2):
                rl.append("wdtread " + C.hexs(mutate_bytes(r, b)))
    ir = C.run_lines(impl_bin, rl)
    mr = C.run_lines([C.MODELRUN], rl)
    rd_mism = 0
    for i, l in enumerate(rl):
        res.case("rd" + C.hashlib.sha1(l.encode()).hexdigest())
        if ir[i] != mr[i]:
            rd_mism += 1
            if rd_mism <= 3:
                res.broken.append(("correspondence", {"case": l[:120] + "...", "impl": ir[i][:160], "model": mr[i][:160], "bytes_len": (len(l) - 8) // 2}))
    res.extra["wdt_reader_cases"] = len(rl)
    res.extra["wdt_reader_errors"] = sum(1 for x in ir if x == "ERR")
    # conversion keeps tile data
    cl = []
    for i, o in enumerate(objs[: (200 if big else 40)]):
        for to in ([0, 2, 3, 7, 9] if not big else range(10)):
            cl.append("wdtconv %x %s" % (to, o))
    cr = C.run_lines(impl_bin, cl)
    for l, o in zip(cl, cr):
        res.case("cv" + C.hashlib.sha1(l.encode()).hexdigest())
        if o.startswith("FAIL") or o in ("PANIC", "ABORT"):
            res.failing.append(("wdt-convert-tiles", "convert_wdt changed tile data: " + o, {"case": l[:300], "result": o}))
    res.sample({"case": "wdtwrite " + objs[1][:120] + "...", "bytes": len(iw[1]) // 2, "wf": wf[1], "roundtrip": rt[1]})

    # ---- WDL
    n2 = 600 if big else 90
    wobjs = [gen_wdl(r, i) for i in range(n2)]
    wrt = C.run_lines(impl_bin, ["wdlrt " + o for o in wobjs])
    wby = C.run_lines(impl_bin, ["wdlbytes " + o for o in wobjs])
    mc = C.run_lines([C.MODELRUN], ["maofcheck " + b for b in wby])
    for i, o in enumerate(wobjs):
        res.case("wdl " + o, nontrivial=(i % 6 != 0))
        if wrt[i] != "PASS":
            res.failing.append(("wdl-roundtrip", "WDL write->parse->write oracle failed on the implementation: " + wrt[i], {"case": "wdlrt " + o, "result": wrt[i]}))
        if mc[i] != "OK":
            res.failing.append(("wdl-offset-table", "WDL offset table / framing check (extracted Coq walk) failed on written bytes", {"case": "wdlbytes " + o, "result": mc[i]}))
    cl = []
    for i, o in enumerate(wobjs[: (200 if big else 40)]):
        for to in ([0, 1, 5, 9] if not big else range(10)):
            cl.append("wdlconv %x %s" % (to, o))
    cr = C.run_lines(impl_bin, cl)
    for l, o in zip(cl, cr):
        res.case("wc" + C.hashlib.sha1(l.encode()).hexdigest())
        if o.startswith("FAIL") or o in ("PANIC", "ABORT"):
            res.failing.append(("wdl-convert", "convert_wdl_file lost tile data or produced an unreadable file: " + o, {"case": l, "result": o}))
    res.sample({"case": "wdlrt " + wobjs[2], "result": wrt[2], "maof": mc[2]})
    res.extra["wdl_objects"] = n2
    res.exhaustive = True
    res.extra["exhaustive_domains"] = ["4096 tiles: tile_to_world bits (impl vs Flocq model) and world_to_tile(tile_to_world) = id on the implementation"]
    res.traces = len(t2w_lines) + len(w2t_lines) + len(wl) + len(rl)
    return res.finish()
