"""C09 - parallel extraction is observationally identical to sequential reading."""
import os, shutil
from . import common as C


def run(tier, seed, replay=None):
    res = C.Result("C09", tier, seed)
    res.rule = ("one archive of 40 files (plain, compressed, encrypted, multi-sector) + missing names; request lists of length 0, 1, around batch multiples, 999, 1000, "
                "1001, 1010 and 5001 (both code paths, duplicates, missing names at chosen positions) x threads {1,2,3,8,32} x batch sizes x skip-errors on/off, "
                "with and without 16 busy threads, each configuration repeated; every slot is compared with a sequential read and with the model's result structure; "
                "non-trivial = request list has >= 2 names; distinct = distinct (configuration, request list)")
    res.assumptions = ["task isolation (every task opens its own archive handle) and the memory model are runtime facts: validated by repetition under contention, not proved",
                       "thread pool = index-tagged tasks in any order, results placed by index (rayon's ordered collect)"]
    mok, iok = C.standard_builds(res, "C09", ["impl_mpq"])
    if not (mok and iok):
        return res.finish()
    r = C.rng(seed, "C09")
    big = tier == "thorough"
    base = os.path.join(C.CACHE, "c09")
    shutil.rmtree(base, ignore_errors=True)
    os.makedirs(base)
    ib = [C.bin_path("impl_mpq")]
    files = []
    for i in range(40):
        name = "dir%d\\file_%03d.dat" % (i % 4, i)
        body = (("%03d:" % i).encode() + bytes((i * 7 + k) & 0xFF for k in range(20))) * (1 + (i % 5) * 60)
        comp = ["0", "2", "10", "2"][i % 4]
        enc = ["0", "0", "1", "2"][(i // 4) % 4]
        files.append((name, body, comp, enc))
    ents = ",".join("%s:%s:%s:%s" % (C.hexs(n.encode()), C.hexs(b), c, e) for n, b, c, e in files)
    arch = os.path.join(base, "a.mpq")
    arch2 = os.path.join(base, "b.mpq")
    bo = C.run_lines(ib, ["build %s 1 0 g n 0 0 2 %s" % (arch, ents), "build %s 2 3 g n 0 0 2 %s" % (arch2, ",".join(ents.split(",")[:25]))], shards=1)
    if bo != ["OK", "OK"]:
        res.broken.append(("archive-build", {"out": bo}))
        return res.finish()
    pool = [n for n, _, _, _ in files]
    missing = ["nope.txt", "dir0\\absent.dat", "dir1/file_999.dat"]
    # the same files under another spelling (upper case, forward slashes): the sequential reader finds them through the name hash
    spelled = {n: n.upper().replace("\\", "/") for n in pool}
    variants = [spelled[n] for n in pool if spelled[n] != n]
    universe = pool + missing + variants
    idx = {n: i for i, n in enumerate(universe)}
    # sequential reference for every name of the universe
    seq = C.run_lines(ib, ["par seq %s 0 0 0 0 %s" % (arch, ",".join(C.hexs(n.encode()) for n in universe))], shards=1)[0]
    ref = {}
    for item in seq.split(","):
        h, v = item.split(">")
        ref[bytes.fromhex(h).decode()] = v
    okbits = "".join("0" if ref[n] == "ERR" else "1" for n in universe)
    if okbits != "1" * len(pool) + "0" * len(missing) + "1" * len(variants):
        res.failing.append(("sequential-read", "sequential read of a built archive failed for a present name (C01 territory)", {"ref": ref}))

    def mk_list(L, miss_pos):
        names = [pool[(k * 7 + L) % len(pool)] for k in range(L)]
        if L > 3:
            names[1] = names[0]                      # duplicate
        for k in range(2, L, 5):                      # every fifth request under another spelling
            if spelled[names[k]] in variants:
                names[k] = spelled[names[k]]
        for p in miss_pos:
            if 0 <= p < L:
                names[p] = missing[p % len(missing)]
        return names

    cases = []
    lens = [0, 1, 2, 6, 7, 8, 24, 25, 26, 99, 100, 101, 999, 1000, 1001, 1010] + ([5001, 2003] if big else [5001])
    for L in lens:
        for miss_pos in ([], [0], [L - 1], [L // 2, L - 2]):
            for skip in (0, 1):
                threads = r.choice([1, 2, 3, 8, 32])
                batch = r.choice([1, 2, 7, 25, 100, max(1, L - 1), L + 1])
                stress = r.choice([0, 0, 16])
                cases.append(("cfg", threads, batch, skip, stress, mk_list(L, miss_pos)))
    # the batched/plain ParallelArchive helpers (fail as a whole on a missing name)
    for L in [0, 1, 5, 25, 26, 120]:
        for miss_pos in ([], [L // 2]):
            for mode in ("files", "batched", "process"):
                cases.append((mode, r.choice([1, 4, 16]), r.choice([1, 3, 25]), 0, r.choice([0, 16]), mk_list(L, miss_pos)))
    reps = 3 if big else 2
    lines = []
    for mode, th, bs, skip, stress, names in cases:
        lines.append("par %s %s %x %x %d %x %s" % (mode, arch, th, bs, skip, stress, ",".join(C.hexs(n.encode()) for n in names) or "-"))
    allout = [C.run_lines(ib, lines, shards=4, timeout=3000) for _ in range(reps)]
    # model structure
    ml = []
    for mode, th, bs, skip, stress, names in cases:
        sk = skip if mode == "cfg" else 0
        nn = ",".join(str(idx[n]) for n in names) or "-"
        if mode == "cfg":
            ml.append("parextract %d %d %d %s %s" % (sk, th, bs, nn, okbits))
        else:
            ml.append("parextract 0 %d %d %s %s" % (th, 1, nn, okbits))     # helpers: spec = no skipping, any batch size
    mo = C.run_lines([C.MODELRUN], ml)
    for k, (case, m) in enumerate(zip(cases, mo)):
        mode, th, bs, skip, stress, names = case
        key = "%s|%d|%d|%d|%d|%d|%s" % (mode, th, bs, skip, stress, len(names), C.hashlib.sha1(",".join(names).encode()).hexdigest()[:10])
        res.case(key, nontrivial=len(names) >= 2)
        # expected from the sequential reference
        if m == "WHOLE-ERR":
            exp = "WHOLE-ERR"
        else:
            exp = ",".join("%s>%s" % (C.hexs(n.encode()), ref[n]) for n in names) or "-"
            # the model's slot structure must agree with the reference composition
            mnames = [] if m == "-" else [universe[int(x.split(":")[0])] for x in m.split(",")]
            if mnames != names:
                res.broken.append(("model-structure", {"case": key, "model": m[:200]}))
        for rep in range(reps):
            got = allout[rep][k]
            if got != exp:
                desc = "parallel result differs from sequential reading (mode %s, %d names, threads %d, batch %d, skip %d, busy threads %d, repetition %d)" % (mode, len(names), th, bs, skip, stress, rep)
                first = next((j for j, (a, b) in enumerate(zip(got.split(","), exp.split(","))) if a != b), None)
                res.failing.append(("parallel-differs", desc, {"case": lines[k][:300] + "...", "got": got[:300], "expected": exp[:300], "first_differing_slot": first,
                                                                "got_slots": got.count(",") + 1, "expected_slots": exp.count(",") + 1}))
                break
    # multi-archive helper
    mlines = ["multi %s %s,%s" % (C.hexs(n.encode()), arch, arch2) for n in pool[:30:3] + missing[:1] + pool[26:28]]
    mout = C.run_lines(ib, mlines, shards=2)
    for l, o in zip(mlines, mout):
        res.case(l.replace(base, ""))
        if o.startswith("DIFF") or o in ("PANIC", "ABORT"):
            res.failing.append(("multi-archive-differs", "a multi-archive or matching helper differs from its sequential meaning: " + o, {"case": l.replace(base, "<dir>")}))
    res.sample({"case": lines[5].replace(base, "<dir>")[:200], "result": allout[0][5][:200]})
    res.sample({"model_case": ml[70][:120], "model": mo[70][:120]})
    res.extra["configurations"] = len(cases)
    res.extra["repetitions"] = reps
    res.extra["request_lengths"] = lens
    res.traces = len(cases) * reps
    shutil.rmtree(base, ignore_errors=True)
    return res.finish()
